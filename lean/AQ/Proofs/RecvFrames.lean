/-
  C05 helper lemmas: every frame handler model ends only with exceptions that
  `_payload_received` deals with (`Safe`), under `CryptoOk` (a crypto stream has no
  final size) — compositional over the `do` blocks of AQ.Model.RecvFrames.
-/
import AQ.Model.RecvFrames
import AQ.Proofs.RecvPath
import AQ.Proofs.StreamRecv

namespace AQ.RecvF
open AQ AQ.Gen.Recv AQ.Recv

/-- a crypto stream never saw a FIN or a reset: `QuicStreamFrame(offset, data)` has
    `fin=False` and `handle_reset` is only called for application streams -/
def CryptoOk (c : Ctx) : Prop := c.crypto.finalSize = none

/-- `m` keeps `CryptoOk` and ends only with errors accepted by `ok` -/
def Safe {α : Type} (ok : Err → Bool) (m : M α) : Prop :=
  ∀ c, CryptoOk c → (∀ e, (m c).1 = .error e → ok e = true) ∧ CryptoOk (m c).2

variable {ok : Err → Bool}

theorem safe_pure {α : Type} (a : α) : Safe ok (pure a : M α) := by
  intro c hc; exact ⟨fun e h => by simp [pure, M.pure] at h, hc⟩

theorem safe_bind {α β : Type} (m : M α) (f : α → M β) (hm : Safe ok m) (hf : ∀ a, Safe ok (f a)) :
    Safe ok (m >>= f) := by
  intro c hc
  have h1 := hm c hc
  simp only [bind, M.bind]
  split
  · rename_i a c' heq
    rw [heq] at h1
    exact hf a c' h1.2
  · rename_i e' c' heq
    rw [heq] at h1
    exact ⟨fun e h => by simp at h; subst h; exact h1.1 e' rfl, h1.2⟩

theorem safe_raise {α : Type} (e : Err) (he : ok e = true) : Safe ok (raise e : M α) := by
  intro c hc; exact ⟨fun e' h => by simp [raise] at h; subst h; exact he, hc⟩

theorem safe_getCtx : Safe ok getCtx := by
  intro c hc; exact ⟨fun e h => by simp [getCtx] at h, hc⟩
theorem safe_modifyCtx (f : Ctx → Ctx) (hf : ∀ c, CryptoOk c → CryptoOk (f c)) : Safe ok (modifyCtx f) := by
  intro c hc; exact ⟨fun e h => by simp [modifyCtx] at h, hf c hc⟩
theorem safe_remaining : Safe ok remaining := by
  intro c hc; exact ⟨fun e h => by simp [remaining] at h, hc⟩
theorem safe_pullUint8 (hb : ok .bufferRead = true) : Safe ok pullUint8 := by
  intro c hc; unfold pullUint8
  split
  · exact ⟨fun e h => by simp at h; subst h; exact hb, hc⟩
  · exact ⟨fun e h => by simp at h, hc⟩
theorem safe_pullBytes (n : Nat) (hb : ok .bufferRead = true) : Safe ok (pullBytes n) := by
  intro c hc; unfold pullBytes
  split
  · exact ⟨fun e h => by simp at h; subst h; exact hb, hc⟩
  · exact ⟨fun e h => by simp at h, hc⟩
theorem safe_pullUintVar (hb : ok .bufferRead = true) : Safe ok pullUintVar := by
  intro c hc; unfold pullUintVar
  split
  · exact ⟨fun e h => by simp at h; subst h; exact hb, hc⟩
  · simp only
    split
    · exact ⟨fun e h => by simp at h; subst h; exact hb, hc⟩
    · exact ⟨fun e h => by simp at h, hc⟩
theorem safe_liftOutcome (o : Outcome Unit) (ho : ∀ e, o = .error e → ok e = true) :
    Safe ok (liftOutcome o) := by
  intro c hc; exact ⟨fun e h => by simp [liftOutcome] at h; exact ho e h, hc⟩
theorem safe_ite {α : Type} (p : Prop) [Decidable p] (a b : M α) (ha : Safe ok a) (hb : Safe ok b) :
    Safe ok (if p then a else b) := by split <;> assumption

/-- syntactic decomposition of a `do` block -/
macro "safe_step" : tactic => `(tactic| first
  | exact safe_pure _
  | exact safe_getCtx
  | exact safe_modifyCtx _ (fun _ h => h)
  | exact safe_remaining
  | exact safe_pullUint8 rfl
  | exact safe_pullBytes _ rfl
  | exact safe_pullUintVar rfl
  | exact safe_raise _ rfl
  | (refine safe_bind _ _ ?_ (fun _ => ?_))
  | (refine safe_ite _ _ _ ?_ ?_)
  | assumption
  | split)

macro "safe_tac" : tactic => `(tactic| repeat' safe_step)

/-! ## Handlers -/

abbrev H := handledErr

theorem safe_assertCanReceive (sid : Nat) : Safe H (assertCanReceive sid) := by
  unfold assertCanReceive; safe_tac
theorem safe_assertCanSend (sid : Nat) : Safe H (assertCanSend sid) := by
  unfold assertCanSend; safe_tac
theorem safe_getOrCreateStream (sid : Nat) : Safe H (getOrCreateStream sid) := by
  unfold getOrCreateStream; safe_tac

theorem safe_handlePadding : Safe H handlePadding := by unfold handlePadding; safe_tac
theorem safe_handlePing : Safe H handlePing := by unfold handlePing; safe_tac

theorem ack_assert (e : Int) (n : Nat) : (¬ (e + 1 > e - (n : Int))) = False := by
  simp; omega

theorem safe_ackRanges : ∀ fuel count e, Safe H (ackRanges fuel count e) := by
  intro fuel
  induction fuel with
  | zero =>
    intro count e
    cases count with
    | zero => unfold ackRanges; safe_tac
    | succ n => unfold ackRanges; safe_tac
  | succ f ih =>
    intro count e
    cases count with
    | zero => unfold ackRanges; safe_tac
    | succ n =>
      unfold ackRanges
      simp only [ack_assert, if_false]
      refine safe_bind _ _ (safe_pullUintVar rfl) (fun _ => ?_)
      refine safe_bind _ _ (safe_pullUintVar rfl) (fun _ => ?_)
      exact ih _ _

theorem safe_handleAck (env : Env) (ftype : Nat) (hack : ∀ e, env.ack = .error e → H e = true) :
    Safe H (handleAck env ftype) := by
  unfold handleAck
  simp only [ack_assert, if_false]
  have h1 := safe_ackRanges
  have h2 := safe_liftOutcome (ok := H) env.ack hack
  safe_tac
  all_goals first | exact h1 _ _ _ | exact h2

theorem safe_handleResetStream : Safe H handleResetStream := by
  unfold handleResetStream
  have h1 := safe_assertCanReceive
  have h2 := safe_getOrCreateStream
  safe_tac
  all_goals first | exact h1 _ | exact h2 _

theorem safe_handleStopSending : Safe H handleStopSending := by
  unfold handleStopSending
  have h1 := safe_assertCanSend
  have h2 := safe_getOrCreateStream
  safe_tac
  all_goals first | exact h1 _ | exact h2 _

theorem safe_handleNewToken : Safe H handleNewToken := by unfold handleNewToken; safe_tac

theorem safe_handleStream (ftype : Nat) : Safe H (handleStream ftype) := by
  unfold handleStream
  have h1 := safe_assertCanReceive
  have h2 := safe_getOrCreateStream
  safe_tac
  all_goals first | exact h1 _ | exact h2 _

theorem safe_handleMaxData : Safe H handleMaxData := by unfold handleMaxData; safe_tac
theorem safe_handleMaxStreamData : Safe H handleMaxStreamData := by
  unfold handleMaxStreamData
  have h1 := safe_assertCanSend
  have h2 := safe_getOrCreateStream
  safe_tac
  all_goals first | exact h1 _ | exact h2 _
theorem safe_handleMaxStreams : Safe H handleMaxStreams := by unfold handleMaxStreams; safe_tac
theorem safe_handleDataBlocked : Safe H handleDataBlocked := by unfold handleDataBlocked; safe_tac
theorem safe_handleStreamDataBlocked : Safe H handleStreamDataBlocked := by
  unfold handleStreamDataBlocked
  have h1 := safe_assertCanReceive
  have h2 := safe_getOrCreateStream
  safe_tac
  all_goals first | exact h1 _ | exact h2 _
theorem safe_handleStreamsBlocked : Safe H handleStreamsBlocked := by unfold handleStreamsBlocked; safe_tac
theorem safe_handleRetireConnectionId : Safe H handleRetireConnectionId := by
  unfold handleRetireConnectionId; safe_tac
theorem safe_handlePathChallenge : Safe H handlePathChallenge := by
  unfold handlePathChallenge
  refine safe_bind _ _ (safe_pullBytes _ rfl) (fun _ => ?_)
  refine safe_modifyCtx _ ?_
  intro c h; split <;> exact h
theorem safe_handleHandshakeDone : Safe H handleHandshakeDone := by unfold handleHandshakeDone; safe_tac
theorem safe_handleDatagram (ftype : Nat) : Safe H (handleDatagram ftype) := by
  unfold handleDatagram; safe_tac


theorem pullData_finalSize (s : AQ.Stream.Recv) : (AQ.Stream.pullData s).1.finalSize = s.finalSize := by
  unfold AQ.Stream.pullData
  split
  · rfl
  · split <;> rfl

/-- without FIN and without a known final size `handle_frame` raises nothing and sets no final size -/
theorem crypto_no_final_size (s : AQ.Stream.Recv) (o : Nat) (d : Bytes) (h : s.finalSize = none) :
    ∃ r ev, AQ.Stream.handleFrame s ⟨o, d, false⟩ = .ok (r, ev) ∧ r.finalSize = none := by
  rw [AQ.Stream.handleFrame_eq]
  have hb : (AQ.Stream.bookkeep s ⟨o, d, false⟩).finalSize = none := by
    rw [AQ.Stream.bookkeep_finalSize]; simp [h]
  simp only [AQ.Stream.frameFinalSizeError, h, Bool.false_eq_true, if_false]
  split
  · refine ⟨_, _, rfl, ?_⟩
    simp [hb]
  · refine ⟨_, _, rfl, ?_⟩
    simp only []
    split <;> simp [pullData_finalSize, AQ.Stream.slowPre, hb]

theorem safe_cryptoHandleFrame (o : Nat) (d : Bytes) : Safe handledErr (cryptoHandleFrame o d) := by
  intro c hc
  obtain ⟨r, ev, heq, hr⟩ := crypto_no_final_size c.crypto o d hc
  unfold cryptoHandleFrame
  rw [heq]
  exact ⟨fun e h => by simp at h, hr⟩

/-- assumption on the TLS layer: it raises `tls.Alert`, or something `_payload_received`
    handles itself (`BufferReadError`, a `QuicConnectionError` of a connection callback) -/
def TlsOk (o : Outcome Unit) : Prop := ∀ e, o = .error e → (∃ d, e = .alert d) ∨ handledErr e = true

theorem catch_alert (d : Nat) :
    catchAction "_handle_crypto_frame" "handle_message" (.alert d) = some (.raiseConn 0x100) := by
  show catchCls "_handle_crypto_frame" "handle_message" "Alert" = _
  decide

theorem safe_tlsCall (env : Env) (h : TlsOk env.tls) : Safe handledErr (tlsCall env) := by
  unfold tlsCall
  split
  · exact safe_pure _
  · rename_i e heq
    rcases h e heq with ⟨d, rfl⟩ | hh
    · rw [catch_alert]; exact safe_raise _ rfl
    · split
      · exact safe_raise _ rfl
      · exact safe_raise _ hh

theorem safe_handleCrypto (env : Env) (h : TlsOk env.tls) : Safe handledErr (handleCrypto env) := by
  unfold handleCrypto
  have h1 := safe_cryptoHandleFrame
  have h2 := safe_tlsCall env h
  safe_tac
  all_goals first | exact h1 _ _ | exact h2

theorem catch_pathresp :
    catchAction "_handle_path_response_frame" "pop" (.py .key) = some (.raiseConn 0xA) := by decide
theorem catch_decode :
    catchAction "_handle_connection_close_frame" "decode" (.py .unicode) = some .assign := by decide

theorem safe_handlePathResponse : Safe handledErr handlePathResponse := by
  unfold handlePathResponse
  simp only [catch_pathresp]
  safe_tac

theorem safe_handleConnectionClose (ftype : Nat) : Safe handledErr (handleConnectionClose ftype) := by
  unfold handleConnectionClose
  simp only [catch_decode]
  refine safe_bind _ _ (safe_pullUintVar rfl) (fun code => ?_)
  have hm : Safe handledErr (modifyCtx (fun c =>
      if c.closeEvent.isNone then { c with closeEvent := some code, draining := true } else c)) := by
    refine safe_modifyCtx _ ?_
    intro c h; split <;> exact h
  safe_tac

theorem safe_handleNewConnectionId : Safe handledErr handleNewConnectionId := by
  unfold handleNewConnectionId
  safe_tac

/-! ## Dispatch by name -/

/-- the handler names the model knows -/
def handlerNames : List String :=
  ["_handle_padding_frame", "_handle_ping_frame", "_handle_ack_frame", "_handle_reset_stream_frame",
   "_handle_stop_sending_frame", "_handle_crypto_frame", "_handle_new_token_frame", "_handle_stream_frame",
   "_handle_max_data_frame", "_handle_max_stream_data_frame", "_handle_max_streams_bidi_frame",
   "_handle_max_streams_uni_frame", "_handle_data_blocked_frame", "_handle_stream_data_blocked_frame",
   "_handle_streams_blocked_frame", "_handle_new_connection_id_frame", "_handle_retire_connection_id_frame",
   "_handle_path_challenge_frame", "_handle_path_response_frame", "_handle_connection_close_frame",
   "_handle_handshake_done_frame", "_handle_datagram_frame"]

/-- every handler named in the EXTRACTED table has a model -/
theorem table_names_known : handlerTable.all (fun row => handlerNames.contains row.2.1) = true := by decide

theorem lookup_mem {α β : Type} [BEq α] [LawfulBEq α] (l : List (α × β)) (k : α) (v : β)
    (h : l.lookup k = some v) : (k, v) ∈ l := by
  induction l with
  | nil => simp [List.lookup] at h
  | cons x xs ih =>
    obtain ⟨a, b⟩ := x
    simp only [List.lookup] at h
    split at h
    · rename_i heq
      have : k = a := by simpa using heq
      simp at h; subst h; subst this; simp
    · exact List.mem_cons_of_mem _ (ih h)

theorem name_known (t : Nat) (n : String) (eps : List Epoch) (h : handlerTable.lookup t = some (n, eps)) :
    n ∈ handlerNames := by
  have hm := lookup_mem handlerTable t (n, eps) h
  have := List.all_eq_true.mp table_names_known _ hm
  simpa using this

/-- assumptions on the inputs of the handlers -/
structure EnvOk (env : Env) : Prop where
  tls : TlsOk env.tls
  ack : ∀ e, env.ack = .error e → handledErr e = true

theorem safe_runHandler (env : Env) (henv : EnvOk env) (n : String) (t : Nat) (hn : n ∈ handlerNames) :
    Safe handledErr (runHandler env n t) := by
  simp only [handlerNames, List.mem_cons, List.mem_nil_iff, or_false] at hn
  rcases hn with h | h | h | h | h | h | h | h | h | h | h | h | h | h | h | h | h | h | h | h | h | h <;>
    subst h
  · have e : runHandler env "_handle_padding_frame" t = handlePadding := by unfold runHandler; rfl
    rw [e]; exact safe_handlePadding
  · have e : runHandler env "_handle_ping_frame" t = handlePing := by unfold runHandler; rfl
    rw [e]; exact safe_handlePing
  · have e : runHandler env "_handle_ack_frame" t = handleAck env t := by unfold runHandler; rfl
    rw [e]; exact (safe_handleAck env t henv.ack)
  · have e : runHandler env "_handle_reset_stream_frame" t = handleResetStream := by unfold runHandler; rfl
    rw [e]; exact safe_handleResetStream
  · have e : runHandler env "_handle_stop_sending_frame" t = handleStopSending := by unfold runHandler; rfl
    rw [e]; exact safe_handleStopSending
  · have e : runHandler env "_handle_crypto_frame" t = handleCrypto env := by unfold runHandler; rfl
    rw [e]; exact (safe_handleCrypto env henv.tls)
  · have e : runHandler env "_handle_new_token_frame" t = handleNewToken := by unfold runHandler; rfl
    rw [e]; exact safe_handleNewToken
  · have e : runHandler env "_handle_stream_frame" t = handleStream t := by unfold runHandler; rfl
    rw [e]; exact (safe_handleStream t)
  · have e : runHandler env "_handle_max_data_frame" t = handleMaxData := by unfold runHandler; rfl
    rw [e]; exact safe_handleMaxData
  · have e : runHandler env "_handle_max_stream_data_frame" t = handleMaxStreamData := by unfold runHandler; rfl
    rw [e]; exact safe_handleMaxStreamData
  · have e : runHandler env "_handle_max_streams_bidi_frame" t = handleMaxStreams := by unfold runHandler; rfl
    rw [e]; exact safe_handleMaxStreams
  · have e : runHandler env "_handle_max_streams_uni_frame" t = handleMaxStreams := by unfold runHandler; rfl
    rw [e]; exact safe_handleMaxStreams
  · have e : runHandler env "_handle_data_blocked_frame" t = handleDataBlocked := by unfold runHandler; rfl
    rw [e]; exact safe_handleDataBlocked
  · have e : runHandler env "_handle_stream_data_blocked_frame" t = handleStreamDataBlocked := by unfold runHandler; rfl
    rw [e]; exact safe_handleStreamDataBlocked
  · have e : runHandler env "_handle_streams_blocked_frame" t = handleStreamsBlocked := by unfold runHandler; rfl
    rw [e]; exact safe_handleStreamsBlocked
  · have e : runHandler env "_handle_new_connection_id_frame" t = handleNewConnectionId := by unfold runHandler; rfl
    rw [e]; exact safe_handleNewConnectionId
  · have e : runHandler env "_handle_retire_connection_id_frame" t = handleRetireConnectionId := by unfold runHandler; rfl
    rw [e]; exact safe_handleRetireConnectionId
  · have e : runHandler env "_handle_path_challenge_frame" t = handlePathChallenge := by unfold runHandler; rfl
    rw [e]; exact safe_handlePathChallenge
  · have e : runHandler env "_handle_path_response_frame" t = handlePathResponse := by unfold runHandler; rfl
    rw [e]; exact safe_handlePathResponse
  · have e : runHandler env "_handle_connection_close_frame" t = handleConnectionClose t := by unfold runHandler; rfl
    rw [e]; exact (safe_handleConnectionClose t)
  · have e : runHandler env "_handle_handshake_done_frame" t = handleHandshakeDone := by unfold runHandler; rfl
    rw [e]; exact safe_handleHandshakeDone
  · have e : runHandler env "_handle_datagram_frame" t = handleDatagram t := by unfold runHandler; rfl
    rw [e]; exact (safe_handleDatagram t)

/-! ## The byte-level dispatch loop -/

theorem byte_run_handled (env : Env) (henv : EnvOk env) (n : String) (eps : List Epoch)
    (t : Nat) (ep : Epoch) (c : Ctx) (e : Err) (hl : handlerTable.lookup t = some (n, eps)) (hc : CryptoOk c)
    (h : ((byteHandlers env).run n t ep c).1 = .error e) : handledErr e = true :=
  (safe_runHandler env henv n t (name_known t n eps hl) c hc).1 e h

theorem byte_run_keeps (env : Env) (henv : EnvOk env) (n : String) (eps : List Epoch)
    (t : Nat) (ep : Epoch) (c : Ctx) (hl : handlerTable.lookup t = some (n, eps)) (hc : CryptoOk c) :
    CryptoOk ((byteHandlers env).run n t ep c).2 :=
  (safe_runHandler env henv n t (name_known t n eps hl) c hc).2

end AQ.RecvF
