/-
  (a)/(c) bytes received and not yet read by the application; (d) at run level.
-/
import AQ.Proofs.FlowRecvRun3

namespace AQ.Flow
open AQ AQ.Stream AQ.RangeSet

/-- bytes of a stream received (up to the highest offset) and not yet handed to the
    application (`_buffer_start` = bytes the application has read) -/
def Strm.unread (s : Strm) : Nat := s.recv.highest - s.recv.bufStart

def unreadBytes (ss : List Strm) : Nat := (ss.map Strm.unread).sum

theorem unreadBytes_le_sumRh (ss : List Strm) : unreadBytes ss ≤ sumRh ss := by
  induction ss with
  | nil => simp [unreadBytes, sumRh]
  | cons x xs ih =>
    simp only [unreadBytes, sumRh, List.map_cons, List.sum_cons] at ih ⊢
    have : x.unread ≤ x.recv.highest := by unfold Strm.unread; omega
    omega

theorem bufferedBytes_le_unread {ss : List Strm} (h : ∀ s ∈ ss, SR s) : bufferedBytes ss ≤ unreadBytes ss := by
  induction ss with
  | nil => simp [bufferedBytes, unreadBytes]
  | cons x xs ih =>
    have ih := ih (fun s hs => h s (List.mem_cons_of_mem _ hs))
    simp only [bufferedBytes, unreadBytes, List.map_cons, List.sum_cons] at ih ⊢
    have := (h x List.mem_cons_self).2.1.1
    have : x.recv.buffer.length ≤ x.unread := by unfold Strm.unread; omega
    omega

theorem runState_append (c : Conn) (a b : List Op) : runState c (a ++ b) = runState (runState c a) b := by
  simp [runState, List.foldl_append]

/-- what one operation does to a connection-level limit of kind `k`, spelled out:
    it never decreases; it is raised only together with the frame that carries the
    new value; every frame of that kind written carries the (new) enforced value -/
def ConnLimStep (c c' : Conn) (out : Out) (k : LimitKind) : Prop :=
  (limOf c k).value ≤ (limOf c' k).value ∧
  ((limOf c k).value < (limOf c' k).value → limFrame k (limOf c' k).value ∈ out.frames) ∧
  (∀ v, limFrame k v ∈ out.frames → v = (limOf c' k).value)

theorem AdvStep.spell {c c' : Conn} {out : Out} {k : LimitKind} (h : AdvStep c c' out k) : ConnLimStep c c' out k := by
  rcases h with ⟨hno, hv⟩ | ⟨v, hw, hv, hle⟩
  · exact ⟨by omega, by omega, fun v hv' => absurd hv' (hno v)⟩
  · refine ⟨by omega, fun _ => (hw _).mpr hv, fun w hw' => ?_⟩
    rw [hv]; exact (hw w).mp hw'

/-- (d), one operation on a reachable state -/
theorem limits_step (c0 : Conn) (hq : FixedQ c0) (h0 : c0.streams = []) (ops : List Op) (op : Op) :
    (∀ k, ConnLimStep (runState c0 ops) (step (runState c0 ops) op).1 (step (runState c0 ops) op).2 k) ∧
    (∀ s ∈ (runState c0 ops).streams,
      s.sid ∈ (step (runState c0 ops) op).1.finishedIds ∨
      ∃ s' ∈ (step (runState c0 ops) op).1.streams, s'.sid = s.sid ∧ s.maxLocal ≤ s'.maxLocal ∧
        (s.maxLocal < s'.maxLocal → WFrame.maxStreamData s.sid s'.maxLocal ∈ (step (runState c0 ops) op).2.frames) ∧
        ∀ v, WFrame.maxStreamData s.sid v ∈ (step (runState c0 ops) op).2.frames → v = s'.maxLocal) := by
  have hqr := run_fixedQ hq ops
  refine ⟨fun k => (step_adv _ hqr.1 op k).2.spell, ?_⟩
  have hQ0 : Q c0 [] := ⟨by simp [h0, ml], by simp [h0, ml], by intro _ _ _ v hv; simp [msdOf] at hv⟩
  have hQ := (run_Q hq [] hQ0 ops).1
  rw [run_fst] at hQ
  intro s hs
  have := (step_mlstep _ hqr op).streamLim hQ.nodup (s.sid, s.maxLocal) (List.mem_map.mpr ⟨s, hs, rfl⟩)
  rcases this with h | ⟨m', hm, h1, h2, h3⟩
  · exact .inl h
  · obtain ⟨s', hs', he⟩ := List.mem_map.mp hm
    simp only [Prod.mk.injEq] at he
    refine .inr ⟨s', hs', he.1, ?_, ?_, ?_⟩
    · rw [he.2]; exact h1
    · rw [he.2]; exact h2
    · rw [he.2]; exact h3

/-- (d), run level: a connection-level limit after more operations is not smaller -/
theorem limits_run_mono (c0 : Conn) (hq : c0.quirks.raiseBeforeWrite = false) (k : LimitKind) (a b : List Op) :
    (limOf (runState c0 a) k).value ≤ (limOf (runState c0 (a ++ b)) k).value := by
  rw [runState_append]
  have hqa : (runState c0 a).quirks.raiseBeforeWrite = false := by
    have : ∀ (c : Conn) (ops : List Op), c.quirks.raiseBeforeWrite = false →
        (runState c ops).quirks.raiseBeforeWrite = false := by
      intro c ops
      induction ops generalizing c with
      | nil => exact id
      | cons op ops ih =>
        intro h
        simp only [runState, List.foldl_cons]
        exact ih _ (by rw [(step_adv c h op .data).1]; exact h)
    exact this c0 a hq
  have := (run_adv (runState c0 a) hqa k b).2.1
  rwa [run_fst] at this

end AQ.Flow
