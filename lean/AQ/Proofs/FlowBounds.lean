/-
  Bounds of the peer-driven queues: CRYPTO reassembly, PATH_CHALLENGE,
  connection-ID retirements and stock (for AQ.Props.C07).
-/
import AQ.Proofs.FlowRInv3

namespace AQ.Flow
open AQ AQ.Stream AQ.RangeSet

/-! ## CRYPTO -/

/-- invariant of the receive half of a crypto stream: the reassembly window
    never extends more than MAX_PENDING_CRYPTO beyond the delivered prefix -/
def CryptoOK (r : Recv) : Prop := RecvOK r ∧ r.highest ≤ r.bufStart + MAX_PENDING_CRYPTO

theorem CryptoOK.init : CryptoOK ({} : Recv) := ⟨RecvOK.init, by simp⟩

theorem rxCrypto_ok {r r' : Recv} {off : Nat} {data : Bytes} {ev : Option Bytes} (h : CryptoOK r)
    (hx : rxCrypto r off data = .ok (r', ev)) : CryptoOK r' := by
  unfold rxCrypto at hx
  simp only [] at hx
  split at hx
  · simp at hx
  · split at hx
    · simp at hx
    · rename_i hmax hpend
      split at hx
      · simp at hx
      · rename_i r2 ev2 hh
        simp at hx
        obtain ⟨rfl, _⟩ := hx
        obtain ⟨k1, k2, k3⟩ := handleFrame_recvOK h.1 hh
        simp only [] at k2
        refine ⟨k1, ?_⟩
        have := h.2
        rw [k2]; omega

theorem crypto_buffer_bound {r : Recv} (h : CryptoOK r) : r.buffer.length ≤ MAX_PENDING_CRYPTO := by
  have := h.1.1; have := h.2; omega

/-- CRYPTO_BUFFER_EXCEEDED exactly when the frame would extend the window
    beyond the bound (and is representable) -/
theorem rxCrypto_exceeded_iff (r : Recv) (off : Nat) (data : Bytes) :
    rxCrypto r off data = .error CRYPTO_BUFFER_EXCEEDED ↔
      (off + data.length ≤ UINT_VAR_MAX ∧ off + data.length > r.bufStart + MAX_PENDING_CRYPTO) := by
  unfold rxCrypto
  simp only []
  by_cases h1 : off + data.length > UINT_VAR_MAX
  · simp [h1, FRAME_ENCODING_ERROR, CRYPTO_BUFFER_EXCEEDED]; omega
  · by_cases h2 : ((off + data.length : Nat) : Int) - r.bufStart > MAX_PENDING_CRYPTO
    · simp only [h1, h2, if_true, if_false]
      constructor
      · intro _; exact ⟨by omega, by omega⟩
      · intro _; trivial
    · simp only [h1, h2, if_false]
      constructor
      · intro h
        exfalso
        split at h <;> simp [FINAL_SIZE_ERROR, CRYPTO_BUFFER_EXCEEDED] at h
      · intro ⟨_, h⟩; omega

/-- any sequence of CRYPTO frames (processing stops changing the state at the
    first error, as the connection closes) -/
def runCrypto (r : Recv) : List (Nat × Bytes) → Recv
  | [] => r
  | (off, d) :: rest =>
    match rxCrypto r off d with
    | .error _ => r
    | .ok (r', _) => runCrypto r' rest

theorem runCrypto_ok {r : Recv} (h : CryptoOK r) (fs : List (Nat × Bytes)) : CryptoOK (runCrypto r fs) := by
  induction fs generalizing r with
  | nil => exact h
  | cons f rest ih =>
    obtain ⟨off, d⟩ := f
    unfold runCrypto
    split
    · exact h
    · rename_i r' ev hx
      exact ih (rxCrypto_ok h hx)

/-! ## PATH_CHALLENGE -/

theorem rxPathChallenge_le (q : List Bytes) (d : Bytes) (h : q.length ≤ MAX_REMOTE_CHALLENGES) :
    (rxPathChallenge q d).length ≤ MAX_REMOTE_CHALLENGES := by
  unfold rxPathChallenge; split
  · simp; omega
  · exact h

theorem writePathResponses_le (q : List Bytes) (rooms : List Bool) :
    (writePathResponses q rooms).1.length ≤ q.length := by
  induction q generalizing rooms with
  | nil => simp [writePathResponses]
  | cons x xs ih =>
    cases rooms with
    | nil => simp [writePathResponses]
    | cons b bs =>
      cases b
      · simp [writePathResponses]
      · simp only [writePathResponses]; have := ih bs; simp; omega

/-! ## connection IDs -/

/-- after a NEW_CONNECTION_ID frame that does not close the connection, the
    stock and the retirement queue are within the documented limits -/
theorem ncidApply_limit (s : Cids) (seq rpt : Nat) : (ncidApply s seq rpt).1.limit = s.limit := by
  unfold ncidApply
  simp only []
  repeat' split
  all_goals rfl

theorem consumePeerCid_limit {s s' : Cids} (h : consumePeerCid s = .ok s') : s'.limit = s.limit := by
  unfold consumePeerCid at h
  split at h
  · simp at h
  · simp at h; subst h; rfl

theorem rxNewConnectionId_bounds (s : Cids) (seq rpt : Nat)
    (h : (rxNewConnectionId s seq rpt).2 = none) :
    1 + (rxNewConnectionId s seq rpt).1.available.length ≤ s.limit ∧
    (rxNewConnectionId s seq rpt).1.retire.length ≤ min (s.limit * 4) MAX_PENDING_RETIRES ∧
    (rxNewConnectionId s seq rpt).1.limit = s.limit := by
  unfold rxNewConnectionId at h ⊢
  by_cases hrpt : rpt > seq
  · simp [hrpt] at h
  · simp only [hrpt, if_false] at h ⊢
    by_cases hnone : (ncidApply s seq rpt).2 = true ∧ (ncidApply s seq rpt).1.available.isEmpty = true
    · simp [hnone] at h
    simp only [hnone, if_false] at h ⊢
    cases hc : (if (ncidApply s seq rpt).2 = true then consumePeerCid (ncidApply s seq rpt).1
        else Except.ok (ncidApply s seq rpt).1) with
    | error e => simp [hc] at h
    | ok s2 =>
      have hl : s2.limit = s.limit := by
        split at hc
        · rw [consumePeerCid_limit hc, ncidApply_limit]
        · simp at hc; subst hc; exact ncidApply_limit s seq rpt
      simp only [hc] at h ⊢
      by_cases h1 : 1 + s2.available.length > s2.limit
      · simp [h1] at h
      · by_cases h2 : s2.retire.length > min (s2.limit * 4) MAX_PENDING_RETIRES
        · simp [h1, h2] at h
        · simp only [h1, h2, if_false]
          rw [hl] at h1 h2
          exact ⟨by omega, by omega, hl⟩

theorem writeRetires_potential (s : Cids) (rooms : List Bool) :
    (writeRetires s rooms).1.retire.length + (writeRetires s rooms).1.inFlight = s.retire.length + s.inFlight ∧
    (writeRetires s rooms).1.limit = s.limit := by
  induction rooms generalizing s with
  | nil => simp [writeRetires]
  | cons b bs ih =>
    cases b
    · simp [writeRetires]
    · unfold writeRetires
      split
      · exact ⟨rfl, rfl⟩
      · rename_i x rest hr
        obtain ⟨h1, h2⟩ := ih { s with retire := rest, inFlight := s.inFlight + 1 }
        rw [h1, h2, hr]; simp; omega

theorem retireDelivery_potential (s : Cids) (d : Delivery) (seq : Nat) (h : 1 ≤ s.inFlight) :
    (retireDelivery s d seq).retire.length + (retireDelivery s d seq).inFlight ≤ s.retire.length + s.inFlight ∧
    (retireDelivery s d seq).limit = s.limit := by
  unfold retireDelivery
  simp only []
  split <;> (simp; try omega)

theorem changeConnectionId_bound {s s' : Cids} (h : changeConnectionId s = .ok s') :
    s'.retire.length ≤ s.retire.length + 1 ∧ s'.limit = s.limit := by
  unfold changeConnectionId at h
  split at h
  · simp at h; subst h; exact ⟨by omega, rfl⟩
  · unfold consumePeerCid at h
    split at h
    · simp at h
    · simp at h; subst h; simp

/-- what happens between two NEW_CONNECTION_ID frames: RETIRE_CONNECTION_ID
    frames are written, acknowledged or lost (and then re-queued) -/
inductive CidOp where
  | write (rooms : List Bool)
  | delivery (d : Delivery) (seq : Nat)
deriving Repr

def stepCid (s : Cids) : CidOp → Cids
  | .write rooms => (writeRetires s rooms).1
  | .delivery d seq => retireDelivery s d seq

/-- deliveries only report frames that are in flight -/
def wfCid (s : Cids) : List CidOp → Prop
  | [] => True
  | .write rooms :: ops => wfCid (stepCid s (.write rooms)) ops
  | .delivery d seq :: ops => 1 ≤ s.inFlight ∧ wfCid (stepCid s (.delivery d seq)) ops

theorem runCid_potential (s : Cids) (ops : List CidOp) (hwf : wfCid s ops) :
    (ops.foldl stepCid s).retire.length + (ops.foldl stepCid s).inFlight ≤ s.retire.length + s.inFlight := by
  induction ops generalizing s with
  | nil => simp
  | cons op ops ih =>
    simp only [List.foldl_cons]
    cases op with
    | write rooms =>
      have := (writeRetires_potential s rooms).1
      have := ih (stepCid s (.write rooms)) hwf
      simp only [stepCid] at *
      omega
    | delivery d seq =>
      have := (retireDelivery_potential s d seq hwf.1).1
      have := ih (stepCid s (.delivery d seq)) hwf.2
      simp only [stepCid] at *
      omega

end AQ.Flow
