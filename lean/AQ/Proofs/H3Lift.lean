/-
C14: `handle_event` on request streams and on the (typed) QPACK encoder stream refines
the multi-stream machine `runM` of AQ.Proofs.H3Multi.
-/
import AQ.Proofs.H3Multi
import AQ.Proofs.H3EvOn

namespace AQ.H3

/-! ### the stream table -/

def keysOf (l : List (Nat × Stream)) : List Nat := l.map (·.1)

theorem lookupS_setS_ne (j sid : Nat) (s : Stream) (l : List (Nat × Stream)) (h : j ≠ sid) :
    lookupS j (setS sid s l) = lookupS j l := by
  have hne : ¬ sid = j := fun e => h e.symm
  induction l with
  | nil => simp [setS, lookupS, hne]
  | cons x r ih =>
    obtain ⟨i, y⟩ := x
    simp only [setS]
    by_cases hi : i = sid
    · simp [hi, lookupS, hne]
    · simp only [hi, ↓reduceIte, lookupS, ih]

theorem setS_self (sid : Nat) (s : Stream) (l : List (Nat × Stream)) (h : lookupS sid l = some s) :
    setS sid s l = l := by
  induction l with
  | nil => simp [lookupS] at h
  | cons x r ih =>
    obtain ⟨i, y⟩ := x
    simp only [lookupS] at h
    simp only [setS]
    by_cases hi : i = sid
    · simp only [hi, ↓reduceIte, Option.some.injEq] at h
      simp [hi, h]
    · simp only [hi, ↓reduceIte] at h
      simp [hi, ih h]

theorem keysOf_setS_mem (j sid : Nat) (s : Stream) (l : List (Nat × Stream)) :
    j ∈ keysOf (setS sid s l) ↔ j = sid ∨ j ∈ keysOf l := by
  induction l with
  | nil => simp [setS, keysOf]
  | cons x r ih =>
    obtain ⟨i, y⟩ := x
    simp only [setS]
    by_cases hi : i = sid
    · simp only [hi, ↓reduceIte, keysOf, List.map_cons, List.mem_cons]
      constructor
      · intro h; rcases h with h | h
        · exact .inl h
        · exact .inr (.inr h)
      · intro h; rcases h with h | h | h
        · exact .inl h
        · exact .inl h
        · exact .inr h
    · simp only [hi, ↓reduceIte, keysOf, List.map_cons, List.mem_cons] at ih ⊢
      rw [ih]
      constructor
      · intro h; rcases h with h | h | h
        · exact .inr (.inl h)
        · exact .inl h
        · exact .inr (.inr h)
      · intro h; rcases h with h | h | h
        · exact .inr (.inl h)
        · exact .inl h
        · exact .inr (.inr h)

theorem keysOf_setS_nodup (sid : Nat) (s : Stream) (l : List (Nat × Stream)) (h : (keysOf l).Nodup) :
    (keysOf (setS sid s l)).Nodup := by
  induction l with
  | nil => simp [setS, keysOf]
  | cons x r ih =>
    obtain ⟨i, y⟩ := x
    simp only [keysOf, List.map_cons, List.nodup_cons] at h
    simp only [setS]
    by_cases hi : i = sid
    · simp only [hi, ↓reduceIte, keysOf, List.map_cons, List.nodup_cons]
      exact ⟨hi ▸ h.1, h.2⟩
    · simp only [hi, ↓reduceIte, keysOf, List.map_cons, List.nodup_cons]
      refine ⟨?_, ih h.2⟩
      intro hm
      have := (keysOf_setS_mem i sid s r).mp hm
      rcases this with e | e
      · exact hi e
      · exact h.1 e

theorem lookupS_none_of_not_mem (j : Nat) (l : List (Nat × Stream)) (h : j ∉ keysOf l) : lookupS j l = none := by
  induction l with
  | nil => rfl
  | cons x r ih =>
    obtain ⟨i, y⟩ := x
    simp only [keysOf, List.map_cons, List.mem_cons, not_or] at h
    have hne : ¬ i = j := fun e => h.1 e.symm
    simp only [lookupS, hne, ↓reduceIte]
    exact ih h.2

theorem lookupS_eraseS_self (sid : Nat) (l : List (Nat × Stream)) (h : (keysOf l).Nodup) :
    lookupS sid (eraseS sid l) = none := by
  induction l with
  | nil => rfl
  | cons x r ih =>
    obtain ⟨i, y⟩ := x
    simp only [keysOf, List.map_cons, List.nodup_cons] at h
    simp only [eraseS]
    by_cases hi : i = sid
    · simp only [hi, ↓reduceIte]
      exact lookupS_none_of_not_mem sid r (hi ▸ h.1)
    · simp only [hi, ↓reduceIte, lookupS]
      exact ih h.2

theorem lookupS_eraseS_ne' (i sid : Nat) (l : List (Nat × Stream)) (h : i ≠ sid) :
    lookupS i (eraseS sid l) = lookupS i l := by
  induction l with
  | nil => rfl
  | cons x r ih =>
    obtain ⟨j, y⟩ := x
    simp only [eraseS, lookupS]
    by_cases hj : j = sid
    · subst hj
      have : ¬ j = i := fun e => h e.symm
      simp [this]
    · simp only [hj, ↓reduceIte, lookupS, ih]

theorem keysOf_eraseS_sub (j sid : Nat) (l : List (Nat × Stream)) (h : j ∈ keysOf (eraseS sid l)) : j ∈ keysOf l := by
  induction l with
  | nil => exact h
  | cons x r ih =>
    obtain ⟨i, y⟩ := x
    simp only [eraseS] at h
    by_cases hi : i = sid
    · simp only [hi, ↓reduceIte] at h
      simp only [keysOf, List.map_cons, List.mem_cons]; exact .inr h
    · simp only [hi, ↓reduceIte, keysOf, List.map_cons, List.mem_cons] at h ⊢
      rcases h with h | h
      · exact .inl h
      · exact .inr (ih h)

theorem keysOf_eraseS_nodup (sid : Nat) (l : List (Nat × Stream)) (h : (keysOf l).Nodup) :
    (keysOf (eraseS sid l)).Nodup := by
  induction l with
  | nil => exact h
  | cons x r ih =>
    obtain ⟨i, y⟩ := x
    simp only [keysOf, List.map_cons, List.nodup_cons] at h
    simp only [eraseS]
    by_cases hi : i = sid
    · simp only [hi, ↓reduceIte]; exact h.2
    · simp only [hi, ↓reduceIte, keysOf, List.map_cons, List.nodup_cons]
      exact ⟨fun hm => h.1 (keysOf_eraseS_sub i sid r hm), ih h.2⟩


section
variable (Q : Qpack)

/-- a per-stream relation between the table entry and the machine's stream which the
    unblocked-stream loop preserves -/
structure TblRel (R : Nat → Option Stream → Stream → Prop) : Prop where
  skip : ∀ j o t, R j o t →
    match o with
    | some s => t = s ∨ (s.blocked = false ∧ t.blocked = false)
    | none => t.blocked = false
  upd : ∀ j st s', R j (some st) st → st.blocked = true → R j (some s') s'

/-- `for stream_id in unblocked_streams` on the stream table = `resumeAll` on the machine -/
theorem processUnblocked_resumeAll (R : Nat → Option Stream → Stream → Prop) (hR : TblRel R) :
    ∀ (ids : List Nat) (c : Conn QState) (m : MState) (evs : List Event),
      c.q = m.q → c.cfg.k.unblockedKeyError = false → (keysOf c.streams).Nodup →
      (∀ j, R j (lookupS j c.streams) (m.T j)) →
      match resumeAll Q c.cfg ids m with
      | .error e => processUnblocked (qpackOracle Q) ids c evs = .error e
      | .ok m' =>
        ∃ strs d, processUnblocked (qpackOracle Q) ids c evs = .ok ({ c with q := m'.q, streams := strs }, evs ++ d) ∧
          m'.F = m.F ++ d ∧ (keysOf strs).Nodup ∧ ∀ j, R j (lookupS j strs) (m'.T j) := by
  intro ids
  induction ids with
  | nil =>
    intro c m evs hq _ hk hr
    simp only [resumeAll, processUnblocked]
    refine ⟨c.streams, [], ?_, by simp, hk, hr⟩
    rw [← hq]; simp
  | cons i ids ih =>
    intro c m evs hq hke hk hr
    have hri := hr i
    have hsk := hR.skip i _ _ hri
    simp only [resumeAll, processUnblocked]
    cases hl : lookupS i c.streams with
    | none =>
      rw [hl] at hsk
      simp only [hke, Bool.false_eq_true, ↓reduceIte, hsk]
      exact ih c m evs hq hke hk hr
    | some st =>
      rw [hl] at hsk hri
      by_cases hb : st.blocked = false
      · have hmb : (m.T i).blocked = false := by
          rcases hsk with h | h
          · rw [h]; exact hb
          · exact h.2
        simp only [hke, hb, and_self, ↓reduceIte, hmb]
        exact ih c m evs hq hke hk hr
      · have hb' : st.blocked = true := by simpa using hb
        have hT : m.T i = st := by
          rcases hsk with h | h
          · exact h
          · rw [hb'] at h; cases h.1
        simp only [hke, hb', Bool.true_eq_false, and_false, ↓reduceIte, hT, hq]
        cases hres : resumeStream (qpackOracle Q) c.cfg st m.q with
        | error e => rfl
        | ok r =>
          obtain ⟨st3, q2, ev⟩ := r
          dsimp only
          have hr1 : ∀ j, R j (lookupS j (setS i st3 c.streams)) ((m.put i (st3, q2, ev)).T j) := by
            intro j
            by_cases hj : j = i
            · subst hj
              rw [lookupS_setS, put_T_self]
              exact hR.upd j st st3 (hT ▸ hri) hb'
            · rw [lookupS_setS_ne j i st3 _ hj, put_T_ne m i j hj]
              exact hr j
          have IH := ih { c with q := q2, streams := setS i st3 c.streams } (m.put i (st3, q2, ev)) (evs ++ ev)
            rfl hke (keysOf_setS_nodup i st3 _ hk) hr1
          cases hra : resumeAll Q c.cfg ids (m.put i (st3, q2, ev)) with
          | error e => rw [hra] at IH; exact IH
          | ok m' =>
            rw [hra] at IH
            obtain ⟨strs, d, h1, h2, h3, h4⟩ := IH
            refine ⟨strs, ev ++ d, ?_, ?_, h3, h4⟩
            · rw [h1]; simp [List.append_assoc]
            · rw [h2]; simp [MState.put, List.append_assoc]


/-- table entry of stream `j` vs. the machine's stream `j`: the encoder stream `eid` keeps its
    entry `se`; a request stream is in the table, or was never created, or was popped after
    it ended -/
def CR (eid : Nat) (se : Stream) : Nat → Option Stream → Stream → Prop := fun j o t =>
  if j = eid then o = some se ∧ t.blocked = false
  else
    match o with
    | some s => t = s
    | none => t = Stream.new j ∨ t.isEnded = true

theorem isEnded_not_blocked {t : Stream} (h : t.isEnded = true) : t.blocked = false := by
  simp only [Stream.isEnded, Bool.and_eq_true, Bool.not_eq_eq_eq_not, Bool.not_true] at h
  exact h.2

theorem CR_tblRel (eid : Nat) (se : Stream) (hse : se.blocked = false) : TblRel (CR eid se) := by
  constructor
  · intro j o t h
    unfold CR at h
    by_cases hj : j = eid
    · simp only [hj, ↓reduceIte] at h
      rw [h.1]
      exact .inr ⟨hse, h.2⟩
    · simp only [hj, ↓reduceIte] at h
      cases o with
      | some s => exact .inl h
      | none =>
        rcases h with h | h
        · rw [h]; rfl
        · exact isEnded_not_blocked h
  · intro j st s' h hb
    unfold CR at h ⊢
    by_cases hj : j = eid
    · simp only [hj, ↓reduceIte, Option.some.injEq] at h
      rw [h.1, hse] at hb; cases hb
    · simp only [hj, ↓reduceIte]

/-- what is assumed of the encoder stream's entry: its type byte has been received -/
structure EncEntry (eid : Nat) (se : Stream) : Prop where
  uni : isUni eid = true
  typ : se.streamType = some 2
  buf : se.buffer = []
  blk : se.blocked = false
  sid : se.p.streamId = eid
  re : se.receivingEnded = false

structure CRel (cfg : Cfg) (eid : Nat) (se : Stream) (c : Conn QState) (m : MState) : Prop where
  done : c.isDone = false
  cfg : c.cfg = cfg
  q : c.q = m.q
  keys : (keysOf c.streams).Nodup
  tbl : ∀ j, CR eid se j (lookupS j c.streams) (m.T j)

/-- the QUIC event of a machine step -/
def evOf (eid : Nat) : MStep → QuicEvent
  | .req i d f => .streamData i d f
  | .enc x => .streamData eid x false

/-- request streams are bidirectional and receive nothing after their FIN; QUIC delivers
    empty data only together with a FIN -/
def StepOK (m : MState) : MStep → Prop
  | .req i _ _ => isUni i = false ∧ (m.T i).receivingEnded = false
  | .enc x => x ≠ []

theorem se_eta (se : Stream) : ({ se with receivingEnded := se.receivingEnded || false } : Stream) = se := by
  cases se; simp


theorem CR_ne {eid : Nat} {se : Stream} {j : Nat} (hj : j ≠ eid) (o : Option Stream) (t : Stream) :
    CR eid se j o t ↔ (match o with | some s => t = s | none => t = Stream.new j ∨ t.isEnded = true) := by
  unfold CR; simp only [hj, ↓reduceIte]

/-- how `handle_event` turns an error of the `try:` body into its result -/
def closeWith (c : Conn QState) (e : Err) : Outcome (Conn QState × List Event) :=
  match e with
  | .h3 code => .ok ({ c with isDone := true, closeCode := some code }, [])
  | e => .error e

/-- **a delivery on a request stream**: `handle_event` (`_receive_stream_data`,
    `_get_or_create_stream` with its `is_ended()` clean-up) does what the machine does -/
theorem lift_req (cfg : Cfg) (eid : Nat) (se : Stream) (hE : EncEntry eid se) (c : Conn QState) (m : MState)
    (hC : CRel cfg eid se c m) (i : Nat) (d : Bytes) (f : Bool) (hu : isUni i = false)
    (hre : (m.T i).receivingEnded = false) :
    match recvReq (qpackOracle Q) cfg (m.T i) m.q d f with
    | .error e => handleEvent (qpackOracle Q) c (.streamData i d f) = closeWith c e
    | .ok r =>
      ∃ c1, handleEvent (qpackOracle Q) c (.streamData i d f) = .ok (c1, r.2.2) ∧ CRel cfg eid se c1 (m.put i r) := by
  have hie : i ≠ eid := fun e => by rw [e, hE.uni] at hu; cases hu
  have hti := (CR_ne hie _ _).mp (hC.tbl i)
  -- the stream `_get_or_create_stream` yields is the machine's stream
  have hs : streamOf c i = m.T i := by
    unfold streamOf
    cases hl : lookupS i c.streams with
    | some s => rw [hl] at hti; exact hti.symm
    | none =>
      rw [hl] at hti
      rcases hti with h | h
      · exact h.symm
      · simp only [Stream.isEnded, hre, Bool.and_false, Bool.false_and, Bool.false_eq_true] at h
  have hrr : recvReq (qpackOracle Q) c.cfg (streamOf c i) c.q d f = recvReq (qpackOracle Q) cfg (m.T i) m.q d f := by
    rw [hs, hC.cfg, hC.q]
  rw [handleEvent_bidi _ c hC.done i hu, hrr]
  cases hr : recvReq (qpackOracle Q) cfg (m.T i) m.q d f with
  | error e => cases e <;> rfl
  | ok r =>
    obtain ⟨s1, q1, evs⟩ := r
    dsimp only
    refine ⟨_, rfl, ?_⟩
    have hk1 := keysOf_setS_nodup i s1 c.streams hC.keys
    unfold popIfEnded
    simp only [lookupS_setS]
    by_cases he : s1.isEnded = true
    · simp only [he, ↓reduceIte]
      refine ⟨hC.done, hC.cfg, rfl, keysOf_eraseS_nodup i _ hk1, fun j => ?_⟩
      by_cases hj : j = i
      · subst hj
        rw [CR_ne hie, lookupS_eraseS_self j _ hk1, put_T_self]
        exact .inr he
      · rw [lookupS_eraseS_ne' j i _ hj, lookupS_setS_ne j i s1 _ hj, put_T_ne m i j hj]
        exact hC.tbl j
    · simp only [he, Bool.false_eq_true, ↓reduceIte]
      refine ⟨hC.done, hC.cfg, rfl, hk1, fun j => ?_⟩
      by_cases hj : j = i
      · subst hj
        rw [CR_ne hie, lookupS_setS, put_T_self]
      · rw [lookupS_setS_ne j i s1 _ hj, put_T_ne m i j hj]
        exact hC.tbl j


/-- `handle_event(StreamDataReceived)` for a unidirectional stream that is in the table -/
theorem handleEvent_uni (c : Conn QState) (hnd : c.isDone = false) (sid : Nat) (hb : isUni sid = true)
    (s : Stream) (hl : lookupS sid c.streams = some s) (d : Bytes) (f : Bool) :
    handleEvent (qpackOracle Q) c (.streamData sid d f) =
      match recvUni (qpackOracle Q) c s d f with
      | .error e => closeWith c e
      | .ok (c1, evs) => .ok (popIfEnded c1 sid, evs) := by
  have hc : ({ c with streams := setS sid s c.streams } : Conn QState) = c := by
    rw [setS_self sid s c.streams hl]
  unfold handleEvent dispatch recvStreamData
  simp only [hb, hl, ↓reduceIte, hc]
  simp only [hnd, Bool.false_eq_true, ↓reduceIte]
  cases recvUni (qpackOracle Q) c s d f with
  | error e => cases e <;> rfl
  | ok v => obtain ⟨c1, evs⟩ := v; rfl

/-- **a delivery on the QPACK encoder stream**: `handle_event` (stream-type demultiplexer,
    `feed_encoder`, `for stream_id in unblocked_streams`) does what the machine does -/
theorem lift_enc (cfg : Cfg) (hke : cfg.k.unblockedKeyError = false) (eid : Nat) (se : Stream)
    (hE : EncEntry eid se) (c : Conn QState) (m : MState) (hC : CRel cfg eid se c m) (x : Bytes) (hx : x ≠ []) :
    match stepM Q cfg id m (.enc x) with
    | .error e => handleEvent (qpackOracle Q) c (.streamData eid x false) = closeWith c e
    | .ok m1 =>
      ∃ c1 dlt, handleEvent (qpackOracle Q) c (.streamData eid x false) = .ok (c1, dlt) ∧
        CRel cfg eid se c1 m1 ∧ m1.F = m.F ++ dlt := by
  have hcfg := hC.cfg
  subst hcfg
  have hle : lookupS eid c.streams = some se := by
    have := hC.tbl eid
    unfold CR at this
    simp only [↓reduceIte] at this
    exact this.1
  rw [handleEvent_uni Q c hC.done eid hE.uni se hle, recvUni_encoder _ c se x hE.typ hE.buf hx, se_eta,
    show se.streamId = eid from hE.sid, setS_self eid se c.streams hle, hC.q]
  simp only [stepM]
  by_cases hok : Q.encOk (m.q.enc ++ x) = true
  · rw [feedEncoder_ok Q m.q x hok]
    dsimp only [id]
    have hrel : ∀ j, CR eid se j (lookupS j c.streams) (m.T j) := hC.tbl
    have P := processUnblocked_resumeAll Q (CR eid se) (CR_tblRel eid se hE.blk)
      (unblockedIds Q (m.q.enc ++ x) m.q.pending) { c with q := m.q.ext x, streams := c.streams }
      { m with q := m.q.ext x } [] rfl hke hC.keys hrel
    cases hra : resumeAll Q c.cfg (unblockedIds Q (m.q.enc ++ x) m.q.pending) { m with q := m.q.ext x } with
    | error e =>
      rw [hra] at P
      dsimp only at P ⊢
      rw [P]
    | ok m1 =>
      rw [hra] at P
      obtain ⟨strs, d, h1, h2, h3, h4⟩ := P
      dsimp only
      rw [h1]
      dsimp only
      have hl2 : lookupS eid strs = some se := by
        have := h4 eid
        unfold CR at this
        simp only [↓reduceIte] at this
        exact this.1
      have hpop : popIfEnded ({ c with q := m1.q, streams := strs } : Conn QState) eid =
          { c with q := m1.q, streams := strs } := popIfEnded_notEnded _ eid se hl2 hE.re
      exact ⟨{ c with q := m1.q, streams := strs }, [] ++ d,
        congrArg (fun z => (Except.ok (z, [] ++ d) : Outcome (Conn QState × List Event))) hpop,
        ⟨hC.done, rfl, rfl, h3, h4⟩, by simpa using h2⟩
  · have hok' : Q.encOk (m.q.enc ++ x) = false := by simpa using hok
    have hf : (qpackOracle Q).feedEncoder m.q x = (.error, m.q) := by simp [qpackOracle, hok']
    rw [hf]


/-- one QUIC event: `handle_event` refines the machine step -/
theorem lift_step (cfg : Cfg) (hke : cfg.k.unblockedKeyError = false) (eid : Nat) (se : Stream)
    (hE : EncEntry eid se) (c : Conn QState) (m : MState) (hC : CRel cfg eid se c m) (st : MStep)
    (hst : StepOK m st) :
    match stepM Q cfg id m st with
    | .error e => handleEvent (qpackOracle Q) c (evOf eid st) = closeWith c e
    | .ok m1 =>
      ∃ c1 dlt, handleEvent (qpackOracle Q) c (evOf eid st) = .ok (c1, dlt) ∧
        CRel cfg eid se c1 m1 ∧ m1.F = m.F ++ dlt := by
  cases st with
  | enc x => exact lift_enc Q cfg hke eid se hE c m hC x hst
  | req i d f =>
    have H := lift_req Q cfg eid se hE c m hC i d f hst.1 hst.2
    simp only [stepM, evOf]
    cases hr : recvReq (qpackOracle Q) cfg (m.T i) m.q d f with
    | error e => rw [hr] at H; exact H
    | ok r =>
      rw [hr] at H
      obtain ⟨c1, h1, h2⟩ := H
      exact ⟨c1, r.2.2, h1, h2, rfl⟩

/-- the events of a sequence of `handle_event` calls, concatenated -/
def runEvents (c : Conn QState) : List QuicEvent → Outcome (Conn QState × List Event)
  | [] => .ok (c, [])
  | ev :: r =>
    match handleEvent (qpackOracle Q) c ev with
    | .error e => .error e
    | .ok (c1, d1) =>
      match runEvents c1 r with
      | .error e => .error e
      | .ok (c2, d2) => .ok (c2, d1 ++ d2)

theorem runEvents_done (c : Conn QState) (h : c.isDone = true) (l : List QuicEvent) :
    runEvents Q c l = .ok (c, []) := by
  induction l with
  | nil => rfl
  | cons ev r ih => simp [runEvents, handleEvent, h, ih]

/-- every step of the schedule is a legal QUIC delivery at the time it is made -/
def Guarded (cfg : Cfg) (m : MState) : List MStep → Prop
  | [] => True
  | st :: r => StepOK m st ∧ ∀ m1, stepM Q cfg id m st = .ok m1 → Guarded cfg m1 r

/-- what the connection shows when the machine run ended with error `e`: closed with the
    HTTP/3 code (ProtocolError), or the exception escapes -/
def ErrOutcome (r : Outcome (Conn QState × List Event)) (e : Err) : Prop :=
  match e with
  | .h3 code => ∃ c' dlt, r = .ok (c', dlt) ∧ c'.isDone = true ∧ c'.closeCode = some code
  | e => r = .error e

theorem closeWith_run (c : Conn QState) (e : Err) (rest : List QuicEvent) :
    ErrOutcome
      (match closeWith c e with
        | .error e => .error e
        | .ok (c1, d1) =>
          match runEvents Q c1 rest with
          | .error e => .error e
          | .ok (c2, d2) => .ok (c2, d1 ++ d2)) e := by
  cases e with
  | h3 code =>
    simp only [closeWith, ErrOutcome]
    rw [runEvents_done Q _ rfl]
    exact ⟨_, _, rfl, rfl, rfl⟩
  | _ => simp [closeWith, ErrOutcome]


/-- **`handle_event` refines the machine**: a sequence of deliveries on request streams and
    on the QPACK encoder stream, run through `H3Connection.handle_event`, produces exactly
    the machine's events (in the machine's global order) and stays in relation `CRel` with
    it; if the machine run ends with a ProtocolError the connection is closed with that
    code (and ignores the remaining deliveries). -/
theorem lift_run (cfg : Cfg) (hke : cfg.k.unblockedKeyError = false) (eid : Nat) (se : Stream)
    (hE : EncEntry eid se) :
    ∀ (l : List MStep) (c : Conn QState) (m : MState), CRel cfg eid se c m → Guarded Q cfg m l →
      match runM Q cfg id m l with
      | .error e => ErrOutcome (runEvents Q c (l.map (evOf eid))) e
      | .ok m' =>
        ∃ c' dlt, runEvents Q c (l.map (evOf eid)) = .ok (c', dlt) ∧ CRel cfg eid se c' m' ∧ m'.F = m.F ++ dlt := by
  intro l
  induction l with
  | nil =>
    intro c m hC _
    exact ⟨c, [], rfl, hC, by simp⟩
  | cons st r ih =>
    intro c m hC hG
    have hS := lift_step Q cfg hke eid se hE c m hC st hG.1
    simp only [runM, List.map_cons, runEvents]
    cases hs : stepM Q cfg id m st with
    | error e =>
      rw [hs] at hS
      dsimp only at hS ⊢
      rw [hS]
      exact closeWith_run Q c e _
    | ok m1 =>
      rw [hs] at hS
      obtain ⟨c1, d1, h1, hC1, hF1⟩ := hS
      dsimp only
      rw [h1]
      dsimp only
      have IH := ih c1 m1 hC1 (hG.2 m1 hs)
      cases hr : runM Q cfg id m1 r with
      | error e =>
        rw [hr] at IH
        dsimp only at IH ⊢
        cases e with
        | h3 code =>
          simp only [ErrOutcome] at IH ⊢
          obtain ⟨c', dlt, h2, h3, h4⟩ := IH
          rw [h2]
          exact ⟨c', d1 ++ dlt, rfl, h3, h4⟩
        | _ =>
          simp only [ErrOutcome] at IH ⊢
          rw [IH]
      | ok m' =>
        rw [hr] at IH
        obtain ⟨c', dlt, h2, h3, h4⟩ := IH
        dsimp only
        rw [h2]
        exact ⟨c', d1 ++ dlt, rfl, h3, by rw [h4, hF1, List.append_assoc]⟩


/-! ### the global event order and the per-stream logs -/

def SidInv (m : MState) : Prop := ∀ j, (m.T j).p.streamId = j

/-- per stream, the global event list and the stream's own log have the same normal form -/
def FL (m : MState) : Prop := ∀ j, normOf j m.F = normOf j (m.L j)

theorem put_FL {m : MState} (i : Nat) (r : Stream × QState × List Event) (hs : SidInv m) (hf : FL m)
    (hi : r.1.p.streamId = i) (he : EvOn i r.2.2) : SidInv (m.put i r) ∧ FL (m.put i r) := by
  constructor
  · intro j
    by_cases hj : j = i
    · subst hj; rw [put_T_self]; exact hi
    · rw [put_T_ne m i j hj]; exact hs j
  · intro j
    show normOf j (m.F ++ r.2.2) = normOf j ((m.put i r).L j)
    by_cases hj : j = i
    · subst hj
      rw [put_L_self, normOf_append, normOf_append, hf j]
    · rw [put_L_ne m i j hj, normOf_append, normOf_evOn_ne hj he, Norm.append_empty, hf j]

theorem resumeAll_FL (cfg : Cfg) : ∀ (ids : List Nat) (m m' : MState), SidInv m → FL m →
    resumeAll Q cfg ids m = .ok m' → SidInv m' ∧ FL m' := by
  intro ids
  induction ids with
  | nil => intro m m' hs hf h; simp only [resumeAll, Except.ok.injEq] at h; subst h; exact ⟨hs, hf⟩
  | cons i ids ih =>
    intro m m' hs hf h
    simp only [resumeAll] at h
    split at h
    · exact ih m m' hs hf h
    · cases hr : resumeStream (qpackOracle Q) cfg (m.T i) m.q with
      | error e => rw [hr] at h; cases h
      | ok r =>
        rw [hr] at h
        obtain ⟨s1, q1, ev⟩ := r
        have h1 := resumeStream_sid _ cfg _ _ _ _ _ hr
        have h2 := resumeStream_evOn _ cfg _ _ _ _ _ hr
        rw [hs i] at h1 h2
        obtain ⟨a, b⟩ := put_FL i (s1, q1, ev) hs hf h1 h2
        exact ih _ m' a b h

theorem runM_FL (cfg : Cfg) (ord : List Nat → List Nat) : ∀ (l : List MStep) (m m' : MState), SidInv m → FL m →
    runM Q cfg ord m l = .ok m' → SidInv m' ∧ FL m' := by
  intro l
  induction l with
  | nil => intro m m' hs hf h; simp only [runM, Except.ok.injEq] at h; subst h; exact ⟨hs, hf⟩
  | cons st r ih =>
    intro m m' hs hf h
    simp only [runM] at h
    cases hst : stepM Q cfg ord m st with
    | error e => rw [hst] at h; cases h
    | ok m1 =>
      rw [hst] at h
      dsimp only at h
      have h1 : SidInv m1 ∧ FL m1 := by
        cases st with
        | req i d f =>
          simp only [stepM] at hst
          cases hr : recvReq (qpackOracle Q) cfg (m.T i) m.q d f with
          | error e => rw [hr] at hst; cases hst
          | ok v =>
            rw [hr] at hst
            simp only [Except.ok.injEq] at hst
            subst hst
            obtain ⟨s1, q1, ev⟩ := v
            have k1 := (recvReq_keep _ cfg _ _ _ _ _ _ _ hr).2.2.1
            have k2 := recvReq_evOn _ cfg _ _ _ _ _ _ _ hr
            rw [hs i] at k1 k2
            exact put_FL i (s1, q1, ev) hs hf k1 k2
        | enc x =>
          simp only [stepM] at hst
          split at hst
          · cases hst
          · refine resumeAll_FL Q cfg _ _ m1 ?_ ?_ hst
            · exact hs
            · exact hf
      exact ih m1 m' h1.1 h1.2 h


/-! ### `handle_event`: any two schedules -/

/-- the machine a connection starts as: no request stream created yet -/
def m0Of (c : Conn QState) : MState := { T := fun j => Stream.new j, q := c.q, L := fun _ => [] }

theorem init_m0 (c : Conn QState) (hp : c.q.pending = []) : Init (m0Of c) :=
  ⟨fun _ => ⟨⟨rfl, rfl, rfl, rfl, rfl, rfl⟩, rfl, rfl⟩, fun _ => rfl, hp⟩

/-- a connection on which only the encoder stream exists -/
theorem CRel_init (cfg : Cfg) (eid : Nat) (se : Stream) (c : Conn QState) (hd : c.isDone = false)
    (hc : c.cfg = cfg) (hs : c.streams = [(eid, se)]) : CRel cfg eid se c (m0Of c) := by
  refine ⟨hd, hc, rfl, by rw [hs]; simp [keysOf], fun j => ?_⟩
  unfold CR
  by_cases hj : j = eid
  · simp [hj, hs, lookupS, m0Of, Stream.new]
  · have : ¬ eid = j := fun e => hj e.symm
    simp [hj, hs, lookupS, this, m0Of]

/-- the entries of request stream `j` in two final stream tables: equal, or one side has no
    entry and the other an entry that is ended (and was not cleaned up) or never used -/
def TableAgree (j : Nat) (c1 c2 : Conn QState) : Prop :=
  match lookupS j c1.streams, lookupS j c2.streams with
  | some a, some b => a = b
  | some a, none => a.isEnded = true ∨ a = Stream.new j
  | none, some b => b.isEnded = true ∨ b = Stream.new j
  | none, none => True

theorem tableAgree_of {eid : Nat} {se : Stream} {j : Nat} (hj : j ≠ eid) {c1 c2 : Conn QState} {t : Stream}
    (h1 : CR eid se j (lookupS j c1.streams) t) (h2 : CR eid se j (lookupS j c2.streams) t) :
    TableAgree j c1 c2 := by
  rw [CR_ne hj] at h1 h2
  unfold TableAgree
  cases hl1 : lookupS j c1.streams <;> cases hl2 : lookupS j c2.streams <;> rw [hl1] at h1 <;> rw [hl2] at h2 <;>
    dsimp only at h1 h2 ⊢
  · rcases h1 with h | h
    · exact .inr (h2 ▸ h)
    · exact .inl (h2 ▸ h)
  · rcases h2 with h | h
    · exact .inr (h1 ▸ h)
    · exact .inl (h1 ▸ h)
  · exact h1.symm.trans h2


/-- a connection run that did not close the connection is a successful machine run -/
theorem open_run (cfg : Cfg) (hke : cfg.k.unblockedKeyError = false) (eid : Nat) (se : Stream)
    (hE : EncEntry eid se) (l : List MStep) (c0 : Conn QState) (m0 : MState) (hC : CRel cfg eid se c0 m0)
    (hG : Guarded Q cfg m0 l) (c1 : Conn QState) (d1 : List Event)
    (hr : runEvents Q c0 (l.map (evOf eid)) = .ok (c1, d1)) (hopen : c1.isDone = false) :
    ∃ m1, runM Q cfg id m0 l = .ok m1 ∧ CRel cfg eid se c1 m1 ∧ m1.F = m0.F ++ d1 := by
  have H := lift_run Q cfg hke eid se hE l c0 m0 hC hG
  cases hm : runM Q cfg id m0 l with
  | ok m1 =>
    rw [hm] at H
    obtain ⟨c', dlt, h1, h2, h3⟩ := H
    rw [hr] at h1
    simp only [Except.ok.injEq, Prod.mk.injEq] at h1
    obtain ⟨rfl, rfl⟩ := h1
    exact ⟨m1, rfl, h2, h3⟩
  | error e =>
    rw [hm] at H
    exfalso
    cases e with
    | h3 code =>
      simp only [ErrOutcome] at H
      obtain ⟨c', dlt, h1, h2, _⟩ := H
      rw [hr] at h1
      simp only [Except.ok.injEq, Prod.mk.injEq] at h1
      rw [h1.1, h2] at hopen
      cases hopen
    | _ =>
      simp only [ErrOutcome] at H
      rw [hr] at H
      cases H

/-- a connection run that closed the connection is a machine run that ended with an error -/
theorem closed_run (cfg : Cfg) (hke : cfg.k.unblockedKeyError = false) (eid : Nat) (se : Stream)
    (hE : EncEntry eid se) (l : List MStep) (c0 : Conn QState) (m0 : MState) (hC : CRel cfg eid se c0 m0)
    (hG : Guarded Q cfg m0 l) (c1 : Conn QState) (d1 : List Event)
    (hr : runEvents Q c0 (l.map (evOf eid)) = .ok (c1, d1)) (hclosed : c1.isDone = true) :
    ∃ code, runM Q cfg id m0 l = .error (.h3 code) ∧ c1.closeCode = some code := by
  have H := lift_run Q cfg hke eid se hE l c0 m0 hC hG
  cases hm : runM Q cfg id m0 l with
  | ok m1 =>
    rw [hm] at H
    obtain ⟨c', dlt, h1, h2, _⟩ := H
    rw [hr] at h1
    simp only [Except.ok.injEq, Prod.mk.injEq] at h1
    rw [h1.1, h2.done] at hclosed
    cases hclosed
  | error e =>
    rw [hm] at H
    cases e with
    | h3 code =>
      simp only [ErrOutcome] at H
      obtain ⟨c', dlt, h1, _, h3⟩ := H
      rw [hr] at h1
      simp only [Except.ok.injEq, Prod.mk.injEq] at h1
      exact ⟨code, rfl, by rw [h1.1]; exact h3⟩
    | _ =>
      simp only [ErrOutcome] at H
      rw [hr] at H
      cases H


theorem ordOK_id : OrdOK id := ⟨fun _ _ => Iff.rfl, fun _ h => h⟩

/-- **`handle_event`, two schedules, connection not closed**: same per-stream normal form of
    the events `handle_event` returned, same decoder as seen by every stream, stream tables
    that agree up to entries which are ended or never used -/
theorem conn_independent_open (cfg : Cfg) (hL : QpackLaws Q) (ht : cfg.k.truncatedNoError = false)
    (hsil : cfg.k.silentFrameNoEnd = false) (hlog : cfg.k.logDecode = false)
    (hpp : cfg.k.blockedPushAsHeaders = false) (hke : cfg.k.unblockedKeyError = false)
    (eid : Nat) (se : Stream) (hE : EncEntry eid se) (c0 : Conn QState) (hp : c0.q.pending = [])
    (hC : CRel cfg eid se c0 (m0Of c0)) {l1 l2 : List MStep} (hs : SameBytes l1 l2)
    (hG1 : Guarded Q cfg (m0Of c0) l1) (hG2 : Guarded Q cfg (m0Of c0) l2)
    (hok : Q.encOk (c0.q.enc ++ encBytesM l1) = true)
    (c1 c2 : Conn QState) (d1 d2 : List Event)
    (h1 : runEvents Q c0 (l1.map (evOf eid)) = .ok (c1, d1)) (h2 : runEvents Q c0 (l2.map (evOf eid)) = .ok (c2, d2))
    (ho1 : c1.isDone = false) (ho2 : c2.isDone = false) :
    NEq d1 d2 ∧ c1.q.enc = c2.q.enc ∧ (∀ j, view j c1.q = view j c2.q) ∧ ∀ j, j ≠ eid → TableAgree j c1 c2 := by
  obtain ⟨m1, r1, C1, F1⟩ := open_run Q cfg hke eid se hE l1 c0 _ hC hG1 c1 d1 h1 ho1
  obtain ⟨m2, r2, C2, F2⟩ := open_run Q cfg hke eid se hE l2 c0 _ hC hG2 c2 d2 h2 ho2
  have h0 := init_m0 c0 hp
  obtain ⟨he, hall⟩ := multi_independent_ok Q cfg hL ht hsil hlog hpp h0 hs hok ordOK_id ordOK_id m1 m2 r1 r2
  have hS0 : SidInv (m0Of c0) := fun _ => rfl
  have hF0 : FL (m0Of c0) := fun _ => rfl
  have fl1 := (runM_FL Q cfg id l1 _ m1 hS0 hF0 r1).2
  have fl2 := (runM_FL Q cfg id l2 _ m2 hS0 hF0 r2).2
  have e1 : m1.F = d1 := by simpa [m0Of] using F1
  have e2 : m2.F = d2 := by simpa [m0Of] using F2
  refine ⟨fun j => ?_, by rw [C1.q, C2.q]; exact he, fun j => by rw [C1.q, C2.q]; exact (hall j).2.1, fun j hj => ?_⟩
  · rw [← e1, ← e2, fl1 j, fl2 j]
    exact (hall j).2.2 j
  · have t1 := C1.tbl j
    have t2 := C2.tbl j
    rw [(hall j).1] at t1
    exact tableAgree_of hj t1 t2

/-- **`handle_event`, two schedules: closed / not closed agree** — if one schedule closes the
    connection, no schedule of the same bytes leaves it open -/
theorem conn_independent_closed (cfg : Cfg) (hL : QpackLaws Q) (ht : cfg.k.truncatedNoError = false)
    (hsil : cfg.k.silentFrameNoEnd = false) (hlog : cfg.k.logDecode = false)
    (hpp : cfg.k.blockedPushAsHeaders = false) (hke : cfg.k.unblockedKeyError = false)
    (eid : Nat) (se : Stream) (hE : EncEntry eid se) (c0 : Conn QState) (hp : c0.q.pending = [])
    (hC : CRel cfg eid se c0 (m0Of c0)) {l1 l2 : List MStep} (hs : SameBytes l1 l2)
    (hG1 : Guarded Q cfg (m0Of c0) l1) (hG2 : Guarded Q cfg (m0Of c0) l2)
    (hok : Q.encOk (c0.q.enc ++ encBytesM l1) = true)
    (c1 c2 : Conn QState) (d1 d2 : List Event)
    (h1 : runEvents Q c0 (l1.map (evOf eid)) = .ok (c1, d1)) (h2 : runEvents Q c0 (l2.map (evOf eid)) = .ok (c2, d2))
    (hc1 : c1.isDone = true) : c2.isDone = true := by
  obtain ⟨code, r1, _⟩ := closed_run Q cfg hke eid se hE l1 c0 _ hC hG1 c1 d1 h1 hc1
  cases hd : c2.isDone with
  | true => rfl
  | false =>
    exfalso
    obtain ⟨m2, r2, _, _⟩ := open_run Q cfg hke eid se hE l2 c0 _ hC hG2 c2 d2 h2 hd
    obtain ⟨_, e', j', r2', _⟩ := multi_independent_err Q cfg hL ht hsil hlog hpp (init_m0 c0 hp) hs hok
      ordOK_id ordOK_id _ r1
    rw [r2] at r2'
    cases r2'


/-! ### legal schedules (syntactic) are guarded -/

/-- request streams are bidirectional; an encoder-stream delivery carries data -/
def Legal (l : List MStep) : Prop :=
  ∀ st, st ∈ l → match st with
    | .req i _ _ => isUni i = false
    | .enc x => x ≠ []

/-- no delivery on a stream whose FIN has been received -/
def Closed (m : MState) (l : List MStep) : Prop :=
  ∀ j, (m.T j).receivingEnded = true → ∀ c f, MStep.req j c f ∉ l

theorem WF.tail {a b : List Step} (h : WF (a ++ b)) : WF b := by
  intro l1 c f l2 e
  have := h (a ++ l1) c f l2 (by rw [e, List.append_assoc])
  rw [finOf_append] at this
  simp only [Bool.or_eq_false_iff] at this
  exact this.2

theorem proj_split (i : Nat) (c : Bytes) (f : Bool) : ∀ (r : List MStep), MStep.req i c f ∈ r →
    ∃ l1 l2, proj i r = l1 ++ Step.req c f :: l2 := by
  intro r
  induction r with
  | nil => intro h; cases h
  | cons st r ih =>
    intro h
    rcases List.mem_cons.mp h with h | h
    · subst h
      exact ⟨[], proj i r, by simp [proj]⟩
    · obtain ⟨l1, l2, e⟩ := ih h
      rw [proj_cons, e]
      exact ⟨proj i [st] ++ l1, l2, by simp⟩

theorem resumeAll_re (cfg : Cfg) : ∀ (ids : List Nat) (m m' : MState), resumeAll Q cfg ids m = .ok m' →
    ∀ j, (m'.T j).receivingEnded = (m.T j).receivingEnded := by
  intro ids
  induction ids with
  | nil => intro m m' h j; simp only [resumeAll, Except.ok.injEq] at h; subst h; rfl
  | cons i ids ih =>
    intro m m' h j
    simp only [resumeAll] at h
    split at h
    · exact ih m m' h j
    · cases hr : resumeStream (qpackOracle Q) cfg (m.T i) m.q with
      | error e => rw [hr] at h; cases h
      | ok r =>
        rw [hr] at h
        obtain ⟨s1, q1, ev⟩ := r
        have h1 := resumeStream_re _ cfg _ _ _ _ _ hr
        rw [ih _ m' h j]
        by_cases hj : j = i
        · subst hj; rw [put_T_self]; exact h1
        · rw [put_T_ne m i j hj]

theorem guarded_of (cfg : Cfg) : ∀ (l : List MStep) (m : MState), Legal l → (∀ j, WF (proj j l)) → Closed m l →
    Guarded Q cfg m l := by
  intro l
  induction l with
  | nil => intro _ _ _ _; trivial
  | cons st r ih =>
    intro m hleg hwf hcl
    have hleg' : Legal r := fun x hx => hleg x (List.mem_cons_of_mem _ hx)
    have hwf' : ∀ j, WF (proj j r) := fun j => by
      have := hwf j
      rw [proj_cons] at this
      exact this.tail
    refine ⟨?_, fun m1 hs => ih m1 hleg' hwf' ?_⟩
    · have h0 := hleg st List.mem_cons_self
      cases st with
      | req i d f =>
        refine ⟨h0, ?_⟩
        cases hre : (m.T i).receivingEnded with
        | false => rfl
        | true => exact absurd List.mem_cons_self (hcl i hre d f)
      | enc x => exact h0
    · intro j hj c f hmem
      cases st with
      | enc x =>
        simp only [stepM] at hs
        split at hs
        · cases hs
        · rw [resumeAll_re Q cfg _ _ m1 hs j] at hj
          exact hcl j hj c f (List.mem_cons_of_mem _ hmem)
      | req i d f0 =>
        simp only [stepM] at hs
        cases hr : recvReq (qpackOracle Q) cfg (m.T i) m.q d f0 with
        | error e => rw [hr] at hs; cases hs
        | ok v =>
          rw [hr] at hs
          simp only [Except.ok.injEq] at hs
          subst hs
          obtain ⟨s1, q1, ev⟩ := v
          by_cases hji : j = i
          · subst hji
            rw [put_T_self] at hj
            have hre := recvReq_re _ cfg _ _ _ _ _ _ _ hr
            dsimp only at hj
            rw [hre] at hj
            cases hold : (m.T j).receivingEnded with
            | true => exact hcl j hold d f0 List.mem_cons_self
            | false =>
              rw [hold, Bool.false_or] at hj
              obtain ⟨l1, l2, e⟩ := proj_split j c f r hmem
              have := hwf j (Step.req d f0 :: l1) c f l2 (by simp [proj, e])
              simp [finOf, hj] at this
          · rw [put_T_ne m i j hji] at hj
            exact hcl j hj c f (List.mem_cons_of_mem _ hmem)

end
end AQ.H3
