/-
  The limits received from the peer (`_remote_max_data`, `_remote_max_streams_*`):
  which operations can change them.  MAX_DATA / MAX_STREAMS handlers keep the
  maximum; every other operation except `transportParams` leaves them alone.  So
  the hypothesis `TP.monotone` of C06 is only about `_parse_transport_parameters`,
  and only about its SECOND application (0-RTT: remembered parameters replaced by
  the handshake's): the first application replaces zeros.
-/
import AQ.Proofs.FlowAdvertise

namespace AQ.Flow
open AQ AQ.Stream AQ.RangeSet

/-- the part of the state `TP.monotone` talks about -/
def rl (c : Conn) : Nat × Nat × Nat := (c.remoteMaxData, c.remoteMaxStreamsBidi, c.remoteMaxStreamsUni)

theorem getOrCreateStreamForSend_rl {c c' : Conn} {sid : Nat} {st : Strm}
    (hg : getOrCreateStreamForSend c sid = .ok (c', st)) :
    c'.remoteMaxData = c.remoteMaxData ∧ c'.remoteMaxStreamsBidi = c.remoteMaxStreamsBidi ∧
    c'.remoteMaxStreamsUni = c.remoteMaxStreamsUni := by
  unfold getOrCreateStreamForSend at hg
  repeat' split at hg
  all_goals (simp at hg)
  all_goals (obtain ⟨rfl, _⟩ := hg; exact ⟨rfl, rfl, rfl⟩)

theorem getOrCreateStream_rl {c c' : Conn} {sid : Nat} {st : Strm}
    (hg : getOrCreateStream c sid = .ok (c', st)) :
    c'.remoteMaxData = c.remoteMaxData ∧ c'.remoteMaxStreamsBidi = c.remoteMaxStreamsBidi ∧
    c'.remoteMaxStreamsUni = c.remoteMaxStreamsUni := by
  unfold getOrCreateStream at hg
  simp only [] at hg
  repeat' split at hg
  all_goals (simp at hg)
  all_goals (obtain ⟨rfl, _⟩ := hg; exact ⟨rfl, rfl, rfl⟩)

theorem sendStreamData_rl (c : Conn) (sid : Nat) (d : Bytes) (fin : Bool) :
    rl (sendStreamData c sid d fin).1 = rl c := by
  unfold sendStreamData
  split
  · rfl
  · rename_i c' st hg
    have := getOrCreateStreamForSend_rl hg
    split <;> simp [rl, Conn.setStrm, this]

theorem resetStream_rl (c : Conn) (sid code : Nat) : rl (resetStream c sid code).1 = rl c := by
  unfold resetStream
  split
  · rfl
  · rename_i c' st hg
    have := getOrCreateStreamForSend_rl hg
    simp [rl, Conn.setStrm, this]

theorem stopStream_rl (c : Conn) (sid : Nat) : rl (stopStream c sid).1 = rl c := by
  unfold stopStream
  repeat' split
  all_goals rfl

theorem unblockStreams_rl (c : Conn) (uni : Bool) : rl (unblockStreams c uni) = rl c := by
  unfold unblockStreams; split <;> rfl

theorem rxMaxStreamData_rl (c : Conn) (sid v : Nat) : rl (rxMaxStreamData c sid v).1 = rl c := by
  unfold rxMaxStreamData
  split
  · rfl
  · split
    · rfl
    · rename_i c' st hg
      have := getOrCreateStream_rl hg
      split <;> simp [rl, Conn.setStrm, this]

theorem rxStopSending_rl (c : Conn) (sid : Nat) : rl (rxStopSending c sid).1 = rl c := by
  unfold rxStopSending
  split
  · rfl
  · split
    · rfl
    · rename_i c' st hg
      have := getOrCreateStream_rl hg
      simp [rl, Conn.setStrm, this]

theorem rxStreamDataBlocked_rl (c : Conn) (sid : Nat) : rl (rxStreamDataBlocked c sid).1 = rl c := by
  unfold rxStreamDataBlocked
  split
  · rfl
  · split
    · rfl
    · rename_i c' st hg
      have := getOrCreateStream_rl hg
      simp [rl, this]

theorem rxStream_rl (c : Conn) (sid off : Nat) (d : Bytes) (fin : Bool) :
    rl (rxStream c sid off d fin).1 = rl c := by
  unfold rxStream
  simp only []
  split
  · rfl
  · split
    · rfl
    · split
      · rfl
      · rename_i c' st hg
        have := getOrCreateStream_rl hg
        repeat' split
        all_goals simp [rl, Conn.setStrm, this]

theorem rxResetStream_rl (c : Conn) (sid z : Nat) : rl (rxResetStream c sid z).1 = rl c := by
  unfold rxResetStream
  split
  · rfl
  · split
    · rfl
    · rename_i c' st hg
      have := getOrCreateStream_rl hg
      simp only []
      repeat' split
      all_goals simp [rl, Conn.setStrm, this]

theorem serve_rl (c : Conn) (sid : Nat) (a b : Bool) (fs : Int) : rl (serve c sid a b fs).1 = rl c := by
  unfold serve
  simp only []
  repeat' split
  all_goals rfl

theorem writeStreamLimits_rl (c : Conn) (sid : Nat) (room : Bool) :
    rl (writeStreamLimits c sid room).1 = rl c := by
  unfold writeStreamLimits
  simp only []
  repeat' split
  all_goals rfl

theorem dataDelivery_rl (c : Conn) (sid : Nat) (d : Delivery) (a b : Nat) (fin : Bool) :
    rl (dataDelivery c sid d a b fin).1 = rl c := by
  unfold dataDelivery
  repeat' split
  all_goals rfl

theorem resetDelivery_rl (c : Conn) (sid : Nat) (d : Delivery) : rl (resetDelivery c sid d).1 = rl c := by
  unfold resetDelivery; split <;> rfl

theorem stopDelivery_rl (c : Conn) (sid : Nat) (d : Delivery) : rl (stopDelivery c sid d).1 = rl c := by
  unfold stopDelivery
  repeat' split
  all_goals rfl

theorem connLimitDelivery_rl (c : Conn) (k : LimitKind) (d : Delivery) :
    rl (connLimitDelivery c k d) = rl c := by
  unfold connLimitDelivery
  split
  · cases k <;> rfl
  · rfl

theorem maxStreamDataDelivery_rl (c : Conn) (sid : Nat) (d : Delivery) :
    rl (maxStreamDataDelivery c sid d) = rl c := by
  unfold maxStreamDataDelivery
  repeat' split
  all_goals rfl


theorem writeConnLimits_rl (c : Conn) (r1 r2 r3 : Bool) : rl (writeConnLimits c r1 r2 r3).1 = rl c := by
  unfold writeConnLimits
  simp only []
  repeat' split
  all_goals rfl

/-- componentwise order on the three limits -/
def rlLe (a b : Nat × Nat × Nat) : Prop := a.1 ≤ b.1 ∧ a.2.1 ≤ b.2.1 ∧ a.2.2 ≤ b.2.2

theorem rlLe.refl (a : Nat × Nat × Nat) : rlLe a a := ⟨Nat.le_refl _, Nat.le_refl _, Nat.le_refl _⟩
theorem rlLe.of_eq {a b : Nat × Nat × Nat} (h : b = a) : rlLe a b := h ▸ rlLe.refl a
theorem rlLe.trans {a b c : Nat × Nat × Nat} (h1 : rlLe a b) (h2 : rlLe b c) : rlLe a c :=
  ⟨Nat.le_trans h1.1 h2.1, Nat.le_trans h1.2.1 h2.2.1, Nat.le_trans h1.2.2 h2.2.2⟩

/-- `_handle_max_data_frame` keeps the maximum -/
theorem rxMaxData_rl (c : Conn) (v : Nat) : rlLe (rl c) (rl (rxMaxData c v).1) := by
  unfold rxMaxData
  split
  · exact ⟨by simp [rl]; omega, Nat.le_refl _, Nat.le_refl _⟩
  · exact rlLe.refl _

theorem unblockStreams_rl' (c : Conn) (uni : Bool) : rl (unblockStreams c uni) = rl c := unblockStreams_rl c uni

/-- `_handle_max_streams_*_frame` keeps the maximum -/
theorem rxMaxStreams_rl (c : Conn) (uni : Bool) (v : Nat) : rlLe (rl c) (rl (rxMaxStreams c uni v).1) := by
  unfold rxMaxStreams
  repeat' split
  all_goals first
    | exact rlLe.refl _
    | (simp only []; rw [unblockStreams_rl]; refine ⟨Nat.le_refl _, ?_, ?_⟩ <;> simp [rl] <;> omega)

/-- transport parameters: the three limits do not decrease iff `TP.monotone` -/
theorem rxTransportParams_rl (c : Conn) (tp : TP) (h : tp.guarded c ∨ tp.monotone c) :
    rlLe (rl c) (rl (rxTransportParams c tp).1) := by
  have key : tp.monotone c → rlLe (rl c) (rl (transportParams c tp)) := by
    intro hm
    unfold TP.monotone at hm
    unfold rlLe rl transportParams
    obtain ⟨h1, h2, h3⟩ := hm
    refine ⟨?_, ?_, ?_⟩
    · cases hv : tp.maxData <;> simp; exact h1 _ hv
    · cases hv : tp.maxStreamsBidi <;> simp; exact h2 _ hv
    · cases hv : tp.maxStreamsUni <;> simp; exact h3 _ hv
  rcases h with hg | hm
  · rcases rxTransportParams_guarded hg with ⟨he, _⟩ | ⟨he, hr⟩
    · rw [he]; exact rlLe.refl _
    · rw [he]; exact key (TP.monotone_of_not_reduced hr)
  · unfold rxTransportParams
    split
    · exact rlLe.refl _
    · exact key hm

theorem transportParams_rl_iff (c : Conn) (tp : TP) :
    rlLe (rl c) (rl (transportParams c tp)) ↔ tp.monotone c := by
  unfold TP.monotone rlLe rl transportParams
  cases tp.maxData <;> cases tp.maxStreamsBidi <;> cases tp.maxStreamsUni <;> simp

def Op.isTP : Op → Bool
  | .transportParams _ => true
  | _ => false

/-- an operation that can change the limits received from the peer -/
def Op.touchesRemote : Op → Bool
  | .transportParams _ => true
  | .rxMaxData _ => true
  | .rxMaxStreams _ _ => true
  | _ => false

/-- every operation other than the three limit updates leaves the limits alone -/
theorem step_rl_eq (c : Conn) (op : Op) (h : op.touchesRemote = false) : rl (step c op).1 = rl c := by
  cases op <;> simp only [step] <;> (try (simp [Op.touchesRemote] at h; done))
  · exact sendStreamData_rl ..
  · exact resetStream_rl ..
  · exact stopStream_rl ..
  · exact rxMaxStreamData_rl ..
  · exact unblockStreams_rl ..
  · exact rxStopSending_rl ..
  · exact rxStreamDataBlocked_rl ..
  · exact rxStream_rl ..
  · exact rxResetStream_rl ..
  · exact serve_rl ..
  · exact writeConnLimits_rl ..
  · exact writeStreamLimits_rl ..
  · exact dataDelivery_rl ..
  · exact resetDelivery_rl ..
  · exact stopDelivery_rl ..
  · exact connLimitDelivery_rl ..
  · exact maxStreamDataDelivery_rl ..

/-- frames never lower a limit: every operation except `transportParams` is monotone,
    without any hypothesis -/
theorem step_rl_mono (c : Conn) (op : Op) (h : op.isTP = false) : rlLe (rl c) (rl (step c op).1) := by
  by_cases ht : op.touchesRemote = false
  · exact rlLe.of_eq (step_rl_eq c op ht)
  · cases op <;> simp [Op.touchesRemote] at ht <;> simp [Op.isTP] at h
    · exact rxMaxData_rl ..
    · exact rxMaxStreams_rl ..

/-- … over all operation sequences without `transportParams` -/
theorem run_rl_mono (c : Conn) (ops : List Op) (h : ∀ op ∈ ops, op.isTP = false) :
    rlLe (rl c) (rl (runState c ops)) := by
  induction ops generalizing c with
  | nil => exact rlLe.refl _
  | cons op ops ih =>
    simp only [runState, List.foldl_cons]
    exact (step_rl_mono c op (h op List.mem_cons_self)).trans (ih _ (fun o ho => h o (List.mem_cons_of_mem _ ho)))

/-- … and over all well-formed sequences (`WFRun`: `transportParams` monotone) -/
theorem run_rl_mono_wf (c : Conn) (ops : List Op) (hwf : WFRun c ops) : rlLe (rl c) (rl (runState c ops)) := by
  induction ops generalizing c with
  | nil => exact rlLe.refl _
  | cons op ops ih =>
    simp only [runState, List.foldl_cons]
    refine rlLe.trans ?_ (ih _ hwf.2)
    by_cases ht : op.isTP = false
    · exact step_rl_mono c op ht
    · cases op <;> simp [Op.isTP] at ht
      exact rxTransportParams_rl c _ hwf.1

/-! ## the hypothesis is only about a second application of transport parameters -/

/-- the delivery part of `Op.wf` (reports exist only for frames that were emitted) -/
def Op.wfD (c : Conn) : Op → Prop
  | .dataDelivery sid _ _ _ _ => notBlocked c sid
  | .resetDelivery sid _ => notBlocked c sid
  | _ => True

def WFRunD (c : Conn) : List Op → Prop
  | [] => True
  | op :: ops => op.wfD c ∧ WFRunD (step c op).1 ops

theorem Op.wf_of_wfD {c : Conn} {op : Op} (h : op.wfD c) (ht : op.isTP = false) : op.wf c := by
  cases op <;> simp [Op.isTP] at ht <;> first | exact h | trivial

theorem wfRun_of_noTP (c : Conn) (ops : List Op) (hd : WFRunD c ops) (h : ∀ op ∈ ops, op.isTP = false) :
    WFRun c ops := by
  induction ops generalizing c with
  | nil => trivial
  | cons op ops ih =>
    exact ⟨Op.wf_of_wfD hd.1 (h op List.mem_cons_self), ih _ hd.2 (fun o ho => h o (List.mem_cons_of_mem _ ho))⟩

theorem WFRunD_append {c : Conn} {a b : List Op} :
    WFRunD c (a ++ b) ↔ (WFRunD c a ∧ WFRunD (runState c a) b) := by
  induction a generalizing c with
  | nil => simp [WFRunD, runState]
  | cons op a ih => simp only [List.cons_append, WFRunD, runState, List.foldl_cons, ih, and_assoc]

theorem WFRun_append {c : Conn} {a b : List Op} :
    WFRun c (a ++ b) ↔ (WFRun c a ∧ WFRun (runState c a) b) := by
  induction a generalizing c with
  | nil => simp [WFRun, runState]
  | cons op a ih => simp only [List.cons_append, WFRun, runState, List.foldl_cons, ih, and_assoc]

theorem run_rl_eq (c : Conn) (ops : List Op) (h : ∀ op ∈ ops, op.touchesRemote = false) :
    rl (runState c ops) = rl c := by
  induction ops generalizing c with
  | nil => rfl
  | cons op ops ih =>
    simp only [runState, List.foldl_cons]
    exact (ih _ (fun o ho => h o (List.mem_cons_of_mem _ ho))).trans (step_rl_eq c op (h op List.mem_cons_self))

/-- A connection that does not resume with remembered parameters (the three limits
    are 0, as `QuicConnection.__init__` sets them) and applies the peer's transport
    parameters ONCE, before any MAX_DATA / MAX_STREAMS frame: the transport-parameter
    clause of `WFRun` holds by itself; only the delivery clause remains. -/
theorem wfRun_single_handshake (c : Conn) (h0 : rl c = (0, 0, 0)) (pre post : List Op) (tp : TP)
    (hpre : ∀ op ∈ pre, op.touchesRemote = false) (hpost : ∀ op ∈ post, op.isTP = false)
    (hd : WFRunD c (pre ++ .transportParams tp :: post)) :
    WFRun c (pre ++ .transportParams tp :: post) := by
  obtain ⟨hd1, hd2⟩ := WFRunD_append.mp hd
  refine WFRun_append.mpr ⟨wfRun_of_noTP c pre hd1 ?_, ?_, wfRun_of_noTP _ post hd2.2 hpost⟩
  · intro op ho
    have := hpre op ho
    cases op <;> simp [Op.touchesRemote] at this <;> rfl
  · have hr := run_rl_eq c pre hpre
    rw [h0] at hr
    simp only [rl, Prod.mk.injEq] at hr
    refine .inr ?_
    show tp.monotone (runState c pre)
    unfold TP.monotone
    rw [hr.1, hr.2.1, hr.2.2]
    exact ⟨fun _ _ => Nat.zero_le _, fun _ _ => Nat.zero_le _, fun _ _ => Nat.zero_le _⟩

/-! ## accepted 0-RTT: the comparison with the remembered values is in the code -/

theorem run_quirks (c : Conn) (hq : c.quirks.raiseBeforeWrite = false) (ops : List Op) :
    (runState c ops).quirks = c.quirks := by
  induction ops generalizing c with
  | nil => rfl
  | cons op ops ih =>
    simp only [runState, List.foldl_cons]
    have h1 := (step_adv c hq op .data).1
    exact (ih _ (by rw [h1]; exact hq)).trans h1

/-- every application of transport parameters in `ops` is a checked one (handshake
    parameters of a server that accepted this client's early data) -/
def AllTPChecked (ops : List Op) : Prop := ∀ tp, Op.transportParams tp ∈ ops → tp.checked = true

/-- fixed code: when every application of transport parameters is a checked one,
    the transport-parameter clause of `WFRun` holds by construction -/
theorem wfRun_of_checked (c : Conn) (hq : c.quirks.raiseBeforeWrite = false ∧ c.quirks.acceptReducedParams = false)
    (ops : List Op) (hd : WFRunD c ops) (h : AllTPChecked ops) : WFRun c ops := by
  induction ops generalizing c with
  | nil => trivial
  | cons op ops ih =>
    have hq' : (step c op).1.quirks = c.quirks := (step_adv c hq.1 op .data).1
    refine ⟨?_, ih _ (by rw [hq']; exact hq) hd.2 (fun tp htp => h tp (List.mem_cons_of_mem _ htp))⟩
    by_cases ht : op.isTP = false
    · exact Op.wf_of_wfD hd.1 ht
    · cases op <;> simp [Op.isTP] at ht
      rename_i tp
      exact .inl ⟨h tp List.mem_cons_self, hq.2⟩

/-- A client that loads the remembered parameters when it connects (first
    application, on limits that are still 0) and whose early data is accepted
    (every later application is checked): the transport-parameter clause of `WFRun`
    holds by construction, whatever the server's parameters are.  Also covers a
    connection without resumption (`rest` without `transportParams`). -/
theorem wfRun_resumed_accepted (c : Conn)
    (hq : c.quirks.raiseBeforeWrite = false ∧ c.quirks.acceptReducedParams = false)
    (h0 : rl c = (0, 0, 0)) (pre rest : List Op) (tp : TP)
    (hpre : ∀ op ∈ pre, op.touchesRemote = false) (hrest : AllTPChecked rest)
    (hd : WFRunD c (pre ++ .transportParams tp :: rest)) :
    WFRun c (pre ++ .transportParams tp :: rest) := by
  obtain ⟨hd1, hd2⟩ := WFRunD_append.mp hd
  have hqp : (runState c pre).quirks = c.quirks := run_quirks c hq.1 pre
  have hq1 : (step (runState c pre) (.transportParams tp)).1.quirks = c.quirks := by
    rw [(step_adv _ (by rw [hqp]; exact hq.1) _ .data).1, hqp]
  refine WFRun_append.mpr ⟨wfRun_of_noTP c pre hd1 ?_, ?_, wfRun_of_checked _ (by rw [hq1]; exact hq) rest hd2.2 hrest⟩
  · intro op ho
    have := hpre op ho
    cases op <;> simp [Op.touchesRemote] at this <;> rfl
  · have hr := run_rl_eq c pre hpre
    rw [h0] at hr
    simp only [rl, Prod.mk.injEq] at hr
    refine .inr ?_
    show tp.monotone (runState c pre)
    unfold TP.monotone
    rw [hr.1, hr.2.1, hr.2.2]
    exact ⟨fun _ _ => Nat.zero_le _, fun _ _ => Nat.zero_le _, fun _ _ => Nat.zero_le _⟩

/-- a checked application either refuses — PROTOCOL_VIOLATION, the state is
    untouched, nothing is written — exactly when a parameter is below the remembered
    value, or it assigns and NONE of the six limits has decreased -/
theorem rxTransportParams_checked (c : Conn) (tp : TP) (hg : tp.guarded c) :
    (tp.reduced c = true ∧ rxTransportParams c tp = (c, Out.connError PROTOCOL_VIOLATION)) ∨
    (tp.reduced c = false ∧ (rxTransportParams c tp).2 = {} ∧
      c.remoteMaxData ≤ (rxTransportParams c tp).1.remoteMaxData ∧
      c.remoteMaxStreamDataBidiLocal ≤ (rxTransportParams c tp).1.remoteMaxStreamDataBidiLocal ∧
      c.remoteMaxStreamDataBidiRemote ≤ (rxTransportParams c tp).1.remoteMaxStreamDataBidiRemote ∧
      c.remoteMaxStreamDataUni ≤ (rxTransportParams c tp).1.remoteMaxStreamDataUni ∧
      c.remoteMaxStreamsBidi ≤ (rxTransportParams c tp).1.remoteMaxStreamsBidi ∧
      c.remoteMaxStreamsUni ≤ (rxTransportParams c tp).1.remoteMaxStreamsUni) := by
  rcases rxTransportParams_guarded hg with ⟨he, hr⟩ | ⟨he, hr⟩
  · exact .inl ⟨hr, he⟩
  · right
    rw [he]
    refine ⟨hr, rfl, ?_⟩
    unfold TP.reduced at hr
    simp only [Bool.or_eq_false_iff, decide_eq_false_iff_not, Nat.not_lt] at hr
    obtain ⟨⟨⟨⟨⟨h1, h2⟩, h3⟩, h4⟩, h5⟩, h6⟩ := hr
    simp only [transportParams]
    refine ⟨?_, ?_, ?_, ?_, ?_, ?_⟩
    · cases hv : tp.maxData <;> simp [hv] at h1 ⊢ <;> omega
    · cases hv : tp.maxStreamDataBidiLocal <;> simp [hv] at h2 ⊢ <;> omega
    · cases hv : tp.maxStreamDataBidiRemote <;> simp [hv] at h3 ⊢ <;> omega
    · cases hv : tp.maxStreamDataUni <;> simp [hv] at h4 ⊢ <;> omega
    · cases hv : tp.maxStreamsBidi <;> simp [hv] at h5 ⊢ <;> omega
    · cases hv : tp.maxStreamsUni <;> simp [hv] at h6 ⊢ <;> omega

end AQ.Flow
