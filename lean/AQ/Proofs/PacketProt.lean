/-
  Helper lemmas for AQ.Props.C02b (packet protection).  Core Lean only.
-/
import AQ.Model.PacketProt

namespace AQ.PacketProt
open AQ

/-! ## bytes -/

theorem u8_forall {P : UInt8 → Prop} (h : ∀ i : Fin 256, P (UInt8.ofNat i.val)) (b : UInt8) : P b := by
  have := h ⟨b.toNat, b.toNat_lt⟩
  simpa using this

theorem u8_and_xor (a b c : UInt8) : (a ^^^ b) &&& c = (a &&& c) ^^^ (b &&& c) := by
  apply UInt8.toNat_inj.1
  simp [Nat.and_xor_distrib_right]

theorem u8_xor_cancel (a m : UInt8) : a ^^^ m ^^^ m = a := by
  rw [UInt8.xor_assoc]; simp

theorem low_hi_0f (m : UInt8) : (m &&& 0x0f) &&& 0x80 = 0 := by
  revert m; apply u8_forall; decide +kernel
theorem low_hi_1f (m : UInt8) : (m &&& 0x1f) &&& 0x80 = 0 := by
  revert m; apply u8_forall; decide +kernel

/-- the first-byte mask never touches the header-form bit … -/
theorem fbMask_hi (b m : UInt8) : fbMask b m &&& 0x80 = b &&& 0x80 := by
  unfold fbMask; split <;> simp [u8_and_xor, low_hi_0f, low_hi_1f]

/-- … hence applying it twice with the same mask byte is the identity -/
theorem fbMask_invol (b m : UInt8) : fbMask (fbMask b m) m = b := by
  have h := fbMask_hi b m
  rw [fbMask.eq_def (fbMask b m) m, h]
  unfold fbMask
  split <;> simp [UInt8.xor_assoc]

theorem fbMask_inj (a b m : UInt8) (h : fbMask a m = fbMask b m) : a = b := by
  rw [← fbMask_invol a m, h, fbMask_invol]

theorem and3_lt (b : UInt8) : (b &&& 0x03).toNat < 4 := by
  revert b; apply u8_forall; decide +kernel

/-! ## nonce -/

theorem u64_shift_zero (pn k : Nat) (hk : 64 ≤ k) : u64 pn >>> k = 0 := by
  unfold u64
  rw [Nat.shiftRight_eq_div_pow]
  apply Nat.div_eq_of_lt
  calc pn % 2 ^ 64 < 2 ^ 64 := Nat.mod_lt _ (by decide)
    _ ≤ 2 ^ k := Nat.pow_le_pow_right (by decide) hk

theorem length_nonceStep (pn : Nat) (n : Bytes) (i : Nat) : (nonceStep pn n i).length = n.length := by
  simp [nonceStep]

theorem length_nonce (iv : Bytes) (pn : Nat) : (nonce iv pn).length = iv.length := by
  simp [nonce, List.range, List.range.loop, length_nonceStep]

/-- the C loop, unrolled on a 12-byte iv -/
theorem nonce_unrolled (a0 a1 a2 a3 a4 a5 a6 a7 a8 a9 a10 a11 : UInt8) (pn : Nat) :
    nonce [a0, a1, a2, a3, a4, a5, a6, a7, a8, a9, a10, a11] pn =
      [a0, a1, a2, a3,
       a4 ^^^ UInt8.ofNat (u64 pn >>> 56), a5 ^^^ UInt8.ofNat (u64 pn >>> 48),
       a6 ^^^ UInt8.ofNat (u64 pn >>> 40), a7 ^^^ UInt8.ofNat (u64 pn >>> 32),
       a8 ^^^ UInt8.ofNat (u64 pn >>> 24), a9 ^^^ UInt8.ofNat (u64 pn >>> 16),
       a10 ^^^ UInt8.ofNat (u64 pn >>> 8), a11 ^^^ UInt8.ofNat (u64 pn >>> 0)] := by
  simp [nonce, nonceStep, List.range, List.range.loop, AEAD_NONCE_LENGTH, List.modify_cons]

theorem len12 (iv : Bytes) (h : iv.length = 12) :
    ∃ a0 a1 a2 a3 a4 a5 a6 a7 a8 a9 a10 a11, iv = [a0, a1, a2, a3, a4, a5, a6, a7, a8, a9, a10, a11] := by
  match iv, h with
  | [a0, a1, a2, a3, a4, a5, a6, a7, a8, a9, a10, a11], _ =>
    exact ⟨a0, a1, a2, a3, a4, a5, a6, a7, a8, a9, a10, a11, rfl⟩

theorem nonce_eq_xor (iv : Bytes) (pn : Nat) (h : iv.length = 12) :
    nonce iv pn = xorBytes iv (beBytes (u64 pn) 12) := by
  obtain ⟨a0, a1, a2, a3, a4, a5, a6, a7, a8, a9, a10, a11, rfl⟩ := len12 iv h
  rw [nonce_unrolled]
  simp [xorBytes, beBytes, u64_shift_zero]


/-! ## big-endian -/

theorem beNat_foldl (bs : Bytes) (a : Nat) :
    bs.foldl (fun a b => a * 256 + b.toNat) a = a * 256 ^ bs.length + beNat bs := by
  induction bs generalizing a with
  | nil => simp [beNat]
  | cons x xs ih =>
    simp only [List.foldl_cons, List.length_cons, beNat]
    rw [ih, ih (0 * 256 + x.toNat)]
    simp [Nat.pow_succ, Nat.add_mul, Nat.mul_assoc, Nat.add_assoc, Nat.mul_comm 256]

theorem beNat_cons (x : UInt8) (xs : Bytes) : beNat (x :: xs) = x.toNat * 256 ^ xs.length + beNat xs := by
  simp only [beNat, List.foldl_cons]
  rw [beNat_foldl]; simp [beNat]

theorem length_beBytes (n k : Nat) : (beBytes n k).length = k := by
  induction k with
  | zero => rfl
  | succ k ih => simp [beBytes, ih]

theorem pow256 (k : Nat) : 256 ^ k = 2 ^ (8 * k) := by
  rw [Nat.pow_mul]

/-- `beBytes` really is the `k`-byte big-endian encoding -/
theorem beNat_beBytes (n k : Nat) : beNat (beBytes n k) = n % 2 ^ (8 * k) := by
  induction k with
  | zero => simp [beBytes, beNat, Nat.mod_one]
  | succ k ih =>
    rw [beBytes, beNat_cons, ih, length_beBytes, pow256]
    have h8 : 8 * (k + 1) = 8 * k + 8 := by omega
    rw [h8, Nat.pow_add, Nat.mod_mul, Nat.shiftRight_eq_div_pow]
    simp [UInt8.toNat_ofNat']
    rw [Nat.mul_comm, Nat.add_comm]

theorem xorBytes_cancel (a b c : Bytes) (hb : a.length = b.length) (hc : a.length = c.length)
    (h : xorBytes a b = xorBytes a c) : b = c := by
  induction a generalizing b c with
  | nil =>
    cases b <;> cases c <;> simp_all
  | cons x xs ih =>
    cases b with
    | nil => simp at hb
    | cons y ys =>
      cases c with
      | nil => simp at hc
      | cons z zs =>
        simp only [xorBytes, List.zipWith_cons_cons, List.cons.injEq] at h
        have h1 : y = z := by simpa using h.1
        have h2 := ih ys zs (by simpa using hb) (by simpa using hc) h.2
        rw [h1, h2]

theorem nonce_inj (iv : Bytes) (pn1 pn2 : Nat) (h : iv.length = 12)
    (h1 : pn1 < 2 ^ 64) (h2 : pn2 < 2 ^ 64) (he : nonce iv pn1 = nonce iv pn2) : pn1 = pn2 := by
  rw [nonce_eq_xor iv pn1 h, nonce_eq_xor iv pn2 h] at he
  have hb := xorBytes_cancel iv _ _ (by rw [length_beBytes, h]) (by rw [length_beBytes, h]) he
  have := congrArg beNat hb
  rw [beNat_beBytes, beNat_beBytes] at this
  unfold u64 at this
  rw [Nat.mod_eq_of_lt h1, Nat.mod_eq_of_lt h2] at this
  have e : (2 : Nat) ^ 64 ≤ 2 ^ (8 * 12) := Nat.pow_le_pow_right (by decide) (by decide)
  rw [Nat.mod_eq_of_lt (Nat.lt_of_lt_of_le h1 e), Nat.mod_eq_of_lt (Nat.lt_of_lt_of_le h2 e)] at this
  exact this

/-! ## header protection: the loops -/

theorem xorPn_succ (buf : Bytes) (off : Nat) (mask : Bytes) (n : Nat) :
    xorPn buf off mask (n + 1) =
      (xorPn buf off mask n).modify (off + n) (fun x => x ^^^ maskAt mask (1 + n)) := by
  simp [xorPn, List.range_succ, List.foldl_append]

theorem length_xorPn (buf : Bytes) (off : Nat) (mask : Bytes) (n : Nat) :
    (xorPn buf off mask n).length = buf.length := by
  induction n with
  | zero => simp [xorPn]
  | succ n ih => rw [xorPn_succ, List.length_modify, ih]

/-- pointwise description of the packet-number loop -/
theorem getElem?_xorPn (buf : Bytes) (off : Nat) (mask : Bytes) (n j : Nat) :
    (xorPn buf off mask n)[j]? =
      if off ≤ j ∧ j < off + n then (buf[j]?).map (fun x => x ^^^ maskAt mask (1 + (j - off)))
      else buf[j]? := by
  induction n with
  | zero =>
    simp only [xorPn, List.range_zero, List.foldl_nil]
    split
    · omega
    · rfl
  | succ n ih =>
    rw [xorPn_succ, List.getElem?_modify, ih]
    by_cases h1 : off + n = j
    · subst h1
      simp
    · by_cases h2 : off ≤ j ∧ j < off + n
      · have h3 : off ≤ j ∧ j < off + (n + 1) := ⟨h2.1, by omega⟩
        simp [h1, h2, h3]
      · have h3 : ¬ (off ≤ j ∧ j < off + (n + 1)) := by omega
        simp [h1, h2, h3]

/-- the `pn_truncated` accumulation, reading the final buffer -/
def truncLoop (b : Bytes) (off n : Nat) : Nat :=
  (List.range n).foldl (fun t i => (b.getD (off + i) 0).toNat ||| ((t <<< 8) % 2 ^ 32)) 0

theorem truncLoop_succ (b : Bytes) (off n : Nat) :
    truncLoop b off (n + 1) = (b.getD (off + n) 0).toNat ||| ((truncLoop b off n <<< 8) % 2 ^ 32) := by
  simp [truncLoop, List.range_succ, List.foldl_append]

theorem truncLoop_congr (b b' : Bytes) (off n : Nat)
    (h : ∀ i, i < n → b.getD (off + i) 0 = b'.getD (off + i) 0) :
    truncLoop b off n = truncLoop b' off n := by
  induction n with
  | zero => rfl
  | succ n ih =>
    rw [truncLoop_succ, truncLoop_succ, ih (fun i hi => h i (by omega)), h n (by omega)]

theorem getD_eq (b : Bytes) (j : Nat) : b.getD j 0 = (b[j]?).getD 0 := by
  simp [List.getD]

theorem fold_pnStep (off : Nat) (mask : Bytes) (n : Nat) (buf : Bytes) :
    (List.range n).foldl (pnStep off mask) (buf, 0) =
      (xorPn buf off mask n, truncLoop (xorPn buf off mask n) off n) := by
  induction n with
  | zero => simp [xorPn, truncLoop]
  | succ n ih =>
    rw [List.range_succ, List.foldl_append, ih]
    simp only [List.foldl_cons, List.foldl_nil, pnStep]
    rw [← xorPn_succ, truncLoop_succ]
    congr 2
    congr 2
    apply truncLoop_congr
    intro i hi
    rw [getD_eq, getD_eq, xorPn_succ, List.getElem?_modify]
    have : n ≠ i := by omega
    simp [this]

theorem beNat_snoc (xs : Bytes) (x : UInt8) : beNat (xs ++ [x]) = beNat xs * 256 + x.toNat := by
  simp [beNat, List.foldl_append]

theorem beNat_lt (xs : Bytes) : beNat xs < 256 ^ xs.length := by
  induction xs with
  | nil => simp [beNat]
  | cons x xs ih =>
    rw [beNat_cons, List.length_cons, Nat.pow_succ]
    have h1 : x.toNat * 256 ^ xs.length ≤ 255 * 256 ^ xs.length :=
      Nat.mul_le_mul_right _ (by have := x.toNat_lt; omega)
    generalize 256 ^ xs.length = P at *
    omega

theorem take_succ_drop (b : Bytes) (off n : Nat) (h : off + n < b.length) :
    (b.drop off).take (n + 1) = (b.drop off).take n ++ [b.getD (off + n) 0] := by
  rw [List.take_add_one, List.getElem?_drop, getD_eq]
  have : b[off + n]? = some b[off + n] := List.getElem?_eq_getElem h
  simp [this]

/-- the accumulated `pn_truncated` is the big-endian value of the unmasked
    packet-number bytes (no `uint32_t` wrap-around for at most 4 bytes) -/
theorem truncLoop_eq_beNat (b : Bytes) (off n : Nat) (hn : n ≤ 4) (hlen : off + n ≤ b.length) :
    truncLoop b off n = beNat ((b.drop off).take n) := by
  induction n with
  | zero => simp [truncLoop, beNat]
  | succ n ih =>
    have ih' := ih (by omega) (by omega)
    rw [truncLoop_succ, ih', take_succ_drop b off n (by omega), beNat_snoc]
    have hl : ((b.drop off).take n).length = n := by
      rw [List.length_take, List.length_drop]; omega
    have hT := beNat_lt ((b.drop off).take n)
    rw [hl] at hT
    have h3 : 256 ^ n ≤ 256 ^ 3 := Nat.pow_le_pow_right (by decide) (by omega)
    have hx := (b.getD (off + n) 0).toNat_lt
    generalize beNat ((b.drop off).take n) = T at *
    generalize (b.getD (off + n) 0).toNat = x at *
    have hT' : T < 16777216 := by
      have : (256 : Nat) ^ 3 = 16777216 := by decide
      omega
    rw [Nat.shiftLeft_eq, Nat.mod_eq_of_lt (by omega), Nat.or_comm]
    have := Nat.shiftLeft_add_eq_or_of_lt (a := T) (b := x) (i := 8) (by omega)
    rw [Nat.shiftLeft_eq] at this
    omega

/-! ## header protection: apply then remove -/

/-- the value `HeaderProtection_apply` returns when its bounds checks pass -/
def applied (mask hdr payload : Bytes) (pnLen : Nat) : Bytes :=
  xorPn ((hdr ++ payload).modify 0 (fun b => fbMask b (maskAt mask 0))) (hdr.length - pnLen) mask pnLen

/-- the plain header `HeaderProtection_remove` reconstructs in its buffer -/
def removedBuf (mask packet : Bytes) (off pnLen : Nat) : Bytes :=
  xorPn ((packet.take (off + 4)).modify 0 (fun b => fbMask b (maskAt mask 0))) off mask pnLen

theorem length_applied (mask hdr payload : Bytes) (pnLen : Nat) :
    (applied mask hdr payload pnLen).length = hdr.length + payload.length := by
  simp [applied, length_xorPn]

theorem getElem?_applied (mask hdr payload : Bytes) (pnLen j : Nat) :
    (applied mask hdr payload pnLen)[j]? =
      if hdr.length - pnLen ≤ j ∧ j < hdr.length - pnLen + pnLen then
        (((hdr ++ payload)[j]?).map (fun a => if 0 = j then fbMask a (maskAt mask 0) else a)).map
          (fun x => x ^^^ maskAt mask (1 + (j - (hdr.length - pnLen))))
      else ((hdr ++ payload)[j]?).map (fun a => if 0 = j then fbMask a (maskAt mask 0) else a) := by
  simp only [applied, getElem?_xorPn, List.getElem?_modify, Functor.map]

theorem getElem?_removedBuf (mask packet : Bytes) (off pnLen j : Nat) :
    (removedBuf mask packet off pnLen)[j]? =
      if off ≤ j ∧ j < off + pnLen then
        ((((packet.take (off + 4))[j]?).map (fun a => if 0 = j then fbMask a (maskAt mask 0) else a)).map
          (fun x => x ^^^ maskAt mask (1 + (j - off))))
      else ((packet.take (off + 4))[j]?).map (fun a => if 0 = j then fbMask a (maskAt mask 0) else a) := by
  simp only [removedBuf, getElem?_xorPn, List.getElem?_modify, Functor.map]

/-- the bytes after the header are not touched by `apply` -/
theorem applied_drop (mask hdr payload : Bytes) (pnLen : Nat) (h1 : 1 ≤ hdr.length) (hp : pnLen ≤ hdr.length) :
    (applied mask hdr payload pnLen).drop hdr.length = payload := by
  apply List.ext_getElem?
  intro i
  rw [List.getElem?_drop, getElem?_applied]
  have h3 : ¬ (hdr.length - pnLen ≤ hdr.length + i ∧ hdr.length + i < hdr.length - pnLen + pnLen) := by omega
  have h4 : ¬ (0 = hdr.length + i) := by omega
  rw [if_neg h3, List.getElem?_append_right (by omega)]
  simp only [h4, if_false, Nat.add_sub_cancel_left]
  cases payload[i]? <;> rfl

/-- removing what was applied (same mask) restores every header byte -/
theorem removed_applied (mask hdr payload : Bytes) (pnLen j : Nat)
    (h1 : pnLen + 1 ≤ hdr.length) (h4 : pnLen ≤ 4) (hj : j < hdr.length) :
    (removedBuf mask (applied mask hdr payload pnLen) (hdr.length - pnLen) pnLen)[j]? = hdr[j]? := by
  rw [getElem?_removedBuf, List.getElem?_take, getElem?_applied]
  generalize hoff : hdr.length - pnLen = off
  have hlen : hdr.length = off + pnLen := by omega
  have hjj : j < off + 4 := by omega
  have hB : (hdr ++ payload)[j]? = some hdr[j] := by
    rw [List.getElem?_append_left hj]; exact List.getElem?_eq_getElem hj
  have hH : hdr[j]? = some hdr[j] := List.getElem?_eq_getElem hj
  rw [if_pos hjj, hB, hH]
  by_cases h0 : j = 0
  · subst h0
    have hn : ¬ (off ≤ 0 ∧ 0 < off + pnLen) := by omega
    rw [if_neg hn, if_neg hn]
    simp only [Option.map_some, if_true, fbMask_invol]
  · have hz : ¬ (0 = j) := by omega
    by_cases hr : off ≤ j
    · have hy : off ≤ j ∧ j < off + pnLen := by omega
      rw [if_pos hy, if_pos hy]
      simp only [Option.map_some, hz, if_false, u8_xor_cancel]
    · have hy : ¬ (off ≤ j ∧ j < off + pnLen) := by omega
      rw [if_neg hy, if_neg hy]
      simp only [Option.map_some, hz, if_false]

/-- pn length announced by the (plain) first byte -/
def pnLenOf (b : UInt8) : Nat := (b &&& 0x03).toNat + 1

theorem pnLenOf_le (b : UInt8) : 1 ≤ pnLenOf b ∧ pnLenOf b ≤ 4 := by
  have := and3_lt b; unfold pnLenOf; omega

theorem hpApply_eq (maskOf : Bytes → Bytes) (b0 : UInt8) (tl payload : Bytes)
    (hlen : (b0 :: tl).length + payload.length ≤ 1500)
    (hpn : pnLenOf b0 ≤ (b0 :: tl).length)
    (hpay : 4 - pnLenOf b0 + 16 ≤ payload.length) :
    hpApply maskOf (b0 :: tl) payload =
      .ok (applied (maskOf (sampleOfPayload payload (pnLenOf b0))) (b0 :: tl) payload (pnLenOf b0)) := by
  unfold hpApply
  have c1 : ¬ ((b0 :: tl).length > PACKET_LENGTH_MAX ∨ payload.length > PACKET_LENGTH_MAX - (b0 :: tl).length) := by
    simp only [PACKET_LENGTH_MAX]; omega
  have c2 : ¬ ((b0 :: tl).length < (b0 &&& 0x03).toNat + 1 ∨
      payload.length < PACKET_NUMBER_LENGTH_MAX - ((b0 &&& 0x03).toNat + 1) + SAMPLE_LENGTH) := by
    simp only [PACKET_NUMBER_LENGTH_MAX, SAMPLE_LENGTH]; unfold pnLenOf at hpn hpay; omega
  simp only [if_neg c1, if_neg c2]
  rfl

theorem hpRemove_eq (maskOf : Bytes → Bytes) (packet : Bytes) (off : Nat)
    (hoff : off ≤ 1496) (hlen : off + 4 + 16 ≤ packet.length) :
    hpRemove maskOf packet off =
      let mask := maskOf (sampleOfPacket packet off)
      let pnLen := pnLenOf (fbMask (packet.getD 0 0) (maskAt mask 0))
      .ok ((removedBuf mask packet off pnLen).take (off + pnLen),
           truncLoop (removedBuf mask packet off pnLen) off pnLen) := by
  unfold hpRemove
  have c1 : ¬ (off > PACKET_LENGTH_MAX - PACKET_NUMBER_LENGTH_MAX ∨
      packet.length < off + PACKET_NUMBER_LENGTH_MAX + SAMPLE_LENGTH) := by
    simp only [PACKET_LENGTH_MAX, PACKET_NUMBER_LENGTH_MAX, SAMPLE_LENGTH]; omega
  rw [if_neg c1]
  simp only [fold_pnStep, PACKET_NUMBER_LENGTH_MAX]
  have h0 : ((packet.take (off + 4)).modify 0 (fun b => fbMask b (maskAt (maskOf (sampleOfPacket packet off)) 0))).getD 0 0
      = fbMask (packet.getD 0 0) (maskAt (maskOf (sampleOfPacket packet off)) 0) := by
    cases packet with
    | nil => simp at hlen
    | cons x xs => simp [List.take_succ_cons, List.modify_cons]
  rw [h0]
  rfl

/-- the sample the receiver reads is the sample the sender used -/
theorem sample_applied (mask hdr payload : Bytes) (pnLen : Nat) (h1 : pnLen + 1 ≤ hdr.length) (h4 : pnLen ≤ 4) :
    sampleOfPacket (applied mask hdr payload pnLen) (hdr.length - pnLen) = sampleOfPayload payload pnLen := by
  unfold sampleOfPacket sampleOfPayload
  simp only [PACKET_NUMBER_LENGTH_MAX]
  have e : hdr.length - pnLen + 4 = hdr.length + (4 - pnLen) := by omega
  rw [e, ← List.drop_drop, applied_drop mask hdr payload pnLen (by omega) (by omega)]

theorem take_removed_applied (mask hdr payload : Bytes) (pnLen : Nat)
    (h1 : pnLen + 1 ≤ hdr.length) (h4 : pnLen ≤ 4) :
    (removedBuf mask (applied mask hdr payload pnLen) (hdr.length - pnLen) pnLen).take hdr.length = hdr := by
  apply List.ext_getElem?
  intro j
  rw [List.getElem?_take]
  split
  · rename_i hj
    exact removed_applied mask hdr payload pnLen j h1 h4 hj
  · rename_i hj
    rw [List.getElem?_eq_none (by omega)]

theorem length_removedBuf (mask packet : Bytes) (off pnLen : Nat) :
    (removedBuf mask packet off pnLen).length = min (off + 4) packet.length := by
  simp [removedBuf, length_xorPn]

theorem applied_head (mask : Bytes) (b0 : UInt8) (tl payload : Bytes) (pnLen : Nat)
    (h1 : pnLen + 1 ≤ (b0 :: tl).length) :
    (applied mask (b0 :: tl) payload pnLen).getD 0 0 = fbMask b0 (maskAt mask 0) := by
  rw [getD_eq, getElem?_applied]
  have hn : ¬ ((b0 :: tl).length - pnLen ≤ 0 ∧ 0 < (b0 :: tl).length - pnLen + pnLen) := by omega
  rw [if_neg hn]
  simp

/-- `remove` after `apply`, same key: the plain header and its truncated packet number -/
theorem hp_roundtrip_cons (maskOf : Bytes → Bytes) (b0 : UInt8) (tl payload : Bytes)
    (h1 : pnLenOf b0 + 1 ≤ (b0 :: tl).length)
    (hlen : (b0 :: tl).length + payload.length ≤ 1500)
    (hpay : 4 - pnLenOf b0 + 16 ≤ payload.length) :
    ∃ x, hpApply maskOf (b0 :: tl) payload = .ok x ∧
      x = applied (maskOf (sampleOfPayload payload (pnLenOf b0))) (b0 :: tl) payload (pnLenOf b0) ∧
      hpRemove maskOf x ((b0 :: tl).length - pnLenOf b0) =
        .ok (b0 :: tl, beNat ((b0 :: tl).drop ((b0 :: tl).length - pnLenOf b0))) := by
  have hp4 := (pnLenOf_le b0).2
  refine ⟨_, hpApply_eq maskOf b0 tl payload hlen (by omega) hpay, rfl, ?_⟩
  generalize hm : maskOf (sampleOfPayload payload (pnLenOf b0)) = mask
  generalize hh : b0 :: tl = hdr at *
  generalize hn : pnLenOf b0 = pnLen at *
  have hxl := length_applied mask hdr payload pnLen
  rw [hpRemove_eq maskOf _ _ (by omega) (by omega)]
  simp only []
  rw [sample_applied mask hdr payload pnLen h1 hp4, hm]
  have hhead : (applied mask hdr payload pnLen).getD 0 0 = fbMask b0 (maskAt mask 0) := by
    rw [← hh]; exact applied_head mask b0 tl payload pnLen (by rw [hh]; exact h1)
  rw [hhead, fbMask_invol, hn]
  have e : hdr.length - pnLen + pnLen = hdr.length := by omega
  have ht := take_removed_applied mask hdr payload pnLen h1 hp4
  rw [e, ht]
  congr 2
  rw [truncLoop_eq_beNat _ _ _ hp4 (by rw [length_removedBuf, hxl]; omega)]
  congr 1
  have : ((removedBuf mask (applied mask hdr payload pnLen) (hdr.length - pnLen) pnLen).drop
        (hdr.length - pnLen)).take pnLen = hdr.drop (hdr.length - pnLen) := by
    have h2 := congrArg (List.drop (hdr.length - pnLen)) ht
    rw [List.drop_take] at h2
    have e2 : hdr.length - (hdr.length - pnLen) = pnLen := by omega
    rw [e2] at h2
    exact h2
  exact this

/-! ## header protection: remove then apply (what was accepted had been produced by `apply`) -/

theorem length_take_removedBuf (mask x : Bytes) (off pnLen : Nat) (h4 : pnLen ≤ 4) (hlen : off + 4 ≤ x.length) :
    ((removedBuf mask x off pnLen).take (off + pnLen)).length = off + pnLen := by
  rw [List.length_take, length_removedBuf]; omega

theorem applied_removed (mask x : Bytes) (off pnLen : Nat) (h1 : 1 ≤ off) (h4 : pnLen ≤ 4)
    (hlen : off + 4 ≤ x.length) :
    applied mask ((removedBuf mask x off pnLen).take (off + pnLen)) (x.drop (off + pnLen)) pnLen = x := by
  have hl := length_take_removedBuf mask x off pnLen h4 hlen
  apply List.ext_getElem?
  intro j
  rw [getElem?_applied, hl]
  have e : off + pnLen - pnLen = off := by omega
  rw [e]
  by_cases hj : j < off + pnLen
  · have hjx : j < x.length := by omega
    have hX : x[j]? = some x[j] := List.getElem?_eq_getElem hjx
    rw [List.getElem?_append_left (by rw [hl]; exact hj), List.getElem?_take, if_pos hj,
      getElem?_removedBuf, List.getElem?_take, if_pos (by omega : j < off + 4), hX]
    by_cases h0 : j = 0
    · subst h0
      have hn : ¬ (off ≤ 0 ∧ 0 < off + pnLen) := by omega
      rw [if_neg hn, if_neg hn]
      simp only [Option.map_some, if_true, fbMask_invol]
    · have hz : ¬ (0 = j) := by omega
      by_cases hr : off ≤ j
      · have hy : off ≤ j ∧ j < off + pnLen := ⟨hr, hj⟩
        rw [if_pos hy, if_pos hy]
        simp only [Option.map_some, hz, if_false, u8_xor_cancel]
      · have hy : ¬ (off ≤ j ∧ j < off + pnLen) := by omega
        rw [if_neg hy, if_neg hy]
        simp only [Option.map_some, hz, if_false]
  · have hy : ¬ (off ≤ j ∧ j < off + pnLen) := by omega
    have hz : ¬ (0 = j) := by omega
    rw [if_neg hy, List.getElem?_append_right (by rw [hl]; omega), hl, List.getElem?_drop]
    have e2 : off + pnLen + (j - (off + pnLen)) = j := by omega
    rw [e2]
    simp only [hz, if_false]
    cases x[j]? <;> rfl

theorem removedBuf_head (mask x : Bytes) (off pnLen : Nat) (h1 : 1 ≤ off) (hlen : off + 4 ≤ x.length) :
    ((removedBuf mask x off pnLen).take (off + pnLen)).getD 0 0 = fbMask (x.getD 0 0) (maskAt mask 0) := by
  rw [getD_eq, getD_eq, List.getElem?_take, if_pos (by omega : 0 < off + pnLen), getElem?_removedBuf]
  have hn : ¬ (off ≤ 0 ∧ 0 < off + pnLen) := by omega
  rw [if_neg hn, List.getElem?_take, if_pos (by omega : 0 < off + 4)]
  have : x[0]? = some x[0] := List.getElem?_eq_getElem (by omega)
  simp [this]

/-- everything `HeaderProtection_remove` tells about an accepted packet -/
theorem hpRemove_inv (maskOf : Bytes → Bytes) (x : Bytes) (off : Nat) (hdr : Bytes) (t : Nat)
    (h1 : 1 ≤ off) (h : hpRemove maskOf x off = .ok (hdr, t)) :
    let pnLen := pnLenOf (hdr.getD 0 0)
    off ≤ 1496 ∧ off + 20 ≤ x.length ∧ hdr.length = off + pnLen ∧
    x = applied (maskOf (sampleOfPacket x off)) hdr (x.drop hdr.length) pnLen ∧
    sampleOfPayload (x.drop hdr.length) pnLen = sampleOfPacket x off ∧
    t = beNat (hdr.drop off) := by
  by_cases hb : off > PACKET_LENGTH_MAX - PACKET_NUMBER_LENGTH_MAX ∨
      x.length < off + PACKET_NUMBER_LENGTH_MAX + SAMPLE_LENGTH
  · unfold hpRemove at h; rw [if_pos hb] at h; cases h
  · have hb' : off ≤ 1496 ∧ off + 4 + 16 ≤ x.length := by
      simp only [PACKET_LENGTH_MAX, PACKET_NUMBER_LENGTH_MAX, SAMPLE_LENGTH] at hb; omega
    rw [hpRemove_eq maskOf x off hb'.1 hb'.2] at h
    simp only [Except.ok.injEq, Prod.mk.injEq] at h
    obtain ⟨hh, ht⟩ := h
    generalize hm : maskOf (sampleOfPacket x off) = mask at *
    generalize hq : pnLenOf (fbMask (x.getD 0 0) (maskAt mask 0)) = q at *
    have hq4 : q ≤ 4 := by rw [← hq]; exact (pnLenOf_le _).2
    have hq1 : 1 ≤ q := by rw [← hq]; exact (pnLenOf_le _).1
    have hhead : hdr.getD 0 0 = fbMask (x.getD 0 0) (maskAt mask 0) := by
      rw [← hh]; exact removedBuf_head mask x off q h1 (by omega)
    have hpl : pnLenOf (hdr.getD 0 0) = q := by rw [hhead, hq]
    have hl : hdr.length = off + q := by rw [← hh]; exact length_take_removedBuf mask x off q hq4 (by omega)
    simp only [hpl]
    refine ⟨hb'.1, by omega, hl, ?_, ?_, ?_⟩
    · rw [hl, ← hh]; exact (applied_removed mask x off q h1 hq4 (by omega)).symm
    · unfold sampleOfPayload sampleOfPacket
      simp only [PACKET_NUMBER_LENGTH_MAX]
      rw [List.drop_drop, hl]
      congr 2; omega
    · rw [← ht, truncLoop_eq_beNat _ _ _ hq4 (by rw [length_removedBuf]; omega), ← hh, List.drop_take]
      congr 2; omega

end AQ.PacketProt
