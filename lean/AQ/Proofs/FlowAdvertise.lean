/-
  The enforced connection-level limit (`_local_max_data.value`) changes only
  together with a MAX_DATA frame advertising exactly the new value (fixed
  `_write_connection_limits`), for every operation.
-/
import AQ.Proofs.FlowBounds

namespace AQ.Flow
open AQ AQ.Stream AQ.RangeSet

theorem getOrCreateStreamForSend_lmd {c c' : Conn} {sid : Nat} {st : Strm}
    (hg : getOrCreateStreamForSend c sid = .ok (c', st)) :
    c'.localMaxData = c.localMaxData ∧ c'.quirks = c.quirks := by
  unfold getOrCreateStreamForSend at hg
  repeat' split at hg
  all_goals (simp at hg)
  all_goals (obtain ⟨rfl, _⟩ := hg; exact ⟨rfl, rfl⟩)

theorem getOrCreateStream_lmd {c c' : Conn} {sid : Nat} {st : Strm}
    (hg : getOrCreateStream c sid = .ok (c', st)) :
    c'.localMaxData = c.localMaxData ∧ c'.quirks = c.quirks := by
  unfold getOrCreateStream at hg
  simp only [] at hg
  repeat' split at hg
  all_goals (simp at hg)
  all_goals (obtain ⟨rfl, _⟩ := hg; exact ⟨rfl, rfl⟩)

/-- the part of the state the advertisement theorem talks about -/
def lmdq (c : Conn) : Nat × Quirks := (c.localMaxData.value, c.quirks)

theorem sendStreamData_lmdq (c : Conn) (sid : Nat) (d : Bytes) (fin : Bool) :
    lmdq (sendStreamData c sid d fin).1 = lmdq c := by
  unfold sendStreamData
  split
  · rfl
  · rename_i c' st hg
    have := getOrCreateStreamForSend_lmd hg
    split <;> simp [lmdq, Conn.setStrm, this]

theorem resetStream_lmdq (c : Conn) (sid code : Nat) : lmdq (resetStream c sid code).1 = lmdq c := by
  unfold resetStream
  split
  · rfl
  · rename_i c' st hg
    have := getOrCreateStreamForSend_lmd hg
    simp [lmdq, Conn.setStrm, this]

theorem stopStream_lmdq (c : Conn) (sid : Nat) : lmdq (stopStream c sid).1 = lmdq c := by
  unfold stopStream
  repeat' split
  all_goals rfl

theorem rxMaxData_lmdq (c : Conn) (v : Nat) : lmdq (rxMaxData c v).1 = lmdq c := by
  unfold rxMaxData; split <;> rfl

theorem unblockStreams_lmdq (c : Conn) (uni : Bool) : lmdq (unblockStreams c uni) = lmdq c := by
  unfold unblockStreams; split <;> rfl

theorem rxMaxStreams_lmdq (c : Conn) (uni : Bool) (v : Nat) : lmdq (rxMaxStreams c uni v).1 = lmdq c := by
  unfold rxMaxStreams
  repeat' split
  all_goals first | rfl | (simp only []; rw [unblockStreams_lmdq]; rfl)

theorem rxMaxStreamData_lmdq (c : Conn) (sid v : Nat) : lmdq (rxMaxStreamData c sid v).1 = lmdq c := by
  unfold rxMaxStreamData
  split
  · rfl
  · split
    · rfl
    · rename_i c' st hg
      have := getOrCreateStream_lmd hg
      split <;> simp [lmdq, Conn.setStrm, this]

theorem rxStopSending_lmdq (c : Conn) (sid : Nat) : lmdq (rxStopSending c sid).1 = lmdq c := by
  unfold rxStopSending
  split
  · rfl
  · split
    · rfl
    · rename_i c' st hg
      have := getOrCreateStream_lmd hg
      simp [lmdq, Conn.setStrm, this]

theorem rxStreamDataBlocked_lmdq (c : Conn) (sid : Nat) : lmdq (rxStreamDataBlocked c sid).1 = lmdq c := by
  unfold rxStreamDataBlocked
  split
  · rfl
  · split
    · rfl
    · rename_i c' st hg
      have := getOrCreateStream_lmd hg
      simp [lmdq, this]

theorem rxStream_lmdq (c : Conn) (sid off : Nat) (d : Bytes) (fin : Bool) :
    lmdq (rxStream c sid off d fin).1 = lmdq c := by
  unfold rxStream
  simp only []
  split
  · rfl
  · split
    · rfl
    · split
      · rfl
      · rename_i c' st hg
        have := getOrCreateStream_lmd hg
        repeat' split
        all_goals simp [lmdq, Conn.setStrm, this]

theorem rxResetStream_lmdq (c : Conn) (sid z : Nat) : lmdq (rxResetStream c sid z).1 = lmdq c := by
  unfold rxResetStream
  split
  · rfl
  · split
    · rfl
    · rename_i c' st hg
      have := getOrCreateStream_lmd hg
      simp only []
      repeat' split
      all_goals simp [lmdq, Conn.setStrm, this]

theorem serve_lmdq (c : Conn) (sid : Nat) (a b : Bool) (fs : Int) : lmdq (serve c sid a b fs).1 = lmdq c := by
  unfold serve
  simp only []
  repeat' split
  all_goals rfl

theorem writeStreamLimits_lmdq (c : Conn) (sid : Nat) (room : Bool) :
    lmdq (writeStreamLimits c sid room).1 = lmdq c := by
  unfold writeStreamLimits
  simp only []
  repeat' split
  all_goals rfl

theorem writeStreamLimits_no_maxData (c : Conn) (sid : Nat) (room : Bool) (v : Nat) :
    WFrame.maxData v ∉ (writeStreamLimits c sid room).2.frames := by
  intro h
  unfold writeStreamLimits at h
  simp only [] at h
  repeat' split at h
  all_goals simp [Out.error] at h

theorem dataDelivery_lmdq (c : Conn) (sid : Nat) (d : Delivery) (a b : Nat) (fin : Bool) :
    lmdq (dataDelivery c sid d a b fin).1 = lmdq c := by
  unfold dataDelivery
  repeat' split
  all_goals rfl

theorem resetDelivery_lmdq (c : Conn) (sid : Nat) (d : Delivery) : lmdq (resetDelivery c sid d).1 = lmdq c := by
  unfold resetDelivery; split <;> rfl

theorem stopDelivery_lmdq (c : Conn) (sid : Nat) (d : Delivery) : lmdq (stopDelivery c sid d).1 = lmdq c := by
  unfold stopDelivery
  repeat' split
  all_goals rfl

theorem connLimitDelivery_lmdq (c : Conn) (k : LimitKind) (d : Delivery) :
    lmdq (connLimitDelivery c k d) = lmdq c := by
  unfold connLimitDelivery
  split
  · cases k <;> rfl
  · rfl

theorem maxStreamDataDelivery_lmdq (c : Conn) (sid : Nat) (d : Delivery) :
    lmdq (maxStreamDataDelivery c sid d) = lmdq c := by
  unfold maxStreamDataDelivery
  repeat' split
  all_goals rfl

/-- `_write_connection_limits`, fixed code: MAX_DATA frames and the enforced
    value go together -/
theorem writeConnLimits_maxData (c : Conn) (hq : c.quirks.raiseBeforeWrite = false) (r1 r2 r3 : Bool) :
    (writeConnLimits c r1 r2 r3).1.quirks = c.quirks ∧
    (((∀ v, WFrame.maxData v ∉ (writeConnLimits c r1 r2 r3).2.frames) ∧
        (writeConnLimits c r1 r2 r3).1.localMaxData.value = c.localMaxData.value) ∨
     (∃ v, (∀ w, WFrame.maxData w ∈ (writeConnLimits c r1 r2 r3).2.frames ↔ w = v) ∧
        (writeConnLimits c r1 r2 r3).1.localMaxData.value = v ∧ c.localMaxData.value ≤ v)) := by
  have hspec := writeLimit_spec c.quirks hq c.localMaxData r1
  unfold writeConnLimits
  simp only []
  generalize writeLimit c.quirks c.localMaxData r1 = p1 at hspec ⊢
  obtain ⟨l1, w1, s1⟩ := p1
  generalize writeLimit c.quirks c.localMaxStreamsBidi r2 = p2
  obtain ⟨l2, w2, s2⟩ := p2
  generalize writeLimit c.quirks c.localMaxStreamsUni r3 = p3
  obtain ⟨l3, w3, s3⟩ := p3
  simp only [] at hspec ⊢
  rcases hspec with ⟨rfl, h2, _⟩ | ⟨v, rfl, h2, _, h4, rfl⟩
  · refine ⟨?_, .inl ⟨?_, ?_⟩⟩
    · cases s1 <;> cases s2 <;> cases s3 <;> simp
    · cases s1 <;> cases s2 <;> cases s3 <;> cases w2 <;> cases w3 <;> simp
    · cases s1 <;> cases s2 <;> cases s3 <;> simp [h2]
  · refine ⟨?_, .inr ⟨v, ?_, ?_, h4⟩⟩
    · cases s2 <;> cases s3 <;> simp
    · intro w; cases s2 <;> cases s3 <;> cases w2 <;> cases w3 <;> simp <;> exact eq_comm
    · cases s2 <;> cases s3 <;> simp [h2]

/-- every operation: the enforced connection limit either stays, or a MAX_DATA
    frame with exactly the new (larger) value is written by the same operation;
    and a MAX_DATA frame is only written with the value that is then enforced -/
theorem step_maxData (c : Conn) (hq : c.quirks.raiseBeforeWrite = false) (op : Op) :
    (step c op).1.quirks = c.quirks ∧
    (((∀ v, WFrame.maxData v ∉ (step c op).2.frames) ∧
        (step c op).1.localMaxData.value = c.localMaxData.value) ∨
     (∃ v, (∀ w, WFrame.maxData w ∈ (step c op).2.frames ↔ w = v) ∧
        (step c op).1.localMaxData.value = v ∧ c.localMaxData.value ≤ v)) := by
  have key : ∀ (p : Conn × Out), lmdq p.1 = lmdq c → p.2.frames = [] →
      p.1.quirks = c.quirks ∧ (((∀ v, WFrame.maxData v ∉ p.2.frames) ∧ p.1.localMaxData.value = c.localMaxData.value) ∨
        (∃ v, (∀ w, WFrame.maxData w ∈ p.2.frames ↔ w = v) ∧ p.1.localMaxData.value = v ∧ c.localMaxData.value ≤ v)) := by
    intro p h1 h2
    simp only [lmdq, Prod.mk.injEq] at h1
    exact ⟨h1.2, .inl ⟨by rw [h2]; simp, h1.1⟩⟩
  cases op <;> simp only [step]
  · exact key _ (sendStreamData_lmdq ..) (sendStreamData_frames ..)
  · exact key _ (resetStream_lmdq ..) (resetStream_frames ..)
  · exact key _ (stopStream_lmdq ..) (stopStream_frames ..)
  · exact key _ (rxMaxData_lmdq ..) (rxMaxData_frames ..)
  · exact key _ (rxMaxStreamData_lmdq ..) (rxMaxStreamData_frames ..)
  · exact key _ (rxMaxStreams_lmdq ..) (rxMaxStreams_frames ..)
  · exact key (_, {}) rfl rfl
  · exact key (_, {}) (unblockStreams_lmdq ..) rfl
  · exact key _ (rxStopSending_lmdq ..) (rxStopSending_frames ..)
  · exact key _ (rxStreamDataBlocked_lmdq ..) (rxStreamDataBlocked_frames ..)
  · exact key _ (rxStream_lmdq ..) (rxStream_frames ..)
  · exact key _ (rxResetStream_lmdq ..) (rxResetStream_frames ..)
  · rename_i sid a b fs
    have h1 := serve_lmdq c sid a b fs
    simp only [lmdq, Prod.mk.injEq] at h1
    refine ⟨h1.2, .inl ⟨?_, h1.1⟩⟩
    intro v hv
    have := (serve_frames hv).1
    simp [frameStreamId] at this
  · exact writeConnLimits_maxData c hq _ _ _
  · rename_i sid room
    have h1 := writeStreamLimits_lmdq c sid room
    simp only [lmdq, Prod.mk.injEq] at h1
    exact ⟨h1.2, .inl ⟨fun v => writeStreamLimits_no_maxData c sid room v, h1.1⟩⟩
  · exact key _ (dataDelivery_lmdq ..) (dataDelivery_frames ..)
  · exact key _ (resetDelivery_lmdq ..) (resetDelivery_frames ..)
  · exact key _ (stopDelivery_lmdq ..) (stopDelivery_frames ..)
  · exact key (_, {}) (connLimitDelivery_lmdq ..) rfl
  · exact key (_, {}) (maxStreamDataDelivery_lmdq ..) rfl

/-- the MAX_DATA values written by a sequence of outputs -/
def advertised (outs : List Out) : List Nat :=
  outs.flatMap fun o => o.frames.filterMap fun f => match f with | .maxData v => some v | _ => none

theorem mem_advertised_cons (o : Out) (outs : List Out) (v : Nat) :
    v ∈ advertised (o :: outs) ↔ (WFrame.maxData v ∈ o.frames ∨ v ∈ advertised outs) := by
  unfold advertised
  simp only [List.flatMap_cons, List.mem_append, List.mem_filterMap]
  constructor
  · rintro (⟨f, hf, hv⟩ | h)
    · left; cases f <;> simp at hv; subst hv; exact hf
    · exact .inr h
  · rintro (h | h)
    · exact .inl ⟨_, h, rfl⟩
    · exact .inr h

end AQ.Flow
