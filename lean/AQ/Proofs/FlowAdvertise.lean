/-
  The enforced connection-level limit (`_local_max_data.value`) changes only
  together with a MAX_DATA frame advertising exactly the new value (fixed
  `_write_connection_limits`), for every operation.
-/
import AQ.Proofs.FlowBounds

namespace AQ.Flow
open AQ AQ.Stream AQ.RangeSet

theorem getOrCreateStreamForSend_lmd {c c' : Conn} {sid : Nat} {st : Strm}
    (hg : getOrCreateStreamForSend c sid = .ok (c', st)) :
    c'.localMaxData = c.localMaxData ∧ c'.quirks = c.quirks ∧
    c'.localMaxStreamsBidi.value = c.localMaxStreamsBidi.value ∧
    c'.localMaxStreamsUni.value = c.localMaxStreamsUni.value := by
  unfold getOrCreateStreamForSend at hg
  repeat' split at hg
  all_goals (simp at hg)
  all_goals (obtain ⟨rfl, _⟩ := hg; exact ⟨rfl, rfl, rfl, rfl⟩)

theorem getOrCreateStream_lmd {c c' : Conn} {sid : Nat} {st : Strm}
    (hg : getOrCreateStream c sid = .ok (c', st)) :
    c'.localMaxData = c.localMaxData ∧ c'.quirks = c.quirks ∧
    c'.localMaxStreamsBidi.value = c.localMaxStreamsBidi.value ∧
    c'.localMaxStreamsUni.value = c.localMaxStreamsUni.value := by
  unfold getOrCreateStream at hg
  simp only [] at hg
  repeat' split at hg
  all_goals (simp at hg)
  all_goals (obtain ⟨rfl, _⟩ := hg; refine ⟨rfl, rfl, ?_, ?_⟩ <;> (first | rfl | (simp only []; split <;> rfl)))

/-- the part of the state the advertisement theorem talks about -/
def lmdq (c : Conn) : Nat × Nat × Nat × Quirks :=
  (c.localMaxData.value, c.localMaxStreamsBidi.value, c.localMaxStreamsUni.value, c.quirks)

theorem sendStreamData_lmdq (c : Conn) (sid : Nat) (d : Bytes) (fin : Bool) :
    lmdq (sendStreamData c sid d fin).1 = lmdq c := by
  unfold sendStreamData
  split
  · rfl
  · rename_i c' st hg
    have := getOrCreateStreamForSend_lmd hg
    split <;> simp [lmdq, Conn.setStrm, this]

theorem resetStream_lmdq (c : Conn) (sid code : Nat) : lmdq (resetStream c sid code).1 = lmdq c := by
  unfold resetStream
  split
  · rfl
  · rename_i c' st hg
    have := getOrCreateStreamForSend_lmd hg
    simp [lmdq, Conn.setStrm, this]

theorem stopStream_lmdq (c : Conn) (sid : Nat) : lmdq (stopStream c sid).1 = lmdq c := by
  unfold stopStream
  repeat' split
  all_goals rfl

theorem rxMaxData_lmdq (c : Conn) (v : Nat) : lmdq (rxMaxData c v).1 = lmdq c := by
  unfold rxMaxData; split <;> rfl

theorem unblockStreams_lmdq (c : Conn) (uni : Bool) : lmdq (unblockStreams c uni) = lmdq c := by
  unfold unblockStreams; split <;> rfl

theorem rxMaxStreams_lmdq (c : Conn) (uni : Bool) (v : Nat) : lmdq (rxMaxStreams c uni v).1 = lmdq c := by
  unfold rxMaxStreams
  repeat' split
  all_goals first | rfl | (simp only []; rw [unblockStreams_lmdq]; rfl)

theorem rxMaxStreamData_lmdq (c : Conn) (sid v : Nat) : lmdq (rxMaxStreamData c sid v).1 = lmdq c := by
  unfold rxMaxStreamData
  split
  · rfl
  · split
    · rfl
    · rename_i c' st hg
      have := getOrCreateStream_lmd hg
      split <;> simp [lmdq, Conn.setStrm, this]

theorem rxStopSending_lmdq (c : Conn) (sid : Nat) : lmdq (rxStopSending c sid).1 = lmdq c := by
  unfold rxStopSending
  split
  · rfl
  · split
    · rfl
    · rename_i c' st hg
      have := getOrCreateStream_lmd hg
      simp [lmdq, Conn.setStrm, this]

theorem rxStreamDataBlocked_lmdq (c : Conn) (sid : Nat) : lmdq (rxStreamDataBlocked c sid).1 = lmdq c := by
  unfold rxStreamDataBlocked
  split
  · rfl
  · split
    · rfl
    · rename_i c' st hg
      have := getOrCreateStream_lmd hg
      simp [lmdq, this]

theorem rxStream_lmdq (c : Conn) (sid off : Nat) (d : Bytes) (fin : Bool) :
    lmdq (rxStream c sid off d fin).1 = lmdq c := by
  unfold rxStream
  simp only []
  split
  · rfl
  · split
    · rfl
    · split
      · rfl
      · rename_i c' st hg
        have := getOrCreateStream_lmd hg
        repeat' split
        all_goals simp [lmdq, Conn.setStrm, this]

theorem rxResetStream_lmdq (c : Conn) (sid z : Nat) : lmdq (rxResetStream c sid z).1 = lmdq c := by
  unfold rxResetStream
  split
  · rfl
  · split
    · rfl
    · rename_i c' st hg
      have := getOrCreateStream_lmd hg
      simp only []
      repeat' split
      all_goals simp [lmdq, Conn.setStrm, this]

theorem serve_lmdq (c : Conn) (sid : Nat) (a b : Bool) (fs : Int) : lmdq (serve c sid a b fs).1 = lmdq c := by
  unfold serve
  simp only []
  repeat' split
  all_goals rfl

theorem writeStreamLimits_lmdq (c : Conn) (sid : Nat) (room : Bool) :
    lmdq (writeStreamLimits c sid room).1 = lmdq c := by
  unfold writeStreamLimits
  simp only []
  repeat' split
  all_goals rfl

theorem writeStreamLimits_no_maxData (c : Conn) (sid : Nat) (room : Bool) (v : Nat) :
    WFrame.maxData v ∉ (writeStreamLimits c sid room).2.frames := by
  intro h
  unfold writeStreamLimits at h
  simp only [] at h
  repeat' split at h
  all_goals simp [Out.error] at h

theorem dataDelivery_lmdq (c : Conn) (sid : Nat) (d : Delivery) (a b : Nat) (fin : Bool) :
    lmdq (dataDelivery c sid d a b fin).1 = lmdq c := by
  unfold dataDelivery
  repeat' split
  all_goals rfl

theorem resetDelivery_lmdq (c : Conn) (sid : Nat) (d : Delivery) : lmdq (resetDelivery c sid d).1 = lmdq c := by
  unfold resetDelivery; split <;> rfl

theorem stopDelivery_lmdq (c : Conn) (sid : Nat) (d : Delivery) : lmdq (stopDelivery c sid d).1 = lmdq c := by
  unfold stopDelivery
  repeat' split
  all_goals rfl

theorem connLimitDelivery_lmdq (c : Conn) (k : LimitKind) (d : Delivery) :
    lmdq (connLimitDelivery c k d) = lmdq c := by
  unfold connLimitDelivery
  split
  · cases k <;> rfl
  · rfl

theorem maxStreamDataDelivery_lmdq (c : Conn) (sid : Nat) (d : Delivery) :
    lmdq (maxStreamDataDelivery c sid d) = lmdq c := by
  unfold maxStreamDataDelivery
  repeat' split
  all_goals rfl

/-- the `Limit` object of a kind and the frame that advertises it -/
def limOf (c : Conn) : LimitKind → Limit
  | .data => c.localMaxData
  | .streamsBidi => c.localMaxStreamsBidi
  | .streamsUni => c.localMaxStreamsUni

def limFrame : LimitKind → Nat → WFrame
  | .data, v => .maxData v
  | .streamsBidi, v => .maxStreams false v
  | .streamsUni, v => .maxStreams true v

/-- what one operation does to an enforced connection-level limit of kind `k`:
    it stays and no frame of that kind is written, or exactly one frame is
    written and it carries the new (not smaller) enforced value -/
def AdvStep (c c' : Conn) (out : Out) (k : LimitKind) : Prop :=
  ((∀ v, limFrame k v ∉ out.frames) ∧ (limOf c' k).value = (limOf c k).value) ∨
  (∃ v, (∀ w, limFrame k w ∈ out.frames ↔ w = v) ∧ (limOf c' k).value = v ∧ (limOf c k).value ≤ v)

/-- `_write_connection_limits`, fixed code: frames and enforced values go together -/
theorem writeConnLimits_adv (c : Conn) (hq : c.quirks.raiseBeforeWrite = false) (r1 r2 r3 : Bool) (k : LimitKind) :
    (writeConnLimits c r1 r2 r3).1.quirks = c.quirks ∧
    AdvStep c (writeConnLimits c r1 r2 r3).1 (writeConnLimits c r1 r2 r3).2 k := by
  have hs1 := writeLimit_spec c.quirks hq c.localMaxData r1
  have hs2 := writeLimit_spec c.quirks hq c.localMaxStreamsBidi r2
  have hs3 := writeLimit_spec c.quirks hq c.localMaxStreamsUni r3
  unfold AdvStep writeConnLimits
  simp only []
  generalize writeLimit c.quirks c.localMaxData r1 = p1 at hs1 ⊢
  obtain ⟨l1, w1, s1⟩ := p1
  generalize writeLimit c.quirks c.localMaxStreamsBidi r2 = p2 at hs2 ⊢
  obtain ⟨l2, w2, s2⟩ := p2
  generalize writeLimit c.quirks c.localMaxStreamsUni r3 = p3 at hs3 ⊢
  obtain ⟨l3, w3, s3⟩ := p3
  simp only [] at hs1 hs2 hs3 ⊢
  cases k
  · rcases hs1 with ⟨rfl, h2, _⟩ | ⟨v, rfl, h2, _, h4, rfl⟩
    · refine ⟨?_, .inl ⟨?_, ?_⟩⟩
      · cases s1 <;> cases s2 <;> cases s3 <;> simp
      · cases s1 <;> cases s2 <;> cases s3 <;> cases w2 <;> cases w3 <;> simp [limFrame]
      · cases s1 <;> cases s2 <;> cases s3 <;> simp [limOf, h2]
    · refine ⟨?_, .inr ⟨v, ?_, ?_, by simpa [limOf] using h4⟩⟩
      · cases s2 <;> cases s3 <;> simp
      · intro w; cases s2 <;> cases s3 <;> cases w2 <;> cases w3 <;> simp [limFrame] <;> exact eq_comm
      · cases s2 <;> cases s3 <;> simp [limOf, h2]
  · cases s1
    · rcases hs2 with ⟨rfl, h2, _⟩ | ⟨v, rfl, h2, _, h4, rfl⟩
      · refine ⟨?_, .inl ⟨?_, ?_⟩⟩
        · cases s2 <;> cases s3 <;> simp
        · cases s2 <;> cases s3 <;> cases w1 <;> cases w3 <;> simp [limFrame]
        · cases s2 <;> cases s3 <;> simp [limOf, h2]
      · refine ⟨?_, .inr ⟨v, ?_, ?_, by simpa [limOf] using h4⟩⟩
        · cases s3 <;> simp
        · intro w; cases s3 <;> cases w1 <;> cases w3 <;> simp [limFrame] <;> exact eq_comm
        · cases s3 <;> simp [limOf, h2]
    · refine ⟨by simp, .inl ⟨?_, by simp [limOf]⟩⟩
      cases w1 <;> simp [limFrame]
  · cases s1
    · cases s2
      · rcases hs3 with ⟨rfl, h2, _⟩ | ⟨v, rfl, h2, _, h4, rfl⟩
        · refine ⟨?_, .inl ⟨?_, ?_⟩⟩
          · cases s3 <;> simp
          · cases s3 <;> cases w1 <;> cases w2 <;> simp [limFrame]
          · cases s3 <;> simp [limOf, h2]
        · refine ⟨by simp, .inr ⟨v, ?_, by simp [limOf, h2], by simpa [limOf] using h4⟩⟩
          intro w; cases w1 <;> cases w2 <;> simp [limFrame] <;> exact eq_comm
      · refine ⟨by simp, .inl ⟨?_, by simp [limOf]⟩⟩
        cases w1 <;> cases w2 <;> simp [limFrame]
    · refine ⟨by simp, .inl ⟨?_, by simp [limOf]⟩⟩
      cases w1 <;> simp [limFrame]

theorem limFrame_streamId (k : LimitKind) (v : Nat) : frameStreamId (limFrame k v) = none := by
  cases k <;> rfl

theorem writeStreamLimits_no_limFrame (c : Conn) (sid : Nat) (room : Bool) (k : LimitKind) (v : Nat) :
    limFrame k v ∉ (writeStreamLimits c sid room).2.frames := by
  intro h
  unfold writeStreamLimits at h
  simp only [] at h
  repeat' split at h
  all_goals (cases k <;> simp [Out.error, limFrame] at h)

/-- every operation, every kind of connection-level limit -/
theorem step_adv (c : Conn) (hq : c.quirks.raiseBeforeWrite = false) (op : Op) (k : LimitKind) :
    (step c op).1.quirks = c.quirks ∧ AdvStep c (step c op).1 (step c op).2 k := by
  have key : ∀ (p : Conn × Out), lmdq p.1 = lmdq c → p.2.frames = [] →
      p.1.quirks = c.quirks ∧ AdvStep c p.1 p.2 k := by
    intro p h1 h2
    simp only [lmdq, Prod.mk.injEq] at h1
    refine ⟨h1.2.2.2, .inl ⟨by rw [h2]; simp, ?_⟩⟩
    cases k
    · exact h1.1
    · exact h1.2.1
    · exact h1.2.2.1
  have key2 : ∀ (p : Conn × Out), lmdq p.1 = lmdq c → (∀ v, limFrame k v ∉ p.2.frames) →
      p.1.quirks = c.quirks ∧ AdvStep c p.1 p.2 k := by
    intro p h1 h2
    simp only [lmdq, Prod.mk.injEq] at h1
    refine ⟨h1.2.2.2, .inl ⟨h2, ?_⟩⟩
    cases k
    · exact h1.1
    · exact h1.2.1
    · exact h1.2.2.1
  cases op <;> simp only [step]
  · exact key _ (sendStreamData_lmdq ..) (sendStreamData_frames ..)
  · exact key _ (resetStream_lmdq ..) (resetStream_frames ..)
  · exact key _ (stopStream_lmdq ..) (stopStream_frames ..)
  · exact key _ (rxMaxData_lmdq ..) (rxMaxData_frames ..)
  · exact key _ (rxMaxStreamData_lmdq ..) (rxMaxStreamData_frames ..)
  · exact key _ (rxMaxStreams_lmdq ..) (rxMaxStreams_frames ..)
  · rcases rxTransportParams_cases c _ with he | he <;> rw [he]
    · exact key (_, Out.connError PROTOCOL_VIOLATION) rfl rfl
    · exact key (_, {}) rfl rfl
  · exact key (_, {}) (unblockStreams_lmdq ..) rfl
  · exact key _ (rxStopSending_lmdq ..) (rxStopSending_frames ..)
  · exact key _ (rxStreamDataBlocked_lmdq ..) (rxStreamDataBlocked_frames ..)
  · exact key _ (rxStream_lmdq ..) (rxStream_frames ..)
  · exact key _ (rxResetStream_lmdq ..) (rxResetStream_frames ..)
  · rename_i sid a b fs
    refine key2 _ (serve_lmdq c sid a b fs) ?_
    intro v hv
    have := (serve_frames hv).1
    rw [limFrame_streamId] at this
    simp at this
  · exact writeConnLimits_adv c hq _ _ _ k
  · rename_i sid room
    exact key2 _ (writeStreamLimits_lmdq c sid room) (fun v => writeStreamLimits_no_limFrame c sid room k v)
  · exact key _ (dataDelivery_lmdq ..) (dataDelivery_frames ..)
  · exact key _ (resetDelivery_lmdq ..) (resetDelivery_frames ..)
  · exact key _ (stopDelivery_lmdq ..) (stopDelivery_frames ..)
  · exact key (_, {}) (connLimitDelivery_lmdq ..) rfl
  · exact key (_, {}) (maxStreamDataDelivery_lmdq ..) rfl

/-- the values of kind `k` written by a sequence of outputs -/
def advertisedK (k : LimitKind) (outs : List Out) : List Nat :=
  outs.flatMap fun o => o.frames.filterMap fun f =>
    match k, f with
    | .data, .maxData v => some v
    | .streamsBidi, .maxStreams false v => some v
    | .streamsUni, .maxStreams true v => some v
    | _, _ => none

theorem mem_advertisedK_cons (k : LimitKind) (o : Out) (outs : List Out) (v : Nat) :
    v ∈ advertisedK k (o :: outs) ↔ (limFrame k v ∈ o.frames ∨ v ∈ advertisedK k outs) := by
  unfold advertisedK
  simp only [List.flatMap_cons, List.mem_append, List.mem_filterMap]
  constructor
  · rintro (⟨f, hf, hv⟩ | h)
    · left
      cases k <;> cases f <;> (try (simp at hv; done))
      all_goals first
        | (simp at hv; subst hv; exact hf)
        | (subst hv; exact hf)
        | (rename_i u w; cases u <;> simp at hv; subst hv; exact hf)
    · exact .inr h
  · rintro (h | h)
    · exact .inl ⟨_, h, by cases k <;> rfl⟩
    · exact .inr h

/-- run level: the enforced value of kind `k` is the largest of the initial
    value and the values advertised so far -/
theorem run_adv (c : Conn) (hq : c.quirks.raiseBeforeWrite = false) (k : LimitKind) (ops : List Op) :
    (∀ v ∈ advertisedK k (run c ops).2, v ≤ (limOf (run c ops).1 k).value) ∧
    (limOf c k).value ≤ (limOf (run c ops).1 k).value ∧
    ((limOf (run c ops).1 k).value = (limOf c k).value ∨
     (limOf (run c ops).1 k).value ∈ advertisedK k (run c ops).2) := by
  induction ops generalizing c with
  | nil => simp [run, advertisedK]
  | cons op ops ih =>
    obtain ⟨hq', hstep⟩ := step_adv c hq op k
    obtain ⟨i1, i2, i3⟩ := ih (step c op).1 (by rw [hq']; exact hq)
    simp only [run]
    refine ⟨?_, ?_, ?_⟩
    · intro v hv
      rcases (mem_advertisedK_cons _ _ _ _).mp hv with hv | hv
      · rcases hstep with ⟨hno, _⟩ | ⟨w, hw, hval, _⟩
        · exact absurd hv (hno v)
        · have := (hw v).mp hv; subst this; rw [← hval]; exact i2
      · exact i1 v hv
    · rcases hstep with ⟨_, hval⟩ | ⟨w, _, hval, hle⟩ <;> omega
    · rcases i3 with i3 | i3
      · rcases hstep with ⟨_, hval⟩ | ⟨w, hw, hval, _⟩
        · left; rw [i3, hval]
        · right; rw [i3, hval]
          exact (mem_advertisedK_cons _ _ _ _).mpr (.inl ((hw w).mpr rfl))
      · right; exact (mem_advertisedK_cons _ _ _ _).mpr (.inr i3)

end AQ.Flow
