import AQ.Proofs.TlsC11
/-
  State reached by a handler run that returns normally, as a function of the
  `setState` steps of the generated list and the truth of their guards; used to
  show that the implementation follows the RFC automaton message by message.
-/
namespace AQ.Tls
open AQ.Gen.Tls AQ.TlsSpec

/-- the `setState` steps of a list: (guard, target) in source order -/
def ssView (l : List Step) : List (List (Test × Bool) × St) :=
  l.filterMap fun s => (setsState s.act).map fun x => (s.cond, x)

def condOK (env : Env) (c : List (Test × Bool)) : Bool := c.all fun p => env.test p.1 == p.2

/-- target of the last enabled `setState`, else the current state -/
def finalOf (env : Env) (v : List (List (Test × Bool) × St)) (d : St) : St :=
  (((v.filter fun p => condOK env p.1).getLast?).map (·.2)).getD d

def noRet (l : List Step) : Bool := l.all fun s => s.act != .ret

theorem applyAct_st_eq (c : Cfg) (a : Act) : (applyAct c a).st = (setsState a).getD c.st := by
  cases a <;> simp [applyAct, setsState]

theorem applyAll_st_last (c : Cfg) (p : List Act) :
    (applyAll c p).st = ((p.filterMap setsState).getLast?).getD c.st := by
  induction p generalizing c with
  | nil => simp [applyAll]
  | cons a rest ih =>
    simp only [applyAll, List.foldl_cons] at ih ⊢
    rw [ih, applyAct_st_eq]
    cases h : setsState a with
    | none => simp [h]
    | some x =>
      simp only [List.filterMap_cons, h, Option.getD_some]
      cases h2 : List.filterMap setsState rest with
      | nil => simp
      | cons y ys =>
        have : (y :: ys).getLast? = some ((y :: ys).getLast (by simp)) := List.getLast?_eq_some_getLast _
        simp only [List.getLast?_cons_cons, this, Option.getD_some]

theorem view_enabled (env : Env) (l : List Step) :
    ((enabled env l).map (·.act)).filterMap setsState
      = ((ssView l).filter fun p => condOK env p.1).map (·.2) := by
  induction l with
  | nil => simp [enabled, ssView]
  | cons s rest ih =>
    unfold enabled ssView at ih ⊢
    simp only [List.filter_cons, List.filterMap_cons]
    by_cases hc : condHolds env s = true
    · simp only [hc, ↓reduceIte, List.map_cons, List.filterMap_cons]
      cases hs : setsState s.act with
      | none => simpa [hs] using ih
      | some x =>
        have : condOK env s.cond = true := hc
        simp only [Option.map_some, List.filter_cons, this, ↓reduceIte, List.map_cons]
        rw [ih]
    · simp only [hc, Bool.false_eq_true, ↓reduceIte]
      cases hs : setsState s.act with
      | none => simpa [hs] using ih
      | some x =>
        have : condOK env s.cond = false := by
          have h3 : condOK env s.cond = condHolds env s := rfl
          rw [h3]; simpa using hc
        simp only [Option.map_some, List.filter_cons, this, Bool.false_eq_true, ↓reduceIte]
        exact ih

theorem done_final_st (env : Env) (c : Cfg) (l : List Step) (hr : noRet l = true)
    (hd : (exec env l).2 = .done) :
    (applyAll c (exec env l).1).st = finalOf env (ssView l) c.st := by
  unfold exec at hd ⊢
  have hret : ∀ s ∈ enabled env l, s.act ≠ .ret := by
    intro s hs
    have := (enabled_sublist env l).subset hs
    have h2 := List.all_eq_true.mp hr s this
    simpa using h2
  rw [execU_done env _ hret hd, applyAll_st_last, view_enabled]
  unfold finalOf
  simp [List.getLast?_map]

end AQ.Tls

namespace AQ.Tls
open AQ.Gen.Tls AQ.TlsSpec

theorem noRet_all : ∀ f : Fn, noRet (flat f) = true := by intro f; cases f <;> decide

/-- which handler serves which (state, type) after ServerHello, with the view of its `setState` steps -/
theorem view_after_hello : ∀ s t f, afterServerHello s = true → handlerFor s t = some f →
    (∀ env, finalOf env (ssView (flat f)) s
        = (clientNext (env.test .ee_resumed) s t).getD .CLIENT_HANDSHAKE_START) ∧
    (clientNext true s t).isSome = true ∧
    (∀ x ∈ flat f, (setsAttr .session_resumed x.act).isSome = false) := by
  intro s t f hs hf
  cases s <;> simp [afterServerHello] at hs <;> cases t <;>
    simp [handlerFor, dispatch, startState] at hf <;> subst hf <;>
    refine ⟨?_, by decide, by decide⟩ <;> intro env <;>
    simp [finalOf, ssView, flat, steps, List.flatMap, setsState, condOK, clientNext,
      steps_client_handle_encrypted_extensions, steps_client_handle_certificate_request,
      steps_client_handle_certificate, steps_client_handle_certificate_verify,
      steps_client_handle_finished, steps_client_handle_new_session_ticket, steps_set_peer_certificate]
  cases h : env.test .ee_resumed <;> simp [h, List.find?]

end AQ.Tls

namespace AQ.Tls
open AQ.Gen.Tls AQ.TlsSpec

theorem finalOut_done (env : Env) (c : Cfg) (o : Out) (h : finalOut env c o = .done) : o = .done := by
  cases o with
  | done => rfl
  | raised e => simp [finalOut] at h

/-- a message processed without exception after ServerHello moves the client
    exactly along the RFC automaton, and leaves the resumption flag alone -/
theorem client_step_rfc (env : Env) (c c' : Cfg) (t : HT) (hs : afterServerHello c.st = true)
    (he : EnvOK c env) (h : stepMsg env c t = (c', .done)) :
    clientNext (c.attr .session_resumed == .true) c.st t = some c'.st ∧
    c'.attr .session_resumed = c.attr .session_resumed := by
  unfold stepMsg at h
  cases hf : handlerFor c.st t with
  | none => simp [hf] at h
  | some f =>
    simp only [hf, Prod.mk.injEq] at h
    rcases h with ⟨h1, h2⟩
    have hd := finalOut_done _ _ _ h2
    rcases view_after_hello c.st t f hs hf with ⟨hv, hsome, hattr⟩
    have hst := done_final_st env c (flat f) (noRet_all f) hd
    rw [h1, hv env, he.resumed] at hst
    constructor
    · cases hn : clientNext (c.attr .session_resumed == .true) c.st t with
      | some x => rw [hn] at hst; simp at hst; rw [hst]
      | none =>
        -- clientNext is defined for both values of the flag or for none
        have : (clientNext true c.st t).isSome = (clientNext (c.attr .session_resumed == .true) c.st t).isSome := by
          cases c.st <;> cases t <;> simp [clientNext]
        rw [hn] at this; rw [hsome] at this; simp at this
    · rw [← h1]
      rcases applyAll_attr c (exec env (flat f)).1 .session_resumed with h3 | h3
      · exact h3
      · rcases exec_mem env (flat f) _ h3 with ⟨s, hs1, ha, _⟩
        have := hattr s hs1
        simp [setsAttr_eq _ _ _ ha] at this

theorem afterServerHello_next (psk : Bool) (s s' : St) (t : HT) (h : clientNext psk s t = some s') :
    afterServerHello s' = true := by
  cases s <;> cases t <;> simp [clientNext] at h <;> subst h <;> (try cases psk) <;> rfl

/-- a whole sequence processed without exception is a path of the RFC automaton -/
theorem client_run_rfc (c c' : Cfg) (l : List (HT × Env)) (hs : afterServerHello c.st = true)
    (hc : Consistent c l) (h : runStrict c l = (c', .done)) :
    clientPath (c.attr .session_resumed == .true) c.st (l.map (·.1)) = some c'.st := by
  induction l generalizing c with
  | nil => simp [runStrict] at h; simp [clientPath, h]
  | cons x rest ih =>
    rcases x with ⟨t, env⟩
    simp only [runStrict] at h
    cases hstep : stepMsg env c t with
    | mk c1 o =>
      cases o with
      | raised e => simp [hstep] at h
      | done =>
        simp only [hstep] at h
        rcases client_step_rfc env c c1 t hs hc.1 hstep with ⟨hn, hattr⟩
        have hc2 : Consistent c1 rest := by have := hc.2; rwa [hstep] at this
        have := ih c1 (afterServerHello_next _ _ _ _ hn) hc2 h
        simp only [List.map_cons, clientPath, hn]
        rw [hattr] at this; exact this

end AQ.Tls

namespace AQ.Tls
open AQ.Gen.Tls AQ.TlsSpec

/-! ### the paths of the RFC automaton from WAIT_EE to CONNECTED are the legal flights -/

theorem path_post (psk : Bool) (ts : List HT) (s : St)
    (h : clientPath psk .CLIENT_POST_HANDSHAKE ts = some s) :
    s = .CLIENT_POST_HANDSHAKE ∧ ts = List.replicate ts.length .NEW_SESSION_TICKET := by
  induction ts with
  | nil => simp [clientPath] at h; simp [h]
  | cons t rest ih =>
    cases t <;> simp [clientPath, clientNext] at h
    rcases ih h with ⟨h1, h2⟩
    refine ⟨h1, ?_⟩
    simp only [List.length_cons, List.replicate_succ, List.cons.injEq, true_and]
    exact h2

theorem path_fin (psk : Bool) (ts : List HT)
    (h : clientPath psk .CLIENT_EXPECT_FINISHED ts = some .CLIENT_POST_HANDSHAKE) :
    ∃ n, ts = .FINISHED :: List.replicate n .NEW_SESSION_TICKET := by
  cases ts with
  | nil => simp [clientPath] at h
  | cons t rest =>
    cases t <;> simp [clientPath, clientNext] at h
    exact ⟨rest.length, by rw [← (path_post psk rest _ h).2]⟩

theorem path_cv (psk : Bool) (ts : List HT)
    (h : clientPath psk .CLIENT_EXPECT_CERTIFICATE_VERIFY ts = some .CLIENT_POST_HANDSHAKE) :
    ∃ n, ts = .CERTIFICATE_VERIFY :: .FINISHED :: List.replicate n .NEW_SESSION_TICKET := by
  cases ts with
  | nil => simp [clientPath] at h
  | cons t rest =>
    cases t <;> simp [clientPath, clientNext] at h
    rcases path_fin psk rest h with ⟨n, hn⟩
    exact ⟨n, by rw [hn]⟩

theorem path_cert (psk : Bool) (ts : List HT)
    (h : clientPath psk .CLIENT_EXPECT_CERTIFICATE ts = some .CLIENT_POST_HANDSHAKE) :
    ∃ n, ts = .CERTIFICATE :: .CERTIFICATE_VERIFY :: .FINISHED :: List.replicate n .NEW_SESSION_TICKET := by
  cases ts with
  | nil => simp [clientPath] at h
  | cons t rest =>
    cases t <;> simp [clientPath, clientNext] at h
    rcases path_cv psk rest h with ⟨n, hn⟩
    exact ⟨n, by rw [hn]⟩

theorem path_crc (psk : Bool) (ts : List HT)
    (h : clientPath psk .CLIENT_EXPECT_CERTIFICATE_REQUEST_OR_CERTIFICATE ts = some .CLIENT_POST_HANDSHAKE) :
    ∃ n, ts = .CERTIFICATE :: .CERTIFICATE_VERIFY :: .FINISHED :: List.replicate n .NEW_SESSION_TICKET ∨
      ts = .CERTIFICATE_REQUEST :: .CERTIFICATE :: .CERTIFICATE_VERIFY :: .FINISHED ::
        List.replicate n .NEW_SESSION_TICKET := by
  cases ts with
  | nil => simp [clientPath] at h
  | cons t rest =>
    cases t <;> simp [clientPath, clientNext] at h
    · rcases path_cv psk rest h with ⟨n, hn⟩
      exact ⟨n, Or.inl (by rw [hn])⟩
    · rcases path_cert psk rest h with ⟨n, hn⟩
      exact ⟨n, Or.inr (by rw [hn])⟩

/-- every path of the RFC automaton from "waiting for EncryptedExtensions" to
    "connected" is a legal server flight followed by session tickets -/
theorem path_legal (psk : Bool) (ts : List HT)
    (h : clientPath psk .CLIENT_EXPECT_ENCRYPTED_EXTENSIONS ts = some .CLIENT_POST_HANDSHAKE) :
    ∃ fl ∈ legalServerFlight psk, ∃ n, ts = fl ++ List.replicate n .NEW_SESSION_TICKET := by
  cases ts with
  | nil => simp [clientPath] at h
  | cons t rest =>
    cases t <;> simp [clientPath, clientNext] at h
    cases psk with
    | true =>
      simp at h
      rcases path_fin true rest h with ⟨n, hn⟩
      exact ⟨[.ENCRYPTED_EXTENSIONS, .FINISHED], by simp [legalServerFlight], n, by rw [hn]; rfl⟩
    | false =>
      simp at h
      rcases path_crc false rest h with ⟨n, hn | hn⟩
      · exact ⟨[.ENCRYPTED_EXTENSIONS, .CERTIFICATE, .CERTIFICATE_VERIFY, .FINISHED],
          by simp [legalServerFlight], n, by rw [hn]; rfl⟩
      · exact ⟨[.ENCRYPTED_EXTENSIONS, .CERTIFICATE_REQUEST, .CERTIFICATE, .CERTIFICATE_VERIFY, .FINISHED],
          by simp [legalServerFlight], n, by rw [hn]; rfl⟩

end AQ.Tls
