/-
  Progress lemmas for the end-to-end stream model (property C01, liveness part).
  Core Lean only.
-/
import AQ.Proofs.StreamSys

namespace AQ.StreamSys
open AQ AQ.Stream AQ.RangeSet

/-- reference model: a frame that starts at or below the delivery point and
    ends above it moves the delivery point at least to its end -/
theorem specFrame_progress {t t' : RSpec} {f : Frame} {ev : Option DataEv}
    (hs : specFrame t f = some (t', ev)) (h1 : f.offset ≤ t.delivered) (h2 : t.delivered < f.stop) :
    f.stop ≤ t'.delivered := by
  rw [specFrame_eq] at hs
  split at hs
  · cases hs
  · simp only [Option.some.injEq, Prod.mk.injEq] at hs
    obtain ⟨rfl, -⟩ := hs
    simp only []
    have hd := deliver_spec (specKnown1 t f) t.delivered (max t.hi f.stop - t.delivered)
    have hd2 : specKnown1 t f (t.delivered + (specOut t f).length) = none ∨
        (specOut t f).length = max t.hi f.stop - t.delivered := hd.2
    by_cases hlt : t.delivered + (specOut t f).length < f.stop
    · exfalso
      rcases hd2 with hn | hl
      · unfold specKnown1 at hn
        rw [if_pos ⟨by omega, by omega, hlt⟩] at hn
        have : t.delivered + (specOut t f).length - f.offset < f.data.length := by
          have : f.stop = f.offset + f.data.length := rfl
          omega
        rw [List.getElem?_eq_getElem this] at hn
        cases hn
      · omega
    · omega

theorem recv_progress {r r' : Recv} {f : Frame} {ev : Option DataEv} (hi : Inv r)
    (h : handleFrame r f = .ok (r', ev)) (h1 : f.offset ≤ r.bufStart) (h2 : r.bufStart < f.stop) :
    f.stop ≤ r'.bufStart := by
  have hr := handleFrame_refines f hi
  unfold FrameRefines at hr
  rw [h] at hr
  split at hr
  · rename_i heq _; cases heq
  · rename_i s'' ev'' t' ev' heq hs
    cases heq
    obtain ⟨-, k2, -⟩ := hr
    have := specFrame_progress hs (by simpa [abs] using h1) (by simpa [abs] using h2)
    rw [← k2] at this
    simpa [abs] using this
  · exact hr.elim

/-- a FIN frame after which the delivery point equals the final size carries the end marker -/
theorem handleFrame_end_of {r r' : Recv} {f : Frame} {ev : Option DataEv}
    (h : handleFrame r f = .ok (r', ev)) (hfin : f.fin = true) (he : some r'.bufStart = r'.finalSize) :
    evEnd ev = true := by
  rw [handleFrame_eq] at h
  split at h
  · cases h
  · split at h
    · injection h with h; injection h with h1 h2; subst h2
      simp [evEnd, hfin]
    · injection h with h; injection h with h1 h2; subst h2
      rw [← h1] at he
      simp only [evEnd_mkEvent, decide_eq_true_eq]
      split at he <;> exact he

/-! ## System-level progress -/

theorem step_emit_ok {s : Sys} (hq : s.quirkNoRoomGuard = false) (hg1 : s.send.resetPending = false)
    (hg2 : s.send.bufferIsEmpty = false) {ov : Nat} (hov : frameOverhead s.streamId s.send = .ok ov)
    {space : Int} (hsp : ¬ space < (ov : Int)) {mo : Nat} {s' : Send} {fr : Option OutFrame}
    (hgf : getFrame s.send (space - (ov : Int)).toNat (some mo) = .ok (s', fr)) :
    (step s (.emit space mo)).1 =
      { s with send := s', ghost := s.ghost.onGet fr, wire := s.wire ++ fr.toList } := by
  have hgate : ¬ (s.send.resetPending = true ∨ s.send.bufferIsEmpty = true) := by simp [hg1, hg2]
  simp only [step, if_neg hgate, writeStreamFrame, hov, hq, if_neg hsp, hgf]

/-- `emit` with room for the header and one byte, and a flow-control cap above
    the first pending offset, puts a non-empty frame starting at that offset on
    the wire and makes it outstanding -/
theorem emit_progress {s : Sys} (h : Good s) (hr : s.ghost.reset = false) {r : Rg} {rest : List Rg}
    (hp : s.send.pending = r :: rest) {ov : Nat} (hov : frameOverhead s.streamId s.send = .ok ov)
    {space : Int} (hsp : (ov : Int) < space) {mo : Nat} (hmo : r.start < mo) :
    ∃ f s', f.offset = r.start ∧ f.data ≠ [] ∧
      (step s (.emit space mo)).1 = { s with send := s', ghost := s.ghost.onGet (some f), wire := s.wire ++ [f] } := by
  have hs := h.reach.snd.sinv
  have hg1 : s.send.resetPending = false := by
    cases hx : s.send.resetPending
    · rfl
    · have := hs.rpend hx; rw [hr] at this; cases this
  have hg2 : s.send.bufferIsEmpty = false := hs.flag hr (Or.inl (by rw [hp]; simp))
  obtain ⟨s', f, hgf, h1, h2⟩ := (hs.progress hr (space - (ov : Int)).toNat (some mo)).1 r rest hp
    (by omega) (Or.inr ⟨mo, rfl, hmo⟩)
  exact ⟨f, s', h1, h2, step_emit_ok h.reach.q2 hg1 hg2 hov (by omega) hgf⟩

/-- delivering a frame that starts at or below the receiver's delivery point
    and ends above it moves the delivery point to (at least) the frame's end -/
theorem deliver_progress {s : Sys} (h : Good s) {i : Nat} {f : OutFrame} (hw : s.wire[i]? = some f)
    (hg : s.recvGone = false) (h1 : f.offset ≤ s.recv.bufStart) (h2 : s.recv.bufStart < f.offset + f.data.length) :
    f.offset + f.data.length ≤ (step s (.deliver i)).1.recv.bufStart ∧
    (step s (.deliver i)).1.ghost = s.ghost := by
  rcases step_deliver s i with e | ⟨f', e', hwi, _, _, hh, e⟩ | ⟨f', r', ev, hwi, _, _, hh, e⟩
  · exfalso
    simp only [step, hw, h.endi.noerr, hg] at e
    have hne := deliver_no_error h.reach h.endi (List.mem_of_getElem? hw)
    revert e
    cases hx : handleStreamFrame s.quirkDupFin s.quirkEndAfterReset s.recv (OutFrame.toFrame f) with
    | error e0 => exact absurd (handleStreamFrame_err hx) hne
    | ok p =>
      intro e
      have := congrArg Sys.recvOps e
      simp at this
  · rw [hw] at hwi; cases hwi
    exact absurd (handleStreamFrame_err hh) (deliver_no_error h.reach h.endi (List.mem_of_getElem? hw))
  · rw [hw] at hwi; cases hwi
    rw [e]
    rw [h.reach.q1, h.reach.q3] at hh
    obtain ⟨ev0, hf, -⟩ := handleStreamFrame_ok hh
    exact ⟨recv_progress h.endi.inv hf h1 h2, rfl⟩

/-- a `deliver` step that shows an event is the third case of `step_deliver` -/
theorem step_deliver_event {s : Sys} {i : Nat} {ev : Option DataEv}
    (h : (step s (.deliver i)).2 = .event ev) :
    (step s (.deliver i)).1.endEvents = s.endEvents + evCount ev := by
  revert h
  simp only [step]
  cases s.wire[i]? with
  | none => simp
  | some f =>
    simp only []
    split
    · simp
    · split
      · simp
      · split
        · simp
        · intro h
          simp only [Out.event.injEq] at h
          subst h
          rfl

/-- in a reachable state a `deliver` of an emitted frame to a live receiver is
    always the accepting case -/
theorem step_deliver_ok {s : Sys} (h : Good s) {i : Nat} {f : OutFrame} (hw : s.wire[i]? = some f)
    (hg : s.recvGone = false) :
    ∃ r' ev, handleStreamFrame false false s.recv (OutFrame.toFrame f) = .ok (r', ev) ∧
      (step s (.deliver i)).1 =
        { s with recv := r', recvOps := s.recvOps ++ [.frame (OutFrame.toFrame f)],
                 deliveredBytes := s.deliveredBytes ++ evData ev,
                 endEvents := s.endEvents + evCount ev } := by
  rcases step_deliver s i with e | ⟨f', e', hwi, _, _, hh, e⟩ | ⟨f', r', ev, hwi, _, _, hh, e⟩
  · exfalso
    simp only [step, hw, h.endi.noerr, hg] at e
    have hne := deliver_no_error h.reach h.endi (List.mem_of_getElem? hw)
    revert e
    cases hx : handleStreamFrame s.quirkDupFin s.quirkEndAfterReset s.recv (OutFrame.toFrame f) with
    | error e0 => exact absurd (handleStreamFrame_err hx) hne
    | ok p =>
      intro e
      have := congrArg Sys.recvOps e
      simp at this
  · rw [hw] at hwi; cases hwi
    exact absurd (handleStreamFrame_err hh) (deliver_no_error h.reach h.endi (List.mem_of_getElem? hw))
  · rw [hw] at hwi; cases hwi
    rw [h.reach.q1, h.reach.q3] at hh
    exact ⟨r', ev, hh, e⟩

/-- when only the FIN is pending and every byte was delivered, [`emit` with room
    for the header, `deliver` of that frame] signals end-of-stream -/
theorem fin_progress {s : Sys} (h : Good s) (hr : s.ghost.reset = false)
    (hp : s.send.pending = []) (he : s.send.pendingEof = true)
    (hall : s.recv.bufStart = s.ghost.written.length) (hgone : s.recvGone = false)
    (hnf : s.recv.finished = false)
    {ov : Nat} (hov : frameOverhead s.streamId s.send = .ok ov) {space : Int} (hsp : (ov : Int) ≤ space)
    (mo : Nat) :
    (step (step s (.emit space mo)).1 (.deliver s.wire.length)).1.endEvents = 1 := by
  have hs := h.reach.snd.sinv
  have hg1 : s.send.resetPending = false := by
    cases hx : s.send.resetPending
    · rfl
    · have := hs.rpend hx; rw [hr] at this; cases this
  have hg2 : s.send.bufferIsEmpty = false := hs.flag hr (Or.inr he)
  obtain ⟨sd, hgf⟩ := (hs.progress hr (space - (ov : Int)).toNat (some mo)).2 hp he
  have e1 := step_emit_ok h.reach.q2 hg1 hg2 hov (by omega) hgf
  have hG1 : Good (step s (.emit space mo)).1 := good_step h (.emit space mo) trivial
  generalize hs1 : (step s (.emit space mo)).1 = s1 at e1 hG1
  have hwi : s1.wire[s.wire.length]? = some ⟨s.ghost.written.length, [], true⟩ := by rw [e1]; simp
  obtain ⟨r', ev, hh, e2⟩ := step_deliver_ok hG1 hwi (by rw [e1]; exact hgone)
  have hG2 : Good (step s1 (.deliver s.wire.length)).1 := good_step hG1 _ trivial
  have hrecv : s1.recv = s.recv := by rw [e1]
  have hwr : s1.ghost.written = s.ghost.written := by rw [e1]; rfl
  obtain ⟨ev0, hf, -, hsame, -⟩ := handleStreamFrame_ok hh
  obtain ⟨k1, -, -, -⟩ := handleFrame_facts hf
  obtain ⟨-, m2⟩ := handleFrame_bufStart_mono hG1.endi.inv hf
  have hb := (good_prefix hG2).2
  rw [e2] at hb
  change r'.bufStart ≤ s1.ghost.written.length at hb
  have hfs : r'.finalSize = some s.ghost.written.length := by
    rw [k1]; simp [OutFrame.toFrame, Frame.stop]
  have hend : evEnd ev0 = true := by
    apply handleFrame_end_of hf rfl
    rw [hfs]; congr 1
    rw [hrecv] at m2; rw [hwr] at hb; omega
  have hev : ev = ev0 := hsame (by rw [hrecv]; exact hnf)
  rw [e2]
  show s1.endEvents + evCount ev = 1
  have h0 : s1.endEvents = 0 := by
    have hle := hG1.endi.ends_le
    have : s1.endEvents ≠ 1 := fun h1 => by
      have := (hG1.endi.ends_fin h1).1; rw [hrecv, hnf] at this; cases this
    omega
  rw [h0, hev, evCount_eq_one.2 hend]

end AQ.StreamSys
