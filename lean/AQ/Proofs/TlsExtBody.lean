import AQ.Proofs.TlsCodec
import AQ.Model.TlsExtBody
/-
  Typed bodies of the TLS extensions tls.py understands (key_share,
  supported_versions, signature_algorithms, supported_groups,
  psk_key_exchange_modes, server_name, ALPN, early_data, pre_shared_key): their
  encoders (RFC 8446 §4.2, RFC 6066 §3, RFC 7301 §3.1), round trips through the
  decoders `extBodyOK` runs, and acceptance of exactly the declared bytes.
-/
namespace AQ.TlsCodec
open AQ

theorem be_ne (n v : Nat) (h : 0 < n) : beEnc n v ≠ [] := by
  intro e; have := congrArg List.length e; simp [beEnc_length] at this; omega

theorem opqEnc_ne (n : Nat) (b : Bytes) (h : 0 < n) : opqEnc n b ≠ [] := by
  intro e
  have := congrArg List.length e
  simp [opqEnc, beEnc_length] at this
  omega

theorem pairDec_rt {α β} (d1 : Dec α) (d2 : Dec β) (e1 e2 : Bytes) (a : α) (b : β) (r : Bytes)
    (h1 : d1 (e1 ++ (e2 ++ r)) = some (a, e2 ++ r)) (h2 : d2 (e2 ++ r) = some (b, r)) :
    pairDec d1 d2 (e1 ++ e2 ++ r) = some ((a, b), r) := by
  unfold pairDec
  rw [List.append_assoc, h1]
  simp only [h2]

theorem strict_of_rt {α} (d : Dec α) (e : Bytes) (a : α) (h : d e = some (a, [])) : strict d e = true := by
  simp [strict, h]

def flen {α} (e : α → Bytes) (l : List α) : Nat := (l.flatMap e).length

/-- field ranges -/
def ExtVal.valid : ExtVal → Prop
  | .keyShares l => (∀ p ∈ l, p.1 < 256 ^ 2 ∧ p.2.length < 256 ^ 2) ∧ flen encKS l < 256 ^ 2
  | .versions l => (∀ v ∈ l, v < 256 ^ 2) ∧ flen (beEnc 2) l < 256 ^ 1
  | .u16s l => (∀ v ∈ l, v < 256 ^ 2) ∧ flen (beEnc 2) l < 256 ^ 2
  | .pskModes l => (∀ v ∈ l, v < 256 ^ 1) ∧ flen (beEnc 1) l < 256 ^ 1
  | .serverName n => isAscii n = true ∧ n.length < 256 ^ 2 ∧ (beEnc 1 0 ++ opqEnc 2 n).length < 256 ^ 2
  | .alpn l => (∀ b ∈ l, b.length < 256 ^ 1) ∧ flen (opqEnc 1) l < 256 ^ 2
  | .empty => True
  | .offeredPsks ids bs =>
    (∀ p ∈ ids, p.1.length < 256 ^ 2 ∧ p.2 < 256 ^ 4) ∧ flen encId ids < 256 ^ 2 ∧
      (∀ b ∈ bs, b.length < 256 ^ 1) ∧ flen (opqEnc 1) bs < 256 ^ 2
  | .u16 v => v < 256 ^ 2
  | .keyShare g k => g < 256 ^ 2 ∧ k.length < 256 ^ 2
  | .u32 v => v < 256 ^ 4

theorem ks_item (p : Nat × Bytes) (h : p.1 < 256 ^ 2 ∧ p.2.length < 256 ^ 2) (r : Bytes) :
    pairDec (uintBE 2) (opq 2) (encKS p ++ r) = some (p, r) := by
  unfold encKS
  exact pairDec_rt _ _ _ _ p.1 p.2 r (uintBE_rt 2 p.1 _ h.1) (opq_rt 2 p.2 r h.2)

theorem id_item (p : Bytes × Nat) (h : p.1.length < 256 ^ 2 ∧ p.2 < 256 ^ 4) (r : Bytes) :
    pairDec (opq 2) (uintBE 4) (encId p ++ r) = some (p, r) := by
  unfold encId
  exact pairDec_rt _ _ _ _ p.1 p.2 r (opq_rt 2 p.1 _ h.1) (uintBE_rt 4 p.2 r h.2)

/-- **round trip of every typed extension body**, whatever follows -/
theorem extVal_rt (v : ExtVal) (r : Bytes) (h : v.valid) : v.dec (v.enc ++ r) = some (v, r) := by
  cases v with
  | keyShares l =>
    simp only [ExtVal.dec, ExtVal.enc]
    rw [list_rt 2 _ encKS l r (fun p hp r => ks_item p (h.1 p hp) r)
      (fun p _ => by unfold encKS; simp [be_ne 2 p.1 (by omega)]) h.2]
    rfl
  | versions l =>
    simp only [ExtVal.dec, ExtVal.enc]
    rw [list_rt 1 _ (beEnc 2) l r (fun v hv r => uintBE_rt 2 v r (h.1 v hv)) (fun v _ => be_ne 2 v (by omega)) h.2]
    rfl
  | u16s l =>
    simp only [ExtVal.dec, ExtVal.enc]
    rw [list_rt 2 _ (beEnc 2) l r (fun v hv r => uintBE_rt 2 v r (h.1 v hv)) (fun v _ => be_ne 2 v (by omega)) h.2]
    rfl
  | pskModes l =>
    simp only [ExtVal.dec, ExtVal.enc]
    rw [list_rt 1 _ (beEnc 1) l r (fun v hv r => uintBE_rt 1 v r (h.1 v hv)) (fun v _ => be_ne 1 v (by omega)) h.2]
    rfl
  | serverName n =>
    obtain ⟨ha, hn, hl⟩ := h
    simp only [ExtVal.dec, ExtVal.enc, serverNameDec]
    rw [block_rt 2 _ (beEnc 1 0 ++ opqEnc 2 n) r n hl (by
      have h1 := uintBE_rt 1 0 (opqEnc 2 n) (by decide)
      have h2 := opq_rt 2 n [] hn
      simp only [List.append_nil] at h2
      simp only [h1, h2, ha, if_true])]
    rfl
  | alpn l =>
    simp only [ExtVal.dec, ExtVal.enc]
    rw [list_rt 2 _ (opqEnc 1) l r (fun b hb r => opq_rt 1 b r (h.1 b hb)) (fun b _ => opqEnc_ne 1 b (by omega)) h.2]
    rfl
  | empty => rfl
  | offeredPsks ids bs =>
    obtain ⟨h1, h2, h3, h4⟩ := h
    simp only [ExtVal.dec, ExtVal.enc]
    rw [pairDec_rt _ _ _ _ ids bs r
      (list_rt 2 _ encId ids _ (fun p hp r => id_item p (h1 p hp) r)
        (fun p _ => by unfold encId; simp [opqEnc_ne 2 p.1 (by omega)]) h2)
      (list_rt 2 _ (opqEnc 1) bs r (fun b hb r => opq_rt 1 b r (h3 b hb)) (fun b _ => opqEnc_ne 1 b (by omega)) h4)]
    rfl
  | u16 v => simp only [ExtVal.dec, ExtVal.enc, uintBE_rt 2 v r h]; rfl
  | keyShare g k =>
    simp only [ExtVal.dec, ExtVal.enc]
    rw [pairDec_rt _ _ _ _ g k r (uintBE_rt 2 g _ h.1) (opq_rt 2 k r h.2)]
    rfl
  | u32 v => simp only [ExtVal.dec, ExtVal.enc, uintBE_rt 4 v r h]; rfl

theorem strict_map_true {α} (d : Dec α) (f : α → ExtVal) (data : Bytes) (v : ExtVal)
    (h : (d data).map (fun p => (f p.1, p.2)) = some (v, [])) : strict d data = true := by
  unfold strict
  cases hd : d data with
  | none => rw [hd] at h; cases h
  | some p =>
    obtain ⟨a, r⟩ := p
    rw [hd] at h
    simp only [Option.map_some, Option.some.injEq, Prod.mk.injEq] at h
    obtain ⟨_, rfl⟩ := h
    rfl

theorem strict_map_false {α} (d : Dec α) (f : α → ExtVal) (data extra : Bytes) (v : ExtVal) (hx : extra ≠ [])
    (h : (d data).map (fun p => (f p.1, p.2)) = some (v, extra)) : strict d data = false := by
  unfold strict
  cases hd : d data with
  | none => rfl
  | some p =>
    obtain ⟨a, r⟩ := p
    rw [hd] at h
    simp only [Option.map_some, Option.some.injEq, Prod.mk.injEq] at h
    obtain ⟨_, rfl⟩ := h
    cases r with
    | nil => exact absurd rfl hx
    | cons _ _ => rfl

/-- **acceptance of exactly the declared bytes**: for every (message kind, extension type)
    whose body tls.py parses, the encoding of a valid typed value is accepted by
    `extBodyOK`, and the same bytes followed by anything more inside the declared
    `extension_data` are refused (the body parser must end at the declared end) -/
theorem extBody_exact (extra : Bytes) (hx : extra ≠ []) :
    (∀ l, (ExtVal.keyShares l).valid →
      extBodyOK .clientHello ⟨51, (ExtVal.keyShares l).enc⟩ = true ∧
      extBodyOK .clientHello ⟨51, (ExtVal.keyShares l).enc ++ extra⟩ = false) ∧
    (∀ l, (ExtVal.versions l).valid →
      extBodyOK .clientHello ⟨43, (ExtVal.versions l).enc⟩ = true ∧
      extBodyOK .clientHello ⟨43, (ExtVal.versions l).enc ++ extra⟩ = false) ∧
    (∀ l, (ExtVal.u16s l).valid →
      extBodyOK .clientHello ⟨13, (ExtVal.u16s l).enc⟩ = true ∧ extBodyOK .clientHello ⟨10, (ExtVal.u16s l).enc⟩ = true ∧
      extBodyOK .certificateRequest ⟨13, (ExtVal.u16s l).enc⟩ = true ∧
      extBodyOK .clientHello ⟨13, (ExtVal.u16s l).enc ++ extra⟩ = false ∧
      extBodyOK .clientHello ⟨10, (ExtVal.u16s l).enc ++ extra⟩ = false ∧
      extBodyOK .certificateRequest ⟨13, (ExtVal.u16s l).enc ++ extra⟩ = false) ∧
    (∀ l, (ExtVal.pskModes l).valid →
      extBodyOK .clientHello ⟨45, (ExtVal.pskModes l).enc⟩ = true ∧
      extBodyOK .clientHello ⟨45, (ExtVal.pskModes l).enc ++ extra⟩ = false) ∧
    (∀ n, (ExtVal.serverName n).valid →
      extBodyOK .clientHello ⟨0, (ExtVal.serverName n).enc⟩ = true ∧
      extBodyOK .clientHello ⟨0, (ExtVal.serverName n).enc ++ extra⟩ = false) ∧
    (∀ l, (ExtVal.alpn l).valid →
      extBodyOK .clientHello ⟨16, (ExtVal.alpn l).enc⟩ = true ∧
      extBodyOK .clientHello ⟨16, (ExtVal.alpn l).enc ++ extra⟩ = false ∧
      extBodyOK .encryptedExtensions ⟨16, (ExtVal.alpn l).enc⟩ = ((l.filter isAscii).length != 0) ∧
      extBodyOK .encryptedExtensions ⟨16, (ExtVal.alpn l).enc ++ extra⟩ = false) ∧
    (extBodyOK .clientHello ⟨42, ExtVal.empty.enc⟩ = true ∧ extBodyOK .clientHello ⟨42, ExtVal.empty.enc ++ extra⟩ = false ∧
      extBodyOK .encryptedExtensions ⟨42, ExtVal.empty.enc⟩ = true ∧
      extBodyOK .encryptedExtensions ⟨42, ExtVal.empty.enc ++ extra⟩ = false) ∧
    (∀ ids bs, (ExtVal.offeredPsks ids bs).valid →
      extBodyOK .clientHello ⟨41, (ExtVal.offeredPsks ids bs).enc⟩ = true ∧
      extBodyOK .clientHello ⟨41, (ExtVal.offeredPsks ids bs).enc ++ extra⟩ = false) ∧
    (∀ v, (ExtVal.u16 v).valid →
      extBodyOK .serverHello ⟨43, (ExtVal.u16 v).enc⟩ = true ∧ extBodyOK .serverHello ⟨41, (ExtVal.u16 v).enc⟩ = true ∧
      extBodyOK .serverHello ⟨43, (ExtVal.u16 v).enc ++ extra⟩ = false ∧
      extBodyOK .serverHello ⟨41, (ExtVal.u16 v).enc ++ extra⟩ = false) ∧
    (∀ g k, (ExtVal.keyShare g k).valid →
      extBodyOK .serverHello ⟨51, (ExtVal.keyShare g k).enc⟩ = true ∧
      extBodyOK .serverHello ⟨51, (ExtVal.keyShare g k).enc ++ extra⟩ = false) ∧
    (∀ v, (ExtVal.u32 v).valid →
      extBodyOK .newSessionTicket ⟨42, (ExtVal.u32 v).enc⟩ = true ∧
      extBodyOK .newSessionTicket ⟨42, (ExtVal.u32 v).enc ++ extra⟩ = false) := by
  refine ⟨?_, ?_, ?_, ?_, ?_, ?_, ?_, ?_, ?_, ?_, ?_⟩
  · intro l hv
    have h0 := extVal_rt (.keyShares l) [] hv
    have h1 := extVal_rt (.keyShares l) extra hv
    rw [List.append_nil] at h0
    exact ⟨strict_map_true _ _ _ _ h0, strict_map_false _ _ _ _ _ hx h1⟩
  · intro l hv
    have h0 := extVal_rt (.versions l) [] hv
    have h1 := extVal_rt (.versions l) extra hv
    rw [List.append_nil] at h0
    exact ⟨strict_map_true _ _ _ _ h0, strict_map_false _ _ _ _ _ hx h1⟩
  · intro l hv
    have h0 := extVal_rt (.u16s l) [] hv
    have h1 := extVal_rt (.u16s l) extra hv
    rw [List.append_nil] at h0
    have a := strict_map_true _ _ _ _ h0
    have b := strict_map_false _ _ _ _ _ hx h1
    exact ⟨a, a, a, b, b, b⟩
  · intro l hv
    have h0 := extVal_rt (.pskModes l) [] hv
    have h1 := extVal_rt (.pskModes l) extra hv
    rw [List.append_nil] at h0
    exact ⟨strict_map_true _ _ _ _ h0, strict_map_false _ _ _ _ _ hx h1⟩
  · intro n hv
    have h0 := extVal_rt (.serverName n) [] hv
    have h1 := extVal_rt (.serverName n) extra hv
    rw [List.append_nil] at h0
    exact ⟨strict_map_true _ _ _ _ h0, strict_map_false _ _ _ _ _ hx h1⟩
  · intro l hv
    have h0 := extVal_rt (.alpn l) [] hv
    have h1 := extVal_rt (.alpn l) extra hv
    rw [List.append_nil] at h0
    refine ⟨strict_map_true _ _ _ _ h0, strict_map_false _ _ _ _ _ hx h1, ?_, ?_⟩
    · have hd := list_rt 2 (opq 1) (opqEnc 1) l [] (fun b hb r => opq_rt 1 b r (hv.1 b hb))
        (fun b _ => opqEnc_ne 1 b (by omega)) hv.2
      rw [List.append_nil] at hd
      simp only [extBodyOK, ExtVal.enc, hd]
    · have hd := list_rt 2 (opq 1) (opqEnc 1) l extra (fun b hb r => opq_rt 1 b r (hv.1 b hb))
        (fun b _ => opqEnc_ne 1 b (by omega)) hv.2
      simp only [extBodyOK, ExtVal.enc, hd]
      cases extra with
      | nil => exact absurd rfl hx
      | cons _ _ => rfl
  · have he : ExtVal.empty.enc = [] := rfl
    cases extra with
    | nil => exact absurd rfl hx
    | cons b t => simp [he, extBodyOK, strict, emptyDec]
  · intro ids bs hv
    have h0 := extVal_rt (.offeredPsks ids bs) [] hv
    have h1 := extVal_rt (.offeredPsks ids bs) extra hv
    rw [List.append_nil] at h0
    exact ⟨strict_map_true (pairDec (list 2 (pairDec (opq 2) (uintBE 4))) (list 2 (opq 1)))
        (fun q => ExtVal.offeredPsks q.1 q.2) _ _ h0,
      strict_map_false (pairDec (list 2 (pairDec (opq 2) (uintBE 4))) (list 2 (opq 1)))
        (fun q => ExtVal.offeredPsks q.1 q.2) _ _ _ hx h1⟩
  · intro v hv
    have h0 := extVal_rt (.u16 v) [] hv
    have h1 := extVal_rt (.u16 v) extra hv
    rw [List.append_nil] at h0
    have a := strict_map_true (uintBE 2) ExtVal.u16 (ExtVal.u16 v).enc _ h0
    have b := strict_map_false (uintBE 2) ExtVal.u16 ((ExtVal.u16 v).enc ++ extra) _ _ hx h1
    exact ⟨a, a, b, b⟩
  · intro g k hv
    have h0 := extVal_rt (.keyShare g k) [] hv
    have h1 := extVal_rt (.keyShare g k) extra hv
    rw [List.append_nil] at h0
    exact ⟨strict_map_true (pairDec (uintBE 2) (opq 2)) (fun q => ExtVal.keyShare q.1 q.2) _ _ h0,
      strict_map_false (pairDec (uintBE 2) (opq 2)) (fun q => ExtVal.keyShare q.1 q.2) _ _ _ hx h1⟩
  · intro v hv
    have h0 := extVal_rt (.u32 v) [] hv
    have h1 := extVal_rt (.u32 v) extra hv
    rw [List.append_nil] at h0
    exact ⟨strict_map_true (uintBE 4) ExtVal.u32 (ExtVal.u32 v).enc _ h0, strict_map_false (uintBE 4) ExtVal.u32 ((ExtVal.u32 v).enc ++ extra) _ _ hx h1⟩

end AQ.TlsCodec
