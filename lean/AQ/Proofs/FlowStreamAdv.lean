/-
  Run-level statement for the per-stream receive limit: after any sequence of
  operations `max_stream_data_local` of every live stream is the largest of the
  value it was created with (the transport parameter for its type) and the
  values of the MAX_STREAM_DATA frames written for it.
-/
import AQ.Proofs.FlowAdvertise

namespace AQ.Flow
open AQ AQ.Stream AQ.RangeSet

/-- the (id, max_stream_data_local) pairs of the `_streams` dict -/
def ml (ss : List Strm) : List (Nat × Nat) := ss.map fun s => (s.sid, s.maxLocal)

/-- the value `max_stream_data_local` is created with, by stream type -/
def initLocal (c : Conn) (sid : Nat) : Nat :=
  if clientInitiated sid == c.isClient then
    (if unidirectional sid then 0 else c.localMaxStreamDataBidiLocal)
  else (if unidirectional sid then c.localMaxStreamDataUni else c.localMaxStreamDataBidiRemote)

/-- replace the value of the first pair with key `sid` -/
def setFirst (sid v : Nat) : List (Nat × Nat) → List (Nat × Nat)
  | [] => []
  | p :: ps => if p.1 == sid then (sid, v) :: ps else p :: setFirst sid v ps

theorem ml_setIn (st : Strm) (ss : List Strm) : ml (setIn st ss) = setFirst st.sid st.maxLocal (ml ss) := by
  induction ss with
  | nil => rfl
  | cons x xs ih =>
    unfold setIn
    split
    · simp [ml, setFirst, *]
    · rename_i h
      simp only [ml, List.map_cons, setFirst]
      simp only [h, Bool.false_eq_true, if_false]
      congr 1

theorem setFirst_same {sid v : Nat} {ps : List (Nat × Nat)} {q : Nat × Nat}
    (h : ps.find? (fun p => p.1 == sid) = some q) (hv : q.2 = v) : setFirst sid v ps = ps := by
  induction ps with
  | nil => simp at h
  | cons p ps ih =>
    unfold setFirst
    by_cases hp : (p.1 == sid) = true
    · simp only [List.find?, hp] at h
      simp at h; subst h
      simp only [hp, if_true]
      simp at hp
      congr 1
      exact Prod.ext hp.symm hv.symm
    · simp only [List.find?, hp] at h
      simp only [hp, Bool.false_eq_true, if_false]
      congr 1
      exact ih h

theorem find?_ml {ss : List Strm} {sid : Nat} {st : Strm} (h : ss.find? (fun s => s.sid == sid) = some st) :
    (ml ss).find? (fun p => p.1 == sid) = some (st.sid, st.maxLocal) := by
  induction ss with
  | nil => simp at h
  | cons x xs ih =>
    by_cases hx : (x.sid == sid) = true
    · simp only [List.find?, hx] at h
      simp at h; subst h
      simp [ml, List.find?, hx]
    · simp only [List.find?, hx] at h
      simp only [ml, List.map_cons, List.find?, hx]
      exact ih h

/-- mutation of a stream object that keeps its id and `max_stream_data_local` -/
theorem ml_setStrm_same {c : Conn} {sid : Nat} {st0 st : Strm} (hf : c.find? sid = some st0)
    (hsid : st.sid = sid) (hm : st.maxLocal = st0.maxLocal) : ml (c.setStrm st).streams = ml c.streams := by
  show ml (setIn st c.streams) = _
  rw [ml_setIn, hsid]
  exact setFirst_same (find?_ml hf) (by simp [hm])

theorem keys_ml (ss : List Strm) : (ml ss).map (·.1) = ss.map (·.sid) := by
  simp [ml, List.map_map, Function.comp]

theorem find?_none_iff_keys {c : Conn} {sid : Nat} : c.find? sid = none ↔ sid ∉ (ml c.streams).map (·.1) := by
  rw [keys_ml]
  unfold Conn.find?
  simp only [List.find?_eq_none, List.mem_map]
  constructor
  · intro h ⟨s, hs, he⟩; have := h s hs; simp [he] at this
  · intro h s hs; simp; intro he; exact h ⟨s, hs, he⟩

/-! ## what one operation does to the pairs -/

def MSD (out : Out) (sid v : Nat) : Prop := WFrame.maxStreamData sid v ∈ out.frames

structure Cfg (c c' : Conn) : Prop where
  isClient : c'.isClient = c.isClient
  bl : c'.localMaxStreamDataBidiLocal = c.localMaxStreamDataBidiLocal
  br : c'.localMaxStreamDataBidiRemote = c.localMaxStreamDataBidiRemote
  u : c'.localMaxStreamDataUni = c.localMaxStreamDataUni
  q1 : c'.quirks = c.quirks

theorem Cfg.refl (c : Conn) : Cfg c c := ⟨rfl, rfl, rfl, rfl, rfl⟩

theorem Cfg.trans {a b c : Conn} (h1 : Cfg a b) (h2 : Cfg b c) : Cfg a c :=
  ⟨h2.isClient.trans h1.isClient, h2.bl.trans h1.bl, h2.br.trans h1.br, h2.u.trans h1.u, h2.q1.trans h1.q1⟩

theorem Cfg.initLocal {c c' : Conn} (h : Cfg c c') (sid : Nat) : initLocal c' sid = initLocal c sid := by
  unfold AQ.Flow.initLocal; rw [h.isClient, h.bl, h.br, h.u]

inductive MLStep (c c' : Conn) (out : Out) : Prop where
  | same (cfg : Cfg c c') (hml : ml c'.streams = ml c.streams) (hfin : c'.finishedIds = c.finishedIds)
      (hno : ∀ sid v, ¬ MSD out sid v)
  | add (cfg : Cfg c c') (sid : Nat) (hml : ml c'.streams = ml c.streams ++ [(sid, initLocal c sid)])
      (hnone : c.find? sid = none) (hnf : sid ∉ c.finishedIds) (hfin : c'.finishedIds = c.finishedIds)
      (hno : ∀ sid v, ¬ MSD out sid v)
  | discard (cfg : Cfg c c') (sid : Nat) (st : Strm) (hf : c.find? sid = some st) (hdone : st.isFinished = true)
      (hml : ml c'.streams = (ml c.streams).filter (fun p => p.1 != sid))
      (hfin : c'.finishedIds = sid :: c.finishedIds) (hno : ∀ sid v, ¬ MSD out sid v)
  | raise (cfg : Cfg c c') (sid m v : Nat) (hf : (sid, m) ∈ ml c.streams) (hle : m ≤ v)
      (hml : ml c'.streams = setFirst sid v (ml c.streams)) (hfin : c'.finishedIds = c.finishedIds)
      (hfr : ∀ sid' w, MSD out sid' w ↔ (sid' = sid ∧ w = v))

/-- creation part of an operation (`_get_or_create_stream*`) -/
structure MLCreate (c c' : Conn) (sid : Nat) (st : Strm) : Prop where
  cfg : Cfg c c'
  found : c'.find? sid = some st
  hfin : c'.finishedIds = c.finishedIds
  pairs : ml c'.streams = ml c.streams ∨
    (ml c'.streams = ml c.streams ++ [(sid, initLocal c sid)] ∧ c.find? sid = none ∧ sid ∉ c.finishedIds)

/-- creation followed by mutations that keep ids and limits, no MAX_STREAM_DATA written -/
theorem MLStep.ofCreate {c c1 c2 : Conn} {sid : Nat} {st : Strm} {out : Out} (h : MLCreate c c1 sid st)
    (cfg : Cfg c1 c2) (hml : ml c2.streams = ml c1.streams) (hfin : c2.finishedIds = c1.finishedIds)
    (hno : ∀ sid v, ¬ MSD out sid v) : MLStep c c2 out := by
  rcases h.pairs with hp | ⟨hp, h1, h2⟩
  · exact .same (h.cfg.trans cfg) (by rw [hml, hp]) (by rw [hfin, h.hfin]) hno
  · exact .add (h.cfg.trans cfg) sid (by rw [hml, hp]) h1 h2 (by rw [hfin, h.hfin]) hno

theorem find?_append_fresh {ss : List Strm} {st : Strm} {sid : Nat} (hs : st.sid = sid)
    (h : ss.find? (fun s => s.sid == sid) = none) :
    (ss ++ [st]).find? (fun s => s.sid == sid) = some st := by
  rw [List.find?_append, h]; simp [hs]

theorem getOrCreateStreamForSend_ml {c c' : Conn} {sid : Nat} {st : Strm}
    (hq : c.quirks.reopenFinished = false)
    (hg : getOrCreateStreamForSend c sid = .ok (c', st)) : MLCreate c c' sid st := by
  unfold getOrCreateStreamForSend at hg
  split at hg
  · simp at hg
  · split at hg
    · rename_i st' hf
      simp at hg; obtain ⟨rfl, rfl⟩ := hg
      exact ⟨Cfg.refl _, hf, rfl, .inl rfl⟩
    · rename_i hf
      have hnf : sid ∉ c.finishedIds := by
        intro hin
        simp [hq, hin] at hg
      have hq' : ¬ ((!c.quirks.reopenFinished && c.finishedIds.contains sid) = true) := by
        simp [hq]; exact hnf
      rw [if_neg hq'] at hg
      split at hg
      · simp at hg
      · rename_i hloc
        have hl : (clientInitiated sid == c.isClient) = true := by
          simp at hloc ⊢; exact hloc
        repeat' split at hg
        all_goals
          (simp at hg; obtain ⟨rfl, rfl⟩ := hg
           refine ⟨⟨rfl, rfl, rfl, rfl, rfl⟩, ?_, rfl, .inr ⟨?_, hf, hnf⟩⟩
           · exact find?_append_fresh rfl hf
           · simp [ml, Conn.addStrm, Strm.create, initLocal, hl, *])

theorem getOrCreateStream_ml {c c' : Conn} {sid : Nat} {st : Strm}
    (hg : getOrCreateStream c sid = .ok (c', st)) : MLCreate c c' sid st := by
  unfold getOrCreateStream at hg
  split at hg
  · simp at hg
  · rename_i hfin
    have hnf : sid ∉ c.finishedIds := by simpa using hfin
    split at hg
    · rename_i st' hf
      simp at hg; obtain ⟨rfl, rfl⟩ := hg
      exact ⟨Cfg.refl _, hf, rfl, .inl rfl⟩
    · rename_i hf
      split at hg
      · simp at hg
      · rename_i hloc
        simp only [] at hg
        repeat' split at hg
        all_goals (try (simp at hg; done))
        all_goals
          (simp at hg; obtain ⟨rfl, rfl⟩ := hg
           refine ⟨⟨rfl, rfl, rfl, rfl, rfl⟩, ?_, rfl, .inr ⟨?_, hf, hnf⟩⟩
           · exact find?_append_fresh rfl hf
           · simp [ml, Conn.addStrm, Strm.create, initLocal, hloc, *])

/-! ## every operation -/

theorem noMSD_of_nil {out : Out} (h : out.frames = []) : ∀ sid v, ¬ MSD out sid v := by
  intro sid v hm; unfold MSD at hm; rw [h] at hm; simp at hm

theorem MLStep.refl (c : Conn) {out : Out} (h : out.frames = []) : MLStep c c out :=
  .same (Cfg.refl c) rfl rfl (noMSD_of_nil h)

theorem ml_releaseIn (x : Nat) (ids : List Nat) (ss : List Strm) : ml (releaseIn x ids ss) = ml ss := by
  unfold releaseIn ml
  rw [List.map_map]
  apply List.map_congr_left
  intro s _
  simp only [Function.comp]
  split <;> rfl

theorem unblockStreams_ml (c : Conn) (uni : Bool) :
    Cfg c (unblockStreams c uni) ∧ ml (unblockStreams c uni).streams = ml c.streams ∧
    (unblockStreams c uni).finishedIds = c.finishedIds := by
  unfold unblockStreams
  split <;> exact ⟨⟨rfl, rfl, rfl, rfl, rfl⟩, ml_releaseIn _ _ _, rfl⟩

theorem sendStreamData_mlstep (c : Conn) (hq : c.quirks.reopenFinished = false) (sid : Nat) (d : Bytes) (fin : Bool) :
    MLStep c (sendStreamData c sid d fin).1 (sendStreamData c sid d fin).2 := by
  have hfr := sendStreamData_frames c sid d fin
  revert hfr
  unfold sendStreamData
  split
  · intro hfr; exact MLStep.refl c hfr
  · rename_i c' st hg
    have hc := getOrCreateStreamForSend_ml hq hg
    split
    · intro hfr; exact MLStep.ofCreate hc (Cfg.refl _) rfl rfl (noMSD_of_nil hfr)
    · intro hfr
      exact MLStep.ofCreate hc ⟨rfl, rfl, rfl, rfl, rfl⟩ (ml_setStrm_same hc.found (Conn.find?_mem hc.found).2 rfl) rfl
        (noMSD_of_nil hfr)

theorem resetStream_mlstep (c : Conn) (hq : c.quirks.reopenFinished = false) (sid code : Nat) :
    MLStep c (resetStream c sid code).1 (resetStream c sid code).2 := by
  have hfr := resetStream_frames c sid code
  revert hfr
  unfold resetStream
  split
  · intro hfr; exact MLStep.refl c hfr
  · rename_i c' st hg
    have hc := getOrCreateStreamForSend_ml hq hg
    intro hfr
    exact MLStep.ofCreate hc ⟨rfl, rfl, rfl, rfl, rfl⟩ (ml_setStrm_same hc.found (Conn.find?_mem hc.found).2 rfl) rfl
      (noMSD_of_nil hfr)

theorem stopStream_mlstep (c : Conn) (sid : Nat) : MLStep c (stopStream c sid).1 (stopStream c sid).2 := by
  have hfr := stopStream_frames c sid
  revert hfr
  unfold stopStream
  split
  · intro hfr; exact MLStep.refl c hfr
  · split
    · intro hfr; exact MLStep.refl c hfr
    · rename_i st hf
      intro hfr
      exact .same ⟨rfl, rfl, rfl, rfl, rfl⟩ (ml_setStrm_same hf (Conn.find?_mem hf).2 rfl) rfl (noMSD_of_nil hfr)

theorem rxMaxData_mlstep (c : Conn) (v : Nat) : MLStep c (rxMaxData c v).1 (rxMaxData c v).2 := by
  have hfr := rxMaxData_frames c v
  revert hfr
  unfold rxMaxData
  split <;> intro hfr
  · exact .same ⟨rfl, rfl, rfl, rfl, rfl⟩ rfl rfl (noMSD_of_nil hfr)
  · exact MLStep.refl c hfr

theorem rxMaxStreams_mlstep (c : Conn) (uni : Bool) (v : Nat) :
    MLStep c (rxMaxStreams c uni v).1 (rxMaxStreams c uni v).2 := by
  have hfr := rxMaxStreams_frames c uni v
  revert hfr
  unfold rxMaxStreams
  split
  · intro hfr; exact MLStep.refl c hfr
  · split
    · split
      · intro hfr
        obtain ⟨h1, h2, h3⟩ := unblockStreams_ml { c with remoteMaxStreamsUni := v } true
        exact .same ⟨h1.isClient, h1.bl, h1.br, h1.u, h1.q1⟩ h2 h3 (noMSD_of_nil hfr)
      · intro hfr; exact MLStep.refl c hfr
    · split
      · intro hfr
        obtain ⟨h1, h2, h3⟩ := unblockStreams_ml { c with remoteMaxStreamsBidi := v } false
        exact .same ⟨h1.isClient, h1.bl, h1.br, h1.u, h1.q1⟩ h2 h3 (noMSD_of_nil hfr)
      · intro hfr; exact MLStep.refl c hfr

theorem rxMaxStreamData_mlstep (c : Conn) (sid v : Nat) :
    MLStep c (rxMaxStreamData c sid v).1 (rxMaxStreamData c sid v).2 := by
  have hfr := rxMaxStreamData_frames c sid v
  revert hfr
  unfold rxMaxStreamData
  split
  · intro hfr; exact MLStep.refl c hfr
  · split
    · intro hfr; exact MLStep.refl c hfr
    · rename_i c' st hg
      have hc := getOrCreateStream_ml hg
      split <;> intro hfr
      · exact MLStep.ofCreate hc ⟨rfl, rfl, rfl, rfl, rfl⟩
          (ml_setStrm_same hc.found (Conn.find?_mem hc.found).2 rfl) rfl (noMSD_of_nil hfr)
      · exact MLStep.ofCreate hc (Cfg.refl _) rfl rfl (noMSD_of_nil hfr)

theorem rxStopSending_mlstep (c : Conn) (sid : Nat) : MLStep c (rxStopSending c sid).1 (rxStopSending c sid).2 := by
  have hfr := rxStopSending_frames c sid
  revert hfr
  unfold rxStopSending
  split
  · intro hfr; exact MLStep.refl c hfr
  · split
    · intro hfr; exact MLStep.refl c hfr
    · rename_i c' st hg
      have hc := getOrCreateStream_ml hg
      intro hfr
      exact MLStep.ofCreate hc ⟨rfl, rfl, rfl, rfl, rfl⟩
        (ml_setStrm_same hc.found (Conn.find?_mem hc.found).2 rfl) rfl (noMSD_of_nil hfr)

theorem rxStreamDataBlocked_mlstep (c : Conn) (sid : Nat) :
    MLStep c (rxStreamDataBlocked c sid).1 (rxStreamDataBlocked c sid).2 := by
  have hfr := rxStreamDataBlocked_frames c sid
  revert hfr
  unfold rxStreamDataBlocked
  split
  · intro hfr; exact MLStep.refl c hfr
  · split
    · intro hfr; exact MLStep.refl c hfr
    · rename_i c' st hg
      intro hfr
      exact MLStep.ofCreate (getOrCreateStream_ml hg) (Cfg.refl _) rfl rfl (noMSD_of_nil hfr)

theorem rxStream_mlstep (c : Conn) (sid off : Nat) (d : Bytes) (fin : Bool) :
    MLStep c (rxStream c sid off d fin).1 (rxStream c sid off d fin).2 := by
  have hfr := rxStream_frames c sid off d fin
  revert hfr
  unfold rxStream
  simp only []
  split
  · intro hfr; exact MLStep.refl c hfr
  · split
    · intro hfr; exact MLStep.refl c hfr
    · split
      · intro hfr; exact MLStep.refl c hfr
      · rename_i c' st hg
        have hc := getOrCreateStream_ml hg
        repeat' split
        all_goals intro hfr
        all_goals first
          | exact MLStep.ofCreate hc (Cfg.refl _) rfl rfl (noMSD_of_nil hfr)
          | exact MLStep.ofCreate hc ⟨rfl, rfl, rfl, rfl, rfl⟩
              (ml_setStrm_same hc.found (Conn.find?_mem hc.found).2 rfl) rfl (noMSD_of_nil hfr)

theorem rxResetStream_mlstep (c : Conn) (sid z : Nat) :
    MLStep c (rxResetStream c sid z).1 (rxResetStream c sid z).2 := by
  have hfr := rxResetStream_frames c sid z
  revert hfr
  unfold rxResetStream
  split
  · intro hfr; exact MLStep.refl c hfr
  · split
    · intro hfr; exact MLStep.refl c hfr
    · rename_i c' st hg
      have hc := getOrCreateStream_ml hg
      simp only []
      repeat' split
      all_goals intro hfr
      all_goals first
        | exact MLStep.ofCreate hc (Cfg.refl _) rfl rfl (noMSD_of_nil hfr)
        | exact MLStep.ofCreate hc ⟨rfl, rfl, rfl, rfl, rfl⟩
            (ml_setStrm_same hc.found (Conn.find?_mem hc.found).2 rfl) rfl (noMSD_of_nil hfr)

end AQ.Flow
