/-
  C14: schedule independence with QPACK blocking — a request / push stream and
  the QPACK encoder stream delivered in any chunking and any interleaving.
-/
import AQ.Model.Qpack
import AQ.Proofs.H3Block
import AQ.Proofs.H3Conn
namespace AQ.H3
section
variable (Q : Qpack) (cfg : Cfg)

/-- the decoder state after `x` more encoder-stream bytes -/
def QState.ext (q : QState) (x : Bytes) : QState := { q with enc := q.enc ++ x }

theorem decode_notBlocked (q : QState) (sid : Nat) (blk : Bytes) (h : Q.dec q.enc blk ≠ .blocked) :
    (qpackOracle Q).decode q sid blk = (Q.dec q.enc blk, q) := by
  cases hd : Q.dec q.enc blk with
  | blocked => exact absurd hd h
  | headers hs => simp [qpackOracle, hd]
  | failed => simp [qpackOracle, hd]

theorem decode_blocked (q : QState) (sid : Nat) (blk : Bytes) (h : Q.dec q.enc blk = .blocked) :
    (qpackOracle Q).decode q sid blk = (.blocked, { q with pending := q.pending ++ [(sid, blk)] }) := by
  simp only [qpackOracle, h]

/-- the validators and the qlog encoder do not touch the decoder state -/
theorem finishHeaders_q (p : PState) (q q' : QState) (hs : Headers) (b : Bool) :
    finishHeaders (qpackOracle Q) cfg p q' hs b =
      match finishHeaders (qpackOracle Q) cfg p q hs b with
      | .error e => .error e
      | .ok (p2, _, ev) => .ok (p2, q', ev) := by
  unfold finishHeaders logStep
  simp only [qpackOracle]
  cases Q.validate _ hs with
  | invalid => rfl
  | ok cl =>
    dsimp only
    cases (if b = true then checkCL (setExpectedCL p cl) else Except.ok ()) with
    | error e => rfl
    | ok u =>
      dsimp only
      by_cases hl : cfg.logging = true
      · simp only [hl, ↓reduceIte]
        by_cases h2 : Q.logOk hs = false ∧ cfg.k.logDecode = true
        · simp [h2]
        · simp [h2]
      · simp [hl]

theorem finishHeaders_q_ok {p p2 : PState} {q q2 : QState} {hs : Headers} {b : Bool} {ev : List Event}
    (h : finishHeaders (qpackOracle Q) cfg p q hs b = .ok (p2, q2, ev)) : q2 = q := by
  have := finishHeaders_q Q cfg p q q hs b
  rw [h] at this
  simp at this
  exact this

theorem finishPush_q (p : PState) (q q' : QState) (pid : Nat) (hs : Headers) (b : Bool) :
    finishPush (qpackOracle Q) cfg p q' pid hs b =
      match finishPush (qpackOracle Q) cfg p q pid hs b with
      | .error e => .error e
      | .ok (p2, _, ev) => .ok (p2, q', ev) := by
  unfold finishPush logStep
  simp only [qpackOracle]
  cases Q.validate .pushPromise hs with
  | invalid => rfl
  | ok cl =>
    dsimp only
    by_cases hl : cfg.logging = true
    · simp only [hl, ↓reduceIte]
      by_cases h2 : Q.logOk hs = false ∧ cfg.k.logDecode = true
      · simp [h2]
      · simp only [h2, ↓reduceIte]
        cases endOfSilent cfg p b <;> rfl
    · simp only [hl, Bool.false_eq_true, ↓reduceIte]
      cases endOfSilent cfg p b <;> rfl

theorem finishPush_q_ok {p p2 : PState} {q q2 : QState} {pid : Nat} {hs : Headers} {b : Bool} {ev : List Event}
    (h : finishPush (qpackOracle Q) cfg p q pid hs b = .ok (p2, q2, ev)) : q2 = q := by
  have := finishPush_q Q cfg p q q pid hs b
  rw [h] at this
  simp at this
  exact this

/-- what `_handle_request_or_push_frame` does once `x` more encoder-stream bytes are
    known, in terms of what it did before -/
theorem handleFrame_gen (hL : QpackLaws Q) (hpp : cfg.k.blockedPushAsHeaders = false)
    (ft : Option Nat) (d : Bytes) (p : PState) (q : QState) (x : Bytes) (b : Bool) (q' : QState)
    (hext : q'.enc = q.enc ++ x) :
    match handleFrame (qpackOracle Q) cfg ft d p q b with
    | .error e => handleFrame (qpackOracle Q) cfg ft d p q' b = .error e
    | .ok (.done p2 q2 ev) => q2 = q ∧ handleFrame (qpackOracle Q) cfg ft d p q' b = .ok (.done p2 q' ev)
    | .ok (.blocked q1 pp) =>
      ∃ blk, q1 = { q with pending := q.pending ++ [(p.streamId, blk)] } ∧ Q.dec q.enc blk = .blocked ∧
        (pp = none → p.recvState ≠ .afterTrailers) ∧
        handleFrame (qpackOracle Q) cfg ft d p q' b =
          match Q.dec (q.enc ++ x) blk with
          | .blocked => .ok (.blocked { q' with pending := q'.pending ++ [(p.streamId, blk)] } pp)
          | .failed => .error (.h3 0x200)
          | .headers hs =>
            match pp with
            | none =>
              match finishHeaders (qpackOracle Q) cfg p q' hs b with
              | .error e => .error e
              | .ok (s2, q2, evs) => .ok (.done s2 q2 evs)
            | some pid =>
              match finishPush (qpackOracle Q) cfg p q' pid hs b with
              | .error e => .error e
              | .ok (s2, q2, evs) => .ok (.done s2 q2 evs) := by
  have hstab : ∀ blk r, Q.dec q.enc blk = r → r ≠ .blocked → Q.dec (q.enc ++ x) blk = r := by
    intro blk r h1 h2; rw [← h1]; exact hL.stable _ _ _ (by rw [h1]; exact h2)
  cases ft with
  | none =>
    rw [handleFrame_none, handleFrame_none]
    cases endOfSilent cfg p b with
    | error e => rfl
    | ok evs => exact ⟨rfl, rfl⟩
  | some t =>
    by_cases h0 : t = 0
    · subst h0
      rw [handleFrame_data, handleFrame_data]
      by_cases hr : p.recvState ≠ HState.afterHeaders
      · rw [if_pos hr, if_pos hr]
      · rw [if_neg hr, if_neg hr]
        cases (if b = true then checkCL { p with contentLength := p.contentLength + d.length } else Except.ok ()) with
        | error e => rfl
        | ok u => exact ⟨rfl, rfl⟩
    · by_cases h1 : t = 1
      · subst h1
        rw [handleFrame_headers, handleFrame_headers]
        by_cases hr : p.recvState = HState.afterTrailers
        · rw [if_pos hr, if_pos hr]
        · rw [if_neg hr, if_neg hr]
          cases hd : Q.dec q.enc d with
          | blocked =>
            rw [decode_blocked Q q p.streamId d hd]
            dsimp only
            refine ⟨d, rfl, hd, fun _ => hr, ?_⟩
            cases hd2 : Q.dec (q.enc ++ x) d with
            | blocked => rw [decode_blocked Q q' p.streamId d (by rw [hext]; exact hd2)]
            | failed => rw [decode_notBlocked Q q' p.streamId d (by rw [hext, hd2]; simp), hext, hd2]
            | headers hs =>
              rw [decode_notBlocked Q q' p.streamId d (by rw [hext, hd2]; simp), hext, hd2]
              dsimp only
              cases finishHeaders (qpackOracle Q) cfg p q' hs b <;> rfl
          | failed =>
            have h2 := hstab d _ hd (by simp)
            rw [decode_notBlocked Q q p.streamId d (by rw [hd]; simp), hd,
              decode_notBlocked Q q' p.streamId d (by rw [hext, h2]; simp), hext, h2]
          | headers hs =>
            have h2 := hstab d _ hd (by simp)
            rw [decode_notBlocked Q q p.streamId d (by rw [hd]; simp), hd,
              decode_notBlocked Q q' p.streamId d (by rw [hext, h2]; simp), hext, h2]
            dsimp only
            rw [finishHeaders_q Q cfg p q q' hs b]
            cases hf : finishHeaders (qpackOracle Q) cfg p q hs b with
            | error e => rfl
            | ok v =>
              obtain ⟨p2, q2, ev⟩ := v
              exact ⟨finishHeaders_q_ok Q cfg hf, rfl⟩
      · rw [handleFrame_other (qpackOracle Q) cfg t h0 h1, handleFrame_other (qpackOracle Q) cfg t h0 h1]
        by_cases hpq : t = 5 ∧ p.pushId = none
        · rw [if_pos hpq, if_pos hpq]
          by_cases hcl : cfg.isClient = false
          · rw [if_pos hcl, if_pos hcl]
          · rw [if_neg hcl, if_neg hcl]
            cases pullVarint d with
            | none =>
              dsimp only
              by_cases hq : cfg.k.pushPromiseBufferRead = true
              · simp [hq]
              · simp [hq]
            | some v =>
              obtain ⟨pid, rest⟩ := v
              dsimp only
              cases hd : Q.dec q.enc rest with
              | blocked =>
                rw [decode_blocked Q q p.streamId rest hd]
                dsimp only
                refine ⟨rest, rfl, hd, ?_, ?_⟩
                · intro h; simp [hpp] at h
                simp only [hpp, Bool.false_eq_true, ↓reduceIte]
                cases hd2 : Q.dec (q.enc ++ x) rest with
                | blocked =>
                  rw [decode_blocked Q q' p.streamId rest (by rw [hext]; exact hd2)]
                | failed => rw [decode_notBlocked Q q' p.streamId rest (by rw [hext, hd2]; simp), hext, hd2]
                | headers hs =>
                  rw [decode_notBlocked Q q' p.streamId rest (by rw [hext, hd2]; simp), hext, hd2]
                  dsimp only
                  cases finishPush (qpackOracle Q) cfg p q' pid hs b <;> rfl
              | failed =>
                have h2 := hstab rest _ hd (by simp)
                rw [decode_notBlocked Q q p.streamId rest (by rw [hd]; simp), hd,
                  decode_notBlocked Q q' p.streamId rest (by rw [hext, h2]; simp), hext, h2]
              | headers hs =>
                have h2 := hstab rest _ hd (by simp)
                rw [decode_notBlocked Q q p.streamId rest (by rw [hd]; simp), hd,
                  decode_notBlocked Q q' p.streamId rest (by rw [hext, h2]; simp), hext, h2]
                dsimp only
                rw [finishPush_q Q cfg p q q' pid hs b]
                cases hf : finishPush (qpackOracle Q) cfg p q pid hs b with
                | error e => rfl
                | ok v =>
                  obtain ⟨p2, q2, ev⟩ := v
                  exact ⟨finishPush_q_ok Q cfg hf, rfl⟩
        · rw [if_neg hpq, if_neg hpq]
          by_cases hfb : forbiddenOnRequest t = true
          · rw [if_pos hfb, if_pos hfb]
          · rw [if_neg hfb, if_neg hfb]
            cases endOfSilent cfg p b with
            | error e => rfl
            | ok evs => exact ⟨rfl, rfl⟩


theorem handleFrame_ext (hL : QpackLaws Q) (hpp : cfg.k.blockedPushAsHeaders = false)
    (ft : Option Nat) (d : Bytes) (p : PState) (q : QState) (x : Bytes) (b : Bool) :
    match handleFrame (qpackOracle Q) cfg ft d p q b with
    | .error e => handleFrame (qpackOracle Q) cfg ft d p (q.ext x) b = .error e
    | .ok (.done p2 q2 ev) => q2 = q ∧ handleFrame (qpackOracle Q) cfg ft d p (q.ext x) b = .ok (.done p2 (q.ext x) ev)
    | .ok (.blocked q1 pp) =>
      ∃ blk, q1 = { q with pending := q.pending ++ [(p.streamId, blk)] } ∧ Q.dec q.enc blk = .blocked ∧
        (pp = none → p.recvState ≠ .afterTrailers) ∧
        handleFrame (qpackOracle Q) cfg ft d p (q.ext x) b =
          match Q.dec (q.enc ++ x) blk with
          | .blocked => .ok (.blocked { (q.ext x) with pending := q.pending ++ [(p.streamId, blk)] } pp)
          | .failed => .error (.h3 0x200)
          | .headers hs =>
            match pp with
            | none =>
              match finishHeaders (qpackOracle Q) cfg p (q.ext x) hs b with
              | .error e => .error e
              | .ok (s2, q2, evs) => .ok (.done s2 q2 evs)
            | some pid =>
              match finishPush (qpackOracle Q) cfg p (q.ext x) pid hs b with
              | .error e => .error e
              | .ok (s2, q2, evs) => .ok (.done s2 q2 evs) :=
  handleFrame_gen Q cfg hL hpp ft d p q x b (q.ext x) rfl

/-! ### the list of pending header blocks -/

theorem unblocked_notin (E : Bytes) (sid : Nat) : ∀ (l : List (Nat × Bytes)), pendingBlock sid l = none →
    (unblockedIds Q E l).contains sid = false := by
  intro l
  induction l with
  | nil => intro _; rfl
  | cons a r ih =>
    obtain ⟨i, b⟩ := a
    intro h
    simp only [pendingBlock] at h
    by_cases hi : i = sid
    · simp [hi] at h
    · simp only [hi, ↓reduceIte] at h
      simp only [unblockedIds]
      split
      · exact ih h
      · have := ih h
        simp only [List.contains_eq_mem, decide_eq_false_iff_not] at this
        simp only [List.contains_eq_mem, List.mem_cons, decide_eq_false_iff_not, not_or]
        exact ⟨fun e => hi e.symm, this⟩

theorem unblocked_append (E : Bytes) (sid : Nat) (b : Bytes) : ∀ (l : List (Nat × Bytes)),
    unblockedIds Q E (l ++ [(sid, b)]) =
      unblockedIds Q E l ++ (if Q.dec E b = .blocked then [] else [sid]) := by
  intro l
  induction l with
  | nil => simp [unblockedIds]
  | cons a r ih =>
    obtain ⟨i, c⟩ := a
    simp only [List.cons_append, unblockedIds, ih]
    split <;> simp

theorem pendingBlock_append_self (sid : Nat) (b : Bytes) : ∀ (l : List (Nat × Bytes)), pendingBlock sid l = none →
    pendingBlock sid (l ++ [(sid, b)]) = some b := by
  intro l
  induction l with
  | nil => intro _; simp [pendingBlock]
  | cons a r ih =>
    obtain ⟨i, c⟩ := a
    intro h
    simp only [pendingBlock] at h
    by_cases hi : i = sid
    · simp [hi] at h
    · simp only [hi, ↓reduceIte] at h
      simp only [List.cons_append, pendingBlock, hi, ↓reduceIte]
      exact ih h

theorem pendingErase_append_self (sid : Nat) (b : Bytes) : ∀ (l : List (Nat × Bytes)), pendingBlock sid l = none →
    pendingErase sid (l ++ [(sid, b)]) = l := by
  intro l
  induction l with
  | nil => intro _; simp [pendingErase]
  | cons a r ih =>
    obtain ⟨i, c⟩ := a
    intro h
    simp only [pendingBlock] at h
    by_cases hi : i = sid
    · simp [hi] at h
    · simp only [hi, ↓reduceIte] at h
      simp only [List.cons_append, pendingErase, hi, ↓reduceIte]
      rw [ih h]

/-- the QPACK encoder stream delivers `x`: the decoder learns the bytes, and the request
    stream `S` is resumed if it is among the streams reported unblocked
    (`_receive_stream_data_uni`, encoder branch + `for stream_id in unblocked_streams`) -/
def encStep (x : Bytes) (S : Stream) (q : QState) : Res QState :=
  match (qpackOracle Q).feedEncoder q x with
  | (.error, _) => .error (.h3 0x201)
  | (.unblocked ids, q') =>
    if ids.contains S.streamId then resumeStream (qpackOracle Q) cfg S q' else .ok (S, q', [])

theorem feedEncoder_ok (q : QState) (x : Bytes) (hok : Q.encOk (q.enc ++ x) = true) :
    (qpackOracle Q).feedEncoder q x = (.unblocked (unblockedIds Q (q.enc ++ x) q.pending), q.ext x) := by
  simp [qpackOracle, hok, QState.ext]

/-- nothing is waiting for the encoder stream -/
theorem encStep_idle (x : Bytes) (S : Stream) (q : QState) (hq : pendingBlock S.streamId q.pending = none)
    (hok : Q.encOk (q.enc ++ x) = true) : encStep Q cfg x S q = .ok (S, q.ext x, []) := by
  unfold encStep
  rw [feedEncoder_ok Q q x hok]
  simp only [unblocked_notin Q _ _ _ hq, Bool.false_eq_true, ↓reduceIte]

theorem andThen_idle (x : Bytes) (S : Stream) (q : QState) (ev : List Event)
    (hq : pendingBlock S.streamId q.pending = none)
    (hok : Q.encOk (q.enc ++ x) = true) :
    andThen (.ok (S, q, ev)) (encStep Q cfg x) = .ok (S, q.ext x, ev) := by
  simp [andThen, encStep_idle Q cfg x S q hq hok]

theorem frameHeader_bl (ea : Bool) (s : Stream) (rest : Bytes) :
    match frameHeader ea s rest with
    | .stuck s1 => s1.blocked = s.blocked ∧ s1.blockedFrameSize = s.blockedFrameSize ∧ s1.blockedPush = s.blockedPush
    | .wt s1 _ => s1.blocked = s.blocked ∧ s1.blockedFrameSize = s.blockedFrameSize ∧ s1.blockedPush = s.blockedPush
    | .go s1 _ => s1.blocked = s.blocked ∧ s1.blockedFrameSize = s.blockedFrameSize ∧ s1.blockedPush = s.blockedPush := by
  unfold frameHeader
  cases s.frameSize with
  | some z => exact ⟨rfl, rfl, rfl⟩
  | none =>
    dsimp only
    cases pullVarint rest with
    | none => exact ⟨rfl, rfl, rfl⟩
    | some v =>
      obtain ⟨t, r1⟩ := v
      dsimp only
      cases pullVarint r1 with
      | none => exact ⟨rfl, rfl, rfl⟩
      | some w =>
        obtain ⟨sz, r2⟩ := w
        dsimp only
        by_cases ht : t = 65
        · rw [if_pos ht]; exact ⟨rfl, rfl, rfl⟩
        · rw [if_neg ht]; exact ⟨rfl, rfl, rfl⟩


/-- the stream state `stream.blocked = True` leaves behind for a frame of `len` payload bytes -/
def blockedAt (s1 : Stream) (len : Nat) (pp : Option Nat) (rest : Bytes) : Stream :=
  { s1 with frameSize := none, frameType := none, blocked := true, blockedFrameSize := some len,
            blockedPush := pp, buffer := rest }

/-- the state in which the frame loop continues after the frame was handled -/
def afterFrame (s1 : Stream) (p2 : PState) : Stream :=
  { s1 with frameSize := none, frameType := none, p := p2 }

/-- the frame loop going on after a frame that produced `ev` -/
def contLoop {σ : Type} (o : Oracle σ) (cfg : Cfg) (ea : Bool) (n : Nat) (s : Stream) (q : σ) (rest : Bytes)
    (ev : List Event) : Outcome (LoopRes σ) :=
  match reqLoop o cfg ea n s q rest with
  | .error e => .error e
  | .ok res => .ok (res.prepend ev)

/-- the rest of a loop iteration once the (complete) frame has been handled -/
def fullStep {σ : Type} (o : Oracle σ) (cfg : Cfg) (ea : Bool) (n : Nat) (s1 : Stream) (r : Bytes) (sz : Nat)
    (hf : Outcome (FrameRes σ)) : Outcome (LoopRes σ) :=
  match hf with
  | .error e => .error e
  | .ok (.blocked q1 pp) => .ok (.brk { blockedAt s1 (r.take sz).length pp s1.buffer with buffer := s1.buffer } q1 (r.drop sz) [])
  | .ok (.done p2 q2 ev) => contLoop o cfg ea n (afterFrame s1 p2) q2 (r.drop sz) ev

theorem bodyLoop_full {σ : Type} (o : Oracle σ) (ea : Bool) (n : Nat) (s1 : Stream) (q : σ) (r : Bytes) (sz : Nat)
    (h : s1.frameSize = some sz) (hlen : sz ≤ r.length) :
    bodyLoop o cfg ea n s1 q r = fullStep o cfg ea n s1 r sz
      (handleFrame o cfg s1.frameType (r.take sz) s1.p q (s1.receivingEnded && (r.drop sz).isEmpty)) := by
  unfold bodyLoop fullStep contLoop
  rw [frameBody_full o cfg s1 q r sz h hlen]
  cases handleFrame o cfg s1.frameType (r.take sz) s1.p q (s1.receivingEnded && (r.drop sz).isEmpty) with
  | error e => rfl
  | ok fr => cases fr <;> rfl

/-- `resumeStream` after "resume headers" -/
def resumeCont {σ : Type} (o : Oracle σ) (cfg : Cfg) (st2 : Stream) (q1 : σ) (ev1 : List Event) : Res σ :=
  if st2.buffer = [] then .ok (st2, q1, ev1)
  else
    match recvReq o cfg st2 q1 [] st2.receivingEnded with
    | .error e => .error e
    | .ok (st3, q2, ev2) => .ok (st3, q2, ev1 ++ ev2)

def unblock (st : Stream) (p1 : PState) : Stream :=
  { st with p := p1, blocked := false, blockedFrameSize := none, blockedPush := none }

/-- `resumeStream` after its "reset the blocked state" statements -/
def resumedAt (s1 : Stream) (len : Nat) (pp : Option Nat) (rest : Bytes) (p2 : PState) : Stream :=
  unblock (blockedAt s1 len pp rest) p2

theorem resumeStream_eq {σ : Type} (o : Oracle σ) (st : Stream) (q : σ) :
    resumeStream o cfg st q =
      match resumeFrame o cfg st.p st.blockedPush q (st.receivingEnded && st.buffer.isEmpty) with
      | .error e => .error e
      | .ok (p1, q1, ev1) => resumeCont o cfg (unblock st p1) q1 ev1 := by
  unfold resumeStream resumeCont unblock
  cases resumeFrame o cfg st.p st.blockedPush q (st.receivingEnded && st.buffer.isEmpty) with
  | error e => rfl
  | ok v => rfl

/-- "reset the blocked state … resume processing" of `resumeStream` = the frame loop going on
    after the frame that had been blocked -/
theorem resume_tail {σ : Type} (o : Oracle σ) (s1 : Stream) (q2 : σ) (p2 : PState) (ev : List Event) (rest : Bytes)
    (len : Nat) (pp : Option Nat) (fuel : Nat)
    (hblk : s1.blocked = false) (hbfs : s1.blockedFrameSize = none) (hbp : s1.blockedPush = none)
    (hsess : s1.sessionId = none) (hbuf : s1.buffer = []) (hf : rest.length < fuel) :
    REq (resumeCont o cfg (resumedAt s1 len pp rest p2) q2 ev)
      (loopPost cfg (contLoop o cfg s1.receivingEnded fuel (afterFrame s1 p2) q2 rest ev)) := by
  unfold resumeCont contLoop
  by_cases hrest : rest = []
  · subst hrest
    simp only [resumedAt, unblock, blockedAt, ↓reduceIte, reqLoop_nil, prepend_brk, List.append_nil, afterFrame]
    simp only [loopPost, Option.isSome_none, ne_eq, not_true_eq_false, Bool.false_eq_true, or_self,
      and_false, ↓reduceIte, REq]
    refine ⟨?_, trivial, NEq.refl _⟩
    cases s1; simp_all
  · have hb : (resumedAt s1 len pp rest p2).buffer ≠ [] := hrest
    rw [if_neg hb]
    have hre : (resumedAt s1 len pp rest p2).receivingEnded = s1.receivingEnded := rfl
    rw [hre, recvReq_main o cfg]
    rotate_left
    · rfl
    · exact hsess
    · intro sz _ hz; cases hz
    unfold recvReqMain
    simp only [resumedAt, unblock, blockedAt, List.append_nil, Bool.or_self, hrest, and_false, ↓reduceIte]
    rw [reqLoop_fuel o cfg s1.receivingEnded (rest.length + 1) fuel _ q2 rest (Nat.lt_succ_self _) hf (by simp)]
    simp only [afterFrame, hblk, hbfs, hbp, hbuf]
    generalize reqLoop o cfg s1.receivingEnded fuel _ q2 rest = R
    cases R with
    | error e => simp [loopPost, REq]
    | ok res =>
      cases res with
      | ret s3 q3 evs => simp [loopPost, LoopRes.prepend, REq, NEq.refl]
      | brk s3 q3 r3 evs =>
        simp only [loopPost, LoopRes.prepend]
        by_cases hc : cfg.k.truncatedNoError = false ∧ s3.receivingEnded = true ∧ s3.blocked = false ∧
            (r3 ≠ [] ∨ s3.frameSize.isSome)
        · rw [if_pos hc, if_pos hc]; simp [REq]
        · rw [if_neg hc, if_neg hc]; simp [REq, NEq.refl]


theorem brk_idle (x : Bytes) (s : Stream) (q : QState) (rest : Bytes) (evs : List Event)
    (hq : pendingBlock s.streamId q.pending = none)
    (hok : Q.encOk (q.enc ++ x) = true) :
    REq (andThen (loopPost cfg (.ok (.brk s q rest evs))) (encStep Q cfg x))
      (loopPost cfg (.ok (.brk s (q.ext x) rest evs))) := by
  simp only [loopPost]
  by_cases hc : cfg.k.truncatedNoError = false ∧ s.receivingEnded = true ∧ s.blocked = false ∧
      (rest ≠ [] ∨ s.frameSize.isSome)
  · rw [if_pos hc, if_pos hc]; simp [andThen, REq]
  · rw [if_neg hc, if_neg hc, andThen_idle Q cfg x { s with buffer := rest } q evs hq hok]; exact REq.refl _

theorem ret_idle (x : Bytes) (s : Stream) (q : QState) (evs : List Event)
    (hq : pendingBlock s.streamId q.pending = none)
    (hok : Q.encOk (q.enc ++ x) = true) :
    REq (andThen (loopPost cfg (.ok (.ret s q evs))) (encStep Q cfg x))
      (loopPost cfg (.ok (.ret s (q.ext x) evs))) := by
  simp only [loopPost]
  rw [andThen_idle Q cfg x s q evs hq hok]; exact REq.refl _

/-- what the frame loop relies on between two frames of a stream that is not blocked -/
structure LoopInv (s : Stream) (ea : Bool) (sid : Nat) : Prop where
  blocked : s.blocked = false
  bfs : s.blockedFrameSize = none
  bp : s.blockedPush = none
  sess : s.sessionId = none
  buf : s.buffer = []
  re : s.receivingEnded = ea
  sid : s.p.streamId = sid


/-- the loop statement of `loopE` (below) for one amount of fuel -/
def LoopE (x : Bytes) (ea : Bool) (sid : Nat) (n : Nat) : Prop :=
  ∀ (s : Stream) (q : QState) (rest : Bytes), LoopInv s ea sid → s.frameSize ≠ some 0 →
    pendingBlock sid q.pending = none →
    Q.encOk (q.enc ++ x) = true → rest.length < n →
    REq (andThen (loopPost cfg (reqLoop (qpackOracle Q) cfg ea n s q rest)) (encStep Q cfg x))
      (loopPost cfg (reqLoop (qpackOracle Q) cfg ea n s (q.ext x) rest))

/-- decoder state with exactly one stream waiting -/
def QState.one (q : QState) (x : Bytes) (sid : Nat) (blk : Bytes) : QState :=
  { enc := q.enc ++ x, pending := q.pending ++ [(sid, blk)], decIn := q.decIn }

theorem encStep_one (x : Bytes) (S : Stream) (q : QState) (blk : Bytes)
    (hq : pendingBlock S.streamId q.pending = none)
    (hok : Q.encOk (q.enc ++ x) = true) :
    encStep Q cfg x S { q with pending := q.pending ++ [(S.streamId, blk)] } =
      match Q.dec (q.enc ++ x) blk with
      | .blocked => .ok (S, q.one x S.streamId blk, [])
      | _ => resumeStream (qpackOracle Q) cfg S (q.one x S.streamId blk) := by
  unfold encStep
  rw [feedEncoder_ok Q { q with pending := q.pending ++ [(S.streamId, blk)] } x hok]
  have hn := unblocked_notin Q (q.enc ++ x) _ _ hq
  simp only [List.contains_eq_mem, decide_eq_false_iff_not] at hn
  simp only [unblocked_append, QState.ext, QState.one]
  cases Q.dec (q.enc ++ x) blk <;> simp [hn]

theorem resume_one (x : Bytes) (q : QState) (sid : Nat) (blk : Bytes) (hq : pendingBlock sid q.pending = none) :
    (qpackOracle Q).resume (q.one x sid blk) sid =
      match Q.dec (q.enc ++ x) blk with
      | .headers hs => (.headers hs, q.ext x)
      | _ => (.failed, q.ext x) := by
  simp only [qpackOracle, QState.one, pendingBlock_append_self sid blk _ hq,
    pendingErase_append_self sid blk _ hq]
  cases Q.dec (q.enc ++ x) blk <;> rfl

/-- the frame that blocks: feeding the encoder bytes afterwards (resume) = having fed them before -/
theorem blocked_ext (hL : QpackLaws Q) (x : Bytes) (ea : Bool) (n : Nat) (s1 : Stream) (q : QState) (r : Bytes)
    (sz : Nat) (pp : Option Nat) (blk : Bytes) (sid : Nat) (hinv : LoopInv s1 ea sid)
    (hq : pendingBlock s1.p.streamId q.pending = none)
    (hok : Q.encOk (q.enc ++ x) = true) (hdrop : (r.drop sz).length < n)
    (hX : handleFrame (qpackOracle Q) cfg s1.frameType (r.take sz) s1.p (q.ext x)
        (s1.receivingEnded && (r.drop sz).isEmpty) =
      match Q.dec (q.enc ++ x) blk with
      | .blocked => .ok (.blocked { (q.ext x) with pending := q.pending ++ [(s1.p.streamId, blk)] } pp)
      | .failed => .error (.h3 0x200)
      | .headers hs =>
        match pp with
        | none =>
          match finishHeaders (qpackOracle Q) cfg s1.p (q.ext x) hs (s1.receivingEnded && (r.drop sz).isEmpty) with
          | .error e => .error e
          | .ok (p2, q2, ev) => .ok (.done p2 q2 ev)
        | some pid =>
          match finishPush (qpackOracle Q) cfg s1.p (q.ext x) pid hs (s1.receivingEnded && (r.drop sz).isEmpty) with
          | .error e => .error e
          | .ok (p2, q2, ev) => .ok (.done p2 q2 ev))
    (hat : pp = none → s1.p.recvState ≠ .afterTrailers) :
    REq (encStep Q cfg x (blockedAt s1 (r.take sz).length pp (r.drop sz))
          { q with pending := q.pending ++ [(s1.p.streamId, blk)] })
      (loopPost cfg (fullStep (qpackOracle Q) cfg ea n s1 r sz
        (handleFrame (qpackOracle Q) cfg s1.frameType (r.take sz) s1.p (q.ext x)
          (s1.receivingEnded && (r.drop sz).isEmpty)))) := by
  unfold fullStep
  rw [hX]
  have hsid : s1.p.streamId = (blockedAt s1 (r.take sz).length pp (r.drop sz)).streamId := rfl
  rw [show encStep Q cfg x (blockedAt s1 (r.take sz).length pp (r.drop sz))
      { q with pending := q.pending ++ [(s1.p.streamId, blk)] } = _ from
    encStep_one Q cfg x (blockedAt s1 (r.take sz).length pp (r.drop sz)) q blk hq hok]
  have hea := hinv.re
  subst hea
  cases hd2 : Q.dec (q.enc ++ x) blk with
  | blocked =>
    simp [loopPost, blockedAt, QState.ext, QState.one, REq, NEq.refl]
  | failed =>
    rw [resumeStream_eq]
    simp only [resumeFrame, loopPost]
    rw [← hsid]
    cases pp with
    | none =>
      have h1 : (blockedAt s1 (r.take sz).length none (r.drop sz)).blockedPush = none := rfl
      have h2 : (blockedAt s1 (r.take sz).length none (r.drop sz)).p = s1.p := rfl
      simp only [h1, h2, hat rfl, ↓reduceIte]
      rw [resume_one Q x q _ blk hq, hd2]
      simp [REq]
    | some pid =>
      have h1 : (blockedAt s1 (r.take sz).length (some pid) (r.drop sz)).blockedPush = some pid := rfl
      have h2 : (blockedAt s1 (r.take sz).length (some pid) (r.drop sz)).p = s1.p := rfl
      simp only [h1, h2]
      rw [resume_one Q x q _ blk hq, hd2]
      simp [REq]
  | headers hs =>
    rw [resumeStream_eq]
    simp only [resumeFrame]
    rw [← hsid]
    cases pp with
    | none =>
      have h1 : (blockedAt s1 (r.take sz).length none (r.drop sz)).blockedPush = none := rfl
      have h2 : (blockedAt s1 (r.take sz).length none (r.drop sz)).p = s1.p := rfl
      have h3 : (blockedAt s1 (r.take sz).length none (r.drop sz)).receivingEnded = s1.receivingEnded := rfl
      have h4 : (blockedAt s1 (r.take sz).length none (r.drop sz)).buffer = r.drop sz := rfl
      simp only [h1, h2, h3, h4, hat rfl, ↓reduceIte]
      rw [resume_one Q x q _ blk hq, hd2]
      dsimp only
      cases finishHeaders (qpackOracle Q) cfg s1.p (q.ext x) hs (s1.receivingEnded && (r.drop sz).isEmpty) with
      | error e => simp [loopPost, REq]
      | ok v =>
        obtain ⟨p2, q2, ev⟩ := v
        dsimp only
        exact resume_tail cfg (qpackOracle Q) s1 q2 p2 ev (r.drop sz) (r.take sz).length none n hinv.blocked hinv.bfs hinv.bp
          hinv.sess hinv.buf hdrop
    | some pid =>
      have h1 : (blockedAt s1 (r.take sz).length (some pid) (r.drop sz)).blockedPush = some pid := rfl
      have h2 : (blockedAt s1 (r.take sz).length (some pid) (r.drop sz)).p = s1.p := rfl
      have h3 : (blockedAt s1 (r.take sz).length (some pid) (r.drop sz)).receivingEnded = s1.receivingEnded := rfl
      have h4 : (blockedAt s1 (r.take sz).length (some pid) (r.drop sz)).buffer = r.drop sz := rfl
      simp only [h1, h2, h3, h4]
      rw [resume_one Q x q _ blk hq, hd2]
      dsimp only
      cases finishPush (qpackOracle Q) cfg s1.p (q.ext x) pid hs (s1.receivingEnded && (r.drop sz).isEmpty) with
      | error e => simp [loopPost, REq]
      | ok v =>
        obtain ⟨p2, q2, ev⟩ := v
        dsimp only
        exact resume_tail cfg (qpackOracle Q) s1 q2 p2 ev (r.drop sz) (r.take sz).length (some pid) n hinv.blocked
          hinv.bfs hinv.bp hinv.sess hinv.buf hdrop


theorem loopPost_contLoop {σ : Type} (o : Oracle σ) (ea : Bool) (n : Nat) (s : Stream) (q : σ) (rest : Bytes)
    (ev : List Event) :
    loopPost cfg (contLoop o cfg ea n s q rest ev) = pre ev (loopPost cfg (reqLoop o cfg ea n s q rest)) := by
  unfold contLoop
  cases reqLoop o cfg ea n s q rest with
  | error e => rfl
  | ok res =>
    cases res with
    | ret s q evs => rfl
    | brk s q rest evs =>
      simp only [loopPost, LoopRes.prepend, pre]
      split <;> rfl

theorem bodyE (hL : QpackLaws Q) (hpp : cfg.k.blockedPushAsHeaders = false) (x : Bytes) (ea : Bool) (sid : Nat)
    (n : Nat) (IH : LoopE Q cfg x ea sid n) (s1 : Stream) (q : QState) (r : Bytes) (sz : Nat)
    (hsz : s1.frameSize = some sz) (hinv : LoopInv s1 ea sid) (hq : pendingBlock s1.p.streamId q.pending = none) (hok : Q.encOk (q.enc ++ x) = true)
    (hdrop : (r.drop sz).length < n) :
    REq (andThen (loopPost cfg (bodyLoop (qpackOracle Q) cfg ea n s1 q r)) (encStep Q cfg x))
      (loopPost cfg (bodyLoop (qpackOracle Q) cfg ea n s1 (q.ext x) r)) := by
  by_cases hfull : sz ≤ r.length
  · rw [bodyLoop_full cfg _ ea n s1 q r sz hsz hfull, bodyLoop_full cfg _ ea n s1 (q.ext x) r sz hsz hfull]
    have H := handleFrame_ext Q cfg hL hpp s1.frameType (r.take sz) s1.p q x
      (s1.receivingEnded && (r.drop sz).isEmpty)
    cases hh : handleFrame (qpackOracle Q) cfg s1.frameType (r.take sz) s1.p q
        (s1.receivingEnded && (r.drop sz).isEmpty) with
    | error e =>
      rw [hh] at H; dsimp only at H; rw [H]
      simp [fullStep, loopPost, andThen, REq]
    | ok fr =>
      cases fr with
      | done p2 q2 ev =>
        rw [hh] at H
        obtain ⟨rfl, H2⟩ := H
        rw [H2]
        simp only [fullStep]
        rw [loopPost_contLoop, loopPost_contLoop, andThen_pre]
        have hk := (handleFrame_keep _ cfg hh).2
        refine REq.pre (NEq.refl _) (IH (afterFrame s1 p2) q2 (r.drop sz) ?_ (by simp [afterFrame])
          (by rw [← hinv.sid]; exact hq) hok hdrop)
        exact ⟨hinv.blocked, hinv.bfs, hinv.bp, hinv.sess, hinv.buf, hinv.re, hk.trans hinv.sid⟩
      | blocked q1 pp =>
        rw [hh] at H
        obtain ⟨blk, rfl, hd, hat, hX⟩ := H
        have hl : loopPost cfg (fullStep (qpackOracle Q) cfg ea n s1 r sz
            (.ok (.blocked { q with pending := q.pending ++ [(s1.p.streamId, blk)] } pp))) =
            .ok (blockedAt s1 (r.take sz).length pp (r.drop sz),
              { q with pending := q.pending ++ [(s1.p.streamId, blk)] }, []) := by
          simp [fullStep, loopPost, blockedAt]
        rw [hl, andThen_ok_nil]
        exact blocked_ext Q cfg hL x ea n s1 q r sz pp blk sid hinv hq hok hdrop hX hat
  · have hlt : r.length < sz := by omega
    by_cases hft : s1.frameType = some 0
    · have hm : min sz r.length = r.length := by omega
      have hne : sz - r.length ≠ 0 := by omega
      have key : ∃ R : Sum Err (Stream × List Event), ∀ q' : QState,
          frameBody (qpackOracle Q) cfg s1 q' r =
            match R with
            | .inl e => .error e
            | .inr (s2, ev) => .ok (.next s2 q' [] ev) := by
        unfold frameBody
        simp only [hsz, hm, hft, hne, List.drop_length, List.take_length, handleFrame_data, ↓reduceIte,
          ne_eq, not_true_eq_false, false_and]
        by_cases hrs : s1.p.recvState = .afterHeaders
        · simp only [hrs, not_true_eq_false, ↓reduceIte]
          generalize (s1.receivingEnded && ([] : Bytes).isEmpty &&
              (cfg.k.truncatedNoError || (some (sz - r.length)).isNone)) = b
          cases b
          · simp only [Bool.false_eq_true, ↓reduceIte, false_or]
            refine ⟨.inr (?_, ?_), fun q' => ?_⟩
            rotate_left 2
            · rfl
          · simp only [↓reduceIte, true_or]
            cases checkCL { s1.p with recvState := .afterHeaders, contentLength := s1.p.contentLength + r.length } with
            | error e => exact ⟨.inl e, fun _ => rfl⟩
            | ok u =>
              refine ⟨.inr (?_, ?_), fun q' => ?_⟩
              rotate_left 2
              · rfl
        · exact ⟨.inl (.h3 0x105), fun _ => by simp [hrs]⟩
      obtain ⟨R, hR⟩ := key
      unfold bodyLoop
      rw [hR q, hR (q.ext x)]
      cases R with
      | inl e => simp [loopPost, andThen, REq]
      | inr v =>
        obtain ⟨s2, ev⟩ := v
        have hk : s2.p.streamId = s1.p.streamId := by
          have h := hR q
          exact (frameBody_next_keep _ cfg h).2.2.1
        simp only [reqLoop_nil, prepend_brk, List.append_nil]
        exact brk_idle Q cfg x s2 q [] ev (by rw [Stream.streamId, hk]; exact hq) hok
    · unfold bodyLoop
      rw [frameBody_brk _ cfg s1 q r sz hsz hft hlt, frameBody_brk _ cfg s1 (q.ext x) r sz hsz hft hlt]
      exact brk_idle Q cfg x s1 q r [] hq hok


/-- **Encoder bytes commute with the frame loop.**  Running the loop and then delivering
    encoder-stream bytes `x` (which resumes the stream if it got unblocked) gives the same
    events, state and decoder state as running the loop with `x` already delivered. -/
theorem loopE (hL : QpackLaws Q) (hpp : cfg.k.blockedPushAsHeaders = false) (x : Bytes) (ea : Bool) (sid : Nat) :
    ∀ n, LoopE Q cfg x ea sid n := by
  intro n
  induction n with
  | zero => intro s q rest _ _ _ _ h; omega
  | succ n ih =>
    intro s q rest hinv hfs hq hok hlen
    rw [reqLoop_succ, reqLoop_succ]
    by_cases hr : rest = []
    · rw [if_pos hr, if_pos hr]; exact brk_idle Q cfg x s q rest [] (by rw [Stream.streamId, hinv.sid]; exact hq) hok
    · rw [if_neg hr, if_neg hr]
      have hk := frameHeader_keep ea s rest
      cases hfh : frameHeader ea s rest with
      | stuck s1 =>
        rw [hfh] at hk
        exact brk_idle Q cfg x s1 q rest [] (by rw [Stream.streamId, hk.2.2.1, hinv.sid]; exact hq) hok
      | wt s1 evs =>
        rw [hfh] at hk
        exact ret_idle Q cfg x s1 q evs (by rw [Stream.streamId, hk.2.2.1, hinv.sid]; exact hq) hok
      | go s1 r =>
        dsimp only
        rcases frameHeader_go hfh with ⟨hsome, rfl, rfl⟩ | ⟨hnone, t, sz, r1, hp1, hp2, _, rfl⟩
        · cases hsz : s1.frameSize with
          | none => simp [hsz] at hsome
          | some sz =>
            have hsz0 : sz ≠ 0 := fun h => hfs (by rw [hsz, h])
            have hdrop : (r.drop sz).length < n := by
              have : r.length ≠ 0 := fun h => hr (List.length_eq_zero_iff.mp h)
              simp only [List.length_drop]; omega
            exact bodyE Q cfg hL hpp x ea sid n ih s1 q r sz hsz hinv (by rw [hinv.sid]; exact hq) hok hdrop
        · have h1 := pullVarint_length hp1
          have h2 := pullVarint_length hp2
          have hdrop : (r.drop sz).length < n := by simp only [List.length_drop]; omega
          refine bodyE Q cfg hL hpp x ea sid n ih _ q r sz rfl ?_ (by rw [← hinv.sid] at hq; exact hq) hok hdrop
          exact ⟨hinv.blocked, hinv.bfs, hinv.bp, hinv.sess, hinv.buf, hinv.re, hinv.sid⟩


/-- a stream on which nothing has been received, not blocked -/
structure Fresh2 (s : Stream) : Prop where
  fresh : Fresh s
  bfs : s.blockedFrameSize = none
  bp : s.blockedPush = none

/-- **step (E)**: one whole delivery on a request/push stream followed by encoder-stream
    bytes `x` = the same delivery with `x` already known to the decoder -/
theorem recvReq_enc (hL : QpackLaws Q) (hpp : cfg.k.blockedPushAsHeaders = false) (x : Bytes) {S : Stream}
    (hs : Fresh2 S) (q : QState) (hq : pendingBlock S.streamId q.pending = none)
    (hok : Q.encOk (q.enc ++ x) = true) (P : Bytes) (fin : Bool) :
    REq (andThen (recvReq (qpackOracle Q) cfg S q P fin) (encStep Q cfg x))
      (recvReq (qpackOracle Q) cfg S (q.ext x) P fin) := by
  have hnd : ∀ sz, S.frameType = some 0 → S.frameSize = some sz → ¬ (S.buffer ++ P).length < sz := by
    intro sz _ hz; rw [hs.fresh.frameSize] at hz; cases hz
  rw [recvReq_main _ cfg S q P fin hs.fresh.blocked hs.fresh.sessionId hnd,
    recvReq_main _ cfg S (q.ext x) P fin hs.fresh.blocked hs.fresh.sessionId hnd]
  unfold recvReqMain
  dsimp only
  by_cases hl : fin = true ∧ S.buffer ++ P = []
  · rw [if_pos hl, if_pos hl]
    unfold loneFin
    split
    · simp [andThen, REq]
    · cases checkCL S.p with
      | error e => simp [andThen, REq]
      | ok u =>
        dsimp only
        rw [andThen_idle Q cfg x { S with buffer := S.buffer ++ P, receivingEnded := S.receivingEnded || fin } q _
          hq hok]
        exact REq.refl _
  · rw [if_neg hl, if_neg hl]
    refine loopE Q cfg hL hpp x fin S.streamId _ _ q _ ?_ ?_ hq hok (Nat.lt_succ_self _)
    · exact ⟨hs.fresh.blocked, hs.bfs, hs.bp, hs.fresh.sessionId, rfl, by simp [hs.fresh.receivingEnded], rfl⟩
    · simp [hs.fresh.frameSize]

/-! ### schedules: deliveries on one request/push stream and on the QPACK encoder stream -/

inductive Step where
  /-- `StreamDataReceived(stream_id = the request stream, data = c, end_stream = fin)` -/
  | req (c : Bytes) (fin : Bool)
  /-- `StreamDataReceived(stream_id = the peer's QPACK encoder stream, data = x)` -/
  | enc (x : Bytes)
  deriving Repr, DecidableEq

def stepRun (S : Stream) (q : QState) : Step → Res QState
  | .req c f => recvReq (qpackOracle Q) cfg S q c f
  | .enc x => encStep Q cfg x S q

/-- the deliveries of a schedule, one after the other (an error ends the run: the
    connection is closed) -/
def runSched (S : Stream) (q : QState) : List Step → Res QState
  | [] => .ok (S, q, [])
  | st :: r => andThen (stepRun Q cfg S q st) (fun s1 q1 => runSched s1 q1 r)

def reqBytes : List Step → Bytes
  | [] => []
  | .req c _ :: r => c ++ reqBytes r
  | .enc _ :: r => reqBytes r

def encBytes : List Step → Bytes
  | [] => []
  | .req _ _ :: r => encBytes r
  | .enc x :: r => x ++ encBytes r

def finOf : List Step → Bool
  | [] => false
  | .req _ f :: r => f || finOf r
  | .enc _ :: r => finOf r

/-- QUIC delivers nothing after the FIN of a stream -/
def WF (l : List Step) : Prop :=
  ∀ l1 c f l2, l = l1 ++ .req c f :: l2 → finOf l1 = false

theorem runSched_append (a b : List Step) : ∀ (S : Stream) (q : QState),
    runSched Q cfg S q (a ++ b) = andThen (runSched Q cfg S q a) (fun s1 q1 => runSched Q cfg s1 q1 b) := by
  induction a with
  | nil => intro S q; simp [runSched, andThen_ok_nil]
  | cons st r ih =>
    intro S q
    simp only [List.cons_append, runSched]
    rw [andThen_assoc]
    congr 1
    funext s1 q1
    exact ih s1 q1

theorem runSched_single (S : Stream) (q : QState) (st : Step) :
    runSched Q cfg S q [st] = stepRun Q cfg S q st := by
  simp only [runSched]
  exact andThen_ret _


theorem reqBytes_append (a b : List Step) : reqBytes (a ++ b) = reqBytes a ++ reqBytes b := by
  induction a with
  | nil => rfl
  | cons st r ih => cases st <;> simp [reqBytes, ih]

theorem encBytes_append (a b : List Step) : encBytes (a ++ b) = encBytes a ++ encBytes b := by
  induction a with
  | nil => rfl
  | cons st r ih => cases st <;> simp [encBytes, ih]

theorem finOf_append (a b : List Step) : finOf (a ++ b) = (finOf a || finOf b) := by
  induction a with
  | nil => simp [finOf]
  | cons st r ih => cases st <;> simp [finOf, ih, Bool.or_assoc]

theorem QState.ext_nil (q : QState) : q.ext [] = q := by
  cases q; simp [QState.ext]

theorem QState.ext_ext (q : QState) (a b : Bytes) : (q.ext a).ext b = q.ext (a ++ b) := by
  simp [QState.ext, List.append_assoc]

theorem WF.init {l : List Step} {st : Step} (h : WF (l ++ [st])) : WF l := by
  intro l1 c f l2 e
  exact h l1 c f (l2 ++ [st]) (by rw [e]; simp)

/-- **One request/push stream and the QPACK encoder stream, any schedule.**  Whatever the
    chunking of the two byte strings and however their deliveries are interleaved, the run
    equals ONE delivery of the request bytes to a decoder that already knows ALL the
    encoder-stream bytes: same error code, or same `H3Stream`, same decoder state and the
    same per-stream normal form of the events. -/
theorem sched_canon (hL : QpackLaws Q) (ht : cfg.k.truncatedNoError = false)
    (hsil : cfg.k.silentFrameNoEnd = false) (hlog : cfg.k.logDecode = false)
    (hpp : cfg.k.blockedPushAsHeaders = false) {S : Stream} (hs : Fresh2 S) (q : QState)
    (hq : pendingBlock S.streamId q.pending = none) :
    ∀ (l : List Step), WF l.reverse → Q.encOk (q.enc ++ encBytes l.reverse) = true →
      REq (runSched Q cfg S q l.reverse)
        (recvReq (qpackOracle Q) cfg S (q.ext (encBytes l.reverse)) (reqBytes l.reverse) (finOf l.reverse)) := by
  intro l
  induction l with
  | nil =>
    intro _ _
    simp only [List.reverse_nil, runSched, encBytes, reqBytes, finOf, QState.ext_nil]
    rw [recvReq_nil_fresh _ cfg hs.fresh]
    exact REq.refl _
  | cons st r ih =>
    intro hwf hok
    rw [List.reverse_cons] at hwf hok ⊢
    rw [runSched_append, reqBytes_append, encBytes_append, finOf_append]
    simp only [runSched_single]
    cases st with
    | req c f =>
      have hf : finOf r.reverse = false := hwf r.reverse c f [] rfl
      have hok' : Q.encOk (q.enc ++ encBytes r.reverse) = true := by
        simpa [encBytes_append, encBytes] using hok
      have h1 := ih hwf.init hok'
      rw [hf] at h1
      simp only [encBytes, reqBytes, finOf, List.append_nil, hf, Bool.false_or, Bool.or_false]
      exact REq.trans (REq.andThen h1 _) (merge _ cfg ht hsil hlog hs.fresh _ _ c f)
    | enc x =>
      have hok' : Q.encOk (q.enc ++ encBytes r.reverse) = true := by
        cases h : Q.encOk (q.enc ++ encBytes r.reverse) with
        | true => rfl
        | false =>
          have := hL.encErr (q.enc ++ encBytes r.reverse) x h
          simp only [encBytes_append, encBytes, List.append_nil] at hok
          rw [List.append_assoc, hok] at this; cases this
      have h1 := ih hwf.init hok'
      simp only [encBytes, reqBytes, finOf, List.append_nil, Bool.or_false]
      refine REq.trans (REq.andThen h1 _) ?_
      rw [← QState.ext_ext]
      refine recvReq_enc Q cfg hL hpp x hs (q.ext (encBytes r.reverse)) hq ?_ _ _
      simpa [QState.ext, encBytes_append, encBytes, List.append_assoc] using hok


theorem sched_canon' (hL : QpackLaws Q) (ht : cfg.k.truncatedNoError = false)
    (hsil : cfg.k.silentFrameNoEnd = false) (hlog : cfg.k.logDecode = false)
    (hpp : cfg.k.blockedPushAsHeaders = false) {S : Stream} (hs : Fresh2 S) (q : QState)
    (hq : pendingBlock S.streamId q.pending = none) (l : List Step) (hwf : WF l)
    (hok : Q.encOk (q.enc ++ encBytes l) = true) :
    REq (runSched Q cfg S q l)
      (recvReq (qpackOracle Q) cfg S (q.ext (encBytes l)) (reqBytes l) (finOf l)) := by
  have := sched_canon Q cfg hL ht hsil hlog hpp hs q hq l.reverse
  rw [List.reverse_reverse] at this
  exact this hwf hok

/-- two schedules of the same two byte strings -/
theorem sched_independent (hL : QpackLaws Q) (ht : cfg.k.truncatedNoError = false)
    (hsil : cfg.k.silentFrameNoEnd = false) (hlog : cfg.k.logDecode = false)
    (hpp : cfg.k.blockedPushAsHeaders = false) {S : Stream} (hs : Fresh2 S) (q : QState)
    (hq : pendingBlock S.streamId q.pending = none) (l1 l2 : List Step) (hwf1 : WF l1) (hwf2 : WF l2)
    (hreq : reqBytes l1 = reqBytes l2) (hfin : finOf l1 = finOf l2) (henc : encBytes l1 = encBytes l2)
    (hok : Q.encOk (q.enc ++ encBytes l1) = true) :
    REq (runSched Q cfg S q l1) (runSched Q cfg S q l2) := by
  have h1 := sched_canon' Q cfg hL ht hsil hlog hpp hs q hq l1 hwf1 hok
  have h2 := sched_canon' Q cfg hL ht hsil hlog hpp hs q hq l2 hwf2 (henc ▸ hok)
  rw [hreq, hfin, henc] at h1
  exact REq.trans h1 (REq.symm h2)

end
end AQ.H3
