/-
  `RInv` through the write loop, the limit writers and the delivery reports;
  `step_rinv` / `run_rinv`.
-/
import AQ.Proofs.FlowRInv2

namespace AQ.Flow
open AQ AQ.Stream AQ.RangeSet

theorem writeStreamFrame_recv {st st' : Strm} {mo fs : Int} {fr : Option OutFrame} {used : Nat}
    (hw : writeStreamFrame st mo fs = .ok (st', fr, used)) :
    st'.sid = st.sid ∧ st'.recv = st.recv ∧ st'.maxLocal = st.maxLocal := by
  unfold writeStreamFrame at hw
  simp only [bind, Except.bind, pure, Except.pure] at hw
  repeat' split at hw
  all_goals try (simp at hw)
  all_goals (obtain ⟨rfl, _, _⟩ := hw; exact ⟨rfl, rfl, rfl⟩)

theorem serve_rinv {c : Conn} (h : RInv c) (sid : Nat) (a b : Bool) (fs : Int) : RInv (serve c sid a b fs).1 := by
  unfold serve
  split
  · exact h
  · rename_i st hf
    obtain ⟨hm, hsid⟩ := Conn.find?_mem hf
    split
    · subst hsid; exact h.discard hm _ _
    · split
      · exact h
      · split
        · exact h
        · simp only []
          generalize hst1 : (if st.stopPending = true then { st with stopPending := false } else st) = st1
          have e1 : st1.sid = st.sid ∧ st1.recv = st.recv ∧ st1.maxLocal = st.maxLocal := by
            subst hst1; split <;> simp
          split
          · split
            · exact h.setStrm hm e1.1 e1.2.1 (by rw [e1.2.2]; exact Nat.le_refl _)
            · exact h.setStrm hm (by simpa using e1.1) (by simpa using e1.2.1) (by simp [e1.2.2])
          · split
            · split
              · exact h.setStrm hm e1.1 e1.2.1 (by rw [e1.2.2]; exact Nat.le_refl _)
              · rename_i st' fr used hw
                obtain ⟨w1, w2, w3⟩ := writeStreamFrame_recv hw
                have h2 : RInv (c.setStrm st') :=
                  h.setStrm hm (by rw [w1, e1.1]) (by rw [w2, e1.2.1]) (by rw [w3, e1.2.2]; exact Nat.le_refl _)
                exact h2.same rfl rfl rfl (Nat.le_refl _) rfl
            · exact h.setStrm hm e1.1 e1.2.1 (by rw [e1.2.2]; exact Nat.le_refl _)

theorem writeLimit_value_ge (q : Quirks) (l : Limit) (room : Bool) : l.value ≤ (writeLimit q l room).1.value := by
  unfold writeLimit
  simp only []
  repeat' split
  all_goals (simp; try omega)

theorem RInv.withLocalMaxData {c : Conn} (h : RInv c) (l : Limit) (hu : l.used = c.localMaxData.used)
    (hv : c.localMaxData.value ≤ l.value) : RInv { c with localMaxData := l } :=
  h.same rfl rfl hu hv rfl

theorem writeConnLimits_rinv {c : Conn} (h : RInv c) (r1 r2 r3 : Bool) : RInv (writeConnLimits c r1 r2 r3).1 := by
  unfold writeConnLimits
  simp only []
  have h1 := h.withLocalMaxData (writeLimit c.quirks c.localMaxData r1).1 (writeLimit_used _ _ _) (writeLimit_value_ge _ _ _)
  split
  · exact h1
  · have h2 := h1.withLocalMaxStreamsBidi (writeLimit c.quirks c.localMaxStreamsBidi r2).1
    split
    · exact h2
    · have h3 := h2.withLocalMaxStreamsUni (writeLimit c.quirks c.localMaxStreamsUni r3).1
      split <;> exact h3

theorem writeStreamLimits_rinv {c : Conn} (h : RInv c) (sid : Nat) (room : Bool) :
    RInv (writeStreamLimits c sid room).1 := by
  unfold writeStreamLimits
  split
  · exact h
  · rename_i st hf
    obtain ⟨hm, _⟩ := Conn.find?_mem hf
    simp only []
    repeat' split
    all_goals first
      | exact h
      | (refine h.setStrm hm (by rfl) (by rfl) ?_; simp only []; omega)
      | (refine h.setStrm hm (by rfl) (by rfl) ?_; exact Nat.le_refl _)

theorem connLimitDelivery_rinv {c : Conn} (h : RInv c) (k : LimitKind) (d : Delivery) :
    RInv (connLimitDelivery c k d) := by
  unfold connLimitDelivery
  split
  · cases k
    · exact h.withLocalMaxData _ rfl (Nat.le_refl _)
    · exact h.withLocalMaxStreamsBidi _
    · exact h.withLocalMaxStreamsUni _
  · exact h

theorem maxStreamDataDelivery_rinv {c : Conn} (h : RInv c) (sid : Nat) (d : Delivery) :
    RInv (maxStreamDataDelivery c sid d) := by
  unfold maxStreamDataDelivery
  split
  · exact h
  · rename_i st hf
    split
    · exact h.setStrm (Conn.find?_mem hf).1 rfl rfl (Nat.le_refl _)
    · exact h

theorem stopDelivery_rinv {c : Conn} (h : RInv c) (sid : Nat) (d : Delivery) : RInv (stopDelivery c sid d).1 := by
  unfold stopDelivery
  split
  · exact h
  · rename_i st hf
    simp only []
    split
    · exact h.setStrm (Conn.find?_mem hf).1 rfl rfl (Nat.le_refl _)
    · exact h

theorem dataDelivery_rinv {c : Conn} (h : RInv c) (sid : Nat) (d : Delivery) (a b : Nat) (fin : Bool) :
    RInv (dataDelivery c sid d a b fin).1 := by
  unfold dataDelivery
  split
  · exact h
  · rename_i st hf
    split
    · exact h
    · exact h.setStrm (Conn.find?_mem hf).1 rfl rfl (Nat.le_refl _)

theorem resetDelivery_rinv {c : Conn} (h : RInv c) (sid : Nat) (d : Delivery) : RInv (resetDelivery c sid d).1 := by
  unfold resetDelivery
  split
  · exact h
  · rename_i st hf
    exact h.setStrm (Conn.find?_mem hf).1 rfl rfl (Nat.le_refl _)

theorem step_rinv {c : Conn} (h : RInv c) (op : Op) : RInv (step c op).1 := by
  cases op <;> simp only [step]
  · exact sendStreamData_rinv h _ _ _
  · exact resetStream_rinv h _ _
  · exact stopStream_rinv h _
  · exact rxMaxData_rinv h _
  · exact rxMaxStreamData_rinv h _ _
  · exact rxMaxStreams_rinv h _ _
  · rcases rxTransportParams_cases c _ with he | he <;> rw [he]
    · exact h
    · exact transportParams_rinv h _
  · exact unblockStreams_rinv h _
  · exact rxStopSending_rinv h _
  · exact rxStreamDataBlocked_rinv h _
  · exact rxStream_rinv h _ _ _ _
  · exact rxResetStream_rinv h _ _
  · exact serve_rinv h _ _ _ _
  · exact writeConnLimits_rinv h _ _ _
  · exact writeStreamLimits_rinv h _ _
  · exact dataDelivery_rinv h _ _ _ _ _
  · exact resetDelivery_rinv h _ _
  · exact stopDelivery_rinv h _ _
  · exact connLimitDelivery_rinv h _ _
  · exact maxStreamDataDelivery_rinv h _ _

theorem run_rinv {c : Conn} (h : RInv c) (ops : List Op) : RInv (runState c ops) := by
  induction ops generalizing c with
  | nil => exact h
  | cons op ops ih =>
    simp only [runState, List.foldl_cons]
    exact ih (step_rinv h op)

theorem rinv_init (c : Conn) (hq : c.quirks.resetKeepsHighest = false) (hs : c.streams = [])
    (hu : c.localMaxData.used = 0) (hg : c.goneRecv = 0) : RInv c :=
  ⟨hq, by simp [hs], by simp [hs, hu, hg], by omega, by simp [hs]⟩

/-- bytes held for reassembly by the streams of the dict -/
def bufferedBytes (ss : List Strm) : Nat := (ss.map (fun s => s.recv.buffer.length)).sum

theorem bufferedBytes_le_sumRh {ss : List Strm} (h : ∀ s ∈ ss, SR s) : bufferedBytes ss ≤ sumRh ss := by
  induction ss with
  | nil => simp [bufferedBytes]
  | cons x xs ih =>
    have hx := (h x (by simp)).2.1.1
    have := ih (fun s hs => h s (by simp [hs]))
    simp [bufferedBytes] at this ⊢
    omega

end AQ.Flow
