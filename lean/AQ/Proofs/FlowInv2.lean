/-
  `Inv` is preserved by the write loop, the limit writers and the delivery
  reports; `step_inv` / `run_inv` for well-formed operation sequences.
-/
import AQ.Proofs.FlowInv

namespace AQ.Flow
open AQ AQ.Stream AQ.RangeSet

/-- what `_write_stream_frame` does to the stream and what it returns -/
theorem writeStreamFrame_spec {st st' : Strm} {mo fs : Int} {fr : Option OutFrame} {used : Nat}
    (hw : writeStreamFrame st mo fs = .ok (st', fr, used)) :
    st'.sid = st.sid ∧ st'.isBlocked = st.isBlocked ∧ st'.maxRemote = st.maxRemote ∧
    st.send.highest ≤ st'.send.highest ∧ used = st'.send.highest - st.send.highest ∧
    st'.send.highest ≤ max st.send.highest mo.toNat ∧ st'.send.finished = st.send.finished := by
  unfold writeStreamFrame at hw
  simp only [bind, Except.bind, pure, Except.pure] at hw
  repeat' split at hw
  all_goals try (simp at hw)
  all_goals try (obtain ⟨rfl, rfl, rfl⟩ := hw; simp; omega)
  all_goals try
      (rename_i _ v hgf _ hsnd
       obtain ⟨snd, fr0⟩ := v
       simp at hsnd; subst hsnd
       obtain ⟨rfl, rfl, rfl⟩ := hw
       have h1 := getFrame_none_highest hgf
       have h3 := getFrame_finished hgf
       simp [h1, h3] <;> omega)
  all_goals
      (rename_i _ v hgf _ f hsnd
       obtain ⟨snd, fr0⟩ := v
       simp at hsnd; subst hsnd
       obtain ⟨rfl, rfl, rfl⟩ := hw
       have h1 := getFrame_highest_mono hgf
       have h2 := getFrame_highest_le hgf
       have h3 := getFrame_finished hgf
       simp [h3]; omega)

theorem eq_of_sid_eq {ss : List Strm} (hnd : (ss.map (·.sid)).Nodup) {a b : Strm}
    (ha : a ∈ ss) (hb : b ∈ ss) (h : a.sid = b.sid) : a = b := by
  induction ss with
  | nil => simp at ha
  | cons x xs ih =>
    simp only [List.map_cons, List.nodup_cons] at hnd
    rcases List.mem_cons.mp ha with ha' | ha'
    · rcases List.mem_cons.mp hb with hb' | hb'
      · rw [ha', hb']
      · exfalso; apply hnd.1; rw [← ha']; exact List.mem_map.mpr ⟨b, hb', h.symm⟩
    · rcases List.mem_cons.mp hb with hb' | hb'
      · exfalso; apply hnd.1; rw [← hb']; exact List.mem_map.mpr ⟨a, ha', h⟩
      · exact ih hnd.2 ha' hb'

/-- a finished stream is discarded by the write loop -/
theorem Inv.discard {c : Conn} (h : Inv c) {st : Strm} (hm : st ∈ c.streams) (hfin : st.send.finished = true)
    (fids : List Nat) (gr : Nat) :
    Inv { c with streams := c.streams.filter (fun s => s.sid != st.sid), finishedIds := fids,
                 goneSent := c.goneSent + st.send.highest, goneRecv := gr } := by
  have hnb : st.isBlocked = false := by
    cases hb : st.isBlocked with
    | false => rfl
    | true => have := ((h.strm st hm).blockedZero hb).2; simp_all
  refine ⟨h.fixed, ?_, ?_, h.connLimit, ?_, ?_, h.kindBidi, h.kindUni⟩
  · exact List.Nodup.sublist (List.Sublist.map _ List.filter_sublist) h.nodup
  · have := sumHi_filter h.nodup hm
    show c.remoteMaxDataUsed = sumHi (c.streams.filter _) + (c.goneSent + st.send.highest)
    rw [h.ledger]; omega
  · intro s hs
    have hs' := (List.mem_filter.mp hs).1
    have hi := h.strm s hs'
    exact ⟨hi.limit, hi.blockedZero, hi.count, hi.listed⟩
  · intro sid hsid
    obtain ⟨s, h1, h2⟩ := h.listedHas sid hsid
    refine ⟨s, List.mem_filter.mpr ⟨h1, ?_⟩, h2⟩
    simp
    intro heq
    have : s = st := eq_of_sid_eq h.nodup h1 hm heq
    subst this
    have := (h.strm s h1).listed (by rw [h2]; exact hsid)
    simp_all

theorem serve_inv {c : Conn} (h : Inv c) (sid : Nat) (a b : Bool) (fs : Int) : Inv (serve c sid a b fs).1 := by
  unfold serve
  split
  · exact h
  · rename_i st hf
    obtain ⟨hm, hsid⟩ := Conn.find?_mem hf
    have hi := h.strm st hm
    split
    · rename_i hfin
      simp [Strm.isFinished] at hfin
      subst hsid
      exact h.discard hm hfin.2 _ _
    · split
      · exact h
      · rename_i hnb
        split
        · exact h
        · simp only []
          generalize hst1 : (if st.stopPending = true then { st with stopPending := false } else st) = st1
          have e1 : st1.sid = st.sid ∧ st1.send = st.send ∧ st1.isBlocked = st.isBlocked ∧ st1.maxRemote = st.maxRemote := by
            subst hst1; split <;> simp
          have hi1 : SInv c st1 := by
            refine ⟨by rw [e1.2.1, e1.2.2.2]; exact hi.limit, by rw [e1.2.1, e1.2.2.1]; exact hi.blockedZero,
              by rw [e1.1, e1.2.2.1]; exact hi.count, by rw [e1.1, e1.2.2.1]; exact hi.listed⟩
          split
          · split
            · exact h.setStrm hm e1.1 (by rw [e1.2.1]) hi1
            · refine h.setStrm hm (by simpa using e1.1) (by simp [getResetFrame, e1.2.1]) ?_
              exact ⟨by simp [getResetFrame]; exact hi1.limit,
                by simp [getResetFrame]; exact hi1.blockedZero, hi1.count, hi1.listed⟩
          · split
            · split
              · exact h.setStrm hm e1.1 (by rw [e1.2.1]) hi1
              · rename_i st' fr used hw
                obtain ⟨w1, w2, w3, w4, w5, w6, w7⟩ := writeStreamFrame_spec hw
                have hmo : (maxOffsetFor c st1).toNat ≤ st1.maxRemote ∧
                    ((maxOffsetFor c st1).toNat ≤ st1.send.highest ∨
                     (maxOffsetFor c st1).toNat + c.remoteMaxDataUsed ≤ st1.send.highest + c.remoteMaxData) := by
                  unfold maxOffsetFor; omega
                have hcl := h.connLimit
                refine h.update (c' := { c.setStrm st' with remoteMaxDataUsed := c.remoteMaxDataUsed + used })
                  ⟨rfl, Nat.le_refl _, Nat.le_refl _, rfl, rfl, rfl⟩ hm (by rw [w1, e1.1]) rfl
                  (by rw [← e1.2.1]; exact w4) ?_ rfl ?_ ?_
                · show c.remoteMaxDataUsed + used = _
                  rw [w5, e1.2.1]
                · show c.remoteMaxDataUsed + used ≤ c.remoteMaxData
                  rw [w5]; omega
                · refine ⟨by rw [w3]; have := hi1.limit; omega, ?_, by rw [w1, w2]; exact hi1.count,
                    by rw [w1, w2]; exact hi1.listed⟩
                  intro hb
                  rw [w2, e1.2.2.1] at hb
                  rw [hb] at hnb; simp at hnb
            · exact h.setStrm hm e1.1 (by rw [e1.2.1]) hi1

theorem writeConnLimits_inv {c : Conn} (h : Inv c) (r1 r2 r3 : Bool) : Inv (writeConnLimits c r1 r2 r3).1 := by
  unfold writeConnLimits
  simp only []
  have h1 := h.withLocalMaxData (writeLimit c.quirks c.localMaxData r1).1
  split
  · exact h1
  · have h2 := h1.withLocalMaxStreamsBidi (writeLimit c.quirks c.localMaxStreamsBidi r2).1
    split
    · exact h2
    · have h3 := h2.withLocalMaxStreamsUni (writeLimit c.quirks c.localMaxStreamsUni r3).1
      split <;> exact h3

theorem Inv.setStrmRecvSide {c : Conn} (h : Inv c) {st st' : Strm} (hm : st ∈ c.streams)
    (hsid : st'.sid = st.sid) (hsend : st'.send = st.send) (hb : st'.isBlocked = st.isBlocked)
    (hr : st'.maxRemote = st.maxRemote) : Inv (c.setStrm st') := by
  have hi := h.strm st hm
  exact h.setStrm hm hsid (by rw [hsend]) ⟨by rw [hsend, hr]; exact hi.limit, by rw [hsend, hb]; exact hi.blockedZero,
    by rw [hsid, hb]; exact hi.count, by rw [hsid, hb]; exact hi.listed⟩

theorem writeStreamLimits_inv {c : Conn} (h : Inv c) (sid : Nat) (room : Bool) :
    Inv (writeStreamLimits c sid room).1 := by
  unfold writeStreamLimits
  split
  · exact h
  · rename_i st hf
    obtain ⟨hm, _⟩ := Conn.find?_mem hf
    simp only []
    repeat' split
    all_goals first
      | exact h
      | (refine h.setStrmRecvSide hm ?_ ?_ ?_ ?_ <;> rfl)

theorem connLimitDelivery_inv {c : Conn} (h : Inv c) (k : LimitKind) (d : Delivery) :
    Inv (connLimitDelivery c k d) := by
  unfold connLimitDelivery
  split
  · cases k
    · exact h.withLocalMaxData _
    · exact h.withLocalMaxStreamsBidi _
    · exact h.withLocalMaxStreamsUni _
  · exact h

theorem maxStreamDataDelivery_inv {c : Conn} (h : Inv c) (sid : Nat) (d : Delivery) :
    Inv (maxStreamDataDelivery c sid d) := by
  unfold maxStreamDataDelivery
  split
  · exact h
  · rename_i st hf
    obtain ⟨hm, _⟩ := Conn.find?_mem hf
    split
    · exact h.setStrmRecvSide hm rfl rfl rfl rfl
    · exact h

theorem stopDelivery_inv {c : Conn} (h : Inv c) (sid : Nat) (d : Delivery) : Inv (stopDelivery c sid d).1 := by
  unfold stopDelivery
  split
  · exact h
  · rename_i st hf
    obtain ⟨hm, _⟩ := Conn.find?_mem hf
    simp only []
    split
    · exact h.setStrmRecvSide hm rfl rfl rfl rfl
    · exact h

/-- delivery reports only exist for frames that were emitted: the stream they
    refer to is not waiting for stream-count credit -/
def notBlocked (c : Conn) (sid : Nat) : Prop := ∀ st, c.find? sid = some st → st.isBlocked = false

theorem dataDelivery_inv {c : Conn} (h : Inv c) (sid : Nat) (d : Delivery) (a b : Nat) (fin : Bool)
    (hwf : notBlocked c sid) : Inv (dataDelivery c sid d a b fin).1 := by
  unfold dataDelivery
  split
  · exact h
  · rename_i st hf
    obtain ⟨hm, _⟩ := Conn.find?_mem hf
    have hnb := hwf st hf
    have hi := h.strm st hm
    split
    · exact h
    · rename_i snd ho
      have := onDataDelivery_highest ho
      exact h.setStrm hm rfl this ⟨by simp [this]; exact hi.limit, by intro hb; simp [hnb] at hb, hi.count, hi.listed⟩

theorem resetDelivery_inv {c : Conn} (h : Inv c) (sid : Nat) (d : Delivery) (hwf : notBlocked c sid) :
    Inv (resetDelivery c sid d).1 := by
  unfold resetDelivery
  split
  · exact h
  · rename_i st hf
    obtain ⟨hm, _⟩ := Conn.find?_mem hf
    have hnb := hwf st hf
    have hi := h.strm st hm
    have := onResetDelivery_highest st.send d
    exact h.setStrm hm rfl this ⟨by simp [this]; exact hi.limit, by intro hb; simp [hnb] at hb, hi.count, hi.listed⟩

/-- well-formed operations: the hypotheses under which the invariant is proved -/
def Op.wf (c : Conn) : Op → Prop
  | .transportParams tp => tp.guarded c ∨ tp.monotone c
  | .dataDelivery sid _ _ _ _ => notBlocked c sid
  | .resetDelivery sid _ => notBlocked c sid
  | _ => True

theorem step_inv {c : Conn} (h : Inv c) (op : Op) (hwf : op.wf c) : Inv (step c op).1 := by
  cases op <;> simp only [step]
  · exact sendStreamData_inv h _ _ _
  · exact resetStream_inv h _ _
  · exact stopStream_inv h _
  · exact rxMaxData_inv h _
  · exact rxMaxStreamData_inv h _ _
  · exact rxMaxStreams_inv h _ _
  · exact rxTransportParams_inv h _ hwf
  · exact unblockStreams_inv h _
  · exact rxStopSending_inv h _
  · exact rxStreamDataBlocked_inv h _
  · exact rxStream_inv h _ _ _ _
  · exact rxResetStream_inv h _ _
  · exact serve_inv h _ _ _ _
  · exact writeConnLimits_inv h _ _ _
  · exact writeStreamLimits_inv h _ _
  · exact dataDelivery_inv h _ _ _ _ _ hwf
  · exact resetDelivery_inv h _ _ hwf
  · exact stopDelivery_inv h _ _
  · exact connLimitDelivery_inv h _ _
  · exact maxStreamDataDelivery_inv h _ _

/-- every operation of the sequence is well-formed in the state it is applied to -/
def WFRun (c : Conn) : List Op → Prop
  | [] => True
  | op :: ops => op.wf c ∧ WFRun (step c op).1 ops

theorem run_inv {c : Conn} (h : Inv c) (ops : List Op) (hwf : WFRun c ops) : Inv (runState c ops) := by
  induction ops generalizing c with
  | nil => exact h
  | cons op ops ih =>
    simp only [runState, List.foldl_cons]
    exact ih (step_inv h op hwf.1) hwf.2

/-- a fresh connection (no stream yet) satisfies the invariant -/
theorem inv_init (c : Conn) (hq : c.quirks.unblockHeadOnly = false) (hs : c.streams = [])
    (hbb : c.blockedBidi = []) (hbu : c.blockedUni = []) (hu : c.remoteMaxDataUsed = 0) (hg : c.goneSent = 0) :
    Inv c := by
  refine ⟨hq, by simp [hs], by simp [hs, hu, hg], by omega, by simp [hs], by simp [hbb, hbu], by simp [hbb], by simp [hbu]⟩

end AQ.Flow
