/-
  Chunk independence of the request / push stream parser (C14): the merge
  lemma (two deliveries = one delivery of the concatenation) and its n-ary form.
-/
import AQ.Proofs.H3Chunk

namespace AQ.H3
section
variable {σ : Type} (o : Oracle σ) (cfg : Cfg)

theorem loop_merge (ht : cfg.k.truncatedNoError = false)
    (hsil : cfg.k.silentFrameNoEnd = false) (hlog : cfg.k.logDecode = false) (c2 : Bytes) (e : Bool) :
    ∀ (f1 : Nat) (s : Stream) (q : σ) (B1 : Bytes) (f2 : Nat),
      s.frameSize = none → s.sessionId = none → s.blocked = false → s.receivingEnded = false → s.buffer = [] →
      B1.length < f1 → (B1 ++ c2).length < f2 → (B1 = [] → ¬ (c2 = [] ∧ e = true)) →
      REq (andThen (loopPost cfg (reqLoop o cfg false f1 s q B1)) (fun s1 q1 => recvReq o cfg s1 q1 c2 e))
          (loopPost cfg (reqLoop o cfg e f2 (withRE e s) q (B1 ++ c2))) := by
  intro f1
  induction f1 with
  | zero => intro s q B1 f2 _ _ _ _ _ h; omega
  | succ n ih =>
    intro s q B1 f2 hfs hsess hblk hre hbuf hf1 hf2 hB
    have hs' : ({ s with buffer := [] } : Stream) = s := by cases s; simp_all
    by_cases hB1 : B1 = []
    · subst hB1
      -- nothing left from the first delivery
      rw [reqLoop_succ]; simp only [↓reduceIte]
      rw [loopPost_brk_notEnded cfg _ _ _ _ hre, andThen_ok_nil, hs']
      rw [recvReq_entry o cfg s q c2 e hblk hsess hre (by intro sz _ h; rw [hfs] at h; cases h)
        (by rw [hbuf]; intro h; exact hB rfl ⟨by simpa using h.2, h.1⟩)]
      rw [hbuf, hs']
      simp only [List.nil_append]
      rw [reqLoop_fuel o cfg e _ f2 (withRE e s) q c2 (by omega) (by simpa using hf2) (by simp [withRE, hfs])]
      exact REq.refl _
    · rw [reqLoop_succ]; simp only [hB1, ↓reduceIte]
      have hne2 : B1 ++ c2 ≠ [] := by simp [hB1]
      cases hp1 : pullVarint B1 with
      | none =>
        have hfh : frameHeader false s B1 = .stuck s := by simp [frameHeader, hfs, hp1]
        rw [hfh]; dsimp only
        rw [loopPost_brk_notEnded cfg _ _ _ _ hre, andThen_ok_nil]
        rw [recvReq_entry o cfg { s with buffer := B1 } q c2 e hblk hsess hre
          (by intro sz _ h; rw [show ({ s with buffer := B1 } : Stream).frameSize = s.frameSize from rfl, hfs] at h; cases h)
          (by intro h; exact hne2 h.2)]
        dsimp only
        rw [hs']
        rw [reqLoop_fuel o cfg e _ f2 (withRE e s) q (B1 ++ c2) (by omega) hf2 (by simp [withRE, hfs])]
        exact REq.refl _
      | some x =>
        obtain ⟨t, r1⟩ := x
        cases hp2 : pullVarint r1 with
        | none =>
          have hfh : frameHeader false s B1 = .stuck { s with frameType := some t } := by
            simp [frameHeader, hfs, hp1, hp2]
          rw [hfh]; dsimp only
          rw [loopPost_brk_notEnded cfg { s with frameType := some t } q B1 [] hre, andThen_ok_nil]
          rw [recvReq_entry o cfg { s with frameType := some t, buffer := B1 } q c2 e hblk hsess hre
            (by intro sz _ h
                rw [show ({ s with frameType := some t, buffer := B1 } : Stream).frameSize = s.frameSize from rfl, hfs] at h
                cases h)
            (by intro h; exact hne2 h.2)]
          dsimp only
          have hst : (withRE e { s with frameType := some t, buffer := [] }) =
              { (withRE e s) with frameType := some t } := by cases s; simp_all [withRE]
          rw [hst, reqLoop_frameType o cfg e _ (withRE e s) q (B1 ++ c2) (r1 ++ c2) t (by simp [withRE, hfs])
            (pullVarint_append c2 hp1) (by omega)]
          rw [reqLoop_fuel o cfg e _ f2 (withRE e s) q (B1 ++ c2) (by omega) hf2 (by simp [withRE, hfs])]
          exact REq.refl _
        | some y =>
          obtain ⟨sz, r2⟩ := y
          by_cases hwt : t = 0x41
          · -- WEBTRANSPORT_STREAM
            have hfh : frameHeader false s B1 =
                .wt { s with frameType := some t, sessionId := some sz, frameSize := none, buffer := [] }
                  (if r2 ≠ [] ∨ false = true then [.wt r2 s.streamId false sz] else []) := by
              simp [frameHeader, hfs, hp1, hp2, hwt]
            rw [hfh]; dsimp only
            cases f2 with
            | zero => omega
            | succ m =>
              rw [reqLoop_succ o cfg e m]; simp only [hne2, ↓reduceIte]
              rw [frameHeader_withRE]
              have hfh2 : frameHeader e s (B1 ++ c2) =
                  .wt { s with frameType := some t, sessionId := some sz, frameSize := none, buffer := [] }
                    (if r2 ++ c2 ≠ [] ∨ e = true then [.wt (r2 ++ c2) s.streamId e sz] else []) := by
                simp [frameHeader, hfs, pullVarint_append c2 hp1, pullVarint_append c2 hp2, hwt]
              rw [hfh2]; dsimp only
              simp only [loopPost]
              rw [andThen_ok]
              rw [recvReq_wt o cfg { s with frameType := some t, sessionId := some sz, frameSize := none, buffer := [] }
                q c2 e sz hblk rfl (by simp [hwt])]
              simp only [pre, REq]
              refine ⟨by cases s; simp_all [withRE], trivial, ?_⟩
              intro sid
              by_cases h1 : r2 = [] <;> by_cases h2 : c2 = [] <;> cases e <;>
                simp [h1, h2, normOf, normEv, Norm.append, Norm.empty, orFirst] <;> (try split) <;> simp
          · -- an ordinary frame header: type `t`, length `sz`
            have hfh : frameHeader false s B1 = .go { s with frameType := some t, frameSize := some sz } r2 := by
              simp [frameHeader, hfs, hp1, hp2, hwt]
            rw [hfh]; dsimp only
            cases f2 with
            | zero => omega
            | succ m =>
              rw [reqLoop_succ o cfg e m]; simp only [hne2, ↓reduceIte]
              rw [frameHeader_withRE]
              have hfh2 : frameHeader e s (B1 ++ c2) =
                  .go { s with frameType := some t, frameSize := some sz } (r2 ++ c2) := by
                simp [frameHeader, hfs, pullVarint_append c2 hp1, pullVarint_append c2 hp2, hwt]
              rw [hfh2]; dsimp only
              have hl1 := pullVarint_length hp1
              have hl2 := pullVarint_length hp2
              have hlen2 : (B1 ++ c2).length = B1.length + c2.length := by simp
              by_cases hfull : sz ≤ r2.length
              · -- the frame is complete within the first delivery
                unfold bodyLoop
                rw [frameBody_full o cfg { s with frameType := some t, frameSize := some sz } q r2 sz rfl hfull]
                rw [frameBody_full o cfg (withRE e { s with frameType := some t, frameSize := some sz }) q (r2 ++ c2) sz rfl
                  (by simp; omega)]
                rw [List.take_append_of_le_length hfull, List.drop_append_of_le_length hfull]
                simp only [withRE, hre, Bool.false_and]
                by_cases hend : (e && (List.drop sz r2 ++ c2).isEmpty) = true
                · -- ... and it is the last thing on the stream, FIN arrives alone
                  have he : e = true := by simp at hend; exact hend.1
                  have hd : List.drop sz r2 = [] := by
                    have := hend; simp at this; exact List.drop_eq_nil_of_le this.2.1
                  have hc2 : c2 = [] := by simp at hend; exact hend.2.2
                  subst he hc2
                  rw [hend, hd]
                  simp only [List.append_nil, reqLoop_nil, LoopRes.prepend, List.append_nil]
                  have hE := handleFrame_end o cfg hsil hlog (some t) (List.take sz r2) s.p q
                  cases hA : handleFrame o cfg (some t) (List.take sz r2) s.p q true with
                  | error x =>
                    rw [hA] at hE
                    dsimp only at hE
                    rcases hE with hB' | ⟨p2, q2, ev, hB', hcl⟩
                    · rw [hB']; simp [loopPost, andThen, REq]
                    · rw [hB']
                      dsimp only
                      rw [reqLoop_nil]
                      dsimp only [LoopRes.prepend]
                      rw [tail_loneFin o cfg]
                      · dsimp only
                        rw [hcl]
                        simp [loopPost, pre, REq]
                      all_goals (first | rfl | exact hsess | exact hblk | exact hbuf)
                  | ok fr =>
                    cases fr with
                    | blocked q1 pp =>
                      -- the last frame waits for the encoder stream in both runs
                      rw [hA] at hE
                      dsimp only at hE
                      rw [hE]
                      simp [loopPost, andThen, recvReq, REq, NEq.refl, hre]
                    | done p2 q2 evA =>
                      rw [hA] at hE
                      dsimp only at hE
                      obtain ⟨evB, hB', hcl, hn⟩ := hE
                      rw [hB']
                      dsimp only
                      rw [reqLoop_nil, reqLoop_nil]
                      dsimp only [LoopRes.prepend]
                      rw [tail_loneFin o cfg, tail_ended cfg ht]
                      · dsimp only
                        rw [hcl]
                        simp only [pre, REq, List.append_nil]
                        exact ⟨trivial, trivial, hn.symm⟩
                      all_goals (first | rfl | exact hsess | exact hblk | exact hbuf)
                · have hend' : (e && (List.drop sz r2 ++ c2).isEmpty) = false := by simpa using hend
                  rw [hend']
                  cases hhf : handleFrame o cfg (some t) (List.take sz r2) s.p q false with
                  | error x => simp [loopPost, andThen, REq]
                  | ok fr =>
                    cases fr with
                    | blocked q1 pp =>
                      -- the frame waits for the encoder stream: later deliveries are only buffered
                      simp [loopPost, andThen, recvReq, REq, NEq.refl, hre]
                    | done p2 q2 ev =>
                      dsimp only
                      rw [loopPost_prepend, loopPost_prepend, andThen_pre]
                      refine REq.pre (NEq.refl _) ?_
                      have := ih { s with frameType := none, frameSize := none, p := p2 } q2 (List.drop sz r2) m
                        rfl hsess hblk hre hbuf (by simp; omega) (by simp; omega)
                        (by intro h0 hc
                            rw [h0, hc.1, hc.2] at hend'
                            simp at hend')
                      simpa [withRE, hre] using this
              · have hlt : r2.length < sz := by omega
                by_cases hdata : t = 0
                · -- a DATA frame of which only the first `r2.length` bytes have arrived
                  subst hdata
                  exact data_partial_merge o cfg ht { s with frameType := some 0, frameSize := some sz } q r2 c2 e n m sz
                    rfl rfl hlt hsess hblk hre hbuf (by simp at hf2 ⊢; omega)
                · -- a non-DATA frame whose payload is not complete after the first delivery
                  have hL : bodyLoop o cfg false n { s with frameType := some t, frameSize := some sz } q r2 =
                      .ok (.brk { s with frameType := some t, frameSize := some sz } q r2 []) := by
                    unfold bodyLoop
                    rw [frameBody_brk o cfg _ q r2 sz rfl (by simp [hdata]) hlt]
                  rw [hL, loopPost_brk_notEnded cfg { s with frameType := some t, frameSize := some sz } q r2 [] hre,
                    andThen_ok_nil]
                  rw [recvReq_main o cfg { s with frameType := some t, frameSize := some sz, buffer := r2 } q c2 e hblk hsess
                    (by intro z h; simp [hdata] at h)]
                  unfold recvReqMain
                  dsimp only
                  by_cases hemp : r2 ++ c2 = []
                  · -- nothing but the frame header has arrived
                    have hr2 : r2 = [] := (List.append_eq_nil_iff.mp hemp).1
                    have hc2 : c2 = [] := (List.append_eq_nil_iff.mp hemp).2
                    subst hr2 hc2
                    have hR : bodyLoop o cfg e m (withRE e { s with frameType := some t, frameSize := some sz }) q ([] ++ []) =
                        .ok (.brk (withRE e { s with frameType := some t, frameSize := some sz }) q [] []) := by
                      unfold bodyLoop
                      rw [frameBody_brk o cfg _ q ([] ++ []) sz rfl (by simp [withRE, hdata]) (by simpa using hlt)]
                      rfl
                    rw [hR]
                    cases e with
                    | true =>
                      simp [loneFin, loopPost, ht, withRE, hblk, REq]
                    | false =>
                      simp only [List.append_nil, Bool.false_eq_true, false_and, ↓reduceIte, List.length_nil, Nat.zero_add,
                        reqLoop_nil]
                      rw [loopPost_brk_notEnded cfg _ _ _ _ (by simp [hre]), loopPost_brk_notEnded cfg _ _ _ _ (by simp [withRE])]
                      simp only [REq]
                      exact ⟨by cases s; simp_all [withRE], trivial, NEq.refl _⟩
                  · rw [if_neg (by intro h; exact hemp h.2)]
                    rw [reqLoop_inFrame o cfg e _ _ q (r2 ++ c2) sz rfl hemp]
                    rw [bodyLoop_fuel o cfg e (r2 ++ c2).length m _ q (r2 ++ c2) sz rfl (by omega) hemp (Nat.le_refl _)
                      (by simp at hf2 ⊢; omega)]
                    have hst : ({ ({ s with frameType := some t, frameSize := some sz, buffer := r2 } : Stream) with
                        buffer := [], receivingEnded := s.receivingEnded || e } : Stream) =
                        withRE e { s with frameType := some t, frameSize := some sz } := by
                      cases s; simp_all [withRE]
                    dsimp only at hst ⊢
                    rw [hst]
                    exact REq.refl _

end
end AQ.H3

namespace AQ.H3
section
variable {σ : Type} (o : Oracle σ) (cfg : Cfg)

/-- a request/push stream on which no frame byte has been received yet
    (`H3Stream(stream_id)`, or a push stream right after its push id) -/
structure Fresh (s : Stream) : Prop where
  frameSize : s.frameSize = none
  frameType : s.frameType = none
  sessionId : s.sessionId = none
  blocked : s.blocked = false
  receivingEnded : s.receivingEnded = false
  buffer : s.buffer = []

theorem Fresh.eta {s : Stream} (h : Fresh s) (e : Bool) :
    withRE e ({ s with buffer := [] } : Stream) = withRE e s := by
  have := h.buffer
  cases s; simp_all [withRE]

theorem recvReq_nil_fresh {s : Stream} (h : Fresh s) (q : σ) : recvReq o cfg s q [] false = .ok (s, q, []) := by
  rw [recvReq_entry o cfg s q [] false h.blocked h.sessionId h.receivingEnded
    (by intro sz _ hz; rw [h.frameSize] at hz; cases hz) (by simp)]
  rw [h.buffer]
  simp only [List.append_nil, reqLoop_nil]
  rw [loopPost_brk_notEnded cfg _ _ _ _ rfl]
  have : ({ (withRE false ({ s with buffer := [] } : Stream)) with buffer := [] } : Stream) = s := by
    have := h.buffer; have := h.receivingEnded
    cases s; simp_all [withRE]
  rw [this]

/-- two consecutive deliveries on a fresh stream = one delivery of the concatenation -/
theorem merge (ht : cfg.k.truncatedNoError = false)
    (hsil : cfg.k.silentFrameNoEnd = false) (hlog : cfg.k.logDecode = false)
    {s : Stream} (hs : Fresh s) (q : σ) (c1 c2 : Bytes) (e : Bool) :
    REq (andThen (recvReq o cfg s q c1 false) (fun s1 q1 => recvReq o cfg s1 q1 c2 e))
        (recvReq o cfg s q (c1 ++ c2) e) := by
  by_cases hc1 : c1 = []
  · subst hc1
    rw [recvReq_nil_fresh o cfg hs, andThen_ok_nil]
    exact REq.refl _
  · have hnd : ∀ d sz, s.frameType = some 0 → s.frameSize = some sz → ¬ (s.buffer ++ d).length < sz := by
      intro d sz _ hz; rw [hs.frameSize] at hz; cases hz
    rw [recvReq_entry o cfg s q c1 false hs.blocked hs.sessionId hs.receivingEnded (hnd c1) (by simp)]
    rw [recvReq_entry o cfg s q (c1 ++ c2) e hs.blocked hs.sessionId hs.receivingEnded (hnd _)
      (by rw [hs.buffer]; simp [hc1])]
    rw [hs.buffer, hs.eta, hs.eta]
    simp only [List.nil_append]
    have hw : withRE false s = s := withRE_self s hs.receivingEnded
    rw [hw]
    exact loop_merge o cfg ht hsil hlog c2 e _ s q c1 _ hs.frameSize hs.sessionId hs.blocked
      hs.receivingEnded hs.buffer (Nat.lt_succ_self _) (Nat.lt_succ_self _) (fun h => absurd h hc1)

/-- deliver `(bytes, fin)` one after the other -/
def feedAll (s : Stream) (q : σ) : List (Bytes × Bool) → Res σ
  | [] => .ok (s, q, [])
  | (c, f) :: r => andThen (recvReq o cfg s q c f) (fun s1 q1 => feedAll s1 q1 r)

theorem andThen_ret (x : Res σ) : andThen x (fun s q => .ok (s, q, [])) = x := by
  cases x with
  | error e => rfl
  | ok v => obtain ⟨s, q, ev⟩ := v; simp [andThen]

theorem feedAll_single (s : Stream) (q : σ) (c : Bytes) (f : Bool) :
    feedAll o cfg s q [(c, f)] = recvReq o cfg s q c f := by
  simp [feedAll, andThen_ret]

theorem feedAll_append (a b : List (Bytes × Bool)) : ∀ (s : Stream) (q : σ),
    feedAll o cfg s q (a ++ b) = andThen (feedAll o cfg s q a) (fun s1 q1 => feedAll o cfg s1 q1 b) := by
  induction a with
  | nil => intro s q; simp [feedAll, andThen_ok_nil]
  | cons x r ih =>
    intro s q
    obtain ⟨c, f⟩ := x
    simp only [List.cons_append, feedAll]
    rw [andThen_assoc]
    congr 1
    funext s1 q1
    exact ih s1 q1

/-- any number of non-final deliveries = one delivery of their concatenation -/
theorem feedAll_nofin (ht : cfg.k.truncatedNoError = false)
    (hsil : cfg.k.silentFrameNoEnd = false) (hlog : cfg.k.logDecode = false)
    {s : Stream} (hs : Fresh s) (q : σ) (chunks : List Bytes) :
    REq (feedAll o cfg s q (chunks.map (·, false))) (recvReq o cfg s q chunks.flatten false) := by
  suffices h : ∀ rc : List Bytes,
      REq (feedAll o cfg s q (rc.reverse.map (·, false))) (recvReq o cfg s q rc.reverse.flatten false) by
    have := h chunks.reverse
    rwa [List.reverse_reverse] at this
  intro rc
  induction rc with
  | nil =>
    simp only [List.reverse_nil, List.map_nil, feedAll, List.flatten_nil]
    rw [recvReq_nil_fresh o cfg hs]
    exact REq.refl _
  | cons c cs ih =>
    rw [List.reverse_cons, List.map_append, feedAll_append]
    simp only [List.map_cons, List.map_nil, feedAll_single, List.flatten_append, List.flatten_cons,
      List.flatten_nil, List.append_nil]
    exact REq.trans (REq.andThen ih _) (merge o cfg ht hsil hlog hs q cs.reverse.flatten c false)

/-- `chunks` delivered without FIN, then `last` with FIN flag `fin` -/
theorem feedAll_chunks (ht : cfg.k.truncatedNoError = false)
    (hsil : cfg.k.silentFrameNoEnd = false) (hlog : cfg.k.logDecode = false)
    {s : Stream} (hs : Fresh s) (q : σ) (chunks : List Bytes) (last : Bytes) (fin : Bool) :
    REq (feedAll o cfg s q (chunks.map (·, false) ++ [(last, fin)]))
        (recvReq o cfg s q (chunks.flatten ++ last) fin) := by
  rw [feedAll_append]
  simp only [feedAll_single]
  exact REq.trans (REq.andThen (feedAll_nofin o cfg ht hsil hlog hs q chunks) _)
    (merge o cfg ht hsil hlog hs q chunks.flatten last fin)

end
end AQ.H3
