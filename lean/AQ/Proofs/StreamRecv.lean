/-
  Receive half of a stream: invariant of the implementation model
  (`AQ.Stream.Recv`), abstraction to the reference model (`AQ.Stream.RSpec`)
  and the one-step refinement theorems.
-/
import AQ.Proofs.RangeSet
import AQ.Model.StreamSpec

namespace AQ.Stream
open AQ AQ.RangeSet

/-! ## List facts -/

theorem sliceAssign_get (buf d : Bytes) (pos : Nat) (h : pos ≤ buf.length) (j : Nat) :
    (sliceAssign buf pos d)[j]? =
      if j < pos then buf[j]? else if j < pos + d.length then d[j - pos]? else buf[j]? := by
  unfold sliceAssign
  simp only [List.getElem?_append, List.length_take, List.length_append, Nat.min_eq_left h,
    List.getElem?_take, List.getElem?_drop]
  grind

theorem sliceAssign_length (buf d : Bytes) (pos : Nat) (h : pos ≤ buf.length) :
    (sliceAssign buf pos d).length = max buf.length (pos + d.length) := by
  unfold sliceAssign
  simp only [List.length_append, List.length_take, List.length_drop]
  omega

/-- the zero padding `self._buffer += bytearray(gap)` -/
def pad (buf : Bytes) (pos : Nat) : Bytes :=
  if pos > buf.length then buf ++ List.replicate (pos - buf.length) 0 else buf

theorem pad_length (buf : Bytes) (pos : Nat) : (pad buf pos).length = max buf.length pos := by
  unfold pad; split
  · simp; omega
  · omega

theorem pad_get (buf : Bytes) (pos j : Nat) (h : j < buf.length) : (pad buf pos)[j]? = buf[j]? := by
  unfold pad; split
  · simp [List.getElem?_append, h]
  · rfl

/-! ## The reference model's `deliver` -/

theorem deliver_eq (known : Nat → Option UInt8) (bs : Bytes) (d fuel : Nat)
    (h1 : ∀ i, i < bs.length → known (d + i) = bs[i]?)
    (h2 : known (d + bs.length) = none ∨ fuel = bs.length) (h3 : bs.length ≤ fuel) :
    deliver known d fuel = bs := by
  induction bs generalizing d fuel with
  | nil =>
    cases fuel with
    | zero => rfl
    | succ n =>
      rcases h2 with h2 | h2
      · simp only [List.length_nil, Nat.add_zero] at h2
        simp [deliver, h2]
      · simp at h2
  | cons b rest ih =>
    cases fuel with
    | zero => simp at h3
    | succ n =>
      have h0 := h1 0 (by simp)
      simp only [Nat.add_zero, List.getElem?_cons_zero] at h0
      simp only [deliver, h0]
      congr 1
      apply ih
      · intro i hi
        have := h1 (i + 1) (by simp; omega)
        simpa [Nat.add_assoc, Nat.add_comm 1 i] using this
      · rcases h2 with h2 | h2
        · left; simpa [Nat.add_assoc, Nat.add_comm 1] using h2
        · right; simpa using h2
      · simpa using h3

/-- every delivered byte is the known byte at its offset, and the run is
    maximal: it stops at an unknown offset unless the fuel ran out -/
theorem deliver_spec (known : Nat → Option UInt8) (d fuel : Nat) :
    (∀ i, i < (deliver known d fuel).length → known (d + i) = (deliver known d fuel)[i]?) ∧
    (known (d + (deliver known d fuel).length) = none ∨ (deliver known d fuel).length = fuel) := by
  induction fuel generalizing d with
  | zero => simp [deliver]
  | succ n ih =>
    unfold deliver
    split
    · rename_i b hb
      have := ih (d + 1)
      constructor
      · intro i hi
        cases i with
        | zero => simpa using hb
        | succ j =>
          have := this.1 j (by simpa using hi)
          simpa [Nat.add_assoc, Nat.add_comm 1 j] using this
      · rcases this.2 with h | h
        · left; simpa [Nat.add_assoc, Nat.add_comm 1] using h
        · right; simp [h]
    · rename_i hb
      simp [hb]

/-! ## Invariant and abstraction -/

/-- invariant of the receiver's private state -/
structure Inv (s : Recv) : Prop where
  /-- the received ranges are sorted, non-empty and non-touching -/
  wf : WF s.ranges
  /-- nothing deliverable is withheld: every buffered range starts strictly
      after the delivery point -/
  lo : ∀ x, mem x s.ranges → s.bufStart < x
  /-- every received range has its bytes in the buffer -/
  hi : ∀ x, mem x s.ranges → x < s.bufStart + s.buffer.length
  /-- the buffer never extends beyond the highest offset seen -/
  high : s.bufStart + s.buffer.length ≤ s.highest

/-- holds until a reset is accepted: a fixed final size is covered by the
    buffer (so the fast path cannot be taken once the final size is fixed and
    all buffered bytes were delivered) -/
def FinCovered (s : Recv) : Prop := ∀ z, s.finalSize = some z → z ≤ s.bufStart + s.buffer.length

/-- the offset-to-byte map held by a buffer and its range set -/
def knownOf (bufStart : Nat) (buffer : Bytes) (ranges : List Rg) : Nat → Option UInt8 :=
  fun i => if contains i ranges then buffer[i - bufStart]? else none

/-- abstraction function -/
def abs (s : Recv) : RSpec :=
  { known := knownOf s.bufStart s.buffer s.ranges, delivered := s.bufStart,
    final := s.finalSize, hi := s.highest }

theorem RSpec.eq_of {a b : RSpec} (h1 : ∀ i, a.known i = b.known i) (h2 : a.delivered = b.delivered)
    (h3 : a.final = b.final) (h4 : a.hi = b.hi) : a = b := by
  cases a; cases b
  simp only [RSpec.mk.injEq] at *
  exact ⟨funext h1, h2, h3, h4⟩

theorem inv_init : Inv {} := by
  constructor <;> simp [WF]

theorem finCovered_init : FinCovered {} := by
  intro z h; simp at h

theorem abs_init : abs {} = {} := by
  apply RSpec.eq_of <;> simp [abs, knownOf, contains]

/-! ## `handleFrame` in pieces -/

/-- state after the final-size / highest-offset bookkeeping -/
def bookkeep (s : Recv) (f : Frame) : Recv :=
  let s := if f.fin then { s with finalSize := some f.stop } else s
  if f.stop > s.highest then { s with highest := f.stop } else s

/-- result of the fast path -/
def fastPath (s : Recv) (f : Frame) : Recv × Option DataEv :=
  let s := { s with bufStart := s.bufStart + f.data.length }
  let s := if f.fin then { s with finished := true } else s
  (s, some ⟨f.data, f.fin⟩)

/-- slow path up to (excluding) `_pull_data` -/
def slowPre (s : Recv) (f : Frame) : Recv :=
  let off := max f.offset s.bufStart
  let data := f.data.drop (s.bufStart - f.offset)
  let pos := off - s.bufStart
  { s with
    ranges := if f.stop > off then add off f.stop s.ranges else s.ranges
    buffer := sliceAssign (pad s.buffer pos) pos data }

/-- slow path after `_pull_data` -/
def finish (p : Recv × Bytes) : Recv × Option DataEv :=
  let endStream := decide (some p.1.bufStart = p.1.finalSize)
  let s := if endStream then { p.1 with finished := true } else p.1
  (s, mkEvent p.2 endStream)

theorem handleFrame_eq (s : Recv) (f : Frame) :
    handleFrame s f =
      if frameFinalSizeError s.finalSize f then .error .finalSize
      else if f.offset = (bookkeep s f).bufStart ∧ f.data.length ≠ 0 ∧ (bookkeep s f).buffer = [] then
        .ok (fastPath (bookkeep s f) f)
      else .ok (finish (pullData (slowPre (bookkeep s f) f))) := by
  unfold handleFrame
  split
  · rfl
  · extract_lets count frameEnd s1 s2
    have h2 : s2 = bookkeep s f := rfl
    rw [← h2]
    split
    · rfl
    · clear h2
      clear_value s2
      by_cases h : f.offset < s2.bufStart
      · rw [if_pos h]
        dsimp -zeta only
        extract_lets s3 buf s4
        have e : slowPre s2 f = s4 := by
          have hm : max f.offset s2.bufStart = s2.bufStart := by omega
          by_cases hc : f.offset + f.data.length > s2.bufStart
          · simp only [s4, buf, s3, slowPre, pad, Frame.stop, frameEnd, count, hm, Nat.sub_self, if_pos hc]
          · simp only [s4, buf, s3, slowPre, pad, Frame.stop, frameEnd, count, hm, Nat.sub_self, if_neg hc]
        rw [e]
        simp only [finish, mkEvent]
        split <;> rfl
      · rw [if_neg h]
        dsimp -zeta only
        extract_lets s3 buf s4
        have e : slowPre s2 f = s4 := by
          have hm : max f.offset s2.bufStart = f.offset := by omega
          have hd : s2.bufStart - f.offset = 0 := by omega
          by_cases hc : f.offset + f.data.length > f.offset
          · simp only [s4, buf, s3, slowPre, pad, Frame.stop, frameEnd, count, hm, hd, List.drop_zero, if_pos hc]
          · simp only [s4, buf, s3, slowPre, pad, Frame.stop, frameEnd, count, hm, hd, List.drop_zero, if_neg hc]
        rw [e]
        simp only [finish, mkEvent]
        split <;> rfl

/-! ## Bookkeeping step -/

@[simp] theorem bookkeep_bufStart (s : Recv) (f : Frame) : (bookkeep s f).bufStart = s.bufStart := by
  simp only [bookkeep]; split <;> split <;> rfl
@[simp] theorem bookkeep_buffer (s : Recv) (f : Frame) : (bookkeep s f).buffer = s.buffer := by
  simp only [bookkeep]; split <;> split <;> rfl
@[simp] theorem bookkeep_ranges (s : Recv) (f : Frame) : (bookkeep s f).ranges = s.ranges := by
  simp only [bookkeep]; split <;> split <;> rfl
theorem bookkeep_finalSize (s : Recv) (f : Frame) :
    (bookkeep s f).finalSize = if f.fin then some f.stop else s.finalSize := by
  simp only [bookkeep]; split <;> split <;> rfl
theorem bookkeep_highest (s : Recv) (f : Frame) : (bookkeep s f).highest = max s.highest f.stop := by
  simp only [bookkeep]; split <;> split <;> simp_all <;> omega

theorem bookkeep_inv {s : Recv} (f : Frame) (h : Inv s) : Inv (bookkeep s f) := by
  constructor
  · simpa using h.wf
  · simpa using h.lo
  · simpa using h.hi
  · have := h.high; rw [bookkeep_highest]; simp; omega

/-- the model's final-size guard is the specification's error condition -/
theorem frameError_iff (s : Recv) (f : Frame) :
    frameFinalSizeError s.finalSize f = true ↔ specFrameError (abs s) f := by
  unfold frameFinalSizeError specFrameError abs
  cases s.finalSize with
  | none => simp
  | some z => simp

/-! ## Slow path, before `_pull_data` -/

/-- invariant that holds between range marking and `_pull_data`: as `Inv`, but
    the first range may start exactly at the delivery point -/
structure PreInv (u : Recv) : Prop where
  wf : WF u.ranges
  lo : ∀ x, mem x u.ranges → u.bufStart ≤ x
  hi : ∀ x, mem x u.ranges → x < u.bufStart + u.buffer.length
  high : u.bufStart + u.buffer.length ≤ u.highest

theorem slowPre_mem {s : Recv} (f : Frame) (h : Inv s) (x : Nat) :
    mem x (slowPre s f).ranges ↔ mem x s.ranges ∨ (max f.offset s.bufStart ≤ x ∧ x < f.stop) := by
  simp only [slowPre]
  split
  · rename_i hc
    exact add_mem _ _ hc _ h.wf x
  · constructor
    · exact Or.inl
    · rintro (h1 | h1)
      · exact h1
      · omega

theorem slowPre_length {s : Recv} (f : Frame) :
    (slowPre s f).buffer.length =
      max (max s.buffer.length (max f.offset s.bufStart - s.bufStart))
        (max f.offset s.bufStart - s.bufStart + (f.data.length - (s.bufStart - f.offset))) := by
  simp only [slowPre]
  rw [sliceAssign_length _ _ _ (by rw [pad_length]; omega), pad_length, List.length_drop]

theorem slowPre_get {s : Recv} (f : Frame) (j : Nat) :
    (slowPre s f).buffer[j]? =
      if j < max f.offset s.bufStart - s.bufStart then (pad s.buffer (max f.offset s.bufStart - s.bufStart))[j]?
      else if j < max f.offset s.bufStart - s.bufStart + (f.data.length - (s.bufStart - f.offset)) then
        f.data[s.bufStart - f.offset + (j - (max f.offset s.bufStart - s.bufStart))]?
      else (pad s.buffer (max f.offset s.bufStart - s.bufStart))[j]? := by
  simp only [slowPre]
  rw [sliceAssign_get _ _ _ (by rw [pad_length]; omega), List.length_drop, List.getElem?_drop]

theorem slowPre_pre {s : Recv} (f : Frame) (h : Inv s) (hh : f.stop ≤ s.highest) :
    PreInv (slowPre s f) := by
  have hl := slowPre_length (s := s) f
  have hb : (slowPre s f).bufStart = s.bufStart := rfl
  have hH : (slowPre s f).highest = s.highest := rfl
  have hs : f.stop = f.offset + f.data.length := rfl
  constructor
  · simp only [slowPre]
    split
    · rename_i hc; exact add_wf _ _ hc _ h.wf
    · exact h.wf
  · intro x hx
    rw [hb]
    rcases (slowPre_mem f h x).1 hx with h1 | h1
    · have := h.lo x h1; omega
    · omega
  · intro x hx
    rw [hb, hl]
    rcases (slowPre_mem f h x).1 hx with h1 | h1
    · have := h.hi x h1; omega
    · omega
  · rw [hb, hl, hH]
    have := h.high
    omega

theorem slowPre_known {s : Recv} (f : Frame) (h : Inv s) (i : Nat) :
    knownOf s.bufStart (slowPre s f).buffer (slowPre s f).ranges i =
      if s.bufStart ≤ i ∧ f.offset ≤ i ∧ i < f.stop then f.data[i - f.offset]?
      else knownOf s.bufStart s.buffer s.ranges i := by
  have hs : f.stop = f.offset + f.data.length := rfl
  unfold knownOf
  by_cases hin : s.bufStart ≤ i ∧ f.offset ≤ i ∧ i < f.stop
  · rw [if_pos hin]
    have hm : mem i (slowPre s f).ranges := (slowPre_mem f h i).2 (Or.inr (by omega))
    rw [if_pos ((contains_iff_mem _ _).2 hm), slowPre_get]
    rw [if_neg (by omega), if_pos (by omega)]
    congr 1
    omega
  · rw [if_neg hin]
    by_cases hm : mem i s.ranges
    · have hm' : mem i (slowPre s f).ranges := (slowPre_mem f h i).2 (Or.inl hm)
      rw [if_pos ((contains_iff_mem _ _).2 hm'), if_pos ((contains_iff_mem _ _).2 hm), slowPre_get]
      have h1 := h.lo i hm
      have h2 := h.hi i hm
      split
      · exact pad_get _ _ _ (by omega)
      · split
        · omega
        · exact pad_get _ _ _ (by omega)
    · have hm' : ¬ mem i (slowPre s f).ranges := by
        intro hx
        rcases (slowPre_mem f h i).1 hx with h1 | h1
        · exact hm h1
        · omega
      rw [if_neg (by rw [contains_iff_mem]; exact hm'), if_neg (by rw [contains_iff_mem]; exact hm)]

/-! ## `_pull_data` -/

theorem knownOf_not_mem {b : Nat} {buf : Bytes} {rs : List Rg} {i : Nat} (h : ¬ mem i rs) :
    knownOf b buf rs i = none := by
  unfold knownOf; rw [if_neg (by rw [contains_iff_mem]; exact h)]

theorem knownOf_mem {b : Nat} {buf : Bytes} {rs : List Rg} {i : Nat} (h : mem i rs) :
    knownOf b buf rs i = buf[i - b]? := by
  unfold knownOf; rw [if_pos ((contains_iff_mem _ _).2 h)]

theorem pullData_spec {u : Recv} (h : PreInv u) (fuel : Nat) (hf : u.buffer.length ≤ fuel) :
    (pullData u).2 = deliver (knownOf u.bufStart u.buffer u.ranges) u.bufStart fuel ∧
    (pullData u).1.bufStart = u.bufStart + (pullData u).2.length ∧
    Inv (pullData u).1 ∧
    (∀ i, knownOf (pullData u).1.bufStart (pullData u).1.buffer (pullData u).1.ranges i =
        if i < (pullData u).1.bufStart then none else knownOf u.bufStart u.buffer u.ranges i) ∧
    (pullData u).1.finalSize = u.finalSize ∧ (pullData u).1.highest = u.highest ∧
    (pullData u).1.bufStart + (pullData u).1.buffer.length = u.bufStart + u.buffer.length := by
  -- the case where nothing is pulled
  have nothing : (∀ x, mem x u.ranges → u.bufStart < x) → pullData u = (u, []) →
      (pullData u).2 = deliver (knownOf u.bufStart u.buffer u.ranges) u.bufStart fuel ∧
      (pullData u).1.bufStart = u.bufStart + (pullData u).2.length ∧
      Inv (pullData u).1 ∧
      (∀ i, knownOf (pullData u).1.bufStart (pullData u).1.buffer (pullData u).1.ranges i =
          if i < (pullData u).1.bufStart then none else knownOf u.bufStart u.buffer u.ranges i) ∧
      (pullData u).1.finalSize = u.finalSize ∧ (pullData u).1.highest = u.highest ∧
      (pullData u).1.bufStart + (pullData u).1.buffer.length = u.bufStart + u.buffer.length := by
    intro hlo he
    rw [he]
    refine ⟨?_, rfl, ⟨h.wf, hlo, h.hi, h.high⟩, ?_, rfl, rfl, rfl⟩
    · symm
      apply deliver_eq
      · intro i hi; simp at hi
      · left
        apply knownOf_not_mem
        intro hx; have := hlo _ hx; simp at this
      · simp
    · intro i
      simp only []
      split
      · rename_i hi
        apply knownOf_not_mem
        intro hx; have := hlo _ hx; omega
      · rfl
  have hcases : u.ranges = [] ∨ ∃ r rest, u.ranges = r :: rest := by
    cases u.ranges <;> simp
  rcases hcases with hr | ⟨r, rest, hr⟩
  · apply nothing
    · intro x hx; rw [hr] at hx; simp at hx
    · simp [pullData, hr]
  · have hwf : WF (r :: rest) := hr ▸ h.wf
    have hleast := wf_head_least hwf
    have h0 := wf_head hwf
    by_cases hs : r.start = u.bufStart
    · have he : pullData u = ({ u with ranges := rest, buffer := u.buffer.drop (r.stop - r.start), bufStart := r.stop },
          u.buffer.take (r.stop - r.start)) := by
        simp [pullData, hr, hs]
      rw [he]
      have hhi : r.stop ≤ u.bufStart + u.buffer.length := by
        have := h.hi (r.stop - 1) (by rw [hr]; exact mem_cons.2 (Or.inl ⟨by omega, by omega⟩))
        omega
      have hlen : (u.buffer.take (r.stop - r.start)).length = r.stop - r.start := by
        rw [List.length_take]; omega
      refine ⟨?_, ?_, ⟨wf_tail hwf, ?_, ?_, ?_⟩, ?_, rfl, rfl, ?_⟩
      · symm
        apply deliver_eq
        · intro i hi
          rw [hlen] at hi
          rw [knownOf_mem (by rw [hr]; exact mem_cons.2 (Or.inl ⟨by omega, by omega⟩))]
          rw [List.getElem?_take, if_pos hi]
          congr 1; omega
        · left
          rw [hlen]
          apply knownOf_not_mem
          have : u.bufStart + (r.stop - r.start) = r.stop := by omega
          rw [this, hr]
          exact wf_head_stop_not_mem hwf
        · rw [hlen]; omega
      · simp only [hlen]; omega
      · intro x hx; exact wf_mem_gt hwf hx
      · intro x hx
        have := h.hi x (by rw [hr]; exact mem_cons.2 (Or.inr hx))
        simp only [List.length_drop]; omega
      · have := h.high
        simp only [List.length_drop]; omega
      · intro i
        simp only []
        split
        · rename_i hi
          apply knownOf_not_mem
          intro hx; have := wf_mem_gt hwf hx; omega
        · rename_i hi
          by_cases hm : mem i rest
          · rw [knownOf_mem hm, knownOf_mem (by rw [hr]; exact mem_cons.2 (Or.inr hm)), List.getElem?_drop]
            congr 1; omega
          · rw [knownOf_not_mem hm, knownOf_not_mem]
            rw [hr, mem_cons]
            rintro (h1 | h1)
            · omega
            · exact hm h1
      · simp only [List.length_drop]; omega
    · apply nothing
      · intro x hx
        rw [hr] at hx
        have h1 := hleast.2 x hx
        have h2 := h.lo r.start (by rw [hr]; exact hleast.1)
        omega
      · simp [pullData, hr, hs]

/-! ## The refinement theorem for `handle_frame` -/

/-- the specification's intermediate map `known₁` written over the model state -/
def known1 (s : Recv) (f : Frame) : Nat → Option UInt8 := fun i =>
  if s.bufStart ≤ i ∧ f.offset ≤ i ∧ i < f.stop then f.data[i - f.offset]?
  else knownOf s.bufStart s.buffer s.ranges i

theorem specFrame_ok (s : Recv) (f : Frame) (hne : ¬ specFrameError (abs s) f) (out : Bytes)
    (hout : deliver (known1 s f) s.bufStart ((bookkeep s f).highest - s.bufStart) = out) :
    specFrame (abs s) f = some
      ({ known := fun i => if i < s.bufStart + out.length then none else known1 s f i,
         delivered := s.bufStart + out.length,
         final := (bookkeep s f).finalSize, hi := (bookkeep s f).highest },
       mkEvent out (decide (some (s.bufStart + out.length) = (bookkeep s f).finalSize))) := by
  unfold specFrame
  rw [if_neg hne]
  subst hout
  simp only [bookkeep_finalSize, bookkeep_highest]
  rfl

def evData : Option DataEv → Bytes
  | none => []
  | some e => e.data

def evEnd : Option DataEv → Bool
  | none => false
  | some e => e.endStream

theorem evData_mkEvent (d : Bytes) (e : Bool) : evData (mkEvent d e) = d := by
  unfold mkEvent; split
  · rfl
  · rename_i h; simp only [evData]; simp at h; exact h.1.symm

theorem evEnd_mkEvent (d : Bytes) (e : Bool) : evEnd (mkEvent d e) = e := by
  unfold mkEvent; split
  · rfl
  · rename_i h; simp only [evEnd]; simp at h; exact h.2.symm

/-- what "the implementation step agrees with the specification step" means -/
def FrameRefines (s : Recv) (r : Outcome (Recv × Option DataEv)) (q : Option (RSpec × Option DataEv)) : Prop :=
  match r, q with
  | .error e, none => e = .finalSize
  | .ok (s', ev), some (t', ev') =>
      Inv s' ∧ abs s' = t' ∧ evData ev = evData ev' ∧ (evEnd ev = true → evEnd ev' = true) ∧
      (FinCovered s → FinCovered s' ∧ ev = ev')
  | _, _ => False

theorem fastPath_refines {s : Recv} (f : Frame) (h : Inv s) (hne : ¬ specFrameError (abs s) f)
    (hoff : f.offset = s.bufStart) (hcnt : f.data.length ≠ 0) (hbuf : s.buffer = []) :
    FrameRefines s (.ok (fastPath (bookkeep s f) f)) (specFrame (abs s) f) := by
  have hs : f.stop = f.offset + f.data.length := rfl
  have hr : s.ranges = [] := by
    apply wf_no_mem_eq_nil h.wf
    intro x hx
    have := h.lo x hx; have := h.hi x hx
    rw [hbuf] at this; simp at this; omega
  have hk : ∀ i, knownOf s.bufStart s.buffer s.ranges i = none := by
    intro i; apply knownOf_not_mem; rw [hr]; simp
  have hout : deliver (known1 s f) s.bufStart ((bookkeep s f).highest - s.bufStart) = f.data := by
    apply deliver_eq
    · intro i hi
      unfold known1
      rw [if_pos (by omega)]
      congr 1; omega
    · left
      unfold known1
      rw [if_neg (by omega)]
      exact hk _
    · rw [bookkeep_highest]; omega
  rw [specFrame_ok s f hne f.data hout]
  have hfp : (fastPath (bookkeep s f) f).2 = some ⟨f.data, f.fin⟩ := rfl
  have hb : (fastPath (bookkeep s f) f).1.bufStart = s.bufStart + f.data.length := by
    simp only [fastPath]; split <;> simp
  have hbf : (fastPath (bookkeep s f) f).1.buffer = [] := by
    simp only [fastPath]; split <;> simp [hbuf]
  have hrg : (fastPath (bookkeep s f) f).1.ranges = [] := by
    simp only [fastPath]; split <;> simp [hr]
  have hfs : (fastPath (bookkeep s f) f).1.finalSize = (bookkeep s f).finalSize := by
    simp only [fastPath]; split <;> rfl
  have hhi : (fastPath (bookkeep s f) f).1.highest = (bookkeep s f).highest := by
    simp only [fastPath]; split <;> rfl
  have hmk : ∀ e, mkEvent f.data e = some ⟨f.data, e⟩ := by
    intro e; unfold mkEvent; rw [if_pos]; left; intro h0; rw [h0] at hcnt; simp at hcnt
  generalize hfp0 : fastPath (bookkeep s f) f = fp at *
  obtain ⟨s', ev⟩ := fp
  simp only [] at hfp hb hbf hrg hfs hhi
  subst hfp
  show Inv s' ∧ _
  refine ⟨⟨?_, ?_, ?_, ?_⟩, ?_, ?_, ?_, ?_⟩
  · rw [hrg]; trivial
  · intro x hx; rw [hrg] at hx; simp at hx
  · intro x hx; rw [hrg] at hx; simp at hx
  · rw [hb, hbf, hhi, bookkeep_highest]; simp; omega
  · apply RSpec.eq_of
    · intro i
      simp only [abs, hb, hbf, hrg]
      rw [knownOf_not_mem (by simp)]
      split
      · rfl
      · unfold known1; rw [if_neg (by omega)]; exact (hk i).symm
    · exact hb
    · exact hfs
    · exact hhi
  · rw [hmk]; rfl
  · rw [hmk]
    simp only [evEnd]
    intro hfin
    rw [bookkeep_finalSize, if_pos hfin, hs, hoff]
    simp
  · intro hfc
    constructor
    · intro z hz
      rw [hfs, bookkeep_finalSize] at hz
      rw [hb, hbf]
      split at hz
      · simp at hz; simp; omega
      · have := hfc z hz; rw [hbuf] at this; simp at this; simp; omega
    · rw [hmk]
      congr 2
      rw [bookkeep_finalSize]
      by_cases hfin : f.fin = true
      · rw [if_pos hfin, hfin, hs, hoff]; simp
      · rw [if_neg hfin]
        have : f.fin = false := by simpa using hfin
        rw [this]
        symm
        rw [decide_eq_false_iff_not]
        intro hz
        have := hfc _ hz.symm
        rw [hbuf] at this; simp at this; omega

theorem inv_finished {s : Recv} (h : Inv s) (b : Bool) : Inv { s with finished := b } :=
  ⟨h.wf, h.lo, h.hi, h.high⟩

theorem slowPath_refines {s : Recv} (f : Frame) (h : Inv s) (hne : ¬ specFrameError (abs s) f) :
    FrameRefines s (.ok (finish (pullData (slowPre (bookkeep s f) f)))) (specFrame (abs s) f) := by
  have hs : f.stop = f.offset + f.data.length := rfl
  have hbi := bookkeep_inv f h
  have hbh : f.stop ≤ (bookkeep s f).highest := by rw [bookkeep_highest]; omega
  have hpre := slowPre_pre f hbi hbh
  have hub : (slowPre (bookkeep s f) f).bufStart = s.bufStart := by
    show (bookkeep s f).bufStart = _; simp
  have huh : (slowPre (bookkeep s f) f).highest = (bookkeep s f).highest := rfl
  have huf : (slowPre (bookkeep s f) f).finalSize = (bookkeep s f).finalSize := rfl
  have hfuel : (slowPre (bookkeep s f) f).buffer.length ≤ (bookkeep s f).highest - s.bufStart := by
    have := hpre.high; rw [hub, huh] at this; omega
  have hkn : knownOf s.bufStart (slowPre (bookkeep s f) f).buffer (slowPre (bookkeep s f) f).ranges
      = known1 s f := by
    funext i
    have := slowPre_known f hbi i
    simp only [bookkeep_bufStart, bookkeep_buffer, bookkeep_ranges] at this
    exact this
  have hlen := slowPre_length (s := bookkeep s f) f
  simp only [bookkeep_bufStart, bookkeep_buffer] at hlen
  obtain ⟨p1, p2, p3, p4, p5, p6, p7⟩ := pullData_spec hpre _ hfuel
  rw [hub, hkn] at p1
  rw [hub] at p2 p7
  rw [hub, hkn] at p4
  rw [huf] at p5
  rw [huh] at p6
  generalize pullData (slowPre (bookkeep s f) f) = p at *
  obtain ⟨u, out⟩ := p
  simp only [] at p1 p2 p3 p4 p5 p6 p7
  rw [specFrame_ok s f hne out p1.symm]
  have hfin : ∀ c : Bool, (if c = true then { u with finished := true } else u) = { u with finished := u.finished || c } := by
    intro c; cases c <;> simp
  simp only [finish, hfin]
  show Inv _ ∧ _
  refine ⟨inv_finished p3 _, ?_, ?_, ?_, ?_⟩
  · apply RSpec.eq_of
    · intro i
      simp only [abs]
      rw [p4 i, p2]
    · exact p2
    · exact p5
    · exact p6
  · rw [p2, p5]
  · rw [p2, p5]; exact id
  · intro hfc
    constructor
    · intro z hz
      simp only [] at hz ⊢
      rw [p7]
      rw [p5, bookkeep_finalSize] at hz
      split at hz
      · simp at hz; omega
      · have := hfc z hz; omega
    · rw [p2, p5]

/-- **One-step refinement for `handle_frame`.**  Under the invariant, the
    implementation raises `FinalSizeError` exactly when the specification
    refuses the frame; otherwise the invariant is preserved, the abstract
    states agree, the delivered bytes agree, and — as long as no reset was
    accepted (`FinCovered`) — the whole event (bytes, end marker, presence)
    is the specification's event. -/
theorem handleFrame_refines {s : Recv} (f : Frame) (h : Inv s) :
    FrameRefines s (handleFrame s f) (specFrame (abs s) f) := by
  rw [handleFrame_eq]
  by_cases he : frameFinalSizeError s.finalSize f = true
  · rw [if_pos he]
    have := (frameError_iff s f).1 he
    unfold specFrame; rw [if_pos this]
    rfl
  · rw [if_neg he]
    have hne : ¬ specFrameError (abs s) f := fun hx => he ((frameError_iff s f).2 hx)
    split
    · rename_i hc
      simp only [bookkeep_bufStart, bookkeep_buffer] at hc
      exact fastPath_refines f h hne hc.1 hc.2.1 hc.2.2
    · exact slowPath_refines f h hne

/-- a refused frame leaves the implementation state untouched (the model
    returns no new state; the Python raises before the first assignment) and
    is refused exactly under the specification's condition -/
theorem handleFrame_error_iff (s : Recv) (f : Frame) :
    (∃ e, handleFrame s f = .error e) ↔
      ∃ z, s.finalSize = some z ∧ (f.stop > z ∨ (f.fin = true ∧ f.stop ≠ z)) := by
  rw [handleFrame_eq]
  have := frameError_iff s f
  unfold specFrameError at this
  simp only [abs] at this
  rw [← this]
  by_cases he : frameFinalSizeError s.finalSize f = true
  · rw [if_pos he]; simp [he]
  · rw [if_neg he]
    constructor
    · rintro ⟨e, hx⟩; split at hx <;> cases hx
    · intro hx; exact absurd hx he

/-! ## Reset -/

/-- **One-step refinement for `handle_reset`.** -/
theorem handleReset_refines {s : Recv} (z : Nat) (h : Inv s) :
    match handleReset s z, specReset (abs s) z with
    | .error e, none => e = .finalSize
    | .ok s', some t' => Inv s' ∧ abs s' = t'
    | _, _ => False := by
  unfold handleReset specReset
  have ha : (abs s).final = s.finalSize := rfl
  rw [ha]
  have hhigh : s.bufStart + s.buffer.length ≤ max s.highest z := by
    have := h.high; omega
  cases hf : s.finalSize with
  | none =>
    show Inv _ ∧ _
    exact ⟨⟨h.wf, h.lo, h.hi, hhigh⟩, rfl⟩
  | some y =>
    by_cases hz : z = y
    · subst hz
      simp only [ne_eq, not_true_eq_false, if_false]
      show Inv _ ∧ _
      refine ⟨⟨h.wf, h.lo, h.hi, hhigh⟩, ?_⟩
      apply RSpec.eq_of <;> simp [abs, hf]
    · simp only [ne_eq, hz, not_false_eq_true, if_true]

theorem handleReset_error_iff (s : Recv) (z : Nat) :
    (∃ e, handleReset s z = .error e) ↔ ∃ y, s.finalSize = some y ∧ z ≠ y := by
  unfold handleReset
  cases s.finalSize with
  | none => simp
  | some y =>
    by_cases hz : z = y <;> simp [hz]

end AQ.Stream
