/-
  Transport parameters: `push_quic_transport_parameters` /
  `pull_quic_transport_parameters` round trip, equality with the RFC-written
  encoder, confinement of every parameter parser to its declared length, fuel.
-/
import AQ.Proofs.Codec
import AQ.Proofs.CodecAck
import AQ.Proofs.CodecHeader

namespace AQ.Codec
open AQ

/-! ### in-range values and their bytes -/

def AddrOK (n : Nat) : Option (Bytes × Nat) → Prop
  | none => True
  | some (h, p) => h.length = n ∧ h ≠ zeros n ∧ p < 65536

/-- the values a parameter of each kind can carry on the wire -/
def ValOK : PKind → PVal → Prop
  | .int, .int n => n < 4611686018427387904
  | .bytes, .bytes b => b.length ≤ 65536
  | .flag, .flag => True
  | .pref, .pref a => AddrOK 4 a.ipv4 ∧ AddrOK 16 a.ipv6 ∧ a.cid.length < 256 ∧ a.token.length = 16
  | .vinfo, .vinfo v =>
    v.chosen ≠ 0 ∧ v.chosen < 4294967296 ∧ (∀ x ∈ v.available, x ≠ 0 ∧ x < 4294967296) ∧
      4 + 4 * v.available.length ≤ 65536
  | _, _ => False

def hostOf (n : Nat) : Option (Bytes × Nat) → Bytes
  | some (h, _) => h
  | none => zeros n

def portOf : Option (Bytes × Nat) → Nat
  | some (_, p) => p
  | none => 0

def prefBytes (a : PrefAddr) : Bytes :=
  hostOf 4 a.ipv4 ++ (be2 (portOf a.ipv4) ++ (hostOf 16 a.ipv6 ++ (be2 (portOf a.ipv6) ++
    (byte a.cid.length :: (a.cid ++ a.token)))))

def valBytes : PVal → Bytes
  | .int n => encV n
  | .bytes b => b
  | .flag => []
  | .pref a => prefBytes a
  | .vinfo v => be4 v.chosen ++ versionsBytes v.available

def paramBytes (id : Nat) (v : PVal) : Bytes := encV id ++ (encV (valBytes v).length ++ valBytes v)

theorem hostOf_length (n : Nat) (a : Option (Bytes × Nat)) (h : AddrOK n a) : (hostOf n a).length = n := by
  cases a with
  | none => simp [hostOf, zeros]
  | some hp => exact h.1

theorem prefBytes_length (a : PrefAddr) (h4 : AddrOK 4 a.ipv4) (h6 : AddrOK 16 a.ipv6) :
    (prefBytes a).length = 25 + a.cid.length + a.token.length := by
  simp only [prefBytes, List.length_append, List.length_cons, be2, List.length_nil,
    hostOf_length 4 _ h4, hostOf_length 16 _ h6]
  omega

theorem valBytes_length_le (kind : PKind) (v : PVal) (h : ValOK kind v) : (valBytes v).length ≤ 65536 := by
  cases kind <;> cases v <;> simp only [ValOK] at h
  · simp only [valBytes]; have := encV_length_le ‹Nat›; omega
  · simpa [valBytes] using h
  · simp [valBytes]
  · rename_i a
    simp only [valBytes, prefBytes_length a h.1 h.2.1]; omega
  · rename_i v
    simp only [valBytes, List.length_append, be4, List.length_cons, List.length_nil, versionsBytes_length]
    omega

/-! ### the encoder writes `paramBytes` -/

def addrScript (n : Nat) : Option (Bytes × Nat) → Script
  | some (host, port) => [.ok host, chunkUint16 port]
  | none => [.ok (zeros (n + 2))]

theorem prefAddrScript_eq (a : PrefAddr) :
    prefAddrScript a = addrScript 4 a.ipv4 ++ (addrScript 16 a.ipv6 ++
      [chunkUint8 (a.cid.length : Int), .ok a.cid, .ok a.token]) := by
  unfold prefAddrScript addrScript
  rw [List.append_assoc]
  cases a.ipv4 <;> cases a.ipv6 <;> rfl

theorem addrScript_bytes (n : Nat) (a : Option (Bytes × Nat)) (h : AddrOK n a) (rest : Script) (y : Bytes)
    (hr : Script.bytes rest = .ok y) (hz : zeros (n + 2) = zeros n ++ be2 0) :
    Script.bytes (addrScript n a ++ rest) = .ok (hostOf n a ++ (be2 (portOf a) ++ y)) := by
  cases a with
  | none =>
    simp only [addrScript, List.cons_append, List.nil_append, hostOf, portOf]
    rw [Script.bytes_cons_ok _ _ _ hr, hz, List.append_assoc]
  | some hp =>
    obtain ⟨host, port⟩ := hp
    simp only [addrScript, List.cons_append, List.nil_append, hostOf, portOf, chunkUint16_nat _ h.2.2]
    rw [Script.bytes_cons_ok _ _ _ (Script.bytes_cons_ok _ _ _ hr)]

theorem prefAddrScript_bytes (a : PrefAddr) (h : ValOK .pref (.pref a)) :
    (prefAddrScript a).bytes = .ok (prefBytes a) := by
  obtain ⟨h4, h6, hc, _⟩ := h
  rw [prefAddrScript_eq]
  unfold prefBytes
  have h3 : Script.bytes [chunkUint8 (a.cid.length : Int), .ok a.cid, .ok a.token] =
      .ok (byte a.cid.length :: (a.cid ++ a.token)) := by
    simp [Script.bytes, chunkUint8_nat _ hc]
  have h2 := addrScript_bytes 16 a.ipv6 h6 _ _ h3 (by decide)
  exact addrScript_bytes 4 a.ipv4 h4 _ _ h2 (by decide)

theorem versionInfoScript_bytes (v : VInfo) (h : ValOK .vinfo (.vinfo v)) :
    (versionInfoScript v).bytes = .ok (be4 v.chosen ++ versionsBytes v.available) := by
  obtain ⟨_, hc, ha, _⟩ := h
  unfold versionInfoScript
  rw [chunkUint32_nat _ hc]
  have := map_chunkUint32 v.available (fun x hx => (ha x hx).2)
  rw [List.map_map] at this
  exact Script.bytes_cons_ok _ _ _ this

theorem paramValueScript_bytes (kind : PKind) (v : PVal) (h : ValOK kind v) :
    (paramValueScript kind v).bytes = .ok (valBytes v) := by
  cases kind <;> cases v <;> simp only [ValOK] at h
  · simp [paramValueScript, valBytes, chunkUintVar_ofNat _ h, Script.bytes]
  · simp [paramValueScript, valBytes, Script.bytes]
  · simp [paramValueScript, valBytes, Script.bytes]
  · exact prefAddrScript_bytes _ h
  · exact versionInfoScript_bytes _ h

theorem paramScript_bytes (id : Nat) (kind : PKind) (v : PVal) (hid : id < 4611686018427387904)
    (h : ValOK kind v) : (paramScript id kind (some v)).bytes = .ok (paramBytes id v) := by
  have hlen := valBytes_length_le kind v h
  obtain ⟨b, hrun, hdata, hpos, _⟩ := Script.run_fresh _ _ 65536 (paramValueScript_bytes kind v h) hlen
  simp only [paramScript, hrun, Buf.tell, hpos, hdata]
  rw [chunkUintVar_ofNat _ hid, chunkUintVar_ofNat _ (by omega)]
  simp [Script.bytes, paramBytes]

/-- every entry of the list carries an in-range value -/
def ValidOver (p : TP) (L : List (Nat × String × PKind)) : Prop :=
  ∀ e ∈ L, e.1 < 4611686018427387904 ∧ ∀ v, p e.1 = some v → ValOK e.2.2 v

def tpBytesOver (p : TP) : List (Nat × String × PKind) → Bytes
  | [] => []
  | (id, _, _) :: rest =>
    (match p id with
     | some v => paramBytes id v
     | none => []) ++ tpBytesOver p rest

theorem tpScriptOver_bytes (p : TP) (L : List (Nat × String × PKind)) (h : ValidOver p L) :
    (tpScriptOver p L).bytes = .ok (tpBytesOver p L) := by
  induction L with
  | nil => rfl
  | cons e rest ih =>
    obtain ⟨id, name, kind⟩ := e
    have hrest := ih (fun e he => h e (by simp [he]))
    have he := h (id, name, kind) (by simp)
    simp only [tpScriptOver, tpBytesOver]
    cases hp : p id with
    | none =>
      simp only [paramScript, List.nil_append]
      exact hrest
    | some v =>
      exact Script.bytes_append _ _ _ _ (paramScript_bytes id kind v he.1 (he.2 v hp)) hrest

/-! ### the decoder reads `paramBytes` back -/

theorem pullBytes_lit (d x : Bytes) (n : Nat) (h : d.length = n) (hn : n < 9223372036854775808) :
    pullBytes (n : Int) (d ++ x) = .ok (d, x) := by
  subst h; exact pullBytes_append d x hn

theorem addr_back (n : Nat) (a : Option (Bytes × Nat)) (h : AddrOK n a) :
    (if hostOf n a != zeros n then some (hostOf n a, portOf a) else none) = a := by
  cases a with
  | none => simp [hostOf]
  | some hp =>
    obtain ⟨host, port⟩ := hp
    have : (host != zeros n) = true := by simpa using h.2.1
    simp [hostOf, portOf, this]

theorem pullPreferredAddress_bytes (a : PrefAddr) (h : ValOK .pref (.pref a)) (x : Bytes) :
    pullPreferredAddress (prefBytes a ++ x) = .ok (a, x) := by
  obtain ⟨h4, h6, hc, ht⟩ := h
  have p4 : portOf a.ipv4 < 65536 := by
    cases h : a.ipv4 with
    | none => simp [portOf]
    | some hp => rw [h] at h4; exact h4.2.2
  have p6 : portOf a.ipv6 < 65536 := by
    cases h : a.ipv6 with
    | none => simp [portOf]
    | some hp => rw [h] at h6; exact h6.2.2
  have e4 : ((4 : Nat) : Int) = 4 := rfl
  have e16 : ((16 : Nat) : Int) = 16 := rfl
  unfold pullPreferredAddress prefBytes
  simp only [Rd.bind_apply, List.append_assoc, List.cons_append]
  rw [← e4, pullBytes_lit _ _ 4 (hostOf_length 4 _ h4) (by omega)]
  simp only [uint16_roundtrip _ _ p4]
  rw [← e16, pullBytes_lit _ _ 16 (hostOf_length 16 _ h6) (by omega)]
  simp only [uint16_roundtrip _ _ p6, pullUint8_byte _ _ hc,
    pullBytes_append _ _ (show a.cid.length < 9223372036854775808 by omega)]
  rw [pullBytes_lit _ _ 16 ht (by omega)]
  simp only [Rd.pure_apply, addr_back 4 _ h4, addr_back 16 _ h6]

theorem pullUint32s_bytes (vs : List Nat) (h : ∀ v ∈ vs, v < 4294967296) (x : Bytes) :
    pullUint32s vs.length (versionsBytes vs ++ x) = .ok (vs, x) := by
  induction vs with
  | nil => rfl
  | cons v vs ih =>
    have := ih (fun v hv => h v (by simp [hv]))
    simp only [List.length_cons, pullUint32s, versionsBytes, List.append_assoc, Rd.bind_apply,
      uint32_roundtrip _ _ (h v (by simp)), this, Rd.pure_apply]

theorem pullVersionInformation_bytes (v : VInfo) (h : ValOK .vinfo (.vinfo v)) (x : Bytes) :
    pullVersionInformation (4 + 4 * v.available.length) (be4 v.chosen ++ versionsBytes v.available ++ x) =
      .ok (v, x) := by
  obtain ⟨h0, hc, ha, _⟩ := h
  have hn : (4 + 4 * v.available.length) / 4 - 1 = v.available.length := by omega
  have hz : v.available.contains 0 = false := by
    rw [Bool.eq_false_iff]
    intro hcon
    have := List.contains_iff_mem.mp hcon
    exact (ha 0 this).1 rfl
  have hne : (v.chosen != 0) = true := by simpa using h0
  simp only [pullVersionInformation, Rd.bind_apply, List.append_assoc, uint32_roundtrip _ _ hc, hn,
    pullUint32s_bytes _ (fun x hx => (ha x hx).2), hne, hz, Bool.not_false, Bool.and_self, Rd.guard_true,
    Rd.pure_apply]

theorem pullParamValue_bytes (kind : PKind) (v : PVal) (h : ValOK kind v) (x : Bytes) :
    pullParamValue kind (valBytes v).length (valBytes v ++ x) = .ok (v, x) := by
  have hlen := valBytes_length_le kind v h
  cases kind <;> cases v <;> simp only [ValOK] at h
  · simp only [pullParamValue, valBytes, Rd.bind_apply, varint_roundtrip _ _ h, Rd.pure_apply]
  · rename_i b
    simp only [pullParamValue, valBytes, Rd.bind_apply, Rd.pure_apply,
      pullBytes_append b x (by omega)]
  · simp [pullParamValue, valBytes]
  · simp only [pullParamValue, valBytes, Rd.bind_apply, pullPreferredAddress_bytes _ h, Rd.pure_apply]
  · rename_i vi
    have e : (valBytes (.vinfo vi)).length = 4 + 4 * vi.available.length := by
      simp only [valBytes, List.length_append, be4, List.length_cons, List.length_nil, versionsBytes_length]
    rw [e]
    simp only [pullParamValue, valBytes, Rd.bind_apply, pullVersionInformation_bytes _ h, Rd.pure_apply]

theorem pullParam_bytes (q : TP) (id : Nat) (kind : PKind) (v : PVal) (x : Bytes)
    (hid : id < 4611686018427387904) (hk : lookupKind id PARAMS = some kind) (h : ValOK kind v) :
    pullParam q (paramBytes id v ++ x) = .ok (q.set id v, x) := by
  have hlen := valBytes_length_le kind v h
  unfold pullParam paramBytes
  simp only [Rd.bind_apply, List.append_assoc, varint_roundtrip _ _ hid,
    varint_roundtrip _ _ (show (valBytes v).length < 4611686018427387904 by omega), Rd.remaining_apply, hk,
    pullParamValue_bytes kind v h, Rd.pure_apply, List.length_append, Nat.add_sub_cancel, beq_self_eq_true,
    Rd.guard_true]

/-! ### the loop -/

theorem pullParams_succ (n : Nat) (q : TP) (s : Bytes) (h : s ≠ []) :
    pullParams (n + 1) q s =
      match pullParam q s with
      | .ok (q', s') => pullParams n q' s'
      | .error e => .error e := by
  cases s with
  | nil => exact absurd rfl h
  | cons b r => rfl

theorem pullParams_nil (n : Nat) (q : TP) : pullParams n q [] = .ok (q, []) := by
  cases n <;> rfl

/-- what the decoder's `setattr`s amount to after reading the parameters of `p` listed in `L` -/
def setAll (p : TP) : TP → List (Nat × String × PKind) → TP
  | q, [] => q
  | q, (id, _, _) :: rest =>
    setAll p (match p id with
      | some v => q.set id v
      | none => q) rest

theorem paramBytes_ne_nil (id : Nat) (v : PVal) : paramBytes id v ≠ [] := by
  unfold paramBytes
  intro h
  exact encV_ne_nil id (List.append_eq_nil_iff.mp h).1

theorem pullParams_over (p : TP) (L : List (Nat × String × PKind)) : ∀ (q : TP) (n : Nat),
    ValidOver p L → (∀ e ∈ L, lookupKind e.1 PARAMS = some e.2.2) → (tpBytesOver p L).length ≤ n →
    pullParams n q (tpBytesOver p L) = .ok (setAll p q L, []) := by
  induction L with
  | nil => intro q n _ _ _; exact pullParams_nil n q
  | cons e rest ih =>
    intro q n hv hk hn
    obtain ⟨id, name, kind⟩ := e
    have hv' : ValidOver p rest := fun e he => hv e (by simp [he])
    have hk' : ∀ e ∈ rest, lookupKind e.1 PARAMS = some e.2.2 := fun e he => hk e (by simp [he])
    have he := hv (id, name, kind) (by simp)
    have hke := hk (id, name, kind) (by simp)
    simp only [tpBytesOver, setAll] at hn ⊢
    cases hp : p id with
    | none =>
      simp only [hp, List.nil_append] at hn ⊢
      exact ih q n hv' hk' hn
    | some v =>
      simp only [hp, List.length_append] at hn ⊢
      have hpos : 0 < (paramBytes id v).length := List.length_pos_iff.mpr (paramBytes_ne_nil id v)
      obtain ⟨m, rfl⟩ : ∃ m, n = m + 1 := ⟨n - 1, by omega⟩
      rw [pullParams_succ _ _ _ (by simp [paramBytes_ne_nil id v]),
        pullParam_bytes q id kind v _ he.1 hke (he.2 v hp)]
      exact ih (q.set id v) m hv' hk' (by omega)

theorem setAll_apply (p : TP) (L : List (Nat × String × PKind)) : ∀ (q : TP) (i : Nat),
    setAll p q L i =
      match p i with
      | some v => if i ∈ L.map (·.1) then some v else q i
      | none => q i := by
  induction L with
  | nil => intro q i; cases p i <;> simp [setAll]
  | cons e rest ih =>
    intro q i
    obtain ⟨id, name, kind⟩ := e
    simp only [setAll, ih, List.map_cons, List.mem_cons]
    by_cases hi : i = id
    · subst hi
      cases hp : p i with
      | none => simp
      | some v => simp [TP.set]
    · have hor : (i = id ∨ i ∈ List.map (·.1) rest) ↔ i ∈ List.map (·.1) rest := by simp [hi]
      simp only [hor]
      cases hp : p i with
      | none =>
        cases p id <;> simp [TP.set, hi]
      | some v =>
        cases p id <;> simp [TP.set, hi]

/-- all parameters present in `p` are listed in PARAMS with an in-range value -/
def TPValid (p : TP) : Prop :=
  ∀ id v, p id = some v → ∃ kind, lookupKind id PARAMS = some kind ∧ ValOK kind v

theorem lookupKind_mem (id : Nat) (kind : PKind) (L : List (Nat × String × PKind))
    (h : lookupKind id L = some kind) : id ∈ L.map (·.1) := by
  induction L with
  | nil => simp [lookupKind] at h
  | cons e rest ih =>
    obtain ⟨i, n, k⟩ := e
    simp only [lookupKind] at h
    split at h
    · simp [*]
    · simp [ih h]

theorem params_lookup : ∀ e ∈ PARAMS, lookupKind e.1 PARAMS = some e.2.2 ∧ e.1 < 4611686018427387904 := by
  decide

theorem validOver_params (p : TP) (h : TPValid p) : ValidOver p PARAMS := by
  intro e he
  refine ⟨(params_lookup e he).2, ?_⟩
  intro v hv
  obtain ⟨kind, hk, hok⟩ := h e.1 v hv
  rw [(params_lookup e he).1] at hk
  cases hk
  exact hok

theorem setAll_params (p : TP) (h : TPValid p) : setAll p TP.empty PARAMS = p := by
  funext i
  rw [setAll_apply]
  cases hp : p i with
  | none => rfl
  | some v =>
    obtain ⟨kind, hk, _⟩ := h i v hp
    simp [lookupKind_mem i kind PARAMS hk]

/-- the bytes `push_quic_transport_parameters` writes for `p` -/
def tpBytes (p : TP) : Bytes := tpBytesOver p PARAMS

theorem tpScript_bytes (p : TP) (h : TPValid p) : (tpScript p).bytes = .ok (tpBytes p) :=
  tpScriptOver_bytes p PARAMS (validOver_params p h)

theorem pullTransportParameters_bytes (p : TP) (h : TPValid p) :
    pullTransportParameters (tpBytes p) = .ok (p, []) := by
  unfold pullTransportParameters tpBytes
  rw [pullParams_over p PARAMS TP.empty _ (validOver_params p h) (fun e he => (params_lookup e he).1)
    (Nat.le_refl _), setAll_params p h]

/-! ### the RFC-written encoder -/

def entriesOver (p : TP) (L : List (Nat × String × PKind)) : List (Nat × PVal) :=
  L.filterMap (fun e => (p e.1).map (fun v => (e.1, v)))

theorem specVal_eq (kind : PKind) (v : PVal) (h : ValOK kind v) : CodecSpec.encParamValue v = valBytes v := by
  cases kind <;> cases v <;> simp only [ValOK] at h
  · simp only [CodecSpec.encParamValue, valBytes, specVarint_eq _ h]
  · rfl
  · rfl
  · rename_i a
    obtain ⟨v4, v6, cid, tok⟩ := a
    simp only [CodecSpec.encParamValue, CodecSpec.encPrefAddr, valBytes, prefBytes]
    have z6 : (List.replicate 6 (0 : UInt8)) = zeros 4 ++ be2 0 := by decide
    have z18 : (List.replicate 18 (0 : UInt8)) = zeros 16 ++ be2 0 := by decide
    cases v4 <;> cases v6 <;> simp [hostOf, portOf, beBytes2, z6, z18, byte]
  · rename_i vi
    simp only [CodecSpec.encParamValue, CodecSpec.encVersionInfo, valBytes, beBytes4, specVersions]

theorem specParam_eq (id : Nat) (kind : PKind) (v : PVal) (hid : id < 4611686018427387904)
    (h : ValOK kind v) : CodecSpec.encParam id v = paramBytes id v := by
  have hlen := valBytes_length_le kind v h
  simp only [CodecSpec.encParam, paramBytes, specVal_eq kind v h, specVarint_eq _ hid,
    specVarint_eq _ (show (valBytes v).length < 4611686018427387904 by omega), List.append_assoc]

theorem specParams_eq (p : TP) (L : List (Nat × String × PKind)) (h : ValidOver p L) :
    CodecSpec.encParams (entriesOver p L) = tpBytesOver p L := by
  induction L with
  | nil => rfl
  | cons e rest ih =>
    obtain ⟨id, name, kind⟩ := e
    have hrest := ih (fun e he => h e (by simp [he]))
    have he := h (id, name, kind) (by simp)
    simp only [entriesOver, List.filterMap_cons, tpBytesOver]
    cases hp : p id with
    | none => simp only [Option.map_none, List.nil_append]; exact hrest
    | some v =>
      simp only [Option.map_some, CodecSpec.encParams]
      rw [specParam_eq id kind v he.1 (he.2 v hp)]
      congr 1

/-! ### confinement: every parameter parser stays inside its declared length -/

theorem Rd.Suffix.pullUint32s (n : Nat) : Rd.Suffix (pullUint32s n) := by
  induction n with
  | zero => exact Rd.Suffix.pure _
  | succ n ih =>
    exact Rd.Suffix.bind Rd.Suffix.pullUint32 (fun _ => Rd.Suffix.bind ih (fun _ => Rd.Suffix.pure _))

theorem Rd.Suffix.pullVersionInformation (n : Nat) : Rd.Suffix (pullVersionInformation n) :=
  Rd.Suffix.bind Rd.Suffix.pullUint32 (fun _ => Rd.Suffix.bind (Rd.Suffix.pullUint32s _)
    (fun _ => Rd.Suffix.bind (Rd.Suffix.guard _ _) (fun _ => Rd.Suffix.pure _)))

theorem Rd.Suffix.pullPreferredAddress : Rd.Suffix pullPreferredAddress :=
  Rd.Suffix.bind (Rd.Suffix.pullBytes _) (fun _ => Rd.Suffix.bind Rd.Suffix.pullUint16
    (fun _ => Rd.Suffix.bind (Rd.Suffix.pullBytes _) (fun _ => Rd.Suffix.bind Rd.Suffix.pullUint16
      (fun _ => Rd.Suffix.bind Rd.Suffix.pullUint8 (fun _ => Rd.Suffix.bind (Rd.Suffix.pullBytes _)
        (fun _ => Rd.Suffix.bind (Rd.Suffix.pullBytes _) (fun _ => Rd.Suffix.pure _)))))))

theorem Rd.Suffix.pullParamValue (kind : PKind) (n : Nat) : Rd.Suffix (pullParamValue kind n) := by
  cases kind
  · exact Rd.Suffix.bind Rd.Suffix.pullUintVar (fun _ => Rd.Suffix.pure _)
  · exact Rd.Suffix.bind (Rd.Suffix.pullBytes _) (fun _ => Rd.Suffix.pure _)
  · exact Rd.Suffix.pure _
  · exact Rd.Suffix.bind Rd.Suffix.pullPreferredAddress (fun _ => Rd.Suffix.pure _)
  · exact Rd.Suffix.bind (Rd.Suffix.pullVersionInformation _) (fun _ => Rd.Suffix.pure _)

/-- **confinement**: a parameter that is accepted consumed exactly its id, its
    length field and `len` further bytes; the parse of the next parameter starts
    right after the declared length (`tell() == param_start + param_len`). -/
theorem pullParam_confined (q q' : TP) (s s' : Bytes) (h : pullParam q s = .ok (q', s')) :
    ∃ id len s0 s1 body, pullUintVar s = .ok (id, s0) ∧ pullUintVar s0 = .ok (len, s1) ∧
      s1 = body ++ s' ∧ body.length = len := by
  unfold pullParam at h
  simp only [Rd.bind_apply, Rd.remaining_apply] at h
  split at h
  · rename_i id s0 hid
    split at h
    · rename_i len s1 hlen
      split at h
      · rename_i q1 s2 hinner
        have hsuf : ∃ body, s1 = body ++ s2 := by
          cases hk : lookupKind id PARAMS with
          | none =>
            rw [hk] at hinner
            exact (Rd.Suffix.bind (Rd.Suffix.pullBytes _) (fun _ => Rd.Suffix.pure _)) _ _ _ hinner
          | some kind =>
            rw [hk] at hinner
            exact (Rd.Suffix.bind (Rd.Suffix.pullParamValue kind len) (fun _ => Rd.Suffix.pure _)) _ _ _ hinner
        obtain ⟨body, rfl⟩ := hsuf
        by_cases hg : ((body ++ s2).length - s2.length == len) = true
        · simp only [hg, Rd.guard_true, Rd.pure_apply] at h
          cases h
          refine ⟨id, len, s0, _, body, hid, hlen, rfl, ?_⟩
          simp only [List.length_append, Nat.add_sub_cancel, beq_iff_eq] at hg
          exact hg
        · simp only [Bool.not_eq_true] at hg
          simp only [hg, Rd.guard_false] at h
          cases h
      · cases h
    · cases h
  · cases h

theorem pullParam_shrinks (q q' : TP) (s s' : Bytes) (h : pullParam q s = .ok (q', s')) :
    s'.length < s.length := by
  obtain ⟨id, len, s0, s1, body, h1, h2, rfl, _⟩ := pullParam_confined q q' s s' h
  obtain ⟨_, p1, rfl, hp1⟩ := pullUintVar_inv _ _ _ h1
  obtain ⟨_, p2, rfl, hp2⟩ := pullUintVar_inv _ _ _ h2
  simp only [List.length_append]
  omega

/-- the fuel of `pullParams` is never the reason for an outcome -/
theorem pullParams_fuel (n : Nat) : ∀ (m : Nat) (q : TP) (s : Bytes), s.length ≤ n → s.length ≤ m →
    pullParams n q s = pullParams m q s := by
  induction n with
  | zero =>
    intro m q s hn _
    have : s = [] := List.length_eq_zero_iff.mp (by omega)
    subst this
    rw [pullParams_nil, pullParams_nil]
  | succ n ih =>
    intro m q s hn hm
    cases s with
    | nil => rw [pullParams_nil, pullParams_nil]
    | cons b r =>
      obtain ⟨m', rfl⟩ : ∃ m', m = m' + 1 := ⟨m - 1, by simp at hm; omega⟩
      rw [pullParams_succ _ _ _ (by simp), pullParams_succ _ _ _ (by simp)]
      cases hp : pullParam q (b :: r) with
      | error e => rfl
      | ok a =>
        obtain ⟨q', s'⟩ := a
        have := pullParam_shrinks _ _ _ _ hp
        exact ih m' q' s' (by omega) (by omega)

end AQ.Codec
