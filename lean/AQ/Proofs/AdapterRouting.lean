/-
  Routing-table invariant and retry-token invariant of the server model
  (AQ.Model.Adapter), used by AQ/Props/C19.lean.
-/
import AQ.Proofs.Adapter

namespace AQ.Adapter
open AQ

/-- "reachable through every ID issued and not retired" / "no entry after termination" -/
structure TInv (w : World) : Prop where
  reach : ∀ (c : Nat) (k : Conn), w.conns[c]? = some k → k.ss = true → k.p.termSeen = false →
    ∀ cid, cid ∈ k.p.issuedG → cid ∉ k.p.retiredG → w.tbl.get cid = some c
  entries : ∀ e ∈ w.tbl, ∃ k : Conn, w.conns[e.2]? = some k ∧ k.ss = true ∧ k.p.termSeen = false

/-- the world in which connection `c` (whose static part is `k`) and the table are replaced by `s` -/
def World.put (w : World) (c : Nat) (k : Conn) (s : PS) : World :=
  { w with tbl := s.tbl, conns := w.conns.set c { k with p := s.p } }

theorem put_get_self (w : World) (c : Nat) (k : Conn) (s : PS) (hc : c < w.conns.length) :
    (w.put c k s).conns[c]? = some { k with p := s.p } := by
  simp [World.put, List.getElem?_set, hc]

theorem put_get_ne (w : World) (c c' : Nat) (k : Conn) (s : PS) (h : c' ≠ c) :
    (w.put c k s).conns[c']? = w.conns[c']? := by
  have : ¬ c = c' := fun e => h e.symm
  simp [World.put, List.getElem?_set, this]

/-- only the event log, the issued / retired ghosts and the table matter -/
theorem TInv.put_congr {w : World} {c : Nat} {k : Conn} {s s' : PS} (h : TInv (w.put c k s))
    (h1 : s'.tbl = s.tbl) (ht : s'.p.termSeen = s.p.termSeen) (h3 : s'.p.issuedG = s.p.issuedG)
    (h4 : s'.p.retiredG = s.p.retiredG) : TInv (w.put c k s') := by
  by_cases hc : c < w.conns.length
  · constructor
    · intro c' k' hk' hss hterm cid hi hr
      by_cases e : c' = c
      · subst e
        rw [put_get_self w c' k s' hc] at hk'
        cases hk'
        have := h.reach c' { k with p := s.p } (put_get_self w c' k s hc) hss (by rw [← ht]; exact hterm) cid
          (by rw [← h3]; exact hi) (by rw [← h4]; exact hr)
        simpa [World.put, h1] using this
      · rw [put_get_ne w c c' k s' e] at hk'
        have := h.reach c' k' (by rw [put_get_ne w c c' k s e]; exact hk') hss hterm cid hi hr
        simpa [World.put, h1] using this
    · intro e he
      have he' : e ∈ (w.put c k s).tbl := by simpa [World.put, h1] using he
      obtain ⟨k', hk', hss, hterm⟩ := h.entries e he'
      by_cases e2 : e.2 = c
      · rw [e2, put_get_self w c k s hc] at hk'
        cases hk'
        exact ⟨{ k with p := s'.p }, by rw [e2, put_get_self w c k s' hc], hss, by rw [ht]; exact hterm⟩
      · rw [put_get_ne w c e.2 k s e2] at hk'
        exact ⟨k', by rw [put_get_ne w c e.2 k s' e2]; exact hk', hss, hterm⟩
  · have hs : ∀ t : PS, (w.put c k t).conns = w.conns := by
      intro t; simp only [World.put]; exact List.set_eq_of_length_le (Nat.le_of_not_lt hc)
    constructor
    · intro c' k' hk' hss hterm cid hi hr
      rw [hs] at hk'
      have := h.reach c' k' (by rw [hs]; exact hk') hss hterm cid hi hr
      simpa [World.put, h1] using this
    · intro e he
      have he' : e ∈ (w.put c k s).tbl := by simpa [World.put, h1] using he
      obtain ⟨k', hk', hh⟩ := h.entries e he'
      rw [hs] at hk'
      exact ⟨k', by rw [hs]; exact hk', hh⟩

theorem observe_vCid (c : Ctx) (s : PS) (note : Bool) (ev : Ev) :
    (observe c s note ev).vCid = (s.p.vCid || !(match ev with
      | .issued cid => !c.ss || !(s.tbl.keys.contains cid)
      | .retired cid => !c.ss || ((s.p.issuedG.contains cid && !s.p.retiredG.contains cid) || !note)
      | _ => true)) := by
  unfold observe; cases note <;> cases ev <;> simp

theorem observe_issuedG (c : Ctx) (s : PS) (ev : Ev) :
    (observe c s true ev).issuedG = (match ev with | .issued cid => s.p.issuedG ++ [cid] | _ => s.p.issuedG) := by
  unfold observe; cases ev <;> simp

theorem observe_retiredG (c : Ctx) (s : PS) (ev : Ev) :
    (observe c s true ev).retiredG = (match ev with | .retired cid => s.p.retiredG ++ [cid] | _ => s.p.retiredG) := by
  unfold observe; cases ev <;> simp

theorem processEvent_vCid (c : Ctx) (s : PS) (e : Bool × Ev) :
    (processEvent c s e).1.p.vCid = (observe c s e.1 e.2).vCid := by
  obtain ⟨note, ev⟩ := e
  cases ev <;> simp only [processEvent] <;> (repeat' split) <;> simp

theorem processEvent_vEv (c : Ctx) (s : PS) (e : Bool × Ev) :
    (processEvent c s e).1.p.vEv = (observe c s e.1 e.2).vEv := by
  obtain ⟨note, ev⟩ := e
  cases ev <;> simp only [processEvent] <;> (repeat' split) <;> simp

/-- rebuilding TInv for `w.put c k s1` from its parts -/
theorem TInv.of_parts {w : World} {c : Nat} {k : Conn} {s1 : PS} (hc : c < w.conns.length)
    (hself : k.ss = true → s1.p.termSeen = false → ∀ cid, cid ∈ s1.p.issuedG → cid ∉ s1.p.retiredG →
      s1.tbl.get cid = some c)
    (hothers : ∀ (c' : Nat) (k' : Conn), c' ≠ c → w.conns[c']? = some k' → k'.ss = true → k'.p.termSeen = false →
      ∀ cid, cid ∈ k'.p.issuedG → cid ∉ k'.p.retiredG → s1.tbl.get cid = some c')
    (hent : ∀ e ∈ s1.tbl, (e.2 = c ∧ k.ss = true ∧ s1.p.termSeen = false) ∨
      (e.2 ≠ c ∧ ∃ k' : Conn, w.conns[e.2]? = some k' ∧ k'.ss = true ∧ k'.p.termSeen = false)) :
    TInv (w.put c k s1) := by
  constructor
  · intro c' k' hk' hss hterm cid hi hr
    by_cases e : c' = c
    · subst e
      rw [put_get_self w c' k s1 hc] at hk'
      cases hk'
      exact hself hss hterm cid hi hr
    · rw [put_get_ne w c c' k s1 e] at hk'
      exact hothers c' k' e hk' hss hterm cid hi hr
  · intro e he
    rcases hent e he with ⟨h1, h2, h3⟩ | ⟨h1, k', h2, h3⟩
    · exact ⟨{ k with p := s1.p }, by rw [h1, put_get_self w c k s1 hc], h2, h3⟩
    · exact ⟨k', by rw [put_get_ne w c e.2 k s1 h1]; exact h2, h3⟩

/-- reading TInv of `w.put c k s` -/
theorem TInv.parts {w : World} {c : Nat} {k : Conn} {s : PS} (hc : c < w.conns.length) (h : TInv (w.put c k s)) :
    (k.ss = true → s.p.termSeen = false → ∀ cid, cid ∈ s.p.issuedG → cid ∉ s.p.retiredG → s.tbl.get cid = some c) ∧
    (∀ (c' : Nat) (k' : Conn), c' ≠ c → w.conns[c']? = some k' → k'.ss = true → k'.p.termSeen = false →
      ∀ cid, cid ∈ k'.p.issuedG → cid ∉ k'.p.retiredG → s.tbl.get cid = some c') ∧
    (∀ e ∈ s.tbl, (e.2 = c ∧ k.ss = true ∧ s.p.termSeen = false) ∨
      (e.2 ≠ c ∧ ∃ k' : Conn, w.conns[e.2]? = some k' ∧ k'.ss = true ∧ k'.p.termSeen = false)) := by
  refine ⟨?_, ?_, ?_⟩
  · intro hss hterm cid hi hr
    exact h.reach c { k with p := s.p } (put_get_self w c k s hc) hss hterm cid hi hr
  · intro c' k' e hk' hss hterm cid hi hr
    exact h.reach c' k' (by rw [put_get_ne w c c' k s e]; exact hk') hss hterm cid hi hr
  · intro e he
    obtain ⟨k', hk', hss, hterm⟩ := h.entries e he
    by_cases e2 : e.2 = c
    · rw [e2, put_get_self w c k s hc] at hk'
      cases hk'
      exact Or.inl ⟨e2, hss, hterm⟩
    · rw [put_get_ne w c e.2 k s e2] at hk'
      exact Or.inr ⟨e2, k', hk', hss, hterm⟩

/-- one freshly raised event keeps the routing invariant and the retire handler does not raise,
    as long as the monitors of the connection stay silent -/
theorem processEvent_tinv (w : World) (c : Nat) (k : Conn) (hc : c < w.conns.length) (s : PS) (ev : Ev)
    (h : TInv (w.put c k s))
    (hv : (processEvent ⟨w.q, c, k.ss⟩ s (true, ev)).1.p.vEv = false)
    (hcid : (processEvent ⟨w.q, c, k.ss⟩ s (true, ev)).1.p.vCid = false) :
    TInv (w.put c k (processEvent ⟨w.q, c, k.ss⟩ s (true, ev)).1) ∧
    (processEvent ⟨w.q, c, k.ss⟩ s (true, ev)).1.p.retireFailed = s.p.retireFailed := by
  obtain ⟨hv0, hterm, _⟩ := processEvent_vEv_false _ s (true, ev) hv
  rw [processEvent_vCid, observe_vCid] at hcid
  obtain ⟨hself, hothers, hent⟩ := h.parts hc
  have hterm' : ∀ (cx : Ctx) (ev : Ev), ev ≠ .terminated → (observe cx s true ev).termSeen = false := by
    intro cx ev hne
    rw [observe_termSeen, hterm]; simp [hne]
  cases ev with
  | issued cid =>
    refine ⟨?_, by simp only [processEvent]; (repeat' split) <;> simp [observe_retireFailed]⟩
    simp only [processEvent]
    cases hss : k.ss with
    | false =>
      simp only [Bool.false_eq_true, if_false]
      apply TInv.of_parts hc
      · intro hss'; rw [hss] at hss'; cases hss'
      · exact hothers
      · intro e he
        rcases hent e he with ⟨_, h2, _⟩ | h2
        · rw [hss] at h2; cases h2
        · exact Or.inr h2
    | true =>
      simp only [if_true]
      have hfresh : cid ∉ s.tbl.keys := by
        have := hcid; simp [hss] at this; exact this.2
      have hnone : s.tbl.get cid = none := (AL.get_none_iff cid s.tbl).2 hfresh
      rw [AL.set_fresh _ _ _ hfresh]
      apply TInv.of_parts hc
      · intro _ _ cid' hi hr
        rw [observe_issuedG] at hi; rw [observe_retiredG] at hr
        simp only [List.mem_append, List.mem_singleton] at hi
        rw [AL.get_append]
        rcases hi with hi | hi
        · rw [hself hss hterm cid' hi hr]
        · subst hi; rw [hnone]; simp [AL.get]
      · intro c' k' e hk' hss' hterm' cid' hi hr
        rw [AL.get_append, hothers c' k' e hk' hss' hterm' cid' hi hr]
      · intro e he
        simp only [List.mem_append, List.mem_singleton] at he
        rcases he with he | he
        · rcases hent e he with ⟨h1, h2, _⟩ | h2
          · exact Or.inl ⟨h1, h2, hterm' _ _ (by simp)⟩
          · exact Or.inr h2
        · subst he; exact Or.inl ⟨rfl, hss, hterm' _ _ (by simp)⟩
  | retired cid =>
    simp only [processEvent]
    cases hss : k.ss with
    | false =>
      simp only [Bool.false_eq_true, if_false]
      refine ⟨?_, by simp [observe_retireFailed]⟩
      apply TInv.of_parts hc
      · intro hss'; rw [hss] at hss'; cases hss'
      · exact hothers
      · intro e he
        rcases hent e he with ⟨_, h2, _⟩ | h2
        · rw [hss] at h2; cases h2
        · exact Or.inr h2
    | true =>
      simp only [if_true]
      have hlive : cid ∈ s.p.issuedG ∧ cid ∉ s.p.retiredG := by
        have := hcid; simp [hss] at this; exact this.2
      have hget : s.tbl.get cid = some c := hself hss hterm cid hlive.1 hlive.2
      simp only [hget, if_true]
      refine ⟨?_, by simp [observe_retireFailed]⟩
      apply TInv.of_parts hc
      · intro _ _ cid' hi hr
        rw [observe_issuedG] at hi; rw [observe_retiredG] at hr
        simp only [List.mem_append, List.mem_singleton, not_or] at hr
        rw [AL.get_del_ne _ hr.2]
        exact hself hss hterm cid' hi hr.1
      · intro c' k' e hk' hss' hterm' cid' hi hr
        have hg := hothers c' k' e hk' hss' hterm' cid' hi hr
        have hne : cid' ≠ cid := by
          intro eq; rw [eq, hget] at hg; cases hg; exact e rfl
        rw [AL.get_del_ne _ hne]; exact hg
      · intro e he
        have he' := (AL.mem_del.1 he).1
        rcases hent e he' with ⟨h1, h2, _⟩ | h2
        · exact Or.inl ⟨h1, h2, hterm' _ _ (by simp)⟩
        · exact Or.inr h2
  | terminated =>
    refine ⟨?_, by simp only [processEvent]; (repeat' split) <;> simp [observe_retireFailed]⟩
    simp only [processEvent]
    apply TInv.of_parts hc
    · intro _ ht
      simp [Proto.termSeen, observe_evLog] at ht
    · intro c' k' e hk' hss' hterm' cid' hi hr
      have hg := hothers c' k' e hk' hss' hterm' cid' hi hr
      cases hss : k.ss with
      | false => simpa using hg
      | true => simpa using AL.get_filter_val s.tbl hg e
    · intro e he
      cases hss : k.ss with
      | false =>
        simp only [hss, Bool.false_eq_true, if_false] at he
        rcases hent e he with ⟨_, h2, _⟩ | h2
        · rw [hss] at h2; cases h2
        · exact Or.inr h2
      | true =>
        simp only [hss, if_true, List.mem_filter] at he
        rcases hent e he.1 with ⟨h1, _, _⟩ | h2
        · exact absurd h1 (by simpa using he.2)
        · exact Or.inr h2
  | handshake =>
    refine ⟨?_, by simp only [processEvent]; (repeat' split) <;> simp [observe_retireFailed]⟩
    simp only [processEvent]
    (repeat' split) <;>
      (apply h.put_congr <;> simp [Proto.termSeen, observe_evLog, observe_issuedG, observe_retiredG])
  | pingAck uid =>
    refine ⟨?_, by simp only [processEvent]; (repeat' split) <;> simp [observe_retireFailed]⟩
    simp only [processEvent]
    (repeat' split) <;>
      (apply h.put_congr <;> simp [Proto.termSeen, observe_evLog, observe_issuedG, observe_retiredG])
  | data sid d fin =>
    refine ⟨?_, by simp only [processEvent]; (repeat' split) <;> simp [observe_retireFailed]⟩
    simp only [processEvent]
    (repeat' split) <;>
      (apply h.put_congr <;> simp [Proto.termSeen, observe_evLog, observe_issuedG, observe_retiredG])
  | other =>
    refine ⟨?_, by simp only [processEvent]; (repeat' split) <;> simp [observe_retireFailed]⟩
    simp only [processEvent]
    apply h.put_congr <;> simp [Proto.termSeen, observe_evLog, observe_issuedG, observe_retiredG]

/-- routing invariant of the world seen from a callback of connection `c`, plus "retire never raised" -/
structure TS (w : World) (c : Nat) (k : Conn) (s : PS) : Prop where
  inv : TInv (w.put c k s)
  ok : s.p.retireFailed = false

theorem TS.congr {w : World} {c : Nat} {k : Conn} {s s' : PS} (h : TS w c k s)
    (h1 : s'.tbl = s.tbl) (ht : s'.p.evLog = s.p.evLog) (h3 : s'.p.issuedG = s.p.issuedG)
    (h4 : s'.p.retiredG = s.p.retiredG) (h5 : s'.p.retireFailed = s.p.retireFailed) : TS w c k s' :=
  ⟨h.inv.put_congr h1 (by simp [Proto.termSeen, ht]) h3 h4, by rw [h5]; exact h.ok⟩

theorem processEvent_vCid_false (c : Ctx) (s : PS) (e : Bool × Ev) (h : (processEvent c s e).1.p.vCid = false) :
    s.p.vCid = false := by
  rw [processEvent_vCid, observe_vCid] at h
  simp at h; exact h.1

theorem processEvents_vCid_false (c : Ctx) (s : PS) (es : List (Bool × Ev))
    (h : (processEvents c s es).1.p.vCid = false) : s.p.vCid = false := by
  induction es generalizing s with
  | nil => simpa [processEvents] using h
  | cons e es ih =>
    simp only [processEvents] at h
    cases heq : processEvent c s e with
    | mk s' oe =>
      cases oe with
      | some err => simp only [heq] at h; exact processEvent_vCid_false c s e (by rw [heq]; exact h)
      | none => simp only [heq] at h; exact processEvent_vCid_false c s e (by rw [heq]; exact ih s' h)

theorem processEvents_ts (w : World) (c : Nat) (k : Conn) (hc : c < w.conns.length) (s : PS) (evs : List Ev)
    (h : TS w c k s)
    (hv : (processEvents ⟨w.q, c, k.ss⟩ s (fresh evs)).1.p.vEv = false)
    (hcid : (processEvents ⟨w.q, c, k.ss⟩ s (fresh evs)).1.p.vCid = false) :
    TS w c k (processEvents ⟨w.q, c, k.ss⟩ s (fresh evs)).1 := by
  induction evs generalizing s with
  | nil => simpa [processEvents, fresh] using h
  | cons ev evs ih =>
    simp only [fresh, List.map_cons, processEvents] at hv hcid ⊢
    cases heq : processEvent ⟨w.q, c, k.ss⟩ s (true, ev) with
    | mk s' oe =>
      cases oe with
      | some err =>
        simp only [heq] at hv hcid ⊢
        have h1 := processEvent_tinv w c k hc s ev h.inv (by rw [heq]; exact hv) (by rw [heq]; exact hcid)
        rw [heq] at h1
        exact ⟨h1.1, by rw [h1.2]; exact h.ok⟩
      | none =>
        simp only [heq] at hv hcid ⊢
        have hv1 := processEvents_vEv_false _ s' _ hv
        have hc1 := processEvents_vCid_false _ s' _ hcid
        have h1 := processEvent_tinv w c k hc s ev h.inv (by rw [heq]; exact hv1) (by rw [heq]; exact hc1)
        rw [heq] at h1
        exact ih s' ⟨h1.1, by rw [h1.2]; exact h.ok⟩ hv hcid

/-- `transmit()` -/
theorem transmit_ts (w : World) (hq : w.q = Quirks.fixed) (c : Nat) (k : Conn) (hc : c < w.conns.length) (s : PS)
    (tat : Option Nat) (tx : List Ev)
    (hv : (transmit ⟨w.q, c, k.ss⟩ s tat tx).1.p.vEv = false)
    (hcid : (transmit ⟨w.q, c, k.ss⟩ s tat tx).1.p.vCid = false) :
    s.p.vEv = false ∧ s.p.vCid = false ∧ (TS w c k s → TS w c k (transmit ⟨w.q, c, k.ss⟩ s tat tx).1) := by
  have hd : w.q.deferTxEvents = false := by rw [hq]; rfl
  simp only [transmit, hd, Bool.false_eq_true, if_false] at hv hcid ⊢
  cases heq : processEvents ⟨w.q, c, k.ss⟩ ({ s with p := { s.p with transmitTask := false } } : PS) (fresh tx) with
  | mk s' oe =>
    cases oe with
    | some err =>
      simp only [heq] at hv hcid ⊢
      have hv' : (processEvents ⟨w.q, c, k.ss⟩ ({ s with p := { s.p with transmitTask := false } } : PS) (fresh tx)).1.p.vEv = false := by
        rw [heq]; exact hv
      have hc' : (processEvents ⟨w.q, c, k.ss⟩ ({ s with p := { s.p with transmitTask := false } } : PS) (fresh tx)).1.p.vCid = false := by
        rw [heq]; exact hcid
      have a1 := processEvents_vEv_false _ _ _ hv'
      have a2 := processEvents_vCid_false _ _ _ hc'
      refine ⟨a1, a2, fun h => ?_⟩
      have := processEvents_ts w c k hc _ tx (h.congr (s' := { s with p := { s.p with transmitTask := false } }) rfl rfl rfl rfl rfl) hv' hc'
      rw [heq] at this; exact this
    | none =>
      simp only [heq] at hv hcid ⊢
      have hv' : (processEvents ⟨w.q, c, k.ss⟩ ({ s with p := { s.p with transmitTask := false } } : PS) (fresh tx)).1.p.vEv = false := by
        rw [heq]; simpa [rearm] using hv
      have hc' : (processEvents ⟨w.q, c, k.ss⟩ ({ s with p := { s.p with transmitTask := false } } : PS) (fresh tx)).1.p.vCid = false := by
        rw [heq]; simpa [rearm] using hcid
      have a1 := processEvents_vEv_false _ _ _ hv'
      have a2 := processEvents_vCid_false _ _ _ hc'
      refine ⟨a1, a2, fun h => ?_⟩
      have := processEvents_ts w c k hc _ tx (h.congr (s' := { s with p := { s.p with transmitTask := false } }) rfl rfl rfl rfl rfl) hv' hc'
      rw [heq] at this
      exact this.congr (by simp [rearm]) (by simp [rearm]) (by simp [rearm]) (by simp [rearm]) (by simp [rearm])

/-- process events, then transmit -/
theorem evs_transmit_ts (w : World) (hq : w.q = Quirks.fixed) (c : Nat) (k : Conn) (hc : c < w.conns.length)
    (s0 : PS) (tat : Option Nat) (evs tx : List Ev)
    (hv : (match processEvents ⟨w.q, c, k.ss⟩ s0 (fresh evs) with
            | (s, some e) => (s, some e)
            | (s, none) => transmit ⟨w.q, c, k.ss⟩ s tat tx).1.p.vEv = false)
    (hcid : (match processEvents ⟨w.q, c, k.ss⟩ s0 (fresh evs) with
            | (s, some e) => (s, some e)
            | (s, none) => transmit ⟨w.q, c, k.ss⟩ s tat tx).1.p.vCid = false) :
    s0.p.vEv = false ∧ s0.p.vCid = false ∧
    (TS w c k s0 → TS w c k (match processEvents ⟨w.q, c, k.ss⟩ s0 (fresh evs) with
      | (s, some e) => (s, some e)
      | (s, none) => transmit ⟨w.q, c, k.ss⟩ s tat tx).1) := by
  cases heq : processEvents ⟨w.q, c, k.ss⟩ s0 (fresh evs) with
  | mk s' oe =>
    cases oe with
    | some err =>
      simp only [heq] at hv hcid ⊢
      have hv' : (processEvents ⟨w.q, c, k.ss⟩ s0 (fresh evs)).1.p.vEv = false := by rw [heq]; exact hv
      have hc' : (processEvents ⟨w.q, c, k.ss⟩ s0 (fresh evs)).1.p.vCid = false := by rw [heq]; exact hcid
      refine ⟨processEvents_vEv_false _ s0 _ hv', processEvents_vCid_false _ s0 _ hc', fun h => ?_⟩
      have := processEvents_ts w c k hc s0 evs h hv' hc'
      rw [heq] at this; exact this
    | none =>
      simp only [heq] at hv hcid ⊢
      obtain ⟨t1, t2, t3⟩ := transmit_ts w hq c k hc s' tat tx hv hcid
      have hv' : (processEvents ⟨w.q, c, k.ss⟩ s0 (fresh evs)).1.p.vEv = false := by rw [heq]; exact t1
      have hc' : (processEvents ⟨w.q, c, k.ss⟩ s0 (fresh evs)).1.p.vCid = false := by rw [heq]; exact t2
      refine ⟨processEvents_vEv_false _ s0 _ hv', processEvents_vCid_false _ s0 _ hc', fun h => ?_⟩
      have := processEvents_ts w c k hc s0 evs h hv' hc'
      rw [heq] at this; exact t3 this

/-! ### world level -/

/-- the routing monitors are silent -/
def QT (w : World) : Prop :=
  w.vRand = false ∧ ∀ (c : Nat) (k : Conn), w.conns[c]? = some k → k.p.vEv = false ∧ k.p.vCid = false

structure TW (w : World) : Prop where
  inv : TInv w
  ok : ∀ (c : Nat) (k : Conn), w.conns[c]? = some k → k.p.retireFailed = false

theorem put_self (w : World) (c : Nat) (k : Conn) (hk : w.conns[c]? = some k) : w.put c k ⟨w.tbl, k.p⟩ = w := by
  obtain ⟨h, rfl⟩ := List.getElem?_eq_some_iff.1 hk
  cases w
  simp only [World.put]
  congr 1
  exact List.set_getElem_self h

theorem lt_of_get {w : World} {c : Nat} {k : Conn} (hk : w.conns[c]? = some k) : c < w.conns.length :=
  (List.getElem?_eq_some_iff.1 hk).1

theorem onConn_put (w : World) (c : Nat) (f : Ctx → PS → PS × Option Err) (act : Action) (k : Conn)
    (hk : w.conns[c]? = some k) : (w.onConn c f act).1 = w.put c k (f (w.ctx c k) ⟨w.tbl, k.p⟩).1 := by
  rw [onConn_some w c f act k hk]; rfl

/-- a callback of connection `c` -/
theorem tw_onConn (w : World) (c : Nat) (f : Ctx → PS → PS × Option Err) (act : Action)
    (hf : ∀ (k : Conn) (s : PS), w.conns[c]? = some k → (f (w.ctx c k) s).1.p.vEv = false → (f (w.ctx c k) s).1.p.vCid = false →
      s.p.vEv = false ∧ s.p.vCid = false ∧ (TS w c k s → TS w c k (f (w.ctx c k) s).1))
    (hq : QT (w.onConn c f act).1) : QT w ∧ (TW w → TW (w.onConn c f act).1) := by
  cases hk : w.conns[c]? with
  | none => rw [onConn_none w c f act hk] at hq ⊢; exact ⟨hq, id⟩
  | some k =>
    have hc := lt_of_get hk
    rw [onConn_put w c f act k hk] at hq ⊢
    have hflags := hq.2 c _ (put_get_self w c k _ hc)
    obtain ⟨a1, a2, a3⟩ := hf k ⟨w.tbl, k.p⟩ hk hflags.1 hflags.2
    constructor
    · refine ⟨hq.1, ?_⟩
      intro c' k' hk'
      by_cases e : c' = c
      · subst e; rw [hk] at hk'; cases hk'; exact ⟨a1, a2⟩
      · exact hq.2 c' k' (by rw [put_get_ne w c c' k _ e]; exact hk')
    · intro h
      have hts : TS w c k ⟨w.tbl, k.p⟩ := ⟨by rw [put_self w c k hk]; exact h.inv, h.ok c k hk⟩
      have h2 := a3 hts
      refine ⟨h2.inv, ?_⟩
      intro c' k' hk'
      by_cases e : c' = c
      · subst e; rw [put_get_self w c' k _ hc] at hk'; cases hk'; exact h2.ok
      · rw [put_get_ne w c c' k _ e] at hk'; exact h.ok c' k' hk'

/-- a step that touches neither the table nor the ghosts the routing clause reads -/
theorem tw_inert (w : World) (c : Nat) (f : Ctx → PS → PS × Option Err) (act : Action)
    (hf : ∀ (ctx : Ctx) (s : PS), (f ctx s).1.tbl = s.tbl ∧ (f ctx s).1.p.evLog = s.p.evLog ∧
      (f ctx s).1.p.issuedG = s.p.issuedG ∧ (f ctx s).1.p.retiredG = s.p.retiredG ∧
      (f ctx s).1.p.retireFailed = s.p.retireFailed ∧ (f ctx s).1.p.vEv = s.p.vEv ∧ (f ctx s).1.p.vCid = s.p.vCid)
    (hq : QT (w.onConn c f act).1) : QT w ∧ (TW w → TW (w.onConn c f act).1) := by
  apply tw_onConn w c f act _ hq
  intro k s _ h1 h2
  obtain ⟨b1, b2, b3, b4, b5, b6, b7⟩ := hf (w.ctx c k) s
  exact ⟨by rw [← b6]; exact h1, by rw [← b7]; exact h2, fun h => h.congr b1 b2 b3 b4 b5⟩

theorem TW.of_eq {w w' : World} (h : TW w) (h1 : w'.conns = w.conns) (h2 : w'.tbl = w.tbl) : TW w' := by
  refine ⟨⟨?_, ?_⟩, ?_⟩
  · intro c k hk; rw [h1] at hk; rw [h2]; exact h.inv.reach c k hk
  · intro e he; rw [h2] at he; rw [h1]; exact h.inv.entries e he
  · intro c k hk; rw [h1] at hk; exact h.ok c k hk

theorem QT.of_eq {w w' : World} (h : QT w') (h1 : w'.conns = w.conns) (h2 : w'.vRand = w.vRand) : QT w := by
  refine ⟨by rw [← h2]; exact h.1, ?_⟩
  intro c k hk; rw [← h1] at hk; exact h.2 c k hk

theorem get_append_left {w : World} {k0 : Conn} {c : Nat} {k : Conn} (h : w.conns[c]? = some k) :
    (w.conns ++ [k0])[c]? = some k := by
  rw [List.getElem?_append_left (lt_of_get h)]; exact h

theorem get_append_cases {l : List Conn} {k0 : Conn} {c : Nat} {k : Conn} (h : (l ++ [k0])[c]? = some k) :
    l[c]? = some k ∨ (c = l.length ∧ k = k0) := by
  rw [List.getElem?_append] at h
  split at h
  · exact Or.inl h
  · rename_i hlt
    cases hh : c - l.length with
    | zero => rw [hh] at h; simp at h; exact Or.inr ⟨by omega, h.symm⟩
    | succ j => rw [hh] at h; simp at h

/-- a client protocol object is constructed -/
theorem tw_newConn (w : World) (hQ : QT ({ w with conns := w.conns ++ [{}] } : World)) :
    QT w ∧ (TW w → TW ({ w with conns := w.conns ++ [{}] } : World)) := by
  constructor
  · exact ⟨hQ.1, fun c k hk => hQ.2 c k (get_append_left hk)⟩
  · intro h
    refine ⟨⟨?_, ?_⟩, ?_⟩
    · intro c k hk hss hterm cid hi hr
      rcases get_append_cases hk with h1 | ⟨_, h1⟩
      · exact h.inv.reach c k h1 hss hterm cid hi hr
      · subst h1; cases hss
    · intro e he
      obtain ⟨k, hk, hh⟩ := h.inv.entries e he
      exact ⟨k, get_append_left hk, hh⟩
    · intro c k hk
      rcases get_append_cases hk with h1 | ⟨_, h1⟩
      · exact h.ok c k h1
      · subst h1; rfl

/-- the server creates a connection for a datagram whose DCID is not routed -/
theorem tw_addServerConn (w : World) (addr : Nat) (dcid rand o : CID) (r : Option CID)
    (hd : w.tbl.get dcid = none) (hQ : QT (w.addServerConn addr dcid rand o r)) :
    QT w ∧ (TW w → TW (w.addServerConn addr dcid rand o r)) := by
  have hvr := hQ.1
  simp only [World.addServerConn] at hvr
  simp at hvr
  obtain ⟨hv1, hv2⟩ := hvr
  have hdk : dcid ∉ w.tbl.keys := (AL.get_none_iff dcid w.tbl).1 hd
  have htbl : (w.tbl.set dcid w.conns.length).set rand w.conns.length =
      w.tbl ++ [(dcid, w.conns.length)] ++ [(rand, w.conns.length)] := by
    rw [AL.set_fresh _ _ _ hdk] at hv2 ⊢
    rw [AL.set_fresh _ _ _ hv2]
  have hrk : rand ∉ w.tbl.keys ∧ rand ≠ dcid := by
    rw [AL.set_fresh _ _ _ hdk] at hv2
    simp [AL.keys] at hv2 ⊢
    exact ⟨fun x hx => hv2.1 x hx, hv2.2⟩
  constructor
  · exact ⟨hv1, fun c k hk => hQ.2 c k (get_append_left hk)⟩
  · intro h
    refine ⟨⟨?_, ?_⟩, ?_⟩
    · intro c k hk hss hterm cid hi hr
      simp only [World.addServerConn] at hk ⊢
      rw [htbl, AL.get_append, AL.get_append]
      rcases get_append_cases hk with h1 | ⟨h0, h1⟩
      · rw [h.inv.reach c k h1 hss hterm cid hi hr]
      · subst h1
        have hcases : cid = rand ∨ cid = dcid := by
          have hi' : cid ∈ serverIssued rand dcid r := hi
          cases r <;> simp [serverIssued] at hi'
          · exact Or.inl hi'
          · exact hi'
        rcases hcases with hi | hi
        · subst hi
          have : w.tbl.get cid = none := (AL.get_none_iff cid w.tbl).2 hrk.1
          have hne : ¬ dcid = cid := fun e => hrk.2 e.symm
          simp [this, AL.get, hne, h0]
        · subst hi
          simp [hd, AL.get, h0]
    · intro e he
      simp only [World.addServerConn] at he ⊢
      rw [htbl] at he
      simp only [List.mem_append, List.mem_singleton] at he
      rcases he with (he | he) | he
      · obtain ⟨k, hk, hh⟩ := h.inv.entries e he
        exact ⟨k, get_append_left hk, hh⟩
      · subst he
        exact ⟨({ ss := true, p := { issuedG := serverIssued rand dcid r } } : Conn), by simp, rfl, by simp [Proto.termSeen]⟩
      · subst he
        exact ⟨({ ss := true, p := { issuedG := serverIssued rand dcid r } } : Conn), by simp, rfl, by simp [Proto.termSeen]⟩
    · intro c k hk
      simp only [World.addServerConn] at hk
      rcases get_append_cases hk with h1 | ⟨_, h1⟩
      · exact h.ok c k h1
      · subst h1; rfl

theorem dgram_hf (w : World) (hq : w.q = Quirks.fixed) (c : Nat) (tat : Option Nat) (evs tx : List Ev)
    (k : Conn) (s : PS) (hk : w.conns[c]? = some k)
    (h1 : (datagramReceived (w.ctx c k) s tat evs tx).1.p.vEv = false)
    (h2 : (datagramReceived (w.ctx c k) s tat evs tx).1.p.vCid = false) :
    s.p.vEv = false ∧ s.p.vCid = false ∧ (TS w c k s → TS w c k (datagramReceived (w.ctx c k) s tat evs tx).1) := by
  have hc := lt_of_get hk
  have hqc : (w.ctx c k).q = Quirks.fixed := hq
  simp only [datagramReceived, queued_fixed _ hqc] at h1 h2 ⊢
  obtain ⟨a1, a2, a3⟩ := evs_transmit_ts w hq c k hc ({ s with p := { s.p with deferred := [] } } : PS) tat evs tx h1 h2
  exact ⟨a1, a2, fun h => a3 (h.congr rfl rfl rfl rfl rfl)⟩

theorem timer_hf (w : World) (hq : w.q = Quirks.fixed) (c : Nat) (tat : Option Nat) (evs tx : List Ev)
    (k : Conn) (s : PS) (hk : w.conns[c]? = some k)
    (h1 : (handleTimer (w.ctx c k) s tat evs tx).1.p.vEv = false)
    (h2 : (handleTimer (w.ctx c k) s tat evs tx).1.p.vCid = false) :
    s.p.vEv = false ∧ s.p.vCid = false ∧ (TS w c k s → TS w c k (handleTimer (w.ctx c k) s tat evs tx).1) := by
  have hc := lt_of_get hk
  have hqc : (w.ctx c k).q = Quirks.fixed := hq
  simp only [handleTimer, queued_fixed _ hqc] at h1 h2 ⊢
  obtain ⟨a1, a2, a3⟩ := evs_transmit_ts w hq c k hc
    ({ s with p := { s.p with deferred := [], timer := none, timerAt := none } } : PS) tat evs tx h1 h2
  exact ⟨a1, a2, fun h => a3 (h.congr rfl rfl rfl rfl rfl)⟩

theorem close_hf (w : World) (hq : w.q = Quirks.fixed) (c : Nat) (tat : Option Nat) (tx : List Ev)
    (k : Conn) (s : PS) (hk : w.conns[c]? = some k)
    (h1 : (transmit (w.ctx c k) s tat tx).1.p.vEv = false) (h2 : (transmit (w.ctx c k) s tat tx).1.p.vCid = false) :
    s.p.vEv = false ∧ s.p.vCid = false ∧ (TS w c k s → TS w c k (transmit (w.ctx c k) s tat tx).1) :=
  transmit_ts w hq c k (lt_of_get hk) s tat tx h1 h2

theorem txop_hf (w : World) (hq : w.q = Quirks.fixed) (c : Nat) (tat : Option Nat) (tx : List Ev)
    (k : Conn) (s : PS) (hk : w.conns[c]? = some k)
    (h1 : (transmitOp (w.ctx c k) s tat tx).1.p.vEv = false) (h2 : (transmitOp (w.ctx c k) s tat tx).1.p.vCid = false) :
    s.p.vEv = false ∧ s.p.vCid = false ∧ (TS w c k s → TS w c k (transmitOp (w.ctx c k) s tat tx).1) := by
  simp only [transmitOp] at h1 h2 ⊢
  obtain ⟨a1, a2, a3⟩ := transmit_ts w hq c k (lt_of_get hk) _ tat tx h1 h2
  exact ⟨a1, a2, fun h => a3 (h.congr rfl rfl rfl rfl rfl)⟩

theorem ping_hf (w : World) (hq : w.q = Quirks.fixed) (c n uid : Nat) (tat : Option Nat) (tx : List Ev)
    (k : Conn) (s : PS) (hk : w.conns[c]? = some k)
    (h1 : (ping (w.ctx c k) s n uid tat tx).1.p.vEv = false) (h2 : (ping (w.ctx c k) s n uid tat tx).1.p.vCid = false) :
    s.p.vEv = false ∧ s.p.vCid = false ∧ (TS w c k s → TS w c k (ping (w.ctx c k) s n uid tat tx).1) := by
  have hcc : (w.ctx c k).q.noClosedCheck = false := by
    show w.q.noClosedCheck = false
    rw [hq]; rfl
  simp only [ping, hcc, Bool.false_eq_true, not_false_eq_true, true_and] at h1 h2 ⊢
  by_cases hcl : s.p.closed = true
  · rw [if_pos hcl] at h1 h2 ⊢
    exact ⟨h1, h2, fun h => h.congr rfl rfl rfl rfl rfl⟩
  · rw [if_neg hcl] at h1 h2 ⊢
    obtain ⟨a1, a2, a3⟩ := transmit_ts w hq c k (lt_of_get hk) _ tat tx h1 h2
    exact ⟨a1, a2, fun h => a3 (h.congr rfl rfl rfl rfl rfl)⟩

theorem tw_deliver (w : World) (hq : w.q = Quirks.fixed) (c : Nat) (tat : Option Nat) (evs tx : List Ev)
    (act : Action) (hQ : QT (w.deliver c tat evs tx act).1) : QT w ∧ (TW w → TW (w.deliver c tat evs tx act).1) :=
  tw_onConn w c _ _ (fun k s hk => dgram_hf w hq c tat evs tx k s hk) hQ

theorem tw_create (w : World) (hq : w.q = Quirks.fixed) (addr : Nat) (dcid rand o : CID) (r : Option CID)
    (tat : Option Nat) (evs tx : List Ev) (act : Action) (hd : w.tbl.get dcid = none)
    (hQ : QT ((w.addServerConn addr dcid rand o r).deliver w.conns.length tat evs tx act).1) :
    QT w ∧ (TW w → TW ((w.addServerConn addr dcid rand o r).deliver w.conns.length tat evs tx act).1) := by
  have hq1 : (w.addServerConn addr dcid rand o r).q = Quirks.fixed := hq
  obtain ⟨a1, a2⟩ := tw_deliver _ hq1 _ tat evs tx act hQ
  obtain ⟨b1, b2⟩ := tw_addServerConn w addr dcid rand o r hd a1
  exact ⟨b1, fun h => a2 (b2 h)⟩

macro "inert_simp" : tactic =>
  `(tactic| (intro ctx s; simp only [createStream, cancelCaller, write, writeEof, waitConnected, waitClosed, transmitSoon];
             (repeat' split) <;> simp))

/-- every step: silent monitors afterwards ⇒ silent before, and the routing clause is kept -/
theorem step_tw (w : World) (hq : w.q = Quirks.fixed) (op : Op) (hQ : QT (step w op).1) :
    QT w ∧ (TW w → TW (step w op).1) := by
  cases op with
  | newConn => exact tw_newConn w hQ
  | dgram c tat evs tx =>
    simp only [step] at hQ ⊢
    cases hk : w.conns[c]? with
    | none => simp only [hk] at hQ ⊢; exact ⟨hQ, id⟩
    | some k =>
      simp only [hk] at hQ ⊢
      by_cases hs : k.ss = true
      · simp only [hs, if_true] at hQ ⊢; exact ⟨hQ, id⟩
      · simp only [hs, Bool.false_eq_true, if_false] at hQ ⊢
        exact tw_onConn w c _ _ (fun k s hk => dgram_hf w hq c tat evs tx k s hk) hQ
  | timer c tat evs tx =>
    simp only [step] at hQ ⊢
    cases hk : w.conns[c]? with
    | none => simp only [hk] at hQ ⊢; exact ⟨hQ, id⟩
    | some k =>
      simp only [hk] at hQ ⊢
      by_cases hs : k.p.timer.isNone = true
      · simp only [hs, if_true] at hQ ⊢; exact ⟨hQ, id⟩
      · simp only [hs, Bool.false_eq_true, if_false] at hQ ⊢
        exact tw_onConn w c _ _ (fun k s hk => timer_hf w hq c tat evs tx k s hk) hQ
  | transmit c tat tx =>
    exact tw_onConn w c _ _ (fun k s hk => txop_hf w hq c tat tx k s hk) hQ
  | close c tat tx =>
    exact tw_onConn w c _ _ (fun k s hk => close_hf w hq c tat tx k s hk) hQ
  | mkStream c sid =>
    refine tw_inert w c _ _ ?_ hQ
    inert_simp
  | cancelCaller c wd =>
    refine tw_inert w c _ _ ?_ hQ
    inert_simp
  | write c sid d =>
    simp only [step] at hQ ⊢
    cases hk : w.conns[c]? with
    | none => simp only [hk] at hQ ⊢; exact ⟨hQ, id⟩
    | some k =>
      simp only [hk] at hQ ⊢
      cases hw : write k.p sid d with
      | none => simp only [hw] at hQ ⊢; exact ⟨hQ, id⟩
      | some p' =>
        simp only [hw] at hQ ⊢
        refine tw_inert w c _ _ ?_ hQ
        inert_simp
  | eof c sid =>
    simp only [step] at hQ ⊢
    cases hk : w.conns[c]? with
    | none => simp only [hk] at hQ ⊢; exact ⟨hQ, id⟩
    | some k =>
      simp only [hk] at hQ ⊢
      cases hw : writeEof k.p sid with
      | none => simp only [hw] at hQ ⊢; exact ⟨hQ, id⟩
      | some p' =>
        simp only [hw] at hQ ⊢
        refine tw_inert w c _ _ ?_ hQ
        inert_simp
  | waitConn c =>
    simp only [step, World.onProto] at hQ ⊢
    have := tw_inert w c (fun ctx s => ({ s with p := waitConnected ctx s.p w.nextWid }, none)) .none
      (by inert_simp) (QT.of_eq (w := _) hQ rfl rfl)
    exact ⟨this.1, fun h => (this.2 h).of_eq rfl rfl⟩
  | waitClosed c =>
    simp only [step, World.onProto] at hQ ⊢
    have := tw_inert w c (fun _ s => ({ s with p := waitClosed s.p w.nextWid }, none)) .none
      (by inert_simp) (QT.of_eq (w := _) hQ rfl rfl)
    exact ⟨this.1, fun h => (this.2 h).of_eq rfl rfl⟩
  | ping c uid tat tx =>
    simp only [step] at hQ ⊢
    have := tw_onConn w c (fun ctx s => ping ctx s w.nextWid uid tat tx) .none
      (fun k s hk => ping_hf w hq c w.nextWid uid tat tx k s hk) (QT.of_eq (w := _) hQ rfl rfl)
    exact ⟨this.1, fun h => (this.2 h).of_eq rfl rfl⟩
  | sdgram addr hdr rand tat evs tx =>
    simp only [step, sdgram] at hQ ⊢
    cases hdr with
    | bad => exact ⟨hQ, id⟩
    | unsupported => exact ⟨hQ, id⟩
    | h dcid initial big tok =>
      simp only at hQ ⊢
      have hq0 : (w.markSeal tok).q = Quirks.fixed := hq
      -- markSeal changes a monitor the routing clause does not read
      have back : ∀ {X : World}, (QT (w.markSeal tok) ∧ (TW (w.markSeal tok) → TW X)) → QT w ∧ (TW w → TW X) :=
        fun hx => ⟨QT.of_eq (w := w) hx.1 rfl rfl, fun h => hx.2 (h.of_eq rfl rfl)⟩
      cases hg : (w.markSeal tok).tbl.get dcid with
      | some c =>
        simp only [hg] at hQ ⊢
        exact back (tw_deliver _ hq0 c tat evs tx _ hQ)
      | none =>
        simp only [hg] at hQ ⊢
        by_cases hbi : big = true ∧ initial = true
        · simp only [hbi, and_self, if_true] at hQ ⊢
          by_cases hr : (w.markSeal tok).retry = true
          · simp only [hr, if_true] at hQ ⊢
            cases tok with
            | empty =>
              simp only at hQ ⊢
              exact back ⟨QT.of_eq (w := w.markSeal .empty) hQ rfl rfl, fun h => h.of_eq rfl rfl⟩
            | sealed kk a o r =>
              simp only at hQ ⊢
              cases hval : validate (w.markSeal (.sealed kk a o r)).key addr (.sealed kk a o r) with
              | none => simp only [hval] at hQ ⊢; exact back ⟨hQ, id⟩
              | some orr =>
                simp only [hval] at hQ ⊢
                exact back (tw_create _ hq0 addr dcid rand _ _ tat evs tx _ hg hQ)
            | junk n =>
              simp only [validate] at hQ ⊢
              exact back ⟨hQ, id⟩
          · simp only [hr, Bool.false_eq_true, if_false] at hQ ⊢
            exact back (tw_create _ hq0 addr dcid rand _ _ tat evs tx _ hg hQ)
        · simp only [hbi, if_false] at hQ ⊢
          exact back ⟨hQ, id⟩

theorem run_qt_mono (w : World) (hq : w.q = Quirks.fixed) (ops : List Op) (h : QT (run w ops)) : QT w := by
  induction ops generalizing w with
  | nil => exact h
  | cons op ops ih =>
    simp only [run] at h
    exact (step_tw w hq op (ih _ (by rw [step_q]; exact hq) h)).1

theorem run_tw (w : World) (hq : w.q = Quirks.fixed) (ops : List Op) (h : QT (run w ops)) (h0 : TW w) :
    TW (run w ops) := by
  induction ops generalizing w with
  | nil => exact h0
  | cons op ops ih =>
    simp only [run] at h ⊢
    have hq' : (step w op).1.q = Quirks.fixed := by rw [step_q]; exact hq
    exact ih _ hq' h ((step_tw w hq op (run_qt_mono _ hq' ops h)).2 h0)

theorem tw_init : TW ({} : World) := by
  refine ⟨⟨?_, ?_⟩, ?_⟩
  · intro c k hk; simp at hk
  · intro e he; simp at he
  · intro c k hk; simp at hk

/-! ### retry tokens -/

/-- every connection created under address validation carries the IDs of a token this server sealed
    for that very address -/
def KInv (w : World) : Prop :=
  ∀ cr ∈ w.createdG, cr.underRetry = true → ∃ r, cr.rscid = some r ∧ (cr.addr, cr.odcid, r) ∈ w.tokens

theorem onConn_server_fields (w : World) (c : Nat) (f : Ctx → PS → PS × Option Err) (act : Action) :
    (w.onConn c f act).1.tokens = w.tokens ∧ (w.onConn c f act).1.createdG = w.createdG ∧
    (w.onConn c f act).1.vSeal = w.vSeal ∧ (w.onConn c f act).1.retry = w.retry ∧
    (w.onConn c f act).1.key = w.key := by
  cases hk : w.conns[c]? with
  | none => rw [onConn_none w c f act hk]; simp
  | some k => rw [onConn_some w c f act k hk]; simp

theorem validate_some {key addr : Nat} {t : Token} {o r : CID} (h : validate key addr t = some (o, r)) :
    t = .sealed key addr o r := by
  cases t with
  | empty => simp [validate] at h
  | junk n => simp [validate] at h
  | sealed k a o' r' =>
    simp only [validate] at h
    split at h
    · rename_i hc; cases h; rw [hc.1, hc.2]
    · cases h

theorem step_fields (w : World) (op : Op) (h : ∀ a hd r t e x, op ≠ .sdgram a hd r t e x) :
    (step w op).1.tokens = w.tokens ∧ (step w op).1.createdG = w.createdG ∧ (step w op).1.vSeal = w.vSeal := by
  cases op with
  | sdgram a hd r t e x => exact absurd rfl (h a hd r t e x)
  | newConn => simp [step]
  | dgram c tat evs tx =>
    simp only [step]; (repeat' split) <;> simp [(onConn_server_fields _ _ _ _).1, (onConn_server_fields _ _ _ _).2.1, (onConn_server_fields _ _ _ _).2.2.1]
  | timer c tat evs tx =>
    simp only [step]; (repeat' split) <;> simp [(onConn_server_fields _ _ _ _).1, (onConn_server_fields _ _ _ _).2.1, (onConn_server_fields _ _ _ _).2.2.1]
  | transmit c tat tx =>
    simp [step, (onConn_server_fields _ _ _ _).1, (onConn_server_fields _ _ _ _).2.1, (onConn_server_fields _ _ _ _).2.2.1]
  | close c tat tx =>
    simp [step, (onConn_server_fields _ _ _ _).1, (onConn_server_fields _ _ _ _).2.1, (onConn_server_fields _ _ _ _).2.2.1]
  | mkStream c sid =>
    simp [step, World.onProto, (onConn_server_fields _ _ _ _).1, (onConn_server_fields _ _ _ _).2.1, (onConn_server_fields _ _ _ _).2.2.1]
  | cancelCaller c wd =>
    simp [step, World.onProto, (onConn_server_fields _ _ _ _).1, (onConn_server_fields _ _ _ _).2.1, (onConn_server_fields _ _ _ _).2.2.1]
  | write c sid d =>
    simp only [step, World.onProto]; (repeat' split) <;> simp [(onConn_server_fields _ _ _ _).1, (onConn_server_fields _ _ _ _).2.1, (onConn_server_fields _ _ _ _).2.2.1]
  | eof c sid =>
    simp only [step, World.onProto]; (repeat' split) <;> simp [(onConn_server_fields _ _ _ _).1, (onConn_server_fields _ _ _ _).2.1, (onConn_server_fields _ _ _ _).2.2.1]
  | waitConn c =>
    simp [step, World.onProto, (onConn_server_fields _ _ _ _).1, (onConn_server_fields _ _ _ _).2.1, (onConn_server_fields _ _ _ _).2.2.1]
  | waitClosed c =>
    simp [step, World.onProto, (onConn_server_fields _ _ _ _).1, (onConn_server_fields _ _ _ _).2.1, (onConn_server_fields _ _ _ _).2.2.1]
  | ping c uid tat tx =>
    simp [step, (onConn_server_fields _ _ _ _).1, (onConn_server_fields _ _ _ _).2.1, (onConn_server_fields _ _ _ _).2.2.1]

theorem step_k (w : World) (op : Op) (hs : (step w op).1.vSeal = false) :
    w.vSeal = false ∧ (KInv w → KInv (step w op).1) := by
  have keep : ∀ (w' : World), w'.tokens = w.tokens → w'.createdG = w.createdG → w'.vSeal = w.vSeal →
      w'.vSeal = false → w.vSeal = false ∧ (KInv w → KInv w') := by
    intro w' h1 h2 h3 h4
    refine ⟨by rw [← h3]; exact h4, fun h cr hcr hu => ?_⟩
    rw [h2] at hcr; rw [h1]; exact h cr hcr hu
  cases op with
  | sdgram addr hdr rand tat evs tx =>
    simp only [step, sdgram] at hs ⊢
    cases hdr with
    | bad => exact keep _ rfl rfl rfl hs
    | unsupported => exact keep _ rfl rfl rfl hs
    | h dcid initial big tok =>
      simp only at hs ⊢
      have hms : ∀ {X : World}, X.vSeal = (w.markSeal tok).vSeal → X.vSeal = false →
          w.vSeal = false ∧ (tok = .empty ∨ (∀ a o r, tok = .sealed w.key a o r → (a, o, r) ∈ w.tokens)) := by
        intro X hx hf
        rw [hx] at hf
        simp only [World.markSeal] at hf
        cases tok with
        | empty => simp at hf; exact ⟨hf, Or.inl rfl⟩
        | junk n => simp at hf; exact ⟨hf, Or.inr (by intro a o r hh; cases hh)⟩
        | sealed kk a o r =>
          simp at hf
          refine ⟨hf.1, Or.inr ?_⟩
          intro a' o' r' hh
          cases hh
          exact hf.2 rfl
      have hcreate : ∀ (o : CID) (r : Option CID) (act : Action),
          (w.markSeal tok).retry = true → (∀ r', r = some r' → (addr, o, r') ∈ w.tokens) ∧ r.isSome →
          KInv w → KInv (((w.markSeal tok).addServerConn addr dcid rand o r).deliver (w.markSeal tok).conns.length
            tat evs tx act).1 := by
        intro o r act _ hr h cr hcr hu
        obtain ⟨f1, f2, _, _, _⟩ := onConn_server_fields ((w.markSeal tok).addServerConn addr dcid rand o r)
          (w.markSeal tok).conns.length (fun ctx s => datagramReceived ctx s tat evs tx) act
        simp only [World.deliver] at hcr ⊢
        rw [f2] at hcr; rw [f1]
        simp only [World.addServerConn, World.markSeal, List.mem_append, List.mem_singleton] at hcr ⊢
        rcases hcr with hcr | hcr
        · exact h cr hcr hu
        · subst hcr
          cases r with
          | none => simp at hr
          | some r' => exact ⟨r', rfl, hr.1 r' rfl⟩
      have hcreate0 : ∀ (o : CID) (r : Option CID) (act : Action),
          (w.markSeal tok).retry = false →
          KInv w → KInv (((w.markSeal tok).addServerConn addr dcid rand o r).deliver (w.markSeal tok).conns.length
            tat evs tx act).1 := by
        intro o r act hret h cr hcr hu
        obtain ⟨f1, f2, _, _, _⟩ := onConn_server_fields ((w.markSeal tok).addServerConn addr dcid rand o r)
          (w.markSeal tok).conns.length (fun ctx s => datagramReceived ctx s tat evs tx) act
        simp only [World.deliver] at hcr ⊢
        rw [f2] at hcr; rw [f1]
        simp only [World.addServerConn, World.markSeal, List.mem_append, List.mem_singleton] at hcr ⊢
        rcases hcr with hcr | hcr
        · exact h cr hcr hu
        · subst hcr
          simp only [World.markSeal] at hret
          rw [hret] at hu; cases hu
      have vdel : ∀ (X : World) (c : Nat) (act : Action), (X.deliver c tat evs tx act).1.vSeal = X.vSeal := by
        intro X c act; exact (onConn_server_fields X c _ act).2.2.1
      cases hg : (w.markSeal tok).tbl.get dcid with
      | some c =>
        simp only [hg] at hs ⊢
        have := hms (X := ((w.markSeal tok).deliver c tat evs tx (.route c)).1) (vdel _ _ _) hs
        refine ⟨this.1, fun h cr hcr hu => ?_⟩
        obtain ⟨f1, f2, _⟩ := onConn_server_fields (w.markSeal tok) c (fun ctx s => datagramReceived ctx s tat evs tx) (.route c)
        simp only [World.deliver] at hcr ⊢
        rw [f2] at hcr; rw [f1]; exact h cr hcr hu
      | none =>
        simp only [hg] at hs ⊢
        by_cases hbi : big = true ∧ initial = true
        · simp only [hbi, and_self, if_true] at hs ⊢
          by_cases hr : (w.markSeal tok).retry = true
          · simp only [hr, if_true] at hs ⊢
            cases tok with
            | empty =>
              simp only at hs ⊢
              have := hms (X := (w.markSeal .empty).issueToken addr dcid rand) rfl hs
              refine ⟨this.1, fun h cr hcr hu => ?_⟩
              obtain ⟨r, h1, h2⟩ := h cr hcr hu
              exact ⟨r, h1, by simp [World.issueToken, World.markSeal]; exact Or.inl h2⟩
            | sealed kk a o r =>
              simp only at hs ⊢
              cases hval : validate (w.markSeal (.sealed kk a o r)).key addr (.sealed kk a o r) with
              | none =>
                simp only [hval] at hs ⊢
                have := hms (X := w.markSeal (.sealed kk a o r)) rfl hs
                exact ⟨this.1, fun h => h⟩
              | some orr =>
                obtain ⟨o', r'⟩ := orr
                simp only [hval] at hs ⊢
                have hv := validate_some hval
                have hm := hms (X := _) (by rw [vdel]; rfl) hs
                refine ⟨hm.1, hcreate o' (some r') _ hr ⟨?_, rfl⟩⟩
                intro r'' hr''
                cases hr''
                rcases hm.2 with hm2 | hm2
                · cases hm2
                · exact hm2 addr o' r' hv
            | junk n =>
              simp only [validate] at hs ⊢
              have := hms (X := w.markSeal (.junk n)) rfl hs
              exact ⟨this.1, fun h => h⟩
          · simp only [hr, Bool.false_eq_true, if_false] at hs ⊢
            have hm := hms (X := _) (by rw [vdel]; rfl) hs
            exact ⟨hm.1, hcreate0 _ _ _ (by simpa using hr)⟩
        · simp only [hbi, if_false] at hs ⊢
          have := hms (X := w.markSeal tok) rfl hs
          exact ⟨this.1, fun h => h⟩
  | newConn => have := step_fields w .newConn (by intros; simp); exact keep _ this.1 this.2.1 this.2.2 hs
  | dgram c tat evs tx =>
    have := step_fields w (.dgram c tat evs tx) (by intros; simp); exact keep _ this.1 this.2.1 this.2.2 hs
  | timer c tat evs tx =>
    have := step_fields w (.timer c tat evs tx) (by intros; simp); exact keep _ this.1 this.2.1 this.2.2 hs
  | transmit c tat tx =>
    have := step_fields w (.transmit c tat tx) (by intros; simp); exact keep _ this.1 this.2.1 this.2.2 hs
  | close c tat tx =>
    have := step_fields w (.close c tat tx) (by intros; simp); exact keep _ this.1 this.2.1 this.2.2 hs
  | mkStream c sid =>
    have := step_fields w (.mkStream c sid) (by intros; simp); exact keep _ this.1 this.2.1 this.2.2 hs
  | cancelCaller c wd =>
    have := step_fields w (.cancelCaller c wd) (by intros; simp); exact keep _ this.1 this.2.1 this.2.2 hs
  | write c sid d =>
    have := step_fields w (.write c sid d) (by intros; simp); exact keep _ this.1 this.2.1 this.2.2 hs
  | eof c sid =>
    have := step_fields w (.eof c sid) (by intros; simp); exact keep _ this.1 this.2.1 this.2.2 hs
  | waitConn c =>
    have := step_fields w (.waitConn c) (by intros; simp); exact keep _ this.1 this.2.1 this.2.2 hs
  | waitClosed c =>
    have := step_fields w (.waitClosed c) (by intros; simp); exact keep _ this.1 this.2.1 this.2.2 hs
  | ping c uid tat tx =>
    have := step_fields w (.ping c uid tat tx) (by intros; simp); exact keep _ this.1 this.2.1 this.2.2 hs

theorem run_k (w : World) (ops : List Op) (hs : (run w ops).vSeal = false) : w.vSeal = false ∧ (KInv w → KInv (run w ops)) := by
  induction ops generalizing w with
  | nil => exact ⟨hs, id⟩
  | cons op ops ih =>
    simp only [run] at hs ⊢
    obtain ⟨a1, a2⟩ := ih _ hs
    obtain ⟨b1, b2⟩ := step_k w op a1
    exact ⟨b1, fun h => a2 (b2 h)⟩

/-! ### the DCID of a token-bearing Initial is the Retry source CID -/

/-- while the peer monitor `vRetryDcid` is silent, every connection created from a validated token was created by
    a datagram addressed to the sealed retry source connection ID — the ID the server issued in its Retry packet -/
def DJ (w : World) : Prop :=
  w.vRetryDcid = false → ∀ cr ∈ w.createdG, ∀ r, cr.rscid = some r → cr.dcid = r

theorem DJ.of_eq {w w' : World} (h : DJ w) (h1 : w'.createdG = w.createdG) (h2 : w'.vRetryDcid = w.vRetryDcid) : DJ w' := by
  intro hv cr hcr r hr; rw [h1] at hcr; rw [h2] at hv; exact h hv cr hcr r hr

theorem DJ.onConn {w : World} (h : DJ w) (c : Nat) (f : Ctx → PS → PS × Option Err) (act : Action) :
    DJ (w.onConn c f act).1 := by
  cases hk : w.conns[c]? with
  | none => rw [onConn_none w c f act hk]; exact h
  | some k => rw [onConn_some w c f act k hk]; exact h.of_eq rfl rfl

theorem DJ.add {w : World} (h : DJ w) (addr : Nat) (dcid rand o : CID) (r : Option CID) :
    DJ (w.addServerConn addr dcid rand o r) := by
  intro hv cr hcr r' hr
  simp only [World.addServerConn] at hv hcr
  simp only [Bool.or_eq_false_iff] at hv
  rcases List.mem_append.1 hcr with h1 | h1
  · exact h hv.1 cr h1 r' hr
  · simp only [List.mem_singleton] at h1
    subst h1
    simp only at hr
    subst hr
    simpa using hv.2

theorem DJ.markSeal {w : World} (h : DJ w) (tok : Token) : DJ (w.markSeal tok) := h.of_eq rfl rfl

theorem DJ.issue {w : World} (h : DJ w) (addr : Nat) (dcid rand : CID) : DJ (w.issueToken addr dcid rand) :=
  h.of_eq rfl rfl

theorem step_dj (w : World) (h : DJ w) (op : Op) : DJ (step w op).1 := by
  cases op <;> simp only [step, sdgram, World.onProto, World.deliver] <;> (repeat' split) <;>
    first
      | exact h
      | exact h.onConn _ _ _
      | exact DJ.of_eq (DJ.onConn h _ _ _) rfl rfl
      | exact h.markSeal _
      | exact (h.markSeal _).issue _ _ _
      | exact (h.markSeal _).onConn _ _ _
      | exact ((h.markSeal _).add _ _ _ _ _).onConn _ _ _
      | exact DJ.of_eq h rfl rfl

theorem run_dj (w : World) (h : DJ w) (ops : List Op) : DJ (run w ops) := by
  induction ops generalizing w with
  | nil => exact h
  | cons op ops ih => simp only [run]; exact ih _ (step_dj w h op)

end AQ.Adapter
