/-
  `GI` through the write loop; `gstep_gi`; runs with ghosts.
-/
import AQ.Proofs.FlowGhost3

namespace AQ.Flow
open AQ AQ.Stream AQ.RangeSet

theorem GOK.sg_of_ne {c : Conn} {st : Strm} {g : Ghost} (h : GOK c st g) (hne : st.send ≠ Send.init false) :
    SG st.send g := by
  rcases h with h | ⟨h1, _, _⟩
  · exact h
  · exact absurd h1 hne

theorem serve_gi {c : Conn} {G : GMap} (hr : RInv c) (h : GI c G) (sid : Nat) (a b : Bool) (fs : Int) :
    GI (serve c sid a b fs).1 (gstep c G (.serve sid a b fs)) := by
  unfold serve
  simp only [gstep]
  cases hf : c.find? sid with
  | none => exact h
  | some st =>
    obtain ⟨hm, hsid⟩ := Conn.find?_mem hf
    have hok := h st hm
    simp only []
    by_cases hfin : st.isFinished = true
    · simp only [if_pos hfin]
      exact h.sameSend ⟨rfl, fun x hx => ⟨x, (List.mem_filter.1 hx).1, rfl, rfl⟩⟩
    · simp only [if_neg hfin]
      by_cases hb : st.isBlocked = true
      · simp only [if_pos hb]; exact h
      · simp only [if_neg hb]
        by_cases hsp : (st.stopPending && !a) = true
        · simp only [if_pos hsp]; exact h
        · simp only [if_neg hsp]
          generalize hst1 : (if st.stopPending = true then { st with stopPending := false } else st) = st1
          have e1 : st1.sid = st.sid ∧ st1.send = st.send := by
            subst hst1; split <;> simp
          by_cases hrp : st1.send.resetPending = true
          · simp only [if_pos hrp]
            by_cases hb' : (!b) = true
            · simp only [if_pos hb']
              exact h.sameSend (SameSend.setStrm hm e1.1 e1.2)
            · simp only [if_neg hb']
              have hne : st.send ≠ Send.init false := by
                intro he; rw [e1.2, he] at hrp; simp [Send.init] at hrp
              have hsg : SG st.send (G sid) := by rw [← hsid]; exact hok.sg_of_ne hne
              have hreset : (G sid).reset = true := hsg.1.rpend (by rw [← e1.2]; exact hrp)
              refine GI.set h hr.nodup (st := { st1 with send := (getResetFrame st1.send).1 })
                (by simp [e1.1, hsid]) (.inl ?_) rfl rfl
              show SG (getResetFrame st1.send).1 _
              rw [e1.2]
              exact SG_getReset hsg hreset
          · simp only [if_neg hrp]
            by_cases hbe : (!st1.send.bufferIsEmpty) = true
            · simp only [if_pos hbe]
              cases hw : writeStreamFrame st1 (maxOffsetFor c st1) fs with
              | error e =>
                simp only []
                exact h.sameSend (SameSend.setStrm hm e1.1 e1.2)
              | ok p =>
                obtain ⟨st', fr, used⟩ := p
                simp only []
                obtain ⟨w1, w2⟩ := writeStreamFrame_get hw
                have hne : st.send ≠ Send.init false := by
                  intro he; rw [e1.2, he] at hbe; simp [Send.init] at hbe
                have hsg : SG st.send (G sid) := by rw [← hsid]; exact hok.sg_of_ne hne
                refine GI.set h hr.nodup (st := st') (by rw [w1, e1.1, hsid]) (.inl ?_) rfl rfl
                rcases w2 with ⟨ws, wn⟩ | ⟨ms, hg⟩
                · rw [ws, wn, e1.2]; exact hsg
                · rw [e1.2] at hg; exact SG_get hsg hg
            · simp only [if_neg hbe]
              exact h.sameSend (SameSend.setStrm hm e1.1 e1.2)

theorem gstep_gi {c : Conn} {G : GMap} (hr : RInv c) (h : GI c G) (op : Op) (hwf : wfG c G op) :
    GI (step c op).1 (gstep c G op) := by
  cases op <;> simp only [step]
  · exact sendStreamData_gi hr h _ _ _
  · exact resetStream_gi hr h _ _
  · exact h.sameSend (stopStream_sameSend c _)
  · exact h.sameSend (rxMaxData_sameSend c _)
  · exact rxMaxStreamData_gi hr h _ _
  · exact h.sameSend (rxMaxStreams_sameSend c _ _)
  · rcases rxTransportParams_cases c _ with he | he <;> rw [he]
    · exact h
    · exact h.sameSend (SameSend.of_streams rfl rfl)
  · exact h.sameSend (unblockStreams_sameSend c _)
  · exact rxStopSending_gi hr h _
  · exact rxStreamDataBlocked_gi hr h _
  · exact rxStream_gi hr h _ _ _ _
  · exact rxResetStream_gi hr h _ _
  · exact serve_gi hr h _ _ _ _
  · exact h.sameSend (writeConnLimits_sameSend c _ _ _)
  · exact h.sameSend (writeStreamLimits_sameSend c _ _)
  · exact dataDelivery_gi hr h _ _ _ _ _ hwf
  · exact resetDelivery_gi hr h _ _ hwf
  · exact h.sameSend (stopDelivery_sameSend c _ _)
  · exact h.sameSend (connLimitDelivery_sameSend c _ _)
  · exact h.sameSend (maxStreamDataDelivery_sameSend c _ _)

/-- state + ghost after a sequence of operations -/
def grun (c : Conn) (G : GMap) : List Op → Conn × GMap
  | [] => (c, G)
  | op :: ops => grun (step c op).1 (gstep c G op) ops

theorem grun_fst (c : Conn) (G : GMap) (ops : List Op) : (grun c G ops).1 = runState c ops := by
  induction ops generalizing c G with
  | nil => rfl
  | cons op ops ih => simp only [grun, runState, List.foldl_cons]; exact ih _ _

/-- every operation of the sequence is well-formed: transport parameters do not
    reduce limits, and delivery reports name frames that were emitted for the
    stream and not yet reported (this implies the `notBlocked` hypotheses of
    `Op.wf` only together with the invariant, so both are required) -/
def GWFRun (c : Conn) (G : GMap) : List Op → Prop
  | [] => True
  | op :: ops => op.wf c ∧ wfG c G op ∧ GWFRun (step c op).1 (gstep c G op) ops

theorem GWFRun.wfrun {c : Conn} {G : GMap} {ops : List Op} (h : GWFRun c G ops) : WFRun c ops := by
  induction ops generalizing c G with
  | nil => trivial
  | cons op ops ih => exact ⟨h.1, ih h.2.2⟩

theorem grun_inv {c : Conn} {G : GMap} (hi : Inv c) (hr : RInv c) (hg : GI c G) (ops : List Op)
    (hwf : GWFRun c G ops) :
    Inv (grun c G ops).1 ∧ RInv (grun c G ops).1 ∧ GI (grun c G ops).1 (grun c G ops).2 := by
  induction ops generalizing c G with
  | nil => exact ⟨hi, hr, hg⟩
  | cons op ops ih =>
    simp only [grun]
    exact ih (step_inv hi op hwf.1) (step_rinv hr op) (gstep_gi hr hg op hwf.2.1) hwf.2.2

theorem getFrame_init_false (ms : Nat) (mo : Option Nat) :
    ∃ s', getFrame (Send.init false) ms mo = .ok (s', none) := by
  refine ⟨{ Send.init false with bufferIsEmpty := true }, ?_⟩
  simp [getFrame, Send.init]

/-- a STREAM frame written by the write loop, seen through the C10 invariant of
    its stream: the buffer covers the pending ranges and the frame ends at or
    below the new `highest_offset` (also for a FIN-only frame) -/
theorem serve_stream_ghost {c : Conn} {G : GMap} {sid sid' off len : Nat} {fin a b : Bool} {fs : Int}
    (h : GI c G) (hfr : WFrame.stream sid' off len fin ∈ (serve c sid a b fs).2.frames) :
    ∃ st st1 st' f used, c.find? sid = some st ∧ st1.send = st.send ∧ st1.maxRemote = st.maxRemote ∧
      writeStreamFrame st1 (maxOffsetFor c st1) fs = .ok (st', some f, used) ∧
      off = f.offset ∧ len = f.data.length ∧ Covers st.send ∧ f.offset + f.data.length ≤ st'.send.highest := by
  obtain ⟨st, st1, st', f, used, hfind, _, e1, e2, _, hw, _, ho, hl, _, _, _⟩ := serve_stream_frame hfr
  obtain ⟨hm, hsid⟩ := Conn.find?_mem hfind
  obtain ⟨_, w2⟩ := writeStreamFrame_get hw
  rcases w2 with ⟨_, wn⟩ | ⟨ms, hg⟩
  · cases wn
  · rw [e1] at hg
    have hsg : SG st.send (G st.sid) := by
      rcases h st hm with h' | ⟨h1, _, _⟩
      · exact h'
      · exfalso
        rw [h1] at hg
        obtain ⟨s', hn⟩ := getFrame_init_false ms (some (maxOffsetFor c st1).toNat)
        rw [hn] at hg
        simp at hg
    have hreset := hsg.reset_false_of_getFrame hg
    have hpost := (SG_get hsg hg).2.1 f.fr (by simp [Ghost.onGet])
    exact ⟨st, st1, st', f, used, hfind, e1, e2, hw, ho, hl, hsg.covers hreset, hpost⟩

end AQ.Flow
