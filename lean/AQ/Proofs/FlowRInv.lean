/-
  The receive-side invariant of the connection: `_local_max_data.used` is the
  sum of the receivers' highest offsets (streams discarded included), it is
  within the enforced limit, every receiver is within its stream limit and its
  reassembly buffer lies below its highest offset.
-/
import AQ.Proofs.FlowQueues

namespace AQ.Flow
open AQ AQ.Stream AQ.RangeSet

def sumRh (ss : List Strm) : Nat := (ss.map (fun s => s.recv.highest)).sum

@[simp] theorem sumRh_nil : sumRh [] = 0 := rfl
@[simp] theorem sumRh_cons (s : Strm) (ss : List Strm) : sumRh (s :: ss) = s.recv.highest + sumRh ss := by
  simp [sumRh]
theorem sumRh_append (a b : List Strm) : sumRh (a ++ b) = sumRh a + sumRh b := by
  simp [sumRh, List.sum_append]

theorem sumRh_setIn {st0 st : Strm} {ss : List Strm} (hnd : (ss.map (·.sid)).Nodup)
    (hm : st0 ∈ ss) (hsid : st.sid = st0.sid) :
    sumRh (setIn st ss) + st0.recv.highest = sumRh ss + st.recv.highest := by
  induction ss with
  | nil => simp at hm
  | cons x xs ih =>
    simp only [List.map_cons, List.nodup_cons] at hnd
    unfold setIn
    split
    · rename_i hx
      simp at hx
      have : st0 = x := by
        rcases List.mem_cons.mp hm with h | h
        · exact h
        · exfalso; apply hnd.1
          exact List.mem_map.mpr ⟨st0, h, by omega⟩
      subst this
      simp; omega
    · rename_i hx
      simp at hx
      have : st0 ∈ xs := by
        rcases List.mem_cons.mp hm with h | h
        · subst h; omega
        · exact h
      have := ih hnd.2 this
      simp; omega

theorem sumRh_filter {st0 : Strm} {ss : List Strm} (hnd : (ss.map (·.sid)).Nodup) (hm : st0 ∈ ss) :
    sumRh (ss.filter (fun s => s.sid != st0.sid)) + st0.recv.highest = sumRh ss := by
  induction ss with
  | nil => simp at hm
  | cons x xs ih =>
    simp only [List.map_cons, List.nodup_cons] at hnd
    by_cases hx : x.sid = st0.sid
    · have : st0 = x := by
        rcases List.mem_cons.mp hm with h | h
        · exact h
        · exfalso; apply hnd.1
          exact List.mem_map.mpr ⟨st0, h, by omega⟩
      subst this
      have hf : xs.filter (fun s => s.sid != st0.sid) = xs := by
        apply List.filter_eq_self.mpr
        intro a ha
        simp
        intro h
        apply hnd.1
        exact List.mem_map.mpr ⟨a, ha, h⟩
      simp [List.filter_cons, hf]; omega
    · have : st0 ∈ xs := by
        rcases List.mem_cons.mp hm with h | h
        · subst h; omega
        · exact h
      have := ih hnd.2 this
      simp [List.filter_cons, hx]; omega

/-- per-stream part: within the stream limit, buffer below `highest_offset` -/
def SR (s : Strm) : Prop := s.recv.highest ≤ s.maxLocal ∧ RecvOK s.recv ∧ FinOK s.recv

structure RInv (c : Conn) : Prop where
  fixed : c.quirks.resetKeepsHighest = false
  nodup : (c.streams.map (·.sid)).Nodup
  ledger : c.localMaxData.used = sumRh c.streams + c.goneRecv
  within : c.localMaxData.used ≤ c.localMaxData.value
  strm : ∀ s ∈ c.streams, SR s

/-- frame rule: streams, ledger untouched; the enforced value may grow -/
theorem RInv.same {c c' : Conn} (h : RInv c) (hq : c'.quirks = c.quirks) (hs : c'.streams = c.streams)
    (hu : c'.localMaxData.used = c.localMaxData.used) (hv : c.localMaxData.value ≤ c'.localMaxData.value)
    (hg : c'.goneRecv = c.goneRecv) : RInv c' :=
  ⟨by rw [hq]; exact h.fixed, by rw [hs]; exact h.nodup, by rw [hu, hs, hg]; exact h.ledger,
   by rw [hu]; exact Nat.le_trans h.within hv, by rw [hs]; exact h.strm⟩

/-- frame rule: one stream object replaced; its receiver's highest offset grows
    by what is added to `_local_max_data.used` -/
theorem RInv.update {c c' : Conn} (h : RInv c) (hq : c'.quirks = c.quirks) {st0 st : Strm}
    (hm : st0 ∈ c.streams) (hsid : st.sid = st0.sid) (hs : c'.streams = setIn st c.streams)
    (hhi : st0.recv.highest ≤ st.recv.highest)
    (hu : c'.localMaxData.used = c.localMaxData.used + (st.recv.highest - st0.recv.highest))
    (hw : c'.localMaxData.used ≤ c'.localMaxData.value)
    (hg : c'.goneRecv = c.goneRecv) (hst : SR st) : RInv c' := by
  refine ⟨by rw [hq]; exact h.fixed, by rw [hs, setIn_sids]; exact h.nodup, ?_, hw, ?_⟩
  · have := sumRh_setIn (st := st) h.nodup hm hsid
    rw [hu, hs, hg, h.ledger]; omega
  · intro s hms; rw [hs] at hms
    rcases mem_setIn hms with rfl | hms
    · exact hst
    · exact h.strm s hms

theorem RInv.setStrm {c : Conn} (h : RInv c) {st0 st : Strm} (hm : st0 ∈ c.streams) (hsid : st.sid = st0.sid)
    (hr : st.recv = st0.recv) (hl : st0.maxLocal ≤ st.maxLocal) : RInv (c.setStrm st) := by
  have hi := h.strm st0 hm
  refine h.update (c' := c.setStrm st) rfl hm hsid rfl (by rw [hr]; exact Nat.le_refl _) ?_ h.within rfl
    ⟨by rw [hr]; exact Nat.le_trans hi.1 hl, by rw [hr]; exact hi.2⟩
  show c.localMaxData.used = _
  rw [hr]; omega

theorem RInv.add {c c' : Conn} (h : RInv c) (hq : c'.quirks = c.quirks) {st : Strm}
    (hfresh : ∀ s ∈ c.streams, s.sid ≠ st.sid) (hs : c'.streams = c.streams ++ [st])
    (hr : st.recv = {}) (hl : c'.localMaxData = c.localMaxData) (hg : c'.goneRecv = c.goneRecv) : RInv c' := by
  refine ⟨by rw [hq]; exact h.fixed, ?_, ?_, by rw [hl]; exact h.within, ?_⟩
  · rw [hs, List.map_append, List.nodup_append]
    refine ⟨h.nodup, by simp, ?_⟩
    intro a ha b hb
    simp at hb; subst hb
    obtain ⟨s, h1, h2⟩ := List.mem_map.mp ha
    intro heq; exact hfresh s h1 (by omega)
  · rw [hl, hs, hg, sumRh_append, h.ledger]; simp [hr]
  · intro s hms; rw [hs] at hms
    rcases List.mem_append.mp hms with hms | hms
    · exact h.strm s hms
    · simp at hms; subst hms
      exact ⟨by rw [hr]; exact Nat.zero_le _, by rw [hr]; exact ⟨RecvOK.init, by simp [FinOK]⟩⟩

theorem RInv.mapStreams {c : Conn} (h : RInv c) (g : Strm → Strm)
    (hg : ∀ s, (g s).sid = s.sid ∧ (g s).recv = s.recv ∧ (g s).maxLocal = s.maxLocal)
    (c' : Conn) (hq : c'.quirks = c.quirks) (hs : c'.streams = c.streams.map g)
    (hl : c'.localMaxData = c.localMaxData) (hgr : c'.goneRecv = c.goneRecv) : RInv c' := by
  have hsids : (c.streams.map g).map (·.sid) = c.streams.map (·.sid) := by
    rw [List.map_map]; apply List.map_congr_left; intro s _; exact (hg s).1
  have hsum : sumRh (c.streams.map g) = sumRh c.streams := by
    unfold sumRh; rw [List.map_map]; congr 1; apply List.map_congr_left; intro s _
    simp only [Function.comp]; rw [(hg s).2.1]
  refine ⟨by rw [hq]; exact h.fixed, by rw [hs, hsids]; exact h.nodup, by rw [hl, hs, hsum, hgr]; exact h.ledger,
    by rw [hl]; exact h.within, ?_⟩
  intro s' hs'
  rw [hs] at hs'
  obtain ⟨s, h1, rfl⟩ := List.mem_map.mp hs'
  have := h.strm s h1
  exact ⟨by rw [(hg s).2.1, (hg s).2.2]; exact this.1, by rw [(hg s).2.1]; exact this.2⟩

theorem RInv.discard {c : Conn} (h : RInv c) {st : Strm} (hm : st ∈ c.streams) (fids : List Nat) (gs : Nat) :
    RInv { c with streams := c.streams.filter (fun s => s.sid != st.sid), finishedIds := fids,
                  goneSent := gs, goneRecv := c.goneRecv + st.recv.highest } := by
  refine ⟨h.fixed, List.Nodup.sublist (List.Sublist.map _ List.filter_sublist) h.nodup, ?_, h.within, ?_⟩
  · have := sumRh_filter h.nodup hm
    show c.localMaxData.used = sumRh (c.streams.filter _) + (c.goneRecv + st.recv.highest)
    rw [h.ledger]; omega
  · intro s hs; exact h.strm s (List.mem_filter.mp hs).1

end AQ.Flow
