/-
  C14: lifting chunk independence of `_receive_request_or_push_data` through
  `H3Connection.handle_event` (stream table lookup / store / `popIfEnded`).
-/
import AQ.Proofs.H3Merge
namespace AQ.H3
section
variable {σ : Type} (o : Oracle σ) (cfg : Cfg)

def LoopRes.st : LoopRes σ → Stream
  | .brk s _ _ _ => s
  | .ret s _ _ => s

theorem prepend_st (r : LoopRes σ) (ev : List Event) : (r.prepend ev).st = r.st := by
  cases r <;> rfl

theorem frameHeader_re (ea : Bool) (s : Stream) (rest : Bytes) :
    match frameHeader ea s rest with
    | .stuck s1 => s1.receivingEnded = s.receivingEnded
    | .wt s1 _ => s1.receivingEnded = s.receivingEnded
    | .go s1 _ => s1.receivingEnded = s.receivingEnded := by
  unfold frameHeader
  cases s.frameSize with
  | some z => rfl
  | none =>
    dsimp only
    cases pullVarint rest with
    | none => rfl
    | some x =>
      obtain ⟨t, r1⟩ := x
      dsimp only
      cases pullVarint r1 with
      | none => rfl
      | some y =>
        obtain ⟨sz, r2⟩ := y
        dsimp only
        by_cases ht : t = 65
        · rw [if_pos ht]
        · rw [if_neg ht]

theorem frameBody_blocked_re {s s2 : Stream} {q q2 : σ} {r r2 : Bytes}
    (h : frameBody o cfg s q r = .ok (.blocked s2 q2 r2)) : s2.receivingEnded = s.receivingEnded := by
  unfold frameBody at h
  cases hfs : s.frameSize with
  | none => simp [hfs] at h
  | some sz =>
    simp only [hfs] at h
    split at h
    · simp at h
    · generalize handleFrame o cfg _ _ _ q _ = hf at h
      cases hf with
      | error e => simp at h
      | ok fr =>
        cases fr with
        | done p2 q3 ev => simp at h
        | blocked q1 pp =>
          simp at h
          obtain ⟨rfl, _⟩ := h
          split <;> rfl

theorem reqLoop_re (ea : Bool) : ∀ (fuel : Nat) (s : Stream) (q : σ) (rest : Bytes) (res : LoopRes σ),
    reqLoop o cfg ea fuel s q rest = .ok res → res.st.receivingEnded = s.receivingEnded := by
  intro fuel
  induction fuel with
  | zero => intro s q rest res h; simp [reqLoop] at h; subst h; rfl
  | succ n ih =>
    intro s q rest res h
    rw [reqLoop_succ] at h
    split at h
    · simp at h; subst h; rfl
    · have hh := frameHeader_re ea s rest
      cases hfh : frameHeader ea s rest with
      | stuck s1 => rw [hfh] at h hh; simp at h; subst h; exact hh
      | wt s1 evs => rw [hfh] at h hh; simp at h; subst h; exact hh
      | go s1 r =>
        rw [hfh] at h hh
        simp only [bodyLoop] at h
        cases hfb : frameBody o cfg s1 q r with
        | error e => rw [hfb] at h; simp at h
        | ok br =>
          rw [hfb] at h
          cases br with
          | brk => simp at h; subst h; exact hh
          | blocked s2 q2 r2 => simp at h; subst h; exact (frameBody_blocked_re o cfg hfb).trans hh
          | next s2 q2 r2 ev =>
            obtain ⟨_, _, _, _, _, _, _, hre2, _⟩ := frameBody_next o cfg hfb
            simp only at h
            cases hl : reqLoop o cfg ea n s2 q2 r2 with
            | error e => rw [hl] at h; simp at h
            | ok res2 =>
              rw [hl] at h
              simp at h
              subst h
              rw [prepend_st, ih _ _ _ _ hl, hre2, hh]

theorem recvReq_re (s s1 : Stream) (q q1 : σ) (d : Bytes) (ea : Bool) (ev : List Event)
    (h : recvReq o cfg s q d ea = .ok (s1, q1, ev)) : s1.receivingEnded = (s.receivingEnded || ea) := by
  unfold recvReq at h
  dsimp only at h
  have hmain : ∀ (x : Stream), x.receivingEnded = (s.receivingEnded || ea) →
      recvReqMain o cfg x q ea = .ok (s1, q1, ev) → s1.receivingEnded = (s.receivingEnded || ea) := by
    intro x hx hm
    unfold recvReqMain loneFin loopPost at hm
    repeat' (split at hm)
    all_goals first
      | (simp at hm; done)
      | (simp at hm; obtain ⟨rfl, _, _⟩ := hm; exact hx)
      | (simp at hm; obtain ⟨rfl, _, _⟩ := hm
         have := reqLoop_re o cfg ea _ _ _ _ _ ‹reqLoop o cfg ea _ _ _ _ = Except.ok _›
         simpa [LoopRes.st, hx] using this)
  repeat' (split at h)
  all_goals first
    | (simp at h; done)
    | (simp at h; obtain ⟨rfl, _, _⟩ := h; rfl)
    | exact hmain _ rfl h


/-- the attributes the request parser never changes -/
def Keep (s s1 : Stream) : Prop :=
  s1.streamType = s.streamType ∧ s1.p.pushId = s.p.pushId ∧ s1.p.streamId = s.p.streamId ∧
    s1.sendingEnded = s.sendingEnded

theorem Keep.rfl' (s : Stream) : Keep s s := ⟨rfl, rfl, rfl, rfl⟩

theorem Keep.trans {a b c : Stream} (h1 : Keep a b) (h2 : Keep b c) : Keep a c :=
  ⟨h2.1.trans h1.1, h2.2.1.trans h1.2.1, h2.2.2.1.trans h1.2.2.1, h2.2.2.2.trans h1.2.2.2⟩

theorem finishHeaders_keep {p p2 : PState} {q q2 : σ} {hs : Headers} {b : Bool} {ev : List Event}
    (h : finishHeaders o cfg p q hs b = .ok (p2, q2, ev)) : p2.pushId = p.pushId ∧ p2.streamId = p.streamId := by
  unfold finishHeaders at h
  dsimp only at h
  repeat' (split at h)
  all_goals first
    | (simp at h; done)
    | (simp at h; obtain ⟨rfl, _, _⟩ := h
       exact ⟨setExpectedCL_pushId _ _, setExpectedCL_streamId _ _⟩)

theorem finishPush_keep {p p2 : PState} {q q2 : σ} {pid : Nat} {hs : Headers} {b : Bool} {ev : List Event}
    (h : finishPush o cfg p q pid hs b = .ok (p2, q2, ev)) : p2 = p := by
  unfold finishPush at h
  repeat' (split at h)
  all_goals first
    | (simp at h; done)
    | (simp at h; exact h.1.symm)

theorem handleFrame_keep {ft : Option Nat} {d : Bytes} {p p2 : PState} {q q2 : σ} {b : Bool} {ev : List Event}
    (h : handleFrame o cfg ft d p q b = .ok (.done p2 q2 ev)) : p2.pushId = p.pushId ∧ p2.streamId = p.streamId := by
  unfold handleFrame at h
  dsimp only at h
  repeat' (split at h)
  all_goals first
    | (simp at h; done)
    | (simp at h; obtain ⟨rfl, _, _⟩ := h; exact ⟨rfl, rfl⟩)
    | (simp at h; obtain ⟨rfl, _, _⟩ := h; exact finishHeaders_keep o cfg ‹_›)
    | (simp at h; obtain ⟨rfl, _, _⟩ := h
       have := finishPush_keep o cfg ‹finishPush o cfg _ _ _ _ _ = _›
       rw [this]; exact ⟨rfl, rfl⟩)

theorem frameHeader_keep (ea : Bool) (s : Stream) (rest : Bytes) :
    match frameHeader ea s rest with
    | .stuck s1 => Keep s s1
    | .wt s1 _ => Keep s s1
    | .go s1 _ => Keep s s1 := by
  unfold frameHeader
  cases s.frameSize with
  | some z => exact Keep.rfl' s
  | none =>
    dsimp only
    cases pullVarint rest with
    | none => exact Keep.rfl' s
    | some x =>
      obtain ⟨t, r1⟩ := x
      dsimp only
      cases pullVarint r1 with
      | none => exact ⟨rfl, rfl, rfl, rfl⟩
      | some y =>
        obtain ⟨sz, r2⟩ := y
        dsimp only
        by_cases ht : t = 65
        · rw [if_pos ht]; exact ⟨rfl, rfl, rfl, rfl⟩
        · rw [if_neg ht]; exact ⟨rfl, rfl, rfl, rfl⟩

theorem frameBody_next_keep {s s2 : Stream} {q q2 : σ} {r r2 : Bytes} {ev : List Event}
    (h : frameBody o cfg s q r = .ok (.next s2 q2 r2 ev)) : Keep s s2 := by
  unfold frameBody at h
  cases hfs : s.frameSize with
  | none => simp [hfs] at h
  | some sz =>
    simp only [hfs] at h
    split at h
    · simp at h
    · split at h
      · simp at h
      · simp at h
      · rename_i hhf
        have hk := handleFrame_keep o cfg hhf
        simp at h
        obtain ⟨rfl, _, _, _⟩ := h
        split at hk <;> exact ⟨by split <;> rfl, hk.1, hk.2, by split <;> rfl⟩

theorem frameBody_blocked_keep {s s2 : Stream} {q q2 : σ} {r r2 : Bytes}
    (h : frameBody o cfg s q r = .ok (.blocked s2 q2 r2)) : Keep s s2 := by
  unfold frameBody at h
  cases hfs : s.frameSize with
  | none => simp [hfs] at h
  | some sz =>
    simp only [hfs] at h
    split at h
    · simp at h
    · generalize handleFrame o cfg _ _ _ q _ = hf at h
      cases hf with
      | error e => simp at h
      | ok fr =>
        cases fr with
        | done p2 q3 ev => simp at h
        | blocked q1 pp =>
          simp at h
          obtain ⟨rfl, _⟩ := h
          split <;> exact ⟨rfl, rfl, rfl, rfl⟩

theorem reqLoop_keep (ea : Bool) : ∀ (fuel : Nat) (s : Stream) (q : σ) (rest : Bytes) (res : LoopRes σ),
    reqLoop o cfg ea fuel s q rest = .ok res → Keep s res.st := by
  intro fuel
  induction fuel with
  | zero => intro s q rest res h; simp [reqLoop] at h; subst h; exact Keep.rfl' s
  | succ n ih =>
    intro s q rest res h
    rw [reqLoop_succ] at h
    split at h
    · simp at h; subst h; exact Keep.rfl' s
    · have hh := frameHeader_keep ea s rest
      cases hfh : frameHeader ea s rest with
      | stuck s1 => rw [hfh] at h hh; simp at h; subst h; exact hh
      | wt s1 evs => rw [hfh] at h hh; simp at h; subst h; exact hh
      | go s1 r =>
        rw [hfh] at h hh
        simp only [bodyLoop] at h
        cases hfb : frameBody o cfg s1 q r with
        | error e => rw [hfb] at h; simp at h
        | ok br =>
          rw [hfb] at h
          cases br with
          | brk => simp at h; subst h; exact hh
          | blocked s2 q2 r2 => simp at h; subst h; exact hh.trans (frameBody_blocked_keep o cfg hfb)
          | next s2 q2 r2 ev =>
            have hk2 := frameBody_next_keep o cfg hfb
            simp only at h
            cases hl : reqLoop o cfg ea n s2 q2 r2 with
            | error e => rw [hl] at h; simp at h
            | ok res2 =>
              rw [hl] at h
              simp at h
              subst h
              rw [prepend_st]
              exact (hh.trans hk2).trans (ih _ _ _ _ hl)

theorem recvReq_keep (s s1 : Stream) (q q1 : σ) (d : Bytes) (ea : Bool) (ev : List Event)
    (h : recvReq o cfg s q d ea = .ok (s1, q1, ev)) : Keep s s1 := by
  unfold recvReq at h
  dsimp only at h
  have hmain : ∀ (x : Stream), Keep s x → recvReqMain o cfg x q ea = .ok (s1, q1, ev) → Keep s s1 := by
    intro x hx hm
    unfold recvReqMain loneFin loopPost at hm
    repeat' (split at hm)
    all_goals first
      | (simp at hm; done)
      | (simp at hm; obtain ⟨rfl, _, _⟩ := hm; exact hx)
      | (simp at hm; obtain ⟨rfl, _, _⟩ := hm
         have := reqLoop_keep o cfg ea _ _ _ _ _ ‹reqLoop o cfg ea _ _ _ _ = Except.ok _›
         exact hx.trans (by simpa [LoopRes.st, Keep] using this))
  repeat' (split at h)
  all_goals first
    | (simp at h; done)
    | (simp at h; obtain ⟨rfl, _, _⟩ := h; exact ⟨rfl, rfl, rfl, rfl⟩)
    | (refine hmain _ ?_ h; exact ⟨rfl, rfl, rfl, rfl⟩)

theorem lookupS_setS (sid : Nat) (s : Stream) (l : List (Nat × Stream)) : lookupS sid (setS sid s l) = some s := by
  induction l with
  | nil => simp [setS, lookupS]
  | cons x r ih =>
    obtain ⟨i, y⟩ := x
    simp only [setS]
    by_cases h : i = sid
    · simp [h, lookupS]
    · simp [h, lookupS, ih]

theorem setS_setS (sid : Nat) (s s' : Stream) (l : List (Nat × Stream)) :
    setS sid s' (setS sid s l) = setS sid s' l := by
  induction l with
  | nil => simp [setS]
  | cons x r ih =>
    obtain ⟨i, y⟩ := x
    simp only [setS]
    by_cases h : i = sid
    · simp [h, setS]
    · simp [h, setS, ih]

/-- the `H3Stream` that `_get_or_create_stream(stream_id)` yields -/
def streamOf (c : Conn σ) (sid : Nat) : Stream :=
  match lookupS sid c.streams with
  | some s => s
  | none => Stream.new sid

/-- `handle_event(StreamDataReceived)` for a request (bidirectional) stream -/
theorem handleEvent_bidi (c : Conn σ) (hnd : c.isDone = false) (sid : Nat) (hb : isUni sid = false)
    (d : Bytes) (f : Bool) :
    handleEvent o c (.streamData sid d f) =
      match recvReq o c.cfg (streamOf c sid) c.q d f with
      | .error (.h3 code) => .ok ({ c with isDone := true, closeCode := some code }, [])
      | .error e => .error e
      | .ok (s1, q1, evs) => .ok (popIfEnded { c with q := q1, streams := setS sid s1 c.streams } sid, evs) := by
  unfold handleEvent dispatch recvStreamData streamOf
  simp only [hnd, Bool.false_eq_true, ↓reduceIte, hb, setS_setS]
  generalize recvReq o c.cfg _ c.q d f = R
  cases R with
  | error e => cases e <;> rfl
  | ok v => obtain ⟨s1, q1, evs⟩ := v; rfl

/-- deliveries of one stream through `handle_event`, events concatenated -/
def feedConn (c : Conn σ) (sid : Nat) : List (Bytes × Bool) → Outcome (Conn σ × List Event)
  | [] => .ok (c, [])
  | (d, f) :: r =>
    match handleEvent o c (.streamData sid d f) with
    | .error e => .error e
    | .ok (c1, ev1) =>
      match feedConn c1 sid r with
      | .error e => .error e
      | .ok (c2, ev2) => .ok (c2, ev1 ++ ev2)

theorem feedConn_done (c : Conn σ) (hd : c.isDone = true) (sid : Nat) (D : List (Bytes × Bool)) :
    feedConn o c sid D = .ok (c, []) := by
  induction D with
  | nil => rfl
  | cons x r ih =>
    obtain ⟨d, f⟩ := x
    simp [feedConn, handleEvent, hd, ih]

theorem popIfEnded_notEnded (c : Conn σ) (sid : Nat) (s : Stream) (hl : lookupS sid c.streams = some s)
    (h : s.receivingEnded = false) : popIfEnded c sid = c := by
  unfold popIfEnded
  simp [hl, Stream.isEnded, h]


/-- what the connection looks like after a run of the stream parser -/
def connAfter (c : Conn σ) (sid : Nat) (s' : Stream) (q' : σ) : Conn σ :=
  popIfEnded { c with q := q', streams := setS sid s' c.streams } sid

/-- `feedConn` in terms of `feedAll` (non-final deliveries carry no FIN) -/
theorem feedConn_spec (sid : Nat) (hb : isUni sid = false) (last : Bytes) (fin : Bool) :
    ∀ (chunks : List Bytes) (c : Conn σ), c.isDone = false → (streamOf c sid).receivingEnded = false →
    match feedAll o c.cfg (streamOf c sid) c.q (chunks.map (·, false) ++ [(last, fin)]) with
    | .ok (s', q', evs) =>
      feedConn o c sid (chunks.map (·, false) ++ [(last, fin)]) = .ok (connAfter c sid s' q', evs)
    | .error e =>
      (∃ code, e = .h3 code ∧ ∃ c' ev, feedConn o c sid (chunks.map (·, false) ++ [(last, fin)]) = .ok (c', ev) ∧
        c'.isDone = true ∧ c'.closeCode = some code) ∨
      ((∀ code, e ≠ .h3 code) ∧ feedConn o c sid (chunks.map (·, false) ++ [(last, fin)]) = .error e) := by
  intro chunks
  induction chunks with
  | nil =>
    intro c hnd hre
    simp only [List.map_nil, List.nil_append, feedAll_single, feedConn]
    rw [handleEvent_bidi o c hnd sid hb]
    cases hr : recvReq o c.cfg (streamOf c sid) c.q last fin with
    | error e =>
      cases e with
      | h3 code => exact .inl ⟨code, rfl, _, _, rfl, rfl, rfl⟩
      | _ => exact .inr ⟨(by intro code h; cases h), rfl⟩
    | ok v => obtain ⟨s1, q1, evs⟩ := v; simp [connAfter]
  | cons ch cs ih =>
    intro c hnd hre
    simp only [List.map_cons, List.cons_append, feedAll, feedConn]
    rw [handleEvent_bidi o c hnd sid hb]
    cases hr : recvReq o c.cfg (streamOf c sid) c.q ch false with
    | error e =>
      simp only [andThen]
      cases e with
      | h3 code =>
        dsimp only
        rw [feedConn_done o _ rfl]
        exact .inl ⟨code, rfl, _, _, rfl, rfl, rfl⟩
      | _ => exact .inr ⟨(by intro code h; cases h), rfl⟩
    | ok v =>
      obtain ⟨s1, q1, ev1⟩ := v
      have hre1 : s1.receivingEnded = false := by
        have := recvReq_re o c.cfg _ _ _ _ _ _ _ hr
        simpa [hre] using this
      dsimp only
      have hpop : popIfEnded { c with q := q1, streams := setS sid s1 c.streams } sid =
          { c with q := q1, streams := setS sid s1 c.streams } :=
        popIfEnded_notEnded _ sid s1 (lookupS_setS sid s1 c.streams) hre1
      rw [hpop]
      have hso : streamOf ({ c with q := q1, streams := setS sid s1 c.streams } : Conn σ) sid = s1 := by
        simp [streamOf, lookupS_setS]
      have := ih { c with q := q1, streams := setS sid s1 c.streams } hnd (by rw [hso]; exact hre1)
      rw [hso] at this
      dsimp only at this
      simp only [andThen]
      cases hf : feedAll o c.cfg s1 q1 (cs.map (·, false) ++ [(last, fin)]) with
      | error e =>
        rw [hf] at this
        dsimp only at this ⊢
        rcases this with ⟨code, rfl, c', ev, h1, h2, h3⟩ | ⟨hne, h1⟩
        · exact .inl ⟨code, rfl, c', ev1 ++ ev, by rw [h1], h2, h3⟩
        · exact .inr ⟨hne, by rw [h1]⟩
      | ok w =>
        obtain ⟨s', q', evs⟩ := w
        rw [hf] at this
        dsimp only at this ⊢
        rw [this]
        simp [connAfter, setS_setS]

/-- connection-level comparison of two runs: same escaping exception; or both
    return, with the same done flag and close code, and — unless the connection
    was closed — the same connection state and the same normal form of events -/
def CEq (x y : Outcome (Conn σ × List Event)) : Prop :=
  match x, y with
  | .ok (c1, e1), .ok (c2, e2) =>
    c1.isDone = c2.isDone ∧ c1.closeCode = c2.closeCode ∧ (c2.isDone = false → c1 = c2 ∧ NEq e1 e2)
  | .error a, .error b => a = b
  | _, _ => False

theorem popIfEnded_isDone (c : Conn σ) (sid : Nat) : (popIfEnded c sid).isDone = c.isDone := by
  unfold popIfEnded
  split
  · split <;> rfl
  · rfl

theorem popIfEnded_closeCode (c : Conn σ) (sid : Nat) : (popIfEnded c sid).closeCode = c.closeCode := by
  unfold popIfEnded
  split
  · split <;> rfl
  · rfl

theorem conn_chunk_independent (c : Conn σ)
    (ht : c.cfg.k.truncatedNoError = false) (hsil : c.cfg.k.silentFrameNoEnd = false)
    (hlog : c.cfg.k.logDecode = false) (hnd : c.isDone = false) (sid : Nat) (hb : isUni sid = false)
    (hs : Fresh (streamOf c sid)) (chunks : List Bytes) (last : Bytes) (fin : Bool) :
    CEq (feedConn o c sid (chunks.map (·, false) ++ [(last, fin)]))
        (handleEvent o c (.streamData sid (chunks.flatten ++ last) fin)) := by
  have hspec := feedConn_spec o sid hb last fin chunks c hnd hs.receivingEnded
  have hreq := feedAll_chunks o c.cfg ht hsil hlog hs c.q chunks last fin
  rw [handleEvent_bidi o c hnd sid hb]
  cases hw : recvReq o c.cfg (streamOf c sid) c.q (chunks.flatten ++ last) fin with
  | error e =>
    rw [hw] at hreq
    cases hf : feedAll o c.cfg (streamOf c sid) c.q (chunks.map (·, false) ++ [(last, fin)]) with
    | ok v => obtain ⟨a, b, d⟩ := v; rw [hf] at hreq; simp [REq] at hreq
    | error e' =>
      rw [hf] at hreq hspec
      simp only [REq] at hreq
      subst hreq
      dsimp only at hspec
      rcases hspec with ⟨code, rfl, c', ev, h1, h2, h3⟩ | ⟨hne, h1⟩
      · rw [h1]; simp [CEq, h2, h3]
      · rw [h1]
        cases e' with
        | h3 code => exact absurd rfl (hne code)
        | _ => simp [CEq]
  | ok v =>
    obtain ⟨s', q', evw⟩ := v
    rw [hw] at hreq
    cases hf : feedAll o c.cfg (streamOf c sid) c.q (chunks.map (·, false) ++ [(last, fin)]) with
    | error e' => rw [hf] at hreq; simp [REq] at hreq
    | ok w =>
      obtain ⟨a, b, evc⟩ := w
      rw [hf] at hreq hspec
      simp only [REq] at hreq
      obtain ⟨rfl, rfl, hn⟩ := hreq
      dsimp only at hspec
      rw [hspec]
      simp only [CEq, connAfter, true_and]
      first | exact fun _ => hn | exact fun _ => ⟨rfl, hn⟩ | exact hn

end
end AQ.H3
