/-
  (d) limits never decrease and are raised only by frames actually written;
  the shape of `_get_or_create_stream` (what a refused frame leaves behind).
-/
import AQ.Proofs.FlowRecvRun

namespace AQ.Flow
open AQ AQ.Stream AQ.RangeSet

theorem run_fixedQ {c : Conn} (hq : FixedQ c) (ops : List Op) : FixedQ (runState c ops) := by
  induction ops generalizing c with
  | nil => exact hq
  | cons op ops ih => simp only [runState, List.foldl_cons]; exact ih (hq.step op)

/-! ## per-stream limit, one operation -/

theorem mem_setFirst_of_ne {sid v : Nat} {ps : List (Nat × Nat)} {p : Nat × Nat} (hp : p ∈ ps) (hne : p.1 ≠ sid) :
    p ∈ setFirst sid v ps := by
  induction ps with
  | nil => simp at hp
  | cons q qs ih =>
    unfold setFirst
    rcases List.mem_cons.mp hp with h | h
    · subst h
      have : (p.1 == sid) = false := by simpa using hne
      simp [this]
    · split
      · exact List.mem_cons_of_mem _ h
      · exact List.mem_cons_of_mem _ (ih h)

theorem mem_setFirst_self {sid v : Nat} {ps : List (Nat × Nat)} (hk : sid ∈ ps.map (·.1)) :
    (sid, v) ∈ setFirst sid v ps := by
  induction ps with
  | nil => simp at hk
  | cons q qs ih =>
    unfold setFirst
    split
    · exact List.mem_cons_self
    · rename_i hq
      simp at hq
      simp only [List.map_cons, List.mem_cons] at hk
      rcases hk with h | h
      · exact absurd h.symm hq
      · exact List.mem_cons_of_mem _ (ih h)

theorem key_unique {ps : List (Nat × Nat)} (hnd : (ps.map (·.1)).Nodup) {p q : Nat × Nat}
    (hp : p ∈ ps) (hq : q ∈ ps) (hk : p.1 = q.1) : p = q := by
  induction ps with
  | nil => simp at hp
  | cons x xs ih =>
    simp only [List.map_cons, List.nodup_cons] at hnd
    rcases List.mem_cons.mp hp with h1 | h1 <;> rcases List.mem_cons.mp hq with h2 | h2
    · rw [h1, h2]
    · exfalso; apply hnd.1; rw [← h1, hk]; exact List.mem_map.mpr ⟨q, h2, rfl⟩
    · exfalso; apply hnd.1; rw [← h2, ← hk]; exact List.mem_map.mpr ⟨p, h1, rfl⟩
    · exact ih hnd.2 h1 h2

/-- what one operation does to the limit of a live stream `(sid, m)`: the stream
    is discarded, or it is still there with a limit `m' ≥ m`; `m' > m` only
    together with the MAX_STREAM_DATA frame carrying `m'`, and every
    MAX_STREAM_DATA frame written for the stream carries the new limit -/
def StreamLimStep (c' : Conn) (out : Out) (p : Nat × Nat) : Prop :=
  p.1 ∈ c'.finishedIds ∨
  ∃ m', (p.1, m') ∈ ml c'.streams ∧ p.2 ≤ m' ∧ (p.2 < m' → MSD out p.1 m') ∧ ∀ v, MSD out p.1 v → v = m'

theorem MLStep.streamLim {c c' : Conn} {out : Out} (hnd : ((ml c.streams).map (·.1)).Nodup)
    (hs : MLStep c c' out) : ∀ p ∈ ml c.streams, StreamLimStep c' out p := by
  intro p hp
  cases hs with
  | same cfg hml hfin hno =>
    exact .inr ⟨p.2, by rw [hml]; exact hp, Nat.le_refl _, by omega, fun v hv => absurd hv (hno _ _)⟩
  | add cfg sid hml hnone hnf hfin hno =>
    exact .inr ⟨p.2, by rw [hml]; exact List.mem_append_left _ hp, Nat.le_refl _, by omega,
      fun v hv => absurd hv (hno _ _)⟩
  | discard cfg sid st hf hdone hml hfin hno =>
    by_cases hk : p.1 = sid
    · left; rw [hfin, hk]; exact List.mem_cons_self
    · right
      refine ⟨p.2, ?_, Nat.le_refl _, by omega, fun v hv => absurd hv (hno _ _)⟩
      rw [hml]; exact List.mem_filter.mpr ⟨hp, by simpa using hk⟩
  | raise cfg sid m v hf hle hml hfin hfr =>
    right
    by_cases hk : p.1 = sid
    · have hpe : p = (sid, m) := key_unique hnd hp hf hk
      subst hpe
      refine ⟨v, ?_, hle, fun _ => (hfr _ _).mpr ⟨rfl, rfl⟩, fun w hw => ((hfr _ _).mp hw).2⟩
      rw [hml]; exact mem_setFirst_self (List.mem_map.mpr ⟨_, hf, rfl⟩)
    · refine ⟨p.2, ?_, Nat.le_refl _, by omega, fun w hw => absurd ((hfr _ _).mp hw).1 hk⟩
      rw [hml]; exact mem_setFirst_of_ne hp hk

/-! ## the shape of `_get_or_create_stream` -/

/-- a stream object that has just been created for a peer-initiated id -/
structure NewStream (c c' : Conn) (sid : Nat) (st : Strm) : Prop where
  hnone : c.find? sid = none
  hsid : st.sid = sid
  recv : st.recv = {}
  maxLocal : st.maxLocal = initLocal c sid
  streams : c'.streams = c.streams ++ [st]
  lmd : c'.localMaxData = c.localMaxData
  fin : c'.finishedIds = c.finishedIds
  gone : c'.goneRecv = c.goneRecv
  bidi : c'.localMaxStreamsBidi.value = c.localMaxStreamsBidi.value
  uni : c'.localMaxStreamsUni.value = c.localMaxStreamsUni.value

/-- the value of the stream-count limit that applies to `sid` -/
def countLimit (c : Conn) (sid : Nat) : Nat :=
  if unidirectional sid then c.localMaxStreamsUni.value else c.localMaxStreamsBidi.value

/-- complete case list of `_get_or_create_stream` -/
theorem getOrCreateStream_cases (c : Conn) (sid : Nat) :
    (sid ∈ c.finishedIds ∧ getOrCreateStream c sid = .error .finished) ∨
    (sid ∉ c.finishedIds ∧ ∃ st, c.find? sid = some st ∧ getOrCreateStream c sid = .ok (c, st)) ∨
    (sid ∉ c.finishedIds ∧ c.find? sid = none ∧ clientInitiated sid = c.isClient ∧
      getOrCreateStream c sid = .error (.conn STREAM_STATE_ERROR)) ∨
    (sid ∉ c.finishedIds ∧ c.find? sid = none ∧ clientInitiated sid ≠ c.isClient ∧
      sid / 4 + 1 > countLimit c sid ∧ getOrCreateStream c sid = .error (.conn STREAM_LIMIT_ERROR)) ∨
    (sid ∉ c.finishedIds ∧ c.find? sid = none ∧ clientInitiated sid ≠ c.isClient ∧
      sid / 4 + 1 ≤ countLimit c sid ∧
      ∃ c' st, getOrCreateStream c sid = .ok (c', st) ∧ NewStream c c' sid st) := by
  unfold getOrCreateStream countLimit
  by_cases hfin : sid ∈ c.finishedIds
  · left; simp [hfin]
  · right
    cases hf : c.find? sid with
    | some st => left; simp [hfin]
    | none =>
      right
      by_cases hi : clientInitiated sid = c.isClient
      · left; simp [hfin, hi]
      · right
        have hloc : (clientInitiated sid == c.isClient) = false := by simpa using hi
        by_cases hu : unidirectional sid = true
        · by_cases hl : sid / 4 + 1 > c.localMaxStreamsUni.value
          · left; simp [hfin, hi, hu, hl]
          · right
            simp only [hfin, hi, hu, hl, hloc, if_true, if_false, not_false_eq_true, true_and, ne_eq,
              List.contains_eq_mem, decide_false, Bool.false_eq_true]
            refine ⟨by omega, _, _, rfl, ?_⟩
            refine ⟨hf, rfl, rfl, ?_, rfl, rfl, rfl, rfl, rfl, ?_⟩
            · simp [Strm.create, initLocal, hloc, hu]
            · simp only []; split <;> rfl
        · by_cases hl : sid / 4 + 1 > c.localMaxStreamsBidi.value
          · left; simp [hfin, hi, hu, hl]
          · right
            simp only [hfin, hi, hu, hl, hloc, if_true, if_false, not_false_eq_true, true_and, ne_eq,
              List.contains_eq_mem, decide_false, Bool.false_eq_true]
            refine ⟨by omega, _, _, rfl, ?_⟩
            refine ⟨hf, rfl, rfl, ?_, rfl, rfl, rfl, rfl, ?_, rfl⟩
            · simp [Strm.create, initLocal, hloc, hu]
            · simp only []; split <;> rfl

/-- what a refused frame may leave behind: nothing, or the empty stream object
    that `_get_or_create_stream` created before the check failed -/
def LookupOnly (c c' : Conn) (sid : Nat) : Prop := c' = c ∨ ∃ st, NewStream c c' sid st

end AQ.Flow
