import AQ.Proofs.TlsMachine
import AQ.Model.TlsSpec
/-
  Invariant of the client side of the generated machine over ALL message
  sequences (helper for AQ.Props.C11 / C03).  Facts about the generated lists
  are `decide`d; everything else goes through the generic interpreter lemmas.
-/
namespace AQ.Tls
open AQ.Gen.Tls AQ.TlsSpec

theorem stepMsg_cfg (env : Env) (c : Cfg) (t : HT) :
    (stepMsg env c t).1 = c ∨
    ∃ f, handlerFor c.st t = some f ∧ (stepMsg env c t).1 = applyAll c (exec env (flat f)).1 := by
  unfold stepMsg
  split
  · left; rfl
  · rename_i f hf
    right; exact ⟨f, hf, rfl⟩

theorem mem_log_mono (c : Cfg) (p : List Act) (a : Act) (h : a ∈ c.log) : a ∈ (applyAll c p).log := by
  rw [applyAll_log]; exact List.mem_append_left _ h

theorem mem_log_new (c : Cfg) (p : List Act) (a : Act) (h : a ∈ p) : a ∈ (applyAll c p).log := by
  rw [applyAll_log]; exact List.mem_append_right _ h

/-! ### decided facts about the generated step lists -/

def setsState : Act → Option St | .setState s => some s | _ => none
def setsAttr (x : Attr) : Act → Option AVal
  | .setAttr y v => if y = x then some v else none
  | _ => none

theorem setsState_eq (a : Act) (s : St) (h : a = .setState s) : setsState a = some s := by simp [h, setsState]
theorem setsAttr_eq (a : Act) (x : Attr) (v : AVal) (h : a = .setAttr x v) : setsAttr x a = some v := by
  simp [h, setsAttr]

/-- the handlers of the client role -/
def clientFn : Fn → Bool
  | .client_send_hello | .client_handle_hello | .client_handle_encrypted_extensions
  | .client_handle_certificate_request | .client_handle_certificate | .client_handle_certificate_verify
  | .client_handle_finished | .client_handle_new_session_ticket => true
  | _ => false

theorem client_handlers' : ∀ s t, isClientState s = true → (handlerFor s t).all clientFn = true := by
  intro s t; cases s <;> cases t <;> decide

theorem client_handlers (s : St) (t : HT) (f : Fn) (hs : isClientState s = true)
    (hf : handlerFor s t = some f) : clientFn f = true := by
  have := client_handlers' s t hs; rw [hf] at this; simpa using this

/-- a client handler only sets client states -/
theorem client_closed' : ∀ f : Fn, clientFn f = true →
    ∀ x ∈ flat f, (setsState x.act).all isClientState = true := by
  intro f; cases f <;> decide

theorem client_closed (f : Fn) (s : St) (t : HT) (hs : isClientState s = true) (hf : handlerFor s t = some f)
    (x : Step) (hx : x ∈ flat f) (s' : St) (ha : x.act = .setState s') : isClientState s' = true := by
  have := client_closed' f (client_handlers s t f hs hf) x hx
  simpa [setsState_eq _ _ ha] using this

theorem setState_fin_sources : ∀ f : Fn, ∀ s ∈ flat f, s.act = .setState .CLIENT_EXPECT_FINISHED →
    (f = .client_handle_encrypted_extensions ∧ s.cond = [(.ee_resumed, true)]) ∨
    f = .client_handle_certificate_verify := by
  intro f; cases f <;> decide

theorem setState_post_sources : ∀ f : Fn, ∀ s ∈ flat f, s.act = .setState .CLIENT_POST_HANDSHAKE →
    f = .client_handle_finished := by
  intro f; cases f <;> decide

theorem finished_from : ∀ s t, handlerFor s t = some .client_handle_finished → s = .CLIENT_EXPECT_FINISHED := by
  intro s t; cases s <;> cases t <;> decide

theorem cv_dom : domOK (fun a => a == .verifySig) (fun a => a == .setState .CLIENT_EXPECT_FINISHED)
    (flat .client_handle_certificate_verify) = true := by decide

theorem fin_dom : domOK isVerifyFinished (fun a => a == .setState .CLIENT_POST_HANDSHAKE)
    (flat .client_handle_finished) = true := by decide

/-- `_session_resumed` is only ever assigned the literal `True` -/
theorem resumed_vals' : ∀ f : Fn, ∀ s ∈ flat f, (setsAttr .session_resumed s.act).all (· == .true) = true := by
  intro f; cases f <;> decide

theorem resumed_vals (f : Fn) (s : Step) (hs : s ∈ flat f) (v : AVal) (ha : s.act = .setAttr .session_resumed v) :
    v = .true := by
  have := resumed_vals' f s hs
  simpa [setsAttr_eq _ _ _ ha] using this

/-- among the handlers reachable from client states only the ServerHello
    handler assigns `_session_resumed`, in the branch `pre_shared_key is not None` -/
theorem resumed_sources' : ∀ f : Fn, clientFn f = true →
    ∀ x ∈ flat f, (setsAttr .session_resumed x.act).isSome = true →
      f = .client_handle_hello ∧ x.cond = [(.ch_psk_selected, true)] := by
  intro f; cases f <;> decide

theorem resumed_sources (f : Fn) (s : St) (t : HT) (hs : isClientState s = true) (hf : handlerFor s t = some f)
    (x : Step) (hx : x ∈ flat f) (v : AVal) (ha : x.act = .setAttr .session_resumed v) :
    f = .client_handle_hello ∧ x.cond = [(.ch_psk_selected, true)] :=
  resumed_sources' f (client_handlers s t f hs hf) x hx (by simp [setsAttr_eq _ _ _ ha])

theorem ks_psk_vals' : ∀ f : Fn, ∀ s ∈ flat f,
    (setsAttr .key_schedule_psk s.act).all (fun v => v == .none || v == .other) = true := by
  intro f; cases f <;> decide

theorem ks_psk_vals (f : Fn) (s : Step) (hs : s ∈ flat f) (v : AVal) (ha : s.act = .setAttr .key_schedule_psk v) :
    v = .none ∨ v = .other := by
  have := ks_psk_vals' f s hs
  simpa [setsAttr_eq _ _ _ ha] using this

/-! ### a `raise` guarded by two tests blocks what follows when both hold -/

def isRaise : Act → Bool | .raise _ => true | _ => false

def blockedBy (t1 t2 : Test) (sens : Act → Bool) : List Step → Bool
  | [] => true
  | s :: rest =>
    if isRaise s.act && s.cond == [(t1, true), (t2, true)] then true
    else !sens s.act && blockedBy t1 t2 sens rest

theorem blocked_sound (t1 t2 : Test) (sens : Act → Bool) (env : Env) (l : List Step)
    (h : blockedBy t1 t2 sens l = true) (h1 : env.test t1 = true) (h2 : env.test t2 = true) :
    ∀ a ∈ (exec env l).1, sens a = false := by
  induction l with
  | nil => simp [exec, enabled, execU]
  | cons s rest ih =>
    unfold exec enabled at ih ⊢
    simp only [List.filter_cons]
    unfold blockedBy at h
    by_cases hb : (isRaise s.act && s.cond == [(t1, true), (t2, true)]) = true
    · simp only [Bool.and_eq_true, beq_iff_eq] at hb
      have hc : condHolds env s = true := by simp [condHolds, hb.2, h1, h2]
      simp only [hc, ↓reduceIte]
      unfold execU
      have : ∃ x, s.act = .raise x := by
        cases hs : s.act <;> simp [hs, isRaise] at hb ⊢
      rcases this with ⟨x, hx⟩
      simp [failure, hx]
    · simp only [hb, Bool.false_eq_true, ↓reduceIte, Bool.and_eq_true, Bool.not_eq_eq_eq_not,
        Bool.not_true] at h
      by_cases hc : condHolds env s = true
      · simp only [hc, ↓reduceIte]
        unfold execU
        cases failure env s with
        | some e => simp
        | none =>
          by_cases hr : s.act = .ret
          · simp [hr]
          · simp only [hr, ↓reduceIte, List.mem_cons, forall_eq_or_imp]
            exact ⟨h.1, ih h.2⟩
      · simp only [hc, Bool.false_eq_true, ↓reduceIte]
        exact ih h.2

theorem hello_blocked : blockedBy .ch_psk_selected .ch_psk_reject
    (fun a => a == .setAttr .session_resumed .true) (flat .client_handle_hello) = true := by decide

/-! ### the invariant -/

/-- the client hello offered a PSK: `_key_schedule_psk` was created -/
def PskOffered (log : List Act) : Prop := .setAttr .key_schedule_psk .other ∈ log

structure ClientInv (c : Cfg) : Prop where
  client : isClientState c.st = true
  /-- waiting for Finished: the CertificateVerify signature was verified, or a PSK was accepted -/
  fin : c.st = .CLIENT_EXPECT_FINISHED → .verifySig ∈ c.log ∨ c.attr .session_resumed = .true
  /-- completed: Finished was verified, after the signature (or with a PSK) -/
  post : c.st = .CLIENT_POST_HANDSHAKE → ∃ pre a post, c.log = pre ++ .verifyFinished a :: post ∧
      (.verifySig ∈ pre ∨ c.attr .session_resumed = .true)
  resumed : c.attr .session_resumed = .true → PskOffered c.log
  psk : c.attr .key_schedule_psk ≠ .none → PskOffered c.log

theorem clientInv_init : ClientInv initClient := by
  refine ⟨rfl, ?_, ?_, ?_, ?_⟩ <;> simp [initClient, initAttr]

theorem resumed_stable (c : Cfg) (f : Fn) (env : Env)
    (h : c.attr .session_resumed = .true) :
    (applyAll c (exec env (flat f)).1).attr .session_resumed = .true := by
  rcases applyAll_attr c (exec env (flat f)).1 .session_resumed with h1 | h1
  · rw [h1, h]
  · rcases exec_mem env (flat f) _ h1 with ⟨s, hs, ha, _⟩
    exact resumed_vals f s hs _ ha

theorem mem_split {α} {a : α} {l : List α} (h : a ∈ l) : ∃ pre post, l = pre ++ a :: post :=
  List.append_of_mem h

theorem condHolds_single (env : Env) (s : Step) (t : Test) (b : Bool) (hc : s.cond = [(t, b)])
    (h : condHolds env s = true) : env.test t = b := by
  simpa [condHolds, hc] using h

/-- one message preserves the client invariant -/
theorem clientInv_step (env : Env) (c : Cfg) (t : HT) (hi : ClientInv c) (he : EnvOK c env) :
    ClientInv (stepMsg env c t).1 := by
  rcases stepMsg_cfg env c t with h | ⟨f, hf, h⟩
  · rw [h]; exact hi
  rw [h]
  -- abbreviations
  have hmem := exec_mem env (flat f)
  have hlog := applyAll_log c (exec env (flat f)).1
  refine ⟨?_, ?_, ?_, ?_, ?_⟩
  · -- stays a client state
    rcases applyAll_st c (exec env (flat f)).1 with h1 | h1
    · rw [h1]; exact hi.client
    · rcases hmem _ h1 with ⟨s, hs, ha, _⟩
      exact client_closed f c.st t hi.client hf s hs _ ha
  · -- EXPECT_FINISHED
    intro hst
    rcases applyAll_st c (exec env (flat f)).1 with h1 | h1
    · rcases hi.fin (h1 ▸ hst) with h2 | h2
      · left; exact mem_log_mono _ _ _ h2
      · right; exact resumed_stable c f env h2
    · rw [hst] at h1
      rcases hmem _ h1 with ⟨s, hs, ha, hc⟩
      rcases setState_fin_sources f s hs ha with ⟨hf1, hcond⟩ | hf1
      · -- EncryptedExtensions handler, branch `if self._session_resumed`
        right
        have ht := condHolds_single env s _ _ hcond hc
        have : c.attr .session_resumed = .true := by
          have := he.resumed; rw [ht] at this; simpa using this.symm
        exact resumed_stable c f env this
      · -- CertificateVerify handler: the signature check dominates the transition
        left
        subst hf1
        rcases mem_split h1 with ⟨pre, post, hp⟩
        have hd := dom_sound (fun a => a == .verifySig) (fun a => a == .setState .CLIENT_EXPECT_FINISHED)
          (by intro a h; simp at h; simp [h]) env _ cv_dom
        rcases hd pre _ post hp (by simp) with ⟨g, hg1, hg2⟩
        have : g = .verifySig := by simpa using hg2
        subst this
        apply mem_log_new; rw [hp]; simp [hg1]
  · -- POST_HANDSHAKE
    intro hst
    rcases applyAll_st c (exec env (flat f)).1 with h1 | h1
    · rcases hi.post (h1 ▸ hst) with ⟨pre, a, post, hl, h2⟩
      refine ⟨pre, a, post ++ (exec env (flat f)).1, ?_, ?_⟩
      · rw [hlog, hl]; simp
      · rcases h2 with h2 | h2
        · left; exact h2
        · right; exact resumed_stable c f env h2
    · rw [hst] at h1
      rcases hmem _ h1 with ⟨s, hs, ha, hc⟩
      have hf1 := setState_post_sources f s hs ha
      subst hf1
      have hfrom := finished_from c.st t hf
      rcases mem_split h1 with ⟨pre, post, hp⟩
      have hd := dom_sound isVerifyFinished (fun a => a == .setState .CLIENT_POST_HANDSHAKE)
        (by intro a h; cases a <;> simp [isVerifyFinished] at h ⊢) env _ fin_dom
      rcases hd pre _ post hp (by simp) with ⟨g, hg1, hg2⟩
      have : ∃ a, g = .verifyFinished a := by
        cases g <;> simp [isVerifyFinished] at hg2; exact ⟨_, rfl⟩
      rcases this with ⟨a, rfl⟩
      rcases mem_split hg1 with ⟨q1, q2, hq⟩
      refine ⟨c.log ++ q1, a, q2 ++ .setState .CLIENT_POST_HANDSHAKE :: post, ?_, ?_⟩
      · rw [hlog, hp, hq]; simp
      · rcases hi.fin hfrom with h2 | h2
        · left; simp [h2]
        · right; exact resumed_stable c _ env h2
  · -- resumed -> a PSK was offered
    intro hr
    rcases applyAll_attr c (exec env (flat f)).1 .session_resumed with h1 | h1
    · have := hi.resumed (h1 ▸ hr)
      exact mem_log_mono _ _ _ this
    · rcases hmem _ h1 with ⟨s, hs, ha, hc⟩
      rcases resumed_sources f c.st t hi.client hf s hs _ ha with ⟨hf1, hcond⟩
      subst hf1
      have hsel := condHolds_single env s _ _ hcond hc
      -- the reject test was false, else the raise before the assignment blocks it
      have hrej : env.test .ch_psk_reject = false := by
        cases hrj : env.test .ch_psk_reject with
        | false => rfl
        | true =>
          have := blocked_sound _ _ _ env _ hello_blocked hsel hrj _ h1
          rw [hr] at this; simp at this
      have hne : c.attr .key_schedule_psk ≠ .none := by
        intro hn; have := he.pskNone hn; rw [hrej] at this; cases this
      exact mem_log_mono _ _ _ (hi.psk hne)
  · -- _key_schedule_psk not None -> it was created by the hello sender
    intro hne
    rcases applyAll_attr c (exec env (flat f)).1 .key_schedule_psk with h1 | h1
    · exact mem_log_mono _ _ _ (hi.psk (h1 ▸ hne))
    · rcases hmem _ h1 with ⟨s, hs, ha, _⟩
      rcases ks_psk_vals f s hs _ ha with hv | hv
      · exact absurd hv hne
      · unfold PskOffered; rw [hv] at h1; exact mem_log_new _ _ _ h1

/-- the invariant holds after ANY message sequence -/
theorem clientInv_run (c : Cfg) (l : List (HT × Env)) (hi : ClientInv c) (hc : Consistent c l) :
    ClientInv (run c l) := by
  induction l generalizing c with
  | nil => exact hi
  | cons x rest ih =>
    rcases x with ⟨t, env⟩
    exact ih _ (clientInv_step env c t hi hc.1) hc.2


/-! ### server side -/

theorem setState_spost_sources : ∀ f : Fn, ∀ s ∈ flat f, s.act = .setState .SERVER_POST_HANDSHAKE →
    f = .server_handle_finished := by
  intro f; cases f <;> decide

theorem sfin_dom : domOK isVerifyFinished (fun a => a == .setState .SERVER_POST_HANDSHAKE)
    (flat .server_handle_finished) = true := by decide

def ServerInv (c : Cfg) : Prop :=
  c.st = .SERVER_POST_HANDSHAKE → ∃ a, .verifyFinished a ∈ c.log

theorem serverInv_step (env : Env) (c : Cfg) (t : HT) (hi : ServerInv c) :
    ServerInv (stepMsg env c t).1 := by
  rcases stepMsg_cfg env c t with h | ⟨f, hf, h⟩
  · rw [h]; exact hi
  rw [h]
  intro hst
  rcases applyAll_st c (exec env (flat f)).1 with h1 | h1
  · rcases hi (h1 ▸ hst) with ⟨a, ha⟩
    exact ⟨a, mem_log_mono _ _ _ ha⟩
  · rw [hst] at h1
    rcases exec_mem env (flat f) _ h1 with ⟨s, hs, ha, _⟩
    have hf1 := setState_spost_sources f s hs ha
    subst hf1
    rcases mem_split h1 with ⟨pre, post, hp⟩
    have hd := dom_sound isVerifyFinished (fun a => a == .setState .SERVER_POST_HANDSHAKE)
      (by intro a h; cases a <;> simp [isVerifyFinished] at h ⊢) env _ sfin_dom
    rcases hd pre _ post hp (by simp) with ⟨g, hg1, hg2⟩
    have : ∃ a, g = .verifyFinished a := by
      cases g <;> simp [isVerifyFinished] at hg2; exact ⟨_, rfl⟩
    rcases this with ⟨a, rfl⟩
    exact ⟨a, mem_log_new _ _ _ (by rw [hp]; simp [hg1])⟩

theorem serverInv_run (c : Cfg) (l : List (HT × Env)) (hi : ServerInv c) : ServerInv (run c l) := by
  induction l generalizing c with
  | nil => exact hi
  | cons x rest ih => rcases x with ⟨t, env⟩; exact ih _ (serverInv_step env c t hi)

/-! ### application keys of the client -/

theorem onertt_sources : ∀ f : Fn, clientFn f = true →
    ∀ x ∈ flat f, (x.act == .releaseKey .DECRYPT .ONE_RTT || x.act == .releaseKey .ENCRYPT .ONE_RTT) = true →
      f = .client_handle_finished := by
  intro f; cases f <;> decide

theorem fin_key_dom (d : Dir) : domOK isVerifyFinished (fun a => a == .releaseKey d .ONE_RTT)
    (flat .client_handle_finished) = true := by cases d <;> decide

theorem append_split {α} (l p pre post : List α) (x : α) (h : l ++ p = pre ++ x :: post) :
    (∃ post', l = pre ++ x :: post' ∧ post = post' ++ p) ∨ (∃ p1, pre = l ++ p1 ∧ p = p1 ++ x :: post) := by
  rcases List.append_eq_append_iff.mp h with ⟨a', h1, h2⟩ | ⟨c', h1, h2⟩
  · right; exact ⟨a', h1, h2⟩
  · cases c' with
    | nil => right; refine ⟨[], by simpa using h1.symm, by simpa using h2.symm⟩
    | cons y ys =>
      simp only [List.cons_append, List.cons.injEq] at h2
      left; exact ⟨ys, by rw [h1, h2.1], h2.2⟩

/-- every release of a 1-RTT secret in the log comes after a verified Finished
    and after a verified CertificateVerify (or with an accepted PSK) -/
def KeyInv (c : Cfg) : Prop :=
  ∀ pre d post, c.log = pre ++ .releaseKey d .ONE_RTT :: post →
    (∃ a, .verifyFinished a ∈ pre) ∧ (.verifySig ∈ pre ∨ c.attr .session_resumed = .true)

theorem keyInv_step (env : Env) (c : Cfg) (t : HT) (hi : ClientInv c) (hk : KeyInv c) :
    KeyInv (stepMsg env c t).1 := by
  rcases stepMsg_cfg env c t with h | ⟨f, hf, h⟩
  · rw [h]; exact hk
  rw [h]
  intro pre d post hl
  rw [applyAll_log] at hl
  rcases append_split _ _ _ _ _ hl with ⟨post', h1, _⟩ | ⟨p1, h1, h2⟩
  · rcases hk pre d post' h1 with ⟨hv, hs⟩
    refine ⟨hv, ?_⟩
    rcases hs with hs | hs
    · left; exact hs
    · right; exact resumed_stable c f env hs
  · have hin : Act.releaseKey d .ONE_RTT ∈ (exec env (flat f)).1 := by rw [h2]; simp
    rcases exec_mem env (flat f) _ hin with ⟨s, hs, ha, _⟩
    have hf1 := onertt_sources f (client_handlers _ _ _ hi.client hf) s hs (by cases d <;> simp [ha])
    subst hf1
    have hfrom := finished_from c.st t hf
    have hd := dom_sound isVerifyFinished (fun a => a == .releaseKey d .ONE_RTT)
      (by intro a h; cases a <;> simp [isVerifyFinished] at h ⊢) env _ (fin_key_dom d)
    rcases hd p1 _ post h2 (by simp) with ⟨g, hg1, hg2⟩
    have : ∃ a, g = .verifyFinished a := by
      cases g <;> simp [isVerifyFinished] at hg2; exact ⟨_, rfl⟩
    rcases this with ⟨a, rfl⟩
    refine ⟨⟨a, by rw [h1]; simp [hg1]⟩, ?_⟩
    rcases hi.fin hfrom with h3 | h3
    · left; rw [h1]; simp [h3]
    · right; exact resumed_stable c _ env h3

theorem keyInv_run (c : Cfg) (l : List (HT × Env)) (hi : ClientInv c) (hk : KeyInv c)
    (hc : Consistent c l) : KeyInv (run c l) := by
  induction l generalizing c with
  | nil => exact hk
  | cons x rest ih =>
    rcases x with ⟨t, env⟩
    exact ih _ (clientInv_step env c t hi hc.1) (keyInv_step env c t hi hk) hc.2

end AQ.Tls
