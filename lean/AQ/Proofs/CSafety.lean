import AQ.Base.CIR
import AQ.Proofs.CSafetyAttr
/-!
Weakest-precondition style reasoning for the C IR of `AQ/Base/CIR.lean`.

`Safe m s Q` : running `m` from state `s` does not fault and the result
satisfies `Q`.  Every combinator has an `↔` rule tagged `@[csafe]`-style (we
simply collect them in the simp set `csafe` below), so
`simp only [fn, csafe-lemmas]` turns `Safe (translated function) s Q` into a
first-order formula over linear integer arithmetic which `omega` closes leaf
by leaf (`c_safety` macro).
-/
namespace AQ.C

def Safe {α : Type} (m : CM α) (s : St) (Q : α → St → Prop) : Prop :=
  match m s with
  | .ok a s' => Q a s'
  | .fault _ => False

/-- the function does not fault from `s` (whatever it returns) -/
def NoFault {α : Type} (m : CM α) (s : St) : Prop := Safe m s (fun _ _ => True)

@[cnorm] theorem ilt_iff (a b : Int) : ilt a b = true ↔ a < b := by simp [ilt]
@[cnorm] theorem ile_iff (a b : Int) : ile a b = true ↔ a ≤ b := by simp [ile]
@[cnorm] theorem ieq_iff (a b : Int) : ieq a b = true ↔ a = b := by simp [ieq]
@[cnorm] theorem nateq_iff (a b : Nat) : nateq a b = true ↔ a = b := by simp [nateq]
@[cnorm] theorem peq_iff (a b : Ptr) : peq a b = true ↔ a = b := by simp [peq]
@[cnorm] theorem pyeq_iff (a b : PyVal) : pyeq a b = true ↔ a = b := by simp [pyeq]
@[cnorm] theorem u8z_iff (x : UInt8) : u8z x = true ↔ x = 0 := by simp [u8z]

@[cnorm] theorem bnot_true (b : Bool) : (!b) = true ↔ ¬ (b = true) := by cases b <;> simp

theorem Safe.mono {α} {m : CM α} {s : St} {Q R : α → St → Prop}
    (h : Safe m s Q) (hi : ∀ a s', Q a s' → R a s') : Safe m s R := by
  unfold Safe at *; split <;> simp_all

theorem safe_ret {α} (a : α) (s : St) (Q : α → St → Prop) : Safe (ret a) s Q ↔ Q a s := by
  simp [Safe, ret]

theorem safe_val {α} (a : α) (s : St) (Q : α → St → Prop) :
    Safe (val a) s Q ↔ ∀ r, r = a → Q r s := by
  simp [Safe, val, ret]

theorem safe_bnd {α β} (m : CM α) (f : α → CM β) (s : St) (Q : β → St → Prop) :
    Safe (bnd m f) s Q ↔ Safe m s (fun a s' => Safe (f a) s' Q) := by
  unfold Safe bnd; cases m s <;> simp

theorem safe_fault {α} (f : Fault) (s : St) (Q : α → St → Prop) : Safe (fault f : CM α) s Q ↔ False := by
  simp [Safe, fault]

theorem safe_assert (c : Bool) (f : Fault) (s : St) (Q : Unit → St → Prop) :
    Safe (assert c f) s Q ↔ c = true ∧ Q () s := by
  unfold Safe assert; cases c <;> simp

theorem safe_get (s : St) (Q : St → St → Prop) : Safe get s Q ↔ Q s s := by simp [Safe, get]
theorem safe_gets {α} (f : St → α) (s : St) (Q : α → St → Prop) : Safe (gets f) s Q ↔ Q (f s) s := by simp [Safe, gets]
theorem safe_modify (f : St → St) (s : St) (Q : Unit → St → Prop) :
    Safe (modify f) s Q ↔ Q () (f s) := by simp [Safe, modify]

theorem safe_ite {α} (c : Prop) [Decidable c] (a b : CM α) (s : St) (Q : α → St → Prop) :
    Safe (if c then a else b) s Q ↔ (c → Safe a s Q) ∧ (¬c → Safe b s Q) := by
  by_cases h : c <;> simp [h]

theorem safe_chkRd (p : Ptr) (n : Int) (s : St) (Q : Unit → St → Prop) :
    Safe (chkRd p n) s Q ↔ (0 ≤ n ∧ 0 ≤ p.off ∧ p.off + n ≤ s.size p.obj) ∧ Q () s := by
  by_cases h : (0 ≤ n ∧ 0 ≤ p.off ∧ p.off + n ≤ s.size p.obj) <;> simp [Safe, chkRd, inb, h]
theorem safe_chkWr (p : Ptr) (n : Int) (s : St) (Q : Unit → St → Prop) :
    Safe (chkWr p n) s Q ↔ (0 ≤ n ∧ 0 ≤ p.off ∧ p.off + n ≤ s.size p.obj) ∧ Q () s := by
  by_cases h : (0 ≤ n ∧ 0 ≤ p.off ∧ p.off + n ≤ s.size p.obj) <;> simp [Safe, chkWr, inb, h]

theorem safe_rd1 (p : Ptr) (s : St) (Q : Int → St → Prop) :
    Safe (rd1 p) s Q ↔ (0 ≤ p.off ∧ p.off + 1 ≤ s.size p.obj) ∧
      ∀ r : Int, 0 ≤ r → r ≤ 255 → r = ((s.data p.obj p.off).toNat : Int) → Q r s := by
  have hb : ((s.data p.obj p.off).toNat : Int) ≤ 255 := by
    have := (s.data p.obj p.off).toNat_lt
    omega
  by_cases h : (0 ≤ p.off ∧ p.off + 1 ≤ s.size p.obj)
  · have h' : (0:Int) ≤ 1 ∧ 0 ≤ p.off ∧ p.off + 1 ≤ s.size p.obj := ⟨by omega, h⟩
    simp only [Safe, rd1, inb, h', if_true, true_and]
    constructor
    · intro hq r _ _ e; exact e ▸ hq
    · intro hq; exact hq _ (by omega) hb rfl
  · have h' : ¬ ((0:Int) ≤ 1 ∧ 0 ≤ p.off ∧ p.off + 1 ≤ s.size p.obj) := fun x => h x.2
    simp [Safe, rd1, inb, h]

theorem safe_wr1 (p : Ptr) (v : Int) (s : St) (Q : Unit → St → Prop) :
    Safe (wr1 p v) s Q ↔ (0 ≤ p.off ∧ p.off + 1 ≤ s.size p.obj) ∧
      ∀ d : Data, d = s.wr1 p v → Q () { s with data := d } := by
  by_cases h : (0 ≤ p.off ∧ p.off + 1 ≤ s.size p.obj)
  · have h' : (0:Int) ≤ 1 ∧ 0 ≤ p.off ∧ p.off + 1 ≤ s.size p.obj := ⟨by omega, h⟩
    simp only [Safe, wr1, inb, h', if_true, true_and]
    constructor
    · intro hq d e; exact e ▸ hq
    · intro hq; exact hq _ rfl
  · simp [Safe, wr1, inb, h]

theorem safe_setData (f : St → Data) (s : St) (Q : Unit → St → Prop) :
    Safe (setData f) s Q ↔ ∀ d : Data, d = f s → Q () { s with data := d } := by
  simp [Safe, setData]

theorem safe_draw (s : St) (Q : Int → St → Prop) :
    Safe draw s Q ↔ ∀ r, r = s.ora s.tick → Q r { s with tick := s.tick + 1 } := by
  simp [Safe, draw]

theorem safe_drawIn (lo hi : Int) (hl : lo ≤ hi) (s : St) (Q : Int → St → Prop) :
    (∀ r, lo ≤ r → r ≤ hi → Q r { s with tick := s.tick + 1 }) → Safe (drawIn lo hi) s Q := by
  intro h
  simp only [Safe, drawIn]
  apply h <;> split <;> (try split) <;> omega

theorem safe_ldP (k : Nat) (s : St) (Q : Ptr → St → Prop) : Safe (ldP k) s Q ↔ Q (s.pf k) s := by
  simp [Safe, ldP]
theorem safe_ldN (k : Nat) (s : St) (Q : Int → St → Prop) :
    Safe (ldN k) s Q ↔ ∀ r, r = s.nf k → Q r s := by
  simp [Safe, ldN]

theorem bandV_bounds (a b : Int) (ha : 0 ≤ a) (hb : 0 ≤ b) : 0 ≤ bandV a b ∧ bandV a b ≤ a ∧ bandV a b ≤ b := by
  unfold bandV
  have h1 : a.toNat &&& b.toNat ≤ a.toNat := Nat.and_le_left
  have h2 : a.toNat &&& b.toNat ≤ b.toNat := Nat.and_le_right
  omega

theorem safe_band (a b : Int) (s : St) (Q : Int → St → Prop) :
    Safe (band a b) s Q ↔ (0 ≤ a ∧ 0 ≤ b) ∧ ∀ r, 0 ≤ r → r ≤ a → r ≤ b → r = bandV a b → Q r s := by
  unfold band
  rw [safe_bnd, safe_assert, Bool.and_eq_true, ile_iff, ile_iff]
  constructor
  · rintro ⟨h, hq⟩
    rw [safe_ret] at hq
    exact ⟨h, fun r _ _ _ e => e ▸ hq⟩
  · rintro ⟨h, hq⟩
    have := bandV_bounds a b h.1 h.2
    exact ⟨h, (safe_ret _ _ _).2 (hq _ this.1 this.2.1 this.2.2 rfl)⟩

theorem safe_bor (a b : Int) (s : St) (Q : Int → St → Prop) :
    Safe (bor a b) s Q ↔ (0 ≤ a ∧ 0 ≤ b) ∧ ∀ r, 0 ≤ r → r = borV a b → Q r s := by
  unfold bor
  rw [safe_bnd, safe_assert, Bool.and_eq_true, ile_iff, ile_iff]
  constructor
  · rintro ⟨h, hq⟩
    rw [safe_ret] at hq
    exact ⟨h, fun r _ e => e ▸ hq⟩
  · rintro ⟨h, hq⟩
    exact ⟨h, (safe_ret _ _ _).2 (hq _ (by unfold borV; omega) rfl)⟩

theorem safe_bxor (a b : Int) (s : St) (Q : Int → St → Prop) :
    Safe (bxor a b) s Q ↔ (0 ≤ a ∧ 0 ≤ b) ∧ ∀ r, 0 ≤ r → r = bxorV a b → Q r s := by
  unfold bxor
  rw [safe_bnd, safe_assert, Bool.and_eq_true, ile_iff, ile_iff]
  constructor
  · rintro ⟨h, hq⟩
    rw [safe_ret] at hq
    exact ⟨h, fun r _ e => e ▸ hq⟩
  · rintro ⟨h, hq⟩
    exact ⟨h, (safe_ret _ _ _).2 (hq _ (by unfold bxorV; omega) rfl)⟩

theorem safe_parseN (a : PyArg) (s : St) (Q : Option Int → St → Prop) :
    Safe (parseN a) s Q ↔
      (∀ i, a = .int i → -9223372036854775808 ≤ i → i ≤ 9223372036854775807 → Q (some i) s) ∧
      ((∀ i, a = .int i → ¬(-9223372036854775808 ≤ i ∧ i ≤ 9223372036854775807)) →
        Q none { s with err := some (argErr a) }) := by
  cases a <;> simp [parseN, argInt, Safe, ret, bnd, setErr, modify]
  rename_i i
  by_cases h : (-9223372036854775808 ≤ i ∧ i ≤ 9223372036854775807)
  · simp [h, ret]; intro h1; omega
  · simp [h, bnd, setErr, modify, ret]
    constructor
    · intro hq; exact ⟨fun a b => absurd ⟨a, b⟩ h, fun _ => hq⟩
    · intro hq; exact hq.2 (fun a => by omega)

theorem safe_parseUint (mx : Int) (a : PyArg) (s : St) (Q : Option Int → St → Prop) :
    Safe (parseUint mx a) s Q ↔
      (∀ i, a = .int i → 0 ≤ i → i ≤ mx → Q (some i) s) ∧
      ((∀ i, a = .int i → ¬(0 ≤ i ∧ i ≤ mx)) →
        Q none { s with err := some (match a with | .int _ => .value | _ => .typeErr) }) := by
  cases a <;> simp [parseUint, argInt, Safe, ret, bnd, setErr, modify]
  rename_i i
  by_cases h : (0 ≤ i ∧ i ≤ mx)
  · simp [h, ret]; intro h1; omega
  · simp [h, bnd, setErr, modify, ret]
    constructor
    · intro hq; exact ⟨fun a b => absurd ⟨a, b⟩ h, fun _ => hq⟩
    · intro hq; exact hq.2 (fun a => by omega)

theorem safe_parseMask (m : Int) (a : PyArg) (s : St) (Q : Option Int → St → Prop) :
    Safe (parseMask m a) s Q ↔
      (∀ i r, a = .int i → r = i % m → Q (some r) s) ∧
      ((∀ i, a ≠ .int i) → Q none { s with err := some .typeErr }) := by
  cases a <;> simp [parseMask, Safe, ret, bnd, setErr, modify]

theorem safe_parseBytes (o : Nat) (a : PyArg) (s : St) (Q : Option (Ptr × Int) → St → Prop) :
    Safe (parseBytes o a) s Q ↔
      (a = .bytes → Q (some (⟨o, 0⟩, s.size o)) s) ∧
      (a ≠ .bytes → Q none { s with err := some .typeErr }) := by
  cases a <;> simp [parseBytes, Safe, ret, bnd, setErr, modify, gets]

attribute [csafe] forN pGt pGe pLt pLe pDiff chkS32 chkS64 shlS shlU shr stP stN setErr memcpy memset memcmp
  rdCStr malloc free PyErr_SetString PyErr_NoMemory PyErr_Format_s PyBytes_FromStringAndSize Py_BuildValue_y_i
  PyLong_FromUnsignedLong PyLong_FromUnsignedLongLong PyLong_FromSsize_t EVP_get_cipherbyname EVP_CIPHER_CTX_new
  EVP_CIPHER_CTX_free ERR_clear_error needCtx EVP_CipherInit_ex EVP_CIPHER_CTX_set_key_length EVP_CIPHER_CTX_ctrl
  EVP_CipherUpdate EVP_CipherFinal_ex Ptr.add Ptr.null b2i

@[cnorm] theorem upd_upd_same {α} (f : Nat → α) (k : Nat) (a b : α) : upd (upd f k a) k b = upd f k b := by
  funext j; simp only [upd]; split <;> rfl

attribute [cnorm] Ptr.add Ptr.null b2i wrapS32 wrapS64 upd_apply Bool.and_eq_true Bool.or_eq_true Bool.not_true Bool.not_false
  decide_eq_true_eq ne_eq Classical.not_not Option.isSome_some Ptr.mk.injEq Prod.mk.injEq Option.some.injEq

/- from here on `Safe` is opaque to `intro`/`apply` (they must never evaluate a program by `whnf`) -/
set_option allowUnsafeReducibility true in
attribute [irreducible] Safe bnd ret val fault assert get gets modify setData chkRd chkWr rd1 wr1 draw ldP ldN
  band bor bxor parseN parseMask parseBytes parseUint drawIn

/-! ## apply-style symbolic execution

The `↔` rules above are turned into introduction rules, one per primitive in
bind position, so that a tactic loop can execute a translated function
statement by statement from the outside in (each statement is visited once;
side conditions are discharged immediately by `omega`). -/
/-- an equation introduced by a rule: the tactic normalises its right-hand side and substitutes it,
    which keeps states and loaded values as flat, small terms -/
def Eqn {α : Type} (a b : α) : Prop := a = b
theorem Eqn.elim {α : Type} {a b : α} (h : Eqn a b) : a = b := h

section rules
variable {α β : Type} {s : St} {Q : β → St → Prop}

theorem bnd_gen {m : CM α} {f : α → CM β} (h : Safe m s (fun a s' => Safe (f a) s' Q)) :
    Safe (bnd m f) s Q := (safe_bnd _ _ _ _).2 h
theorem ret_k {f : α → CM β} {x : α} (h : Safe (f x) s Q) :
    Safe (ret x) s (fun a s' => Safe (f a) s' Q) := (safe_ret _ _ _).2 h
theorem ret_fin {x : β} (h : Q x s) : Safe (ret x) s Q := (safe_ret _ _ _).2 h
theorem bnd_ret {f : α → CM β} {x : α} (h : Safe (f x) s Q) : Safe (bnd (ret x) f) s Q :=
  bnd_gen (ret_k h)
theorem bnd_val {f : α → CM β} {x : α} (h : ∀ v, Eqn v x → Safe (f v) s Q) : Safe (bnd (val x) f) s Q := by
  rw [safe_bnd, safe_val]; exact h
theorem ite_rule {c : Prop} [Decidable c] {a b : CM β} (h1 : c → Safe a s Q) (h2 : ¬c → Safe b s Q) :
    Safe (if c then a else b) s Q := (safe_ite _ _ _ _ _).2 ⟨h1, h2⟩
theorem bnd_assert {c : Bool} {e : Fault} {f : Unit → CM β} (h1 : c = true) (h2 : Safe (f ()) s Q) :
    Safe (bnd (assert c e) f) s Q := by
  rw [safe_bnd, safe_assert]; exact ⟨h1, h2⟩
theorem bnd_get {f : St → CM β} (h : Safe (f s) s Q) : Safe (bnd get f) s Q := by
  rw [safe_bnd, safe_get]; exact h
theorem bnd_gets {g : St → α} {f : α → CM β} (h : Safe (f (g s)) s Q) : Safe (bnd (gets g) f) s Q := by
  rw [safe_bnd, safe_gets]; exact h
theorem bnd_modify {g : St → St} {f : Unit → CM β} (h : ∀ s', Eqn s' (g s) → Safe (f ()) s' Q) :
    Safe (bnd (modify g) f) s Q := by
  rw [safe_bnd, safe_modify]; exact h _ rfl
theorem bnd_setData {g : St → Data} {f : Unit → CM β}
    (h : ∀ (d : Data) s', Eqn s' { s with data := d } → Safe (f ()) s' Q) : Safe (bnd (setData g) f) s Q := by
  rw [safe_bnd, safe_setData]; exact fun d _ => h d _ rfl
theorem setData_k {g : St → Data} {f : Unit → CM β}
    (h : ∀ (d : Data) s', Eqn s' { s with data := d } → Safe (f ()) s' Q) :
    Safe (setData g) s (fun a s' => Safe (f a) s' Q) := by
  rw [safe_setData]; exact fun d _ => h d _ rfl
theorem modify_k {g : St → St} {f : Unit → CM β} (h : ∀ s', Eqn s' (g s) → Safe (f ()) s' Q) :
    Safe (modify g) s (fun a s' => Safe (f a) s' Q) := by
  rw [safe_modify]; exact h _ rfl
theorem bnd_chkRd {p : Ptr} {n : Int} {f : Unit → CM β}
    (h1 : 0 ≤ n ∧ 0 ≤ p.off ∧ p.off + n ≤ s.size p.obj) (h2 : Safe (f ()) s Q) :
    Safe (bnd (chkRd p n) f) s Q := by
  rw [safe_bnd, safe_chkRd]; exact ⟨h1, h2⟩
theorem bnd_chkWr {p : Ptr} {n : Int} {f : Unit → CM β}
    (h1 : 0 ≤ n ∧ 0 ≤ p.off ∧ p.off + n ≤ s.size p.obj) (h2 : Safe (f ()) s Q) :
    Safe (bnd (chkWr p n) f) s Q := by
  rw [safe_bnd, safe_chkWr]; exact ⟨h1, h2⟩
theorem bnd_rd1 {p : Ptr} {f : Int → CM β}
    (h1 : 0 ≤ p.off ∧ p.off + 1 ≤ s.size p.obj) (h2 : ∀ r : Int, 0 ≤ r → r ≤ 255 → Safe (f r) s Q) :
    Safe (bnd (rd1 p) f) s Q := by
  rw [safe_bnd, safe_rd1]; exact ⟨h1, fun r a b _ => h2 r a b⟩
theorem bnd_wr1 {p : Ptr} {v : Int} {f : Unit → CM β}
    (h1 : 0 ≤ p.off ∧ p.off + 1 ≤ s.size p.obj) (h2 : ∀ (d : Data) s', Eqn s' { s with data := d } → Safe (f ()) s' Q) :
    Safe (bnd (wr1 p v) f) s Q := by
  rw [safe_bnd, safe_wr1]; exact ⟨h1, fun d _ => h2 d _ rfl⟩
theorem bnd_draw {f : Int → CM β} (h : ∀ (r : Int) s', Eqn s' { s with tick := s.tick + 1 } → Safe (f r) s' Q) :
    Safe (bnd draw f) s Q := by
  rw [safe_bnd, safe_draw]; exact fun r _ => h r _ rfl
theorem bnd_drawIn {lo hi : Int} {f : Int → CM β} (hl : lo ≤ hi)
    (h : ∀ (r : Int) s', lo ≤ r → r ≤ hi → Eqn s' { s with tick := s.tick + 1 } → Safe (f r) s' Q) :
    Safe (bnd (drawIn lo hi) f) s Q := by
  rw [safe_bnd]; exact safe_drawIn lo hi hl s _ (fun r a b => h r _ a b rfl)
theorem bnd_ldP {k : Nat} {f : Ptr → CM β} (h : ∀ v, Eqn v (s.pf k) → Safe (f v) s Q) : Safe (bnd (ldP k) f) s Q := by
  rw [safe_bnd, safe_ldP]; exact h _ rfl
theorem bnd_ldN {k : Nat} {f : Int → CM β} (h : ∀ v, Eqn v (s.nf k) → Safe (f v) s Q) : Safe (bnd (ldN k) f) s Q := by
  rw [safe_bnd, safe_ldN]; exact h
theorem bnd_band {a b : Int} {f : Int → CM β} (h1 : 0 ≤ a ∧ 0 ≤ b)
    (h2 : ∀ r : Int, 0 ≤ r → r ≤ a → r ≤ b → Safe (f r) s Q) : Safe (bnd (band a b) f) s Q := by
  rw [safe_bnd, safe_band]; exact ⟨h1, fun r x y z _ => h2 r x y z⟩
theorem bnd_bor {a b : Int} {f : Int → CM β} (h1 : 0 ≤ a ∧ 0 ≤ b)
    (h2 : ∀ r : Int, 0 ≤ r → Safe (f r) s Q) : Safe (bnd (bor a b) f) s Q := by
  rw [safe_bnd, safe_bor]; exact ⟨h1, fun r x _ => h2 r x⟩
theorem bnd_bxor {a b : Int} {f : Int → CM β} (h1 : 0 ≤ a ∧ 0 ≤ b)
    (h2 : ∀ r : Int, 0 ≤ r → Safe (f r) s Q) : Safe (bnd (bxor a b) f) s Q := by
  rw [safe_bnd, safe_bxor]; exact ⟨h1, fun r x _ => h2 r x⟩
theorem bnd_parseN {a : PyArg} {f : Option Int → CM β}
    (h1 : ∀ i : Int, -9223372036854775808 ≤ i → i ≤ 9223372036854775807 → Safe (f (some i)) s Q)
    (h2 : ∀ s', Eqn s' { s with err := some (argErr a) } → Safe (f none) s' Q) : Safe (bnd (parseN a) f) s Q := by
  rw [safe_bnd, safe_parseN]; exact ⟨fun i _ x y => h1 i x y, fun _ => h2 _ rfl⟩
theorem bnd_parseUint {mx : Int} {a : PyArg} {f : Option Int → CM β}
    (h1 : ∀ i : Int, 0 ≤ i → i ≤ mx → Safe (f (some i)) s Q)
    (h2 : ∀ (e : Exc) s', Eqn s' { s with err := some e } → Safe (f none) s' Q) : Safe (bnd (parseUint mx a) f) s Q := by
  rw [safe_bnd, safe_parseUint]; exact ⟨fun i _ x y => h1 i x y, fun _ => h2 _ _ rfl⟩
theorem bnd_parseMask {m : Int} {a : PyArg} {f : Option Int → CM β}
    (h1 : ∀ i : Int, Safe (f (some (i % m))) s Q)
    (h2 : ∀ s', Eqn s' { s with err := some .typeErr } → Safe (f none) s' Q) : Safe (bnd (parseMask m a) f) s Q := by
  rw [safe_bnd, safe_parseMask]; exact ⟨fun i r _ e => e ▸ h1 i, fun _ => h2 _ rfl⟩
theorem bnd_parseBytes {o : Nat} {a : PyArg} {f : Option (Ptr × Int) → CM β}
    (h1 : Safe (f (some (⟨o, 0⟩, s.size o))) s Q)
    (h2 : ∀ s', Eqn s' { s with err := some .typeErr } → Safe (f none) s' Q) : Safe (bnd (parseBytes o a) f) s Q := by
  rw [safe_bnd, safe_parseBytes]; exact ⟨fun _ => h1, fun _ => h2 _ rfl⟩
theorem gets_fin {γ : Type} {g : St → γ} {Q : γ → St → Prop} (h : Q (g s) s) : Safe (gets g) s Q :=
  (safe_gets _ _ _).2 h
theorem assert_fin {c : Bool} {e : Fault} {Q : Unit → St → Prop} (h1 : c = true) (h2 : Q () s) :
    Safe (assert c e) s Q := (safe_assert _ _ _ _).2 ⟨h1, h2⟩
theorem chkRd_fin {p : Ptr} {n : Int} {Q : Unit → St → Prop}
    (h1 : 0 ≤ n ∧ 0 ≤ p.off ∧ p.off + n ≤ s.size p.obj) (h2 : Q () s) : Safe (chkRd p n) s Q :=
  (safe_chkRd _ _ _ _).2 ⟨h1, h2⟩
theorem chkWr_fin {p : Ptr} {n : Int} {Q : Unit → St → Prop}
    (h1 : 0 ≤ n ∧ 0 ≤ p.off ∧ p.off + n ≤ s.size p.obj) (h2 : Q () s) : Safe (chkWr p n) s Q :=
  (safe_chkWr _ _ _ _).2 ⟨h1, h2⟩
/-- a primitive in tail position is the same as binding it to `ret` -/
theorem tail_gen {γ : Type} {m : CM γ} {Q : γ → St → Prop} (h : Safe (bnd m ret) s Q) : Safe m s Q :=
  Safe.mono ((safe_bnd _ _ _ _).1 h) (fun a s' h' => (safe_ret _ _ _).1 h')
end rules

/-- close one side condition: normalise, then linear arithmetic (`hs` non-empty) -/
syntax "c_side" "[" Lean.Parser.Tactic.simpLemma,* "]" : tactic
macro_rules
  | `(tactic| c_side [$hs,*]) => `(tactic|
      first
      | omega
      | (simp only [cnorm, $hs,*, Int.reduceLT, Int.reduceLE, Int.reduceGT, Int.reduceGE, Int.reduceAdd, Int.reduceMul, Int.reduceSub, Int.reduceNeg, Int.reduceMod, Int.reduceDiv, Int.reduceToNat, Int.reducePow, Int.reduceEq, Int.reduceNe, Nat.reducePow, Nat.reduceEqDiff, Nat.reduceAdd, reduceIte, reduceCtorEq, eq_self, true_implies, false_implies, implies_true, not_true_eq_false, not_false_eq_true, and_true, true_and, and_false, false_and, or_true, true_or, or_false, false_or] <;> omega)
      | (simp [$hs,*] <;> omega))

/-- one step of symbolic execution (`hs` non-empty) -/
syntax "c_step" "[" Lean.Parser.Tactic.simpLemma,* "]" : tactic
macro_rules
  | `(tactic| c_step [$hs,*]) => `(tactic|
      first
      | (intro v hv; replace hv := Eqn.elim hv; (try simp only [cnorm, $hs,*, Int.reduceLT, Int.reduceLE, Int.reduceGT, Int.reduceGE, Int.reduceAdd, Int.reduceMul, Int.reduceSub, Int.reduceNeg, Int.reduceMod, Int.reduceDiv, Int.reduceToNat, Int.reducePow, Int.reduceEq, Int.reduceNe, Nat.reducePow, Nat.reduceEqDiff, Nat.reduceAdd, reduceIte, reduceCtorEq, eq_self, true_implies, false_implies, implies_true, not_true_eq_false, not_false_eq_true, and_true, true_and, and_false, false_and, or_true, true_or, or_false, false_or] at hv); subst hv)
      | (intro h; try simp only [cnorm, $hs,*, Int.reduceLT, Int.reduceLE, Int.reduceGT, Int.reduceGE, Int.reduceAdd, Int.reduceMul, Int.reduceSub, Int.reduceNeg, Int.reduceMod, Int.reduceDiv, Int.reduceToNat, Int.reducePow, Int.reduceEq, Int.reduceNe, Nat.reducePow, Nat.reduceEqDiff, Nat.reduceAdd, reduceIte, reduceCtorEq, eq_self, true_implies, false_implies, implies_true, not_true_eq_false, not_false_eq_true, and_true, true_and, and_false, false_and, or_true, true_or, or_false, false_or] at h)
      | apply And.intro
      | exact True.intro
      | apply bnd_val | apply bnd_ldP | apply bnd_ldN | apply bnd_modify | apply modify_k
      | apply bnd_ret | apply bnd_assert | apply bnd_get | apply bnd_gets
      | apply bnd_setData | apply bnd_chkRd | apply bnd_chkWr | apply bnd_rd1 | apply bnd_wr1 | apply bnd_draw | apply bnd_drawIn
      | apply bnd_band | apply bnd_bor | apply bnd_bxor
      | apply bnd_parseN | apply bnd_parseUint | apply bnd_parseMask | apply bnd_parseBytes
      | apply bnd_gen | apply ret_k | apply setData_k | apply ite_rule | apply ret_fin
      | apply gets_fin | apply assert_fin | apply chkRd_fin | apply chkWr_fin
      | apply (tail_gen (m := parseN _)) | apply (tail_gen (m := parseBytes _ _)) | apply (tail_gen (m := parseMask _ _))
      | apply (tail_gen (m := parseUint _ _)) | apply (tail_gen (m := rd1 _)) | apply (tail_gen (m := wr1 _ _))
      | apply (tail_gen (m := draw)) | apply (tail_gen (m := ldP _)) | apply (tail_gen (m := ldN _))
      | apply (tail_gen (m := band _ _)) | apply (tail_gen (m := bor _ _)) | apply (tail_gen (m := bxor _ _))
      | apply (tail_gen (m := modify _)) | apply (tail_gen (m := setData _)) | apply (tail_gen (m := get))
      | c_side [$hs,*])

/-- `c_safety [f, callees…] [h…]`: unfold the translated function(s) and the derived operations, then
    execute symbolically; every access / overflow obligation is closed by `omega` on the spot.
    Fails (leaving the open obligations) when some access cannot be shown in bounds.
    The second list (rewriting equations of the invariant) must not be empty: pass `true_and` if none. -/
syntax "c_safety" "[" Lean.Parser.Tactic.simpLemma,* "]" "[" Lean.Parser.Tactic.simpLemma,* "]" : tactic
macro_rules
  | `(tactic| c_safety [$fs,*] [$hs,*]) => `(tactic| (
      simp (maxSteps := 1000000) only [csafe, $fs,*, Int.reduceLT, Int.reduceLE, Int.reduceGT, Int.reduceGE, Int.reduceAdd, Int.reduceMul, Int.reduceSub, Int.reduceNeg, Int.reduceMod, Int.reduceDiv, Int.reduceToNat, Int.reducePow, Int.reduceEq, Int.reduceNe, Nat.reducePow, Nat.reduceEqDiff, Nat.reduceAdd, reduceIte, reduceCtorEq, eq_self, true_implies, false_implies, implies_true, not_true_eq_false, not_false_eq_true, and_true, true_and, and_false, false_and, or_true, true_or, or_false, false_or]
      repeat' (c_step [$hs,*])))

end AQ.C
