/-
  Decoding arbitrary transport parameters: whatever is accepted is in range,
  hence re-encodes to bytes that decode to the same set.
-/
import AQ.Proofs.CodecTP
import AQ.Proofs.CodecErr

namespace AQ.Codec
open AQ

theorem pullUint16_inv (s r : Bytes) (v : Nat) (h : pullUint16 s = .ok (v, r)) :
    v < 65536 ∧ s.length = r.length + 2 := by
  unfold pullUint16 at h
  split at h
  · rename_i b0 b1 _
    cases h
    have := b0.toNat_lt; have := b1.toNat_lt
    exact ⟨by omega, by simp⟩
  · cases h

theorem pullUint32_inv (s r : Bytes) (v : Nat) (h : pullUint32 s = .ok (v, r)) :
    v < 4294967296 ∧ s.length = r.length + 4 := by
  unfold pullUint32 at h
  split at h
  · rename_i b0 b1 b2 b3 _
    cases h
    have := b0.toNat_lt; have := b1.toNat_lt; have := b2.toNat_lt; have := b3.toNat_lt
    exact ⟨by omega, by simp⟩
  · cases h

theorem pullUint32s_inv (n : Nat) : ∀ (s r : Bytes) (vs : List Nat), pullUint32s n s = .ok (vs, r) →
    vs.length = n ∧ (∀ v ∈ vs, v < 4294967296) ∧ s.length = r.length + 4 * n := by
  induction n with
  | zero =>
    intro s r vs h
    simp only [pullUint32s, Rd.pure_apply] at h
    cases h
    simp
  | succ n ih =>
    intro s r vs h
    simp only [pullUint32s, Rd.bind_apply] at h
    split at h
    · rename_i v s1 hv
      split at h
      · rename_i vs' s2 hvs
        simp only [Rd.pure_apply] at h
        cases h
        obtain ⟨h1, h2⟩ := pullUint32_inv _ _ _ hv
        obtain ⟨g1, g2, g3⟩ := ih _ _ _ hvs
        refine ⟨by simp [g1], ?_, by omega⟩
        intro x hx
        simp only [List.mem_cons] at hx
        rcases hx with rfl | hx
        · exact h1
        · exact g2 x hx
      · cases h
    · cases h

theorem pullVersionInformation_valid (len : Nat) (s r : Bytes) (v : VInfo) (hs : s.length ≤ 65536)
    (h : pullVersionInformation len s = .ok (v, r)) : ValOK .vinfo (.vinfo v) := by
  simp only [pullVersionInformation, Rd.bind_apply] at h
  split at h
  · rename_i c s1 hc
    split at h
    · rename_i av s2 hav
      obtain ⟨c1, c2⟩ := pullUint32_inv _ _ _ hc
      obtain ⟨a1, a2, a3⟩ := pullUint32s_inv _ _ _ _ hav
      by_cases hg : (c != 0 && !av.contains 0) = true
      · simp only [hg, Rd.guard_true, Rd.pure_apply] at h
        cases h
        simp only [Bool.and_eq_true, bne_iff_ne, ne_eq, Bool.not_eq_true'] at hg
        refine ⟨hg.1, c1, ?_, by show 4 + 4 * av.length ≤ 65536; omega⟩
        intro x hx
        refine ⟨?_, a2 x hx⟩
        intro hx0
        subst hx0
        have : av.contains 0 = true := List.contains_iff_mem.mpr hx
        rw [hg.2] at this
        cases this
      · simp only [Bool.not_eq_true] at hg
        simp only [hg, Rd.guard_false] at h
        cases h
    · cases h
  · cases h

theorem addr_valid (n : Nat) (host : Bytes) (port : Nat) (hh : host.length = n) (hp : port < 65536) :
    AddrOK n (if host != zeros n then some (host, port) else none) := by
  by_cases hz : (host != zeros n) = true
  · simp only [hz, if_true]
    exact ⟨hh, by simpa using hz, hp⟩
  · simp only [hz]
    trivial

theorem pullPreferredAddress_valid (s r : Bytes) (a : PrefAddr) (h : pullPreferredAddress s = .ok (a, r)) :
    ValOK .pref (.pref a) := by
  simp only [pullPreferredAddress, Rd.bind_apply] at h
  split at h
  · rename_i h4 s1 e1
    split at h
    · rename_i p4 s2 e2
      split at h
      · rename_i h6 s3 e3
        split at h
        · rename_i p6 s4 e4
          split at h
          · rename_i cl s5 e5
            split at h
            · rename_i cidb s6 e6
              split at h
              · rename_i tok s7 e7
                simp only [Rd.pure_apply] at h
                cases h
                have l4 := (pullBytes_inv _ _ _ _ e1).2.2
                have l6 := (pullBytes_inv _ _ _ _ e3).2.2
                have lc := (pullBytes_inv _ _ _ _ e6).2.2
                have lt := (pullBytes_inv _ _ _ _ e7).2.2
                have hcl := pullUint8_lt _ _ _ e5
                exact ⟨addr_valid 4 h4 p4 (by omega) (pullUint16_inv _ _ _ e2).1,
                  addr_valid 16 h6 p6 (by omega) (pullUint16_inv _ _ _ e4).1, by simp only []; omega,
                  by simp only []; omega⟩
              · cases h
            · cases h
          · cases h
        · cases h
      · cases h
    · cases h
  · cases h

theorem pullParamValue_valid (kind : PKind) (len : Nat) (s r : Bytes) (v : PVal) (hs : s.length ≤ 65536)
    (h : pullParamValue kind len s = .ok (v, r)) : ValOK kind v := by
  cases kind <;> simp only [pullParamValue, Rd.bind_apply, Rd.pure_apply] at h
  · split at h
    · rename_i n s1 hn
      cases h
      exact (pullUintVar_inv _ _ _ hn).1
    · cases h
  · split at h
    · rename_i b s1 hb
      cases h
      obtain ⟨_, hsb, hl⟩ := pullBytes_inv _ _ _ _ hb
      have : b.length ≤ s.length := by rw [hsb]; simp
      show b.length ≤ 65536
      omega
    · cases h
  · cases h; trivial
  · split at h
    · rename_i a s1 ha
      cases h
      exact pullPreferredAddress_valid _ _ _ ha
    · cases h
  · split at h
    · rename_i vi s1 hv
      cases h
      exact pullVersionInformation_valid _ _ _ _ hs hv
    · cases h

theorem tpValid_set (q : TP) (id : Nat) (kind : PKind) (v : PVal) (hq : TPValid q)
    (hk : lookupKind id PARAMS = some kind) (hv : ValOK kind v) : TPValid (q.set id v) := by
  intro i w hw
  simp only [TP.set] at hw
  split at hw
  · rename_i hi
    subst hi
    cases hw
    exact ⟨kind, hk, hv⟩
  · exact hq i w hw

theorem pullParam_valid (q q' : TP) (s s' : Bytes) (hq : TPValid q) (hs : s.length ≤ 65536)
    (h : pullParam q s = .ok (q', s')) : TPValid q' := by
  unfold pullParam at h
  simp only [Rd.bind_apply, Rd.remaining_apply] at h
  split at h
  · rename_i id s0 hid
    split at h
    · rename_i len s1 hlen
      obtain ⟨_, p1, rfl, _⟩ := pullUintVar_inv _ _ _ hid
      obtain ⟨_, p2, rfl, _⟩ := pullUintVar_inv _ _ _ hlen
      have hs1 : s1.length ≤ 65536 := by simp only [List.length_append] at hs; omega
      split at h
      · rename_i q1 s2 hinner
        have hq1 : TPValid q1 := by
          cases hk : lookupKind id PARAMS with
          | none =>
            rw [hk] at hinner
            simp only [Rd.bind_apply, Rd.pure_apply] at hinner
            split at hinner
            · cases hinner; exact hq
            · cases hinner
          | some kind =>
            rw [hk] at hinner
            simp only [Rd.bind_apply, Rd.pure_apply] at hinner
            split at hinner
            · rename_i v s3 hv
              cases hinner
              exact tpValid_set q id kind v hq hk (pullParamValue_valid kind len s1 _ v hs1 hv)
            · cases hinner
        unfold Rd.guard at h
        split at h
        · simp only [Rd.pure_apply] at h; cases h; exact hq1
        · cases h
      · cases h
    · cases h
  · cases h

theorem pullParams_valid (n : Nat) : ∀ (q p : TP) (s r : Bytes), TPValid q → s.length ≤ 65536 →
    pullParams n q s = .ok (p, r) → TPValid p ∧ r = [] := by
  induction n with
  | zero =>
    intro q p s r hq _ h
    cases s with
    | nil => cases h; exact ⟨hq, rfl⟩
    | cons b t => cases h
  | succ n ih =>
    intro q p s r hq hs h
    cases s with
    | nil => rw [pullParams_nil] at h; cases h; exact ⟨hq, rfl⟩
    | cons b t =>
      rw [pullParams_succ _ _ _ (by simp)] at h
      split at h
      · rename_i q' s' hp
        have := pullParam_shrinks _ _ _ _ hp
        exact ih q' p s' r (pullParam_valid _ _ _ _ hq hs hp) (by omega) h
      · cases h

theorem tpValid_empty : TPValid TP.empty := by
  intro i v h; cases h

/-- what `pull_quic_transport_parameters` accepts (from at most 65536 bytes, the
    size of `param_buf`) is a valid parameter set and the whole input was consumed -/
theorem pullTransportParameters_valid (s r : Bytes) (p : TP) (hs : s.length ≤ 65536)
    (h : pullTransportParameters s = .ok (p, r)) : TPValid p ∧ r = [] :=
  pullParams_valid _ _ _ _ _ tpValid_empty hs h

end AQ.Codec
