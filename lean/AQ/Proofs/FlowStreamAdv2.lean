/-
  `MLStep` for the remaining operations, and the run-level theorem for
  `max_stream_data_local`.
-/
import AQ.Proofs.FlowStreamAdv

namespace AQ.Flow
open AQ AQ.Stream AQ.RangeSet

theorem noMSD_of_streamId {out : Out} (h : ∀ f ∈ out.frames, frameStreamId f ≠ none ∨ ∀ s v, f ≠ .maxStreamData s v) :
    ∀ sid v, ¬ MSD out sid v := by
  intro sid v hm
  rcases h _ hm with h1 | h1
  · exact h1 rfl
  · exact h1 sid v rfl

theorem ml_filter (ss : List Strm) (sid : Nat) :
    ml (ss.filter (fun s => s.sid != sid)) = (ml ss).filter (fun p => p.1 != sid) := by
  induction ss with
  | nil => rfl
  | cons x xs ih =>
    by_cases hx : (x.sid != sid) = true
    · simp [ml, List.filter_cons, hx] at ih ⊢; exact ih
    · simp [ml, List.filter_cons, hx] at ih ⊢; exact ih

theorem serve_mlstep (c : Conn) (sid : Nat) (a b : Bool) (fs : Int) :
    MLStep c (serve c sid a b fs).1 (serve c sid a b fs).2 := by
  have hno : ∀ s v, ¬ MSD (serve c sid a b fs).2 s v := by
    intro s v hm
    have := (serve_frames hm).1
    simp [frameStreamId] at this
  revert hno
  unfold serve
  split
  · intro hno; exact .same (Cfg.refl _) rfl rfl hno
  · rename_i st hf
    have hsid := (Conn.find?_mem hf).2
    split
    · intro hno
      rename_i hdone
      exact .discard ⟨rfl, rfl, rfl, rfl, rfl⟩ sid st hf hdone (ml_filter _ _) rfl hno
    · split
      · intro hno; exact .same (Cfg.refl _) rfl rfl hno
      · split
        · intro hno; exact .same (Cfg.refl _) rfl rfl hno
        · simp only []
          generalize hst1 : (if st.stopPending = true then { st with stopPending := false } else st) = st1
          have e1 : st1.sid = st.sid ∧ st1.maxLocal = st.maxLocal := by
            subst hst1; split <;> simp
          split
          · split
            · intro hno
              exact .same ⟨rfl, rfl, rfl, rfl, rfl⟩ (ml_setStrm_same hf (by rw [e1.1, hsid]) e1.2) rfl hno
            · intro hno
              exact .same ⟨rfl, rfl, rfl, rfl, rfl⟩
                (ml_setStrm_same hf (by simp [e1.1, hsid]) (by simp [e1.2])) rfl hno
          · split
            · split
              · intro hno
                exact .same ⟨rfl, rfl, rfl, rfl, rfl⟩ (ml_setStrm_same hf (by rw [e1.1, hsid]) e1.2) rfl hno
              · rename_i st' fr used hw
                obtain ⟨w1, _, w3⟩ := writeStreamFrame_recv hw
                intro hno
                exact .same ⟨rfl, rfl, rfl, rfl, rfl⟩
                  (ml_setStrm_same (c := c) hf (by rw [w1, e1.1, hsid]) (by rw [w3, e1.2])) rfl hno
            · intro hno
              exact .same ⟨rfl, rfl, rfl, rfl, rfl⟩ (ml_setStrm_same hf (by rw [e1.1, hsid]) e1.2) rfl hno

theorem writeConnLimits_mlstep (c : Conn) (r1 r2 r3 : Bool) :
    MLStep c (writeConnLimits c r1 r2 r3).1 (writeConnLimits c r1 r2 r3).2 := by
  have hno : ∀ s v, ¬ MSD (writeConnLimits c r1 r2 r3).2 s v := by
    intro s v hm
    unfold MSD writeConnLimits at hm
    simp only [] at hm
    repeat' split at hm
    all_goals (simp at hm)
  revert hno
  unfold writeConnLimits
  simp only []
  repeat' split
  all_goals (intro hno; exact .same ⟨rfl, rfl, rfl, rfl, rfl⟩ rfl rfl hno)

theorem writeStreamLimits_mlstep (c : Conn) (hq : c.quirks.raiseBeforeWrite = false) (sid : Nat) (room : Bool) :
    MLStep c (writeStreamLimits c sid room).1 (writeStreamLimits c sid room).2 := by
  unfold writeStreamLimits
  split
  · exact MLStep.refl c rfl
  · rename_i st hf
    obtain ⟨hm, hsid⟩ := Conn.find?_mem hf
    have hin : (sid, st.maxLocal) ∈ ml c.streams := by
      unfold ml; exact List.mem_map.mpr ⟨st, hm, by rw [hsid]⟩
    simp only [hq, Bool.false_eq_true, if_false]
    generalize hv : (if (st.maxLocal != 0 && decide (st.recv.highest * 2 > st.maxLocal)) = true then st.maxLocal * 2
      else st.maxLocal) = value
    have hle : st.maxLocal ≤ value := by subst hv; split <;> omega
    split
    · split
      · exact .same (Cfg.refl _) rfl rfl (noMSD_of_nil rfl)
      · refine .raise ⟨rfl, rfl, rfl, rfl, rfl⟩ sid st.maxLocal value hin hle ?_ rfl ?_
        · show ml (setIn _ c.streams) = _
          rw [ml_setIn]; show setFirst st.sid _ _ = _; rw [hsid]
        · intro sid' w; simp [MSD]
    · exact .same (Cfg.refl _) rfl rfl (noMSD_of_nil rfl)

theorem transportParams_mlstep (c : Conn) (tp : TP) : MLStep c (transportParams c tp) {} :=
  .same ⟨rfl, rfl, rfl, rfl, rfl⟩ rfl rfl (noMSD_of_nil rfl)

theorem unblock_mlstep (c : Conn) (uni : Bool) : MLStep c (unblockStreams c uni) {} := by
  obtain ⟨h1, h2, h3⟩ := unblockStreams_ml c uni
  exact .same h1 h2 h3 (noMSD_of_nil rfl)

theorem dataDelivery_mlstep (c : Conn) (sid : Nat) (d : Delivery) (a b : Nat) (fin : Bool) :
    MLStep c (dataDelivery c sid d a b fin).1 (dataDelivery c sid d a b fin).2 := by
  have hfr := dataDelivery_frames c sid d a b fin
  revert hfr
  unfold dataDelivery
  split
  · intro hfr; exact MLStep.refl c hfr
  · rename_i st hf
    split <;> intro hfr
    · exact MLStep.refl c hfr
    · exact .same ⟨rfl, rfl, rfl, rfl, rfl⟩ (ml_setStrm_same hf (Conn.find?_mem hf).2 rfl) rfl (noMSD_of_nil hfr)

theorem resetDelivery_mlstep (c : Conn) (sid : Nat) (d : Delivery) :
    MLStep c (resetDelivery c sid d).1 (resetDelivery c sid d).2 := by
  have hfr := resetDelivery_frames c sid d
  revert hfr
  unfold resetDelivery
  split <;> intro hfr
  · exact MLStep.refl c hfr
  · rename_i st hf
    exact .same ⟨rfl, rfl, rfl, rfl, rfl⟩ (ml_setStrm_same hf (Conn.find?_mem hf).2 rfl) rfl (noMSD_of_nil hfr)

theorem stopDelivery_mlstep (c : Conn) (sid : Nat) (d : Delivery) :
    MLStep c (stopDelivery c sid d).1 (stopDelivery c sid d).2 := by
  have hfr := stopDelivery_frames c sid d
  revert hfr
  unfold stopDelivery
  split
  · intro hfr; exact MLStep.refl c hfr
  · rename_i st hf
    split <;> intro hfr
    · exact .same ⟨rfl, rfl, rfl, rfl, rfl⟩ (ml_setStrm_same hf (Conn.find?_mem hf).2 rfl) rfl (noMSD_of_nil hfr)
    · exact MLStep.refl c hfr

theorem connLimitDelivery_mlstep (c : Conn) (k : LimitKind) (d : Delivery) :
    MLStep c (connLimitDelivery c k d) {} := by
  unfold connLimitDelivery
  split
  · cases k <;> exact .same ⟨rfl, rfl, rfl, rfl, rfl⟩ rfl rfl (noMSD_of_nil rfl)
  · exact MLStep.refl c rfl

theorem maxStreamDataDelivery_mlstep (c : Conn) (sid : Nat) (d : Delivery) :
    MLStep c (maxStreamDataDelivery c sid d) {} := by
  unfold maxStreamDataDelivery
  split
  · exact MLStep.refl c rfl
  · rename_i st hf
    split
    · exact .same ⟨rfl, rfl, rfl, rfl, rfl⟩ (ml_setStrm_same hf (Conn.find?_mem hf).2 rfl) rfl (noMSD_of_nil rfl)
    · exact MLStep.refl c rfl

/-- the fixes this statement relies on are in place -/
def FixedQ (c : Conn) : Prop := c.quirks.raiseBeforeWrite = false ∧ c.quirks.reopenFinished = false

theorem step_mlstep (c : Conn) (hq : FixedQ c) (op : Op) : MLStep c (step c op).1 (step c op).2 := by
  cases op <;> simp only [step]
  · exact sendStreamData_mlstep c hq.2 _ _ _
  · exact resetStream_mlstep c hq.2 _ _
  · exact stopStream_mlstep c _
  · exact rxMaxData_mlstep c _
  · exact rxMaxStreamData_mlstep c _ _
  · exact rxMaxStreams_mlstep c _ _
  · rcases rxTransportParams_cases c _ with he | he <;> rw [he]
    · exact MLStep.refl c rfl
    · exact transportParams_mlstep c _
  · exact unblock_mlstep c _
  · exact rxStopSending_mlstep c _
  · exact rxStreamDataBlocked_mlstep c _
  · exact rxStream_mlstep c _ _ _ _
  · exact rxResetStream_mlstep c _ _
  · exact serve_mlstep c _ _ _ _
  · exact writeConnLimits_mlstep c _ _ _
  · exact writeStreamLimits_mlstep c hq.1 _ _
  · exact dataDelivery_mlstep c _ _ _ _ _
  · exact resetDelivery_mlstep c _ _
  · exact stopDelivery_mlstep c _ _
  · exact connLimitDelivery_mlstep c _ _
  · exact maxStreamDataDelivery_mlstep c _ _

theorem MLStep.cfg' {c c' : Conn} {out : Out} (h : MLStep c c' out) : Cfg c c' := by
  cases h <;> assumption

/-! ## the invariant over (state, outputs so far) -/

/-- values of the MAX_STREAM_DATA frames written for `sid` -/
def msdOf (sid : Nat) (outs : List Out) : List Nat :=
  outs.flatMap fun o => o.frames.filterMap fun f =>
    match f with
    | .maxStreamData s v => if s = sid then some v else none
    | _ => none

theorem mem_msdOf_snoc (sid v : Nat) (prev : List Out) (out : Out) :
    v ∈ msdOf sid (prev ++ [out]) ↔ (v ∈ msdOf sid prev ∨ MSD out sid v) := by
  unfold msdOf MSD
  simp only [List.flatMap_append, List.mem_append, List.flatMap_cons, List.flatMap_nil, List.append_nil,
    List.mem_filterMap]
  constructor
  · rintro (h | ⟨f, hf, hv⟩)
    · exact .inl h
    · right
      cases f <;> simp at hv
      obtain ⟨rfl, rfl⟩ := hv
      exact hf
  · rintro (h | h)
    · exact .inl h
    · exact .inr ⟨_, h, by simp⟩

theorem mem_msdOf_cons (sid v : Nat) (out : Out) (outs : List Out) :
    v ∈ msdOf sid (out :: outs) ↔ (MSD out sid v ∨ v ∈ msdOf sid outs) := by
  have := mem_msdOf_snoc sid v [] out
  unfold msdOf MSD at *
  simp only [List.flatMap_cons, List.mem_append, List.nil_append, List.flatMap_nil, List.append_nil] at this ⊢
  constructor
  · rintro (h | h)
    · exact .inl ((this.mp h).resolve_left (by simp))
    · exact .inr h
  · rintro (h | h)
    · exact .inl (this.mpr (.inr h))
    · exact .inr h

structure Q (c : Conn) (prev : List Out) : Prop where
  nodup : ((ml c.streams).map (·.1)).Nodup
  live : ∀ p ∈ ml c.streams, (∀ v ∈ msdOf p.1 prev, v ≤ p.2) ∧ (p.2 = initLocal c p.1 ∨ p.2 ∈ msdOf p.1 prev)
  dead : ∀ sid, sid ∉ (ml c.streams).map (·.1) → sid ∉ c.finishedIds → ∀ v, v ∉ msdOf sid prev

theorem keys_setFirst (sid v : Nat) (ps : List (Nat × Nat)) : (setFirst sid v ps).map (·.1) = ps.map (·.1) := by
  induction ps with
  | nil => rfl
  | cons p ps ih =>
    unfold setFirst
    split
    · rename_i h; simp at h; simp [h]
    · simp [ih]

theorem mem_setFirst {sid v : Nat} {ps : List (Nat × Nat)} (hnd : (ps.map (·.1)).Nodup) {p : Nat × Nat}
    (hp : p ∈ setFirst sid v ps) : (p = (sid, v)) ∨ (p ∈ ps ∧ p.1 ≠ sid) := by
  induction ps with
  | nil => simp [setFirst] at hp
  | cons q qs ih =>
    simp only [List.map_cons, List.nodup_cons] at hnd
    unfold setFirst at hp
    split at hp
    · rename_i hq
      simp at hq
      rcases List.mem_cons.mp hp with h | h
      · exact .inl h
      · right
        refine ⟨List.mem_cons_of_mem _ h, ?_⟩
        intro he
        apply hnd.1
        rw [hq, ← he]
        exact List.mem_map.mpr ⟨p, h, rfl⟩
    · rename_i hq
      simp at hq
      rcases List.mem_cons.mp hp with h | h
      · right; subst h; exact ⟨by simp, hq⟩
      · rcases ih hnd.2 h with h' | ⟨h1, h2⟩
        · exact .inl h'
        · exact .inr ⟨List.mem_cons_of_mem _ h1, h2⟩

theorem Q.step {c c' : Conn} {prev : List Out} {out : Out} (h : Q c prev) (hs : MLStep c c' out) :
    Q c' (prev ++ [out]) := by
  have hinit := hs.cfg'.initLocal
  cases hs with
  | same cfg hml hfin hno =>
    refine ⟨by rw [hml]; exact h.nodup, ?_, ?_⟩
    · intro p hp
      rw [hml] at hp
      obtain ⟨l1, l2⟩ := h.live p hp
      refine ⟨?_, ?_⟩
      · intro v hv
        rcases (mem_msdOf_snoc _ _ _ _).mp hv with hv | hv
        · exact l1 v hv
        · exact absurd hv (hno _ _)
      · rcases l2 with l2 | l2
        · left; rw [hinit]; exact l2
        · right; exact (mem_msdOf_snoc _ _ _ _).mpr (.inl l2)
    · intro sid h1 h2 v hv
      rw [hml] at h1; rw [hfin] at h2
      rcases (mem_msdOf_snoc _ _ _ _).mp hv with hv | hv
      · exact h.dead sid h1 h2 v hv
      · exact hno _ _ hv
  | add cfg sid hml hnone hnf hfin hno =>
    have hk : sid ∉ (ml c.streams).map (·.1) := find?_none_iff_keys.mp hnone
    refine ⟨?_, ?_, ?_⟩
    · rw [hml, List.map_append, List.nodup_append]
      refine ⟨h.nodup, by simp, ?_⟩
      intro a ha b hb
      simp at hb; subst hb
      intro he; subst he; exact hk ha
    · intro p hp
      rw [hml] at hp
      rcases List.mem_append.mp hp with hp | hp
      · obtain ⟨l1, l2⟩ := h.live p hp
        refine ⟨?_, ?_⟩
        · intro v hv
          rcases (mem_msdOf_snoc _ _ _ _).mp hv with hv | hv
          · exact l1 v hv
          · exact absurd hv (hno _ _)
        · rcases l2 with l2 | l2
          · left; rw [hinit]; exact l2
          · right; exact (mem_msdOf_snoc _ _ _ _).mpr (.inl l2)
      · simp at hp; subst hp
        refine ⟨?_, .inl (by rw [hinit])⟩
        intro v hv
        rcases (mem_msdOf_snoc _ _ _ _).mp hv with hv | hv
        · exact absurd hv (h.dead sid hk hnf v)
        · exact absurd hv (hno _ _)
    · intro sid' h1 h2 v hv
      rw [hml] at h1; rw [hfin] at h2
      have h1' : sid' ∉ (ml c.streams).map (·.1) := by
        intro hin; apply h1; rw [List.map_append]; exact List.mem_append_left _ hin
      rcases (mem_msdOf_snoc _ _ _ _).mp hv with hv | hv
      · exact h.dead sid' h1' h2 v hv
      · exact hno _ _ hv
  | discard cfg sid st0 hf0 hdone0 hml hfin hno =>
    refine ⟨?_, ?_, ?_⟩
    · rw [hml]
      exact List.Nodup.sublist (List.Sublist.map _ List.filter_sublist) h.nodup
    · intro p hp
      rw [hml] at hp
      obtain ⟨l1, l2⟩ := h.live p (List.mem_filter.mp hp).1
      refine ⟨?_, ?_⟩
      · intro v hv
        rcases (mem_msdOf_snoc _ _ _ _).mp hv with hv | hv
        · exact l1 v hv
        · exact absurd hv (hno _ _)
      · rcases l2 with l2 | l2
        · left; rw [hinit]; exact l2
        · right; exact (mem_msdOf_snoc _ _ _ _).mpr (.inl l2)
    · intro sid' h1 h2 v hv
      rw [hml] at h1; rw [hfin] at h2
      simp at h2
      have h1' : sid' ∉ (ml c.streams).map (·.1) := by
        intro hin
        obtain ⟨p, hp, he⟩ := List.mem_map.mp hin
        apply h1
        exact List.mem_map.mpr ⟨p, List.mem_filter.mpr ⟨hp, by simp [he]; exact h2.1⟩, he⟩
      rcases (mem_msdOf_snoc _ _ _ _).mp hv with hv | hv
      · exact h.dead sid' h1' h2.2 v hv
      · exact hno _ _ hv
  | raise cfg sid m v hf hle hml hfin hfr =>
    refine ⟨by rw [hml, keys_setFirst]; exact h.nodup, ?_, ?_⟩
    · intro p hp
      rw [hml] at hp
      rcases mem_setFirst h.nodup hp with rfl | ⟨hp1, hp2⟩
      · obtain ⟨l1, _⟩ := h.live (sid, m) hf
        refine ⟨?_, .inr ((mem_msdOf_snoc _ _ _ _).mpr (.inr ((hfr _ _).mpr ⟨rfl, rfl⟩)))⟩
        intro w hw
        rcases (mem_msdOf_snoc _ _ _ _).mp hw with hw | hw
        · have := l1 w hw; simp at this ⊢; omega
        · have := ((hfr _ _).mp hw).2; simp at this ⊢; omega
      · obtain ⟨l1, l2⟩ := h.live p hp1
        refine ⟨?_, ?_⟩
        · intro w hw
          rcases (mem_msdOf_snoc _ _ _ _).mp hw with hw | hw
          · exact l1 w hw
          · exact absurd ((hfr _ _).mp hw).1 hp2
        · rcases l2 with l2 | l2
          · left; rw [hinit]; exact l2
          · right; exact (mem_msdOf_snoc _ _ _ _).mpr (.inl l2)
    · intro sid' h1 h2 w hw
      rw [hml, keys_setFirst] at h1; rw [hfin] at h2
      rcases (mem_msdOf_snoc _ _ _ _).mp hw with hw | hw
      · exact h.dead sid' h1 h2 w hw
      · have := ((hfr _ _).mp hw).1
        subst this
        exact h1 (List.mem_map.mpr ⟨(sid', m), hf, rfl⟩)

theorem FixedQ.step {c : Conn} (hq : FixedQ c) (op : Op) : FixedQ (step c op).1 := by
  have := (step_mlstep c hq op).cfg'.q1
  unfold FixedQ; rw [this]; exact hq

theorem run_Q {c : Conn} (hq : FixedQ c) (prev : List Out) (h : Q c prev) (ops : List Op) :
    Q (run c ops).1 (prev ++ (run c ops).2) ∧ Cfg c (run c ops).1 := by
  induction ops generalizing c prev with
  | nil => simp [run]; exact ⟨h, Cfg.refl c⟩
  | cons op ops ih =>
    have hs := step_mlstep c hq op
    obtain ⟨i1, i2⟩ := ih (hq.step op) (prev ++ [(step c op).2]) (h.step hs)
    simp only [run]
    refine ⟨?_, hs.cfg'.trans i2⟩
    rw [List.append_assoc] at i1
    exact i1

end AQ.Flow
