/-
  Proofs about the send half of a stream (model: AQ/Model/Stream.lean `Send`,
  Python: aioquic/quic/stream.py QuicStreamSender).

  1. closed forms of the model functions (`getFrame_*`, `onDataDelivery_*`,
     `write_ok`, `ackRanges_spec`): pure restatements, no invariant needed;
  2. the ghost history (`Ghost`, `SOp`, `step`, `run`, `okOp`, `WFHist`, `σ0`);
  3. the invariant `SInv` (with the PARTITION of written offsets into pending /
     in flight / acknowledged), its preservation by every operation and hence
     along every well-formed history (`SInv_reachable`);
  4. the statements the property theorems of AQ/Props/C10Send.lean instantiate.
  Core Lean only.
-/
import AQ.Proofs.RangeSet
import AQ.Model.Stream
namespace AQ.Stream
open AQ AQ.RangeSet

theorem pySlice_nat (buf : Bytes) (a b c : Nat) (hc : c ≤ a) (h : a ≤ b) (hb : b - c ≤ buf.length) :
    pySlice buf ((a : Int) - c) ((b : Int) - c) = (buf.drop (a - c)).take (b - a) := by
  have e1 : ((a : Int) - c) = ((a - c : Nat) : Int) := by omega
  have e2 : ((b : Int) - c) = ((b - c : Nat) : Int) := by omega
  rw [e1, e2]
  unfold pySlice pyIndex
  have n1 : ¬ (((a - c : Nat) : Int) < 0) := by omega
  have n2 : ¬ (((b - c : Nat) : Int) < 0) := by omega
  simp only [n1, n2, if_false, Int.toNat_natCast]
  have m1 : min (a - c) buf.length = a - c := by omega
  have m2 : min (b - c) buf.length = b - c := by omega
  rw [m1, m2]
  congr 1
  omega

/-- the flow-controlled stop offset computed by `get_frame` -/
def capStop (r : Rg) (ms : Nat) (mo : Option Nat) : Nat :=
  match mo with
  | some m => if min r.stop (r.start + ms) > m then m else min r.stop (r.start + ms)
  | none => min r.stop (r.start + ms)

def afterData (s : Send) (start stop : Nat) : Send :=
  { s with pending := subtract start stop s.pending,
           highest := if stop > s.highest then stop else s.highest,
           pendingEof := if s.bufFin = some stop then false else s.pendingEof }

theorem getFrame_reset (s : Send) (ms : Nat) (mo : Option Nat) (h : s.resetCode.isSome = true) :
    getFrame s ms mo = .error (.py .assertion) := by
  simp [getFrame, h]

theorem getFrame_nil_eof (s : Send) (ms : Nat) (mo : Option Nat) (h : s.resetCode.isSome = false)
    (hp : s.pending = []) (he : s.pendingEof = true) (z : Nat) (hz : s.bufFin = some z) :
    getFrame s ms mo = .ok ({ s with pendingEof := false }, some ⟨z, [], true⟩) := by
  simp [getFrame, h, hp, he, hz]

theorem getFrame_nil_idle (s : Send) (ms : Nat) (mo : Option Nat) (h : s.resetCode.isSome = false)
    (hp : s.pending = []) (he : s.pendingEof = false) :
    getFrame s ms mo = .ok ({ s with bufferIsEmpty := true }, none) := by
  simp [getFrame, h, hp, he]

/-- the tail of `get_frame` once `stop` is known -/
def frameTail (s : Send) (start stop : Nat) : Outcome (Send × Option OutFrame) :=
    if stop ≤ start then .ok (s, none) else
    let data := pySlice s.buffer ((start : Int) - s.bufStart) ((stop : Int) - s.bufStart)
    let s := { s with pending := subtract start stop s.pending }
    let s := if stop > s.highest then { s with highest := stop } else s
    if s.bufFin = some stop then
      .ok ({ s with pendingEof := false }, some ⟨start, data, true⟩)
    else .ok (s, some ⟨start, data, false⟩)

theorem getFrame_cons (s : Send) (ms : Nat) (mo : Option Nat) (h : s.resetCode.isSome = false)
    (r : Rg) (rest : List Rg) (hp : s.pending = r :: rest) :
    getFrame s ms mo = frameTail s r.start (capStop r ms mo) := by
  unfold getFrame frameTail capStop
  simp only [h, hp]
  cases mo <;> rfl

theorem frameTail_blocked (s : Send) (start stop : Nat) (hb : stop ≤ start) :
    frameTail s start stop = .ok (s, none) := by
  simp [frameTail, hb]

theorem frameTail_data (s : Send) (start stop : Nat) (hb : start < stop) :
    frameTail s start stop = .ok (afterData s start stop,
      some ⟨start, pySlice s.buffer ((start : Int) - s.bufStart) ((stop : Int) - s.bufStart),
            decide (s.bufFin = some stop)⟩) := by
  have hb' : ¬ (stop ≤ start) := by omega
  unfold frameTail afterData
  simp only [hb', if_false]
  by_cases h1 : stop > s.highest <;> by_cases h2 : s.bufFin = some stop <;> simp [h1, h2]

/-! ## `on_data_delivery` in closed form -/

def afterLost (s : Send) (a b : Nat) (fin : Bool) : Send :=
  { s with bufferIsEmpty := if b > a ∨ fin = true then false else s.bufferIsEmpty,
           pending := if b > a then add a b s.pending else s.pending,
           pendingEof := fin || s.pendingEof }

/-- the `if stop > start:` block of the ACKED branch -/
def ackRanges (s : Send) (a b : Nat) : Send :=
  if b > a then
    let acked := add a b s.acked
    match acked with
    | [] => { s with acked := acked }
    | fr :: rest =>
      if fr.start = s.bufStart then
        let size := fr.stop - fr.start
        { s with acked := rest, bufStart := s.bufStart + size, buffer := s.buffer.drop size }
      else { s with acked := acked }
  else s

/-- the tail of the ACKED branch (FIN flag and completion test) in closed form -/
def ackFinish (s1 : Send) (fin : Bool) : Send :=
  { s1 with ackedFin := fin || s1.ackedFin,
            finished := s1.finished || (decide (some s1.bufStart = s1.bufFin) && (fin || s1.ackedFin)) }

def afterAcked (s : Send) (a b : Nat) (fin : Bool) : Send := ackFinish (ackRanges s a b) fin

theorem onDataDelivery_err (s : Send) (d : Delivery) (a b : Nat) (fin : Bool)
    (h : fin = true ∧ some b ≠ s.bufFin) : onDataDelivery s d a b fin = .error (.py .assertion) := by
  simp [onDataDelivery, h]

theorem onDataDelivery_reset (s : Send) (d : Delivery) (a b : Nat) (fin : Bool)
    (h : ¬ (fin = true ∧ some b ≠ s.bufFin)) (hr : s.resetCode.isSome = true) :
    onDataDelivery s d a b fin = .ok s := by
  simp only [onDataDelivery, h, hr, if_true, if_false]

theorem onDataDelivery_lost (s : Send) (a b : Nat) (fin : Bool)
    (h : ¬ (fin = true ∧ some b ≠ s.bufFin)) (hr : s.resetCode.isSome = false) :
    onDataDelivery s .lost a b fin = .ok (afterLost s a b fin) := by
  simp only [onDataDelivery, h, hr, if_false, afterLost]
  by_cases h1 : b > a <;> cases fin <;> simp [h1]

theorem onDataDelivery_acked (s : Send) (a b : Nat) (fin : Bool)
    (h : ¬ (fin = true ∧ some b ≠ s.bufFin)) (hr : s.resetCode.isSome = false) :
    onDataDelivery s .acked a b fin = .ok (afterAcked s a b fin) := by
  have e : onDataDelivery s .acked a b fin =
      (let s1 := ackRanges s a b
       let s2 := if fin then { s1 with ackedFin := true } else s1
       if some s2.bufStart = s2.bufFin ∧ s2.ackedFin then .ok { s2 with finished := true } else .ok s2) := by
    unfold onDataDelivery
    rw [if_neg h, if_neg (by simp [hr])]
    rfl
  rw [e]
  unfold afterAcked ackFinish
  generalize ackRanges s a b = s1
  clear e
  cases s1 with
  | mk e1 e2 fi e4 e5 af e7 bf bs e10 e11 e12 e13 =>
    cases fin <;> by_cases h2 : some bs = bf <;> cases af <;> cases fi <;> simp [h2]

/-- what the range bookkeeping of an ACK does, in terms of set membership -/
structure AckSpec (s s1 : Send) (a b : Nat) : Prop where
  wf : WF s1.acked
  cover : ∀ i, (i < s1.bufStart ∨ mem i s1.acked) ↔ (i < s.bufStart ∨ mem i s.acked ∨ (a ≤ i ∧ i < b))
  gt : ∀ i, mem i s1.acked → s1.bufStart < i
  le : s.bufStart ≤ s1.bufStart
  buf : s1.buffer = s.buffer.drop (s1.bufStart - s.bufStart)
  frame : s1 = { s with acked := s1.acked, bufStart := s1.bufStart, buffer := s1.buffer }

theorem ackRanges_noop (s : Send) (a b : Nat) (h : ¬ a < b) : ackRanges s a b = s := by
  simp [ackRanges, h]

theorem ackRanges_spec (s : Send) (a b : Nat) (hab : a < b) (hwf : WF s.acked)
    (hgt : ∀ i, mem i s.acked → s.bufStart < i) (hle : s.bufStart ≤ a) :
    AckSpec s (ackRanges s a b) a b := by
  have hwf' := add_wf a b hab _ hwf
  have hm := add_mem a b hab _ hwf
  unfold ackRanges
  simp only [gt_iff_lt, hab, if_true]
  generalize add a b s.acked = l at *
  cases l with
  | nil => exact absurd ((hm a).2 (Or.inr ⟨Nat.le_refl _, hab⟩)) (by simp)
  | cons fr rest =>
    have hl := wf_head_least hwf'
    have h0 := wf_head hwf'
    simp only []
    split
    · rename_i hs
      refine ⟨wf_tail hwf', ?_, ?_, ?_, ?_, rfl⟩
      · intro i
        simp only []
        have hmi := hm i
        rw [mem_cons] at hmi
        have := fun h => wf_mem_gt hwf' (x := i) h
        constructor
        · rintro (h | h)
          · by_cases i < s.bufStart
            · exact Or.inl ‹_›
            · exact Or.inr (hmi.1 (Or.inl ⟨by omega, by omega⟩))
          · exact Or.inr (hmi.1 (Or.inr h))
        · rintro (h | h)
          · exact Or.inl (by omega)
          · rcases hmi.2 h with h | h
            · exact Or.inl (by omega)
            · exact Or.inr h
      · intro i hi
        have := wf_mem_gt hwf' hi
        simp only []; omega
      · simp only []; omega
      · simp only []; congr 1; omega
    · rename_i hs
      refine ⟨hwf', ?_, ?_, Nat.le_refl _, by simp, rfl⟩
      · intro i
        simp only []
        rw [hm i]
      · intro i hi
        simp only [] at hi ⊢
        have h1 := hl.2 i hi
        have h2 := (hm _).1 hl.1
        rcases h2 with h2 | h2
        · have := hgt _ h2; omega
        · omega

/-! ## `write` in closed form -/

def afterWrite (s : Send) (data : Bytes) (fin : Bool) : Send :=
  { s with bufferIsEmpty := if data.length ≠ 0 ∨ fin = true then false else s.bufferIsEmpty,
           pending := if data.length ≠ 0 then add s.bufStop (s.bufStop + data.length) s.pending else s.pending,
           buffer := s.buffer ++ data,
           bufStop := s.bufStop + data.length,
           bufFin := if fin = true then some (s.bufStop + data.length) else s.bufFin,
           pendingEof := fin || s.pendingEof }

theorem write_err (s : Send) (data : Bytes) (fin : Bool)
    (h : s.bufFin.isSome = true ∨ s.resetCode.isSome = true) :
    write s data fin = .error (.py .assertion) := by
  unfold write
  rcases h with h | h
  · simp [h]
  · by_cases h1 : s.bufFin.isSome = true <;> simp [h, h1]

theorem write_ok (s : Send) (data : Bytes) (fin : Bool)
    (h1 : s.bufFin.isSome = false) (h2 : s.resetCode.isSome = false) :
    write s data fin = .ok (afterWrite s data fin) := by
  unfold write afterWrite
  cases s with
  | mk e1 e2 fi e4 e5 af e7 bf bs e10 e11 e12 e13 =>
    simp only at h1 h2
    cases data <;> cases fin <;> simp [h1, h2]

/-! ## Ghost history -/

/-- an emitted frame as the caller remembers it: (start, stop, fin) -/
structure Fr where
  start : Nat
  stop : Nat
  fin : Bool
deriving Repr, DecidableEq

/-- offset `i` is carried by frame `f` -/
def Fr.cov (f : Fr) (i : Nat) : Bool := decide (f.start ≤ i) && decide (i < f.stop)

@[simp] theorem Fr.cov_iff (f : Fr) (i : Nat) : f.cov i = true ↔ f.start ≤ i ∧ i < f.stop := by
  simp [Fr.cov]

inductive SOp where
  | write (data : Bytes) (fin : Bool)
  | get (maxSize : Nat) (maxOffset : Option Nat)
  | delivery (d : Delivery) (start stop : Nat) (fin : Bool)
  | reset (code : Nat)
  | getReset
  | resetDelivery (d : Delivery)
deriving Repr, DecidableEq

/-- ghost history (what happened, independent of the sender's private fields) -/
structure Ghost where
  /-- all bytes accepted by `write`, in order -/
  written : Bytes := []
  /-- a write with end_stream was accepted -/
  finWritten : Bool := false
  /-- reset() was called -/
  reset : Bool := false
  /-- frames emitted by getFrame, not yet reported -/
  outstanding : List Fr := []
  /-- frames reported ACKED before any reset -/
  acked : List Fr := []
  /-- RESET frames emitted by getResetFrame, not yet reported -/
  resetOut : Nat := 0
  /-- a RESET frame was reported ACKED -/
  resetAcked : Bool := false
deriving Repr, DecidableEq

def OutFrame.fr (f : OutFrame) : Fr := ⟨f.offset, f.offset + f.data.length, f.fin⟩

def Ghost.onWrite (g : Ghost) (data : Bytes) (fin : Bool) : Ghost :=
  { g with written := g.written ++ data, finWritten := g.finWritten || fin }

def Ghost.onGet (g : Ghost) : Option OutFrame → Ghost
  | some f => { g with outstanding := f.fr :: g.outstanding }
  | none => g

def Ghost.onDelivery (g : Ghost) (d : Delivery) (fr : Fr) : Ghost :=
  { g with outstanding := g.outstanding.erase fr,
           acked := if d = .acked ∧ g.reset = false then fr :: g.acked else g.acked }

def Ghost.onResetDelivery (g : Ghost) (d : Delivery) : Ghost :=
  { g with resetOut := g.resetOut - 1, resetAcked := g.resetAcked || decide (d = .acked) }

/-- One operation on the pair (model state, ghost history).  A call on which the
    model returns `.error _` leaves the pair unchanged: in stream.py the `assert`s
    of `write`, `get_frame` and `on_data_delivery` are the first statements of the
    method, so the real object is not mutated either.  (`get_frame`'s
    `TypeError` branch of the model is unreachable, see `SInv.eof_fin`.) -/
def step (σ : Send × Ghost) : SOp → Send × Ghost
  | .write data fin =>
    match write σ.1 data fin with
    | .ok s' => (s', σ.2.onWrite data fin)
    | .error _ => σ
  | .get ms mo =>
    match getFrame σ.1 ms mo with
    | .ok (s', o) => (s', σ.2.onGet o)
    | .error _ => σ
  | .delivery d a b fin =>
    match onDataDelivery σ.1 d a b fin with
    | .ok s' => (s', σ.2.onDelivery d ⟨a, b, fin⟩)
    | .error _ => σ
  | .reset code => (reset σ.1 code, { σ.2 with reset := true })
  | .getReset => ((getResetFrame σ.1).1, { σ.2 with resetOut := σ.2.resetOut + 1 })
  | .resetDelivery d => (onResetDelivery σ.1 d, σ.2.onResetDelivery d)

def run (σ : Send × Ghost) (ops : List SOp) : Send × Ghost := ops.foldl step σ

@[simp] theorem run_nil (σ : Send × Ghost) : run σ [] = σ := rfl
@[simp] theorem run_cons (σ : Send × Ghost) (op : SOp) (ops : List SOp) :
    run σ (op :: ops) = run (step σ op) ops := rfl
theorem run_append (σ : Send × Ghost) (xs ys : List SOp) : run σ (xs ++ ys) = run (run σ xs) ys := by
  simp [run, List.foldl_append]

/-- the caller's obligations: only frames that were emitted and not yet reported
    are reported; a RESET frame is requested only after `reset()`; only emitted
    RESET frames are reported.  Everything else is unconstrained (calls the
    sender refuses are no-ops). -/
def okOp (σ : Send × Ghost) : SOp → Prop
  | .delivery _ a b fin => (⟨a, b, fin⟩ : Fr) ∈ σ.2.outstanding
  | .getReset => σ.2.reset = true
  | .resetDelivery _ => 0 < σ.2.resetOut
  | _ => True

instance (σ : Send × Ghost) (op : SOp) : Decidable (okOp σ op) := by
  cases op <;> simp only [okOp] <;> infer_instance

def WFHist (σ : Send × Ghost) : List SOp → Prop
  | [] => True
  | op :: rest => okOp σ op ∧ WFHist (step σ op) rest

instance decWFHist : (σ : Send × Ghost) → (ops : List SOp) → Decidable (WFHist σ ops)
  | _, [] => isTrue trivial
  | σ, op :: rest =>
    have := decWFHist (step σ op) rest
    by unfold WFHist; infer_instance

theorem WFHist_append (σ : Send × Ghost) (xs ys : List SOp) :
    WFHist σ (xs ++ ys) ↔ WFHist σ xs ∧ WFHist (run σ xs) ys := by
  induction xs generalizing σ with
  | nil => simp [WFHist]
  | cons x xs ih => simp [WFHist, ih, and_assoc]

/-- a fresh writable send half with an empty history -/
def σ0 : Send × Ghost := (Send.init true, {})

/-- all written bytes and the FIN have been acknowledged (before any reset) -/
def DataDone (g : Ghost) : Prop :=
  g.finWritten = true ∧ (∃ f ∈ g.acked, f.fin = true) ∧
    ∀ i, i < g.written.length → ∃ f ∈ g.acked, f.cov i = true

/-- 0/1 indicator -/
def ind (p : Prop) [Decidable p] : Nat := if p then 1 else 0

theorem ind_congr {p q : Prop} [Decidable p] [Decidable q] (h : p ↔ q) : ind p = ind q := by
  unfold ind; by_cases hp : p <;> simp [hp, h.symm]
theorem ind_pos {p : Prop} [Decidable p] (h : p) : ind p = 1 := by simp [ind, h]
theorem ind_neg {p : Prop} [Decidable p] (h : ¬ p) : ind p = 0 := by simp [ind, h]
theorem ind_le (p : Prop) [Decidable p] : ind p ≤ 1 := by unfold ind; split <;> omega
theorem ind_eq_one {p : Prop} [Decidable p] : ind p = 1 ↔ p := by unfold ind; split <;> simp [*]
theorem ind_eq_zero {p : Prop} [Decidable p] : ind p = 0 ↔ ¬ p := by unfold ind; split <;> simp [*]

theorem countP_erase_mem {α : Type} [DecidableEq α] (p : α → Bool) (l : List α) (f : α) (h : f ∈ l) :
    (l.erase f).countP p + (if p f = true then 1 else 0) = l.countP p := by
  obtain ⟨l₁, l₂, _, e1, e2⟩ := List.exists_erase_eq h
  rw [e2, e1, List.countP_append, List.countP_append, List.countP_cons]; omega

/-- The invariant tying the sender's private fields to the ghost history. -/
structure SInv (s : Send) (g : Ghost) : Prop where
  wfP : WF s.pending
  wfA : WF s.acked
  stop_eq : s.bufStop = g.written.length
  start_le : s.bufStart ≤ s.bufStop
  buf_eq : s.buffer = g.written.drop s.bufStart
  fin_eq : s.bufFin = if g.finWritten = true then some g.written.length else none
  eof_fin : s.pendingEof = true → g.finWritten = true
  code_iff : s.resetCode.isSome = g.reset
  reset_empty : g.reset = true → s.bufferIsEmpty = true
  rpend : s.resetPending = true → g.reset = true
  racked : g.resetAcked = true → g.reset = true
  rout : 0 < g.resetOut → g.reset = true
  /-- nothing ackable is withheld: buffered acked ranges lie strictly above the buffer start -/
  acked_rng : ∀ i, mem i s.acked → s.bufStart < i ∧ i < s.bufStop
  acked_link : ∀ i, (i < s.bufStart ∨ mem i s.acked) ↔ ∃ f ∈ g.acked, f.cov i = true
  /-- PARTITION: until a reset every written offset is in exactly one of: pending,
      one outstanding frame, acknowledged; and no other offset is anywhere -/
  part : g.reset = false → ∀ i,
    ind (mem i s.pending) + g.outstanding.countP (·.cov i) + ind (i < s.bufStart ∨ mem i s.acked)
      = ind (i < g.written.length)
  fin_cons : g.reset = false → g.finWritten = true →
    s.pendingEof = true ∨ (∃ f ∈ g.outstanding, f.fin = true) ∨ s.ackedFin = true
  afin_link : s.ackedFin = true ↔ ∃ f ∈ g.acked, f.fin = true
  fin_out : ∀ f ∈ g.outstanding, f.fin = true → g.finWritten = true ∧ f.stop = g.written.length
  fin_ack : ∀ f ∈ g.acked, f.fin = true → g.finWritten = true ∧ f.stop = g.written.length
  out_rng : ∀ f ∈ g.outstanding, f.start ≤ f.stop ∧ f.stop ≤ g.written.length ∧ (f.start < f.stop ∨ f.fin = true)
  flag : g.reset = false → (s.pending ≠ [] ∨ s.pendingEof = true) → s.bufferIsEmpty = false
  fin_iff : s.finished = true ↔ (DataDone g ∨ g.resetAcked = true)

theorem SInv_init : SInv (Send.init true) {} := by
  refine ⟨trivial, trivial, rfl, Nat.le_refl _, rfl, rfl, ?_, rfl, ?_, ?_, ?_, ?_, ?_, ?_, ?_, ?_, ?_, ?_, ?_, ?_, ?_, ?_⟩
    <;> simp [Send.init, DataDone, ind]

/-! ## Consequences of the partition -/

theorem SInv.pending_facts {s : Send} {g : Ghost} (h : SInv s g) (hr : g.reset = false) {i : Nat}
    (hi : mem i s.pending) :
    i < g.written.length ∧ s.bufStart ≤ i ∧ ¬ mem i s.acked ∧ g.outstanding.countP (·.cov i) = 0 := by
  have h0 := h.part hr i
  rw [ind_pos hi] at h0
  have h1 := ind_le (i < g.written.length)
  have h2 : ind (i < g.written.length) = 1 := by omega
  have h3 : ind (i < s.bufStart ∨ mem i s.acked) = 0 := by omega
  have h3 := ind_eq_zero.1 h3
  refine ⟨ind_eq_one.1 h2, ?_, ?_, by omega⟩
  · have : ¬ i < s.bufStart := fun x => h3 (Or.inl x)
    omega
  · exact fun x => h3 (Or.inr x)

theorem SInv.out_facts {s : Send} {g : Ghost} (h : SInv s g) (hr : g.reset = false) {f : Fr}
    (hf : f ∈ g.outstanding) {i : Nat} (hi : f.cov i = true) :
    i < g.written.length ∧ s.bufStart ≤ i ∧ ¬ mem i s.acked ∧ ¬ mem i s.pending ∧
      g.outstanding.countP (·.cov i) = 1 := by
  have h0 := h.part hr i
  have hc : 0 < g.outstanding.countP (·.cov i) := List.countP_pos_iff.2 ⟨f, hf, hi⟩
  have h1 := ind_le (i < g.written.length)
  have h2 : ind (i < g.written.length) = 1 := by omega
  have h3 : ind (i < s.bufStart ∨ mem i s.acked) = 0 := by omega
  have h4 : ind (mem i s.pending) = 0 := by omega
  have h3 := ind_eq_zero.1 h3
  refine ⟨ind_eq_one.1 h2, ?_, ?_, ind_eq_zero.1 h4, by omega⟩
  · have : ¬ i < s.bufStart := fun x => h3 (Or.inl x)
    omega
  · exact fun x => h3 (Or.inr x)

theorem DataDone_congr {g g' : Ghost} (h1 : g'.finWritten = g.finWritten) (h2 : g'.acked = g.acked)
    (h3 : g'.written = g.written) : DataDone g' ↔ DataDone g := by
  unfold DataDone; rw [h1, h2, h3]

/-! ## Preservation: `write` -/

theorem SInv_write {s : Send} {g : Ghost} (h : SInv s g) (data : Bytes) (fin : Bool) (s' : Send)
    (hw : write s data fin = .ok s') : SInv s' (g.onWrite data fin) := by
  have hf : s.bufFin.isSome = false := by
    cases hx : s.bufFin.isSome
    · rfl
    · rw [write_err s data fin (Or.inl hx)] at hw; cases hw
  have hc : s.resetCode.isSome = false := by
    cases hx : s.resetCode.isSome
    · rfl
    · rw [write_err s data fin (Or.inr hx)] at hw; cases hw
  rw [write_ok s data fin hf hc] at hw
  injection hw with hw
  subst hw
  have hr : g.reset = false := by rw [← h.code_iff]; exact hc
  have hfw : g.finWritten = false := by
    have := h.fin_eq
    cases hx : g.finWritten
    · rfl
    · rw [hx] at this; simp [this] at hf
  have hstop := h.stop_eq
  have hpm : ∀ i, mem i (afterWrite s data fin).pending ↔
      mem i s.pending ∨ (s.bufStop ≤ i ∧ i < s.bufStop + data.length) := by
    intro i
    simp only [afterWrite]
    split
    · exact add_mem _ _ (by omega) _ h.wfP i
    · constructor
      · exact Or.inl
      · rintro (h1 | h1)
        · exact h1
        · omega
  have nofin_out : ∀ f ∈ g.outstanding, f.fin = true → False := by
    intro f hf1 hf2; have := (h.fin_out f hf1 hf2).1; simp [hfw] at this
  have nofin_ack : ∀ f ∈ g.acked, f.fin = true → False := by
    intro f hf1 hf2; have := (h.fin_ack f hf1 hf2).1; simp [hfw] at this
  refine
    { wfP := ?_, wfA := h.wfA, stop_eq := ?_, start_le := ?_, buf_eq := ?_, fin_eq := ?_,
      eof_fin := ?_, code_iff := h.code_iff, reset_empty := ?_, rpend := h.rpend,
      racked := h.racked, rout := h.rout, acked_rng := ?_, acked_link := h.acked_link,
      part := ?_, fin_cons := ?_, afin_link := h.afin_link, fin_out := ?_, fin_ack := ?_,
      out_rng := ?_, flag := ?_, fin_iff := ?_ }
  · simp only [afterWrite]
    split
    · exact add_wf _ _ (by omega) _ h.wfP
    · exact h.wfP
  · simp [afterWrite, Ghost.onWrite, hstop]
  · have := h.start_le; simp only [afterWrite]; omega
  · have := h.start_le
    simp only [afterWrite, Ghost.onWrite, h.buf_eq, List.drop_append]
    have : s.bufStart - g.written.length = 0 := by omega
    simp [this]
  · simp only [afterWrite, Ghost.onWrite, hfw, Bool.false_or, List.length_append, hstop]
    cases fin <;> simp [h.fin_eq, hfw]
  · simp only [afterWrite, Ghost.onWrite, hfw, Bool.false_or, Bool.or_eq_true]
    intro hx
    rcases hx with hx | hx
    · exact hx
    · have := h.eof_fin hx; simp [hfw] at this
  · intro hx; simp [Ghost.onWrite, hr] at hx
  · intro i hi
    have := h.acked_rng i hi
    simp only [afterWrite]; omega
  · intro _ i
    have h0 := h.part hr i
    show ind (mem i (afterWrite s data fin).pending) + g.outstanding.countP (·.cov i)
        + ind (i < s.bufStart ∨ mem i s.acked) = ind (i < (g.written ++ data).length)
    rw [ind_congr (hpm i), List.length_append]
    by_cases h1 : i < g.written.length
    · rw [ind_pos h1] at h0
      rw [ind_pos (by omega : i < g.written.length + data.length), ← h0]
      congr 2
      apply ind_congr
      constructor
      · rintro (h2 | h2)
        · exact h2
        · omega
      · exact Or.inl
    · rw [ind_neg h1] at h0
      have h2 : ind (mem i s.pending) = 0 := by omega
      have h2 := ind_eq_zero.1 h2
      have e : ind (mem i s.pending ∨ s.bufStop ≤ i ∧ i < s.bufStop + data.length)
          = ind (i < g.written.length + data.length) := by
        apply ind_congr
        constructor
        · rintro (h3 | h3)
          · exact absurd h3 h2
          · omega
        · intro h3; exact Or.inr (by omega)
      rw [e]; omega
  · intro _ hx
    simp only [Ghost.onWrite, hfw, Bool.false_or] at hx
    left; simp [afterWrite, hx]
  · intro f hf1 hf2; exact absurd hf2 (fun x => nofin_out f hf1 x)
  · intro f hf1 hf2; exact absurd hf2 (fun x => nofin_ack f hf1 x)
  · intro f hf1
    have := h.out_rng f hf1
    simp only [Ghost.onWrite, List.length_append]
    exact ⟨this.1, by omega, this.2.2⟩
  · intro _ hx
    simp only [afterWrite] at hx ⊢
    by_cases h1 : data.length ≠ 0 ∨ fin = true
    · rw [if_pos h1]
    · have h2 : data.length = 0 := by omega
      have h3 : fin = false := by cases fin <;> simp_all
      simp only [h2, h3, ne_eq, not_true_eq_false, if_false, Bool.false_or, Bool.false_eq_true, or_self] at hx ⊢
      exact h.flag hr hx
  · have e1 : ¬ DataDone g := by intro hx; simp [hx.1] at hfw
    have e2 : ¬ DataDone (g.onWrite data fin) := by
      intro hx; obtain ⟨f, hf1, hf2⟩ := hx.2.1; exact nofin_ack f hf1 hf2
    have := h.fin_iff
    simp only [e1, false_or] at this
    simp only [e2, false_or]
    exact this

/-! ## Preservation: `get_frame` -/

theorem capStop_le (r : Rg) (ms : Nat) (mo : Option Nat) :
    capStop r ms mo ≤ r.stop ∧ capStop r ms mo ≤ r.start + ms ∧ ∀ m, mo = some m → capStop r ms mo ≤ m := by
  unfold capStop
  cases mo with
  | none => simp; omega
  | some m =>
    simp only [Option.some.injEq]
    split
    · refine ⟨by omega, by omega, ?_⟩; intro m' hm; omega
    · refine ⟨by omega, by omega, ?_⟩; intro m' hm; omega

theorem capStop_gt (r : Rg) (ms : Nat) (mo : Option Nat) (h0 : r.start < r.stop) (h1 : 0 < ms)
    (h2 : mo = none ∨ ∃ m, mo = some m ∧ r.start < m) : r.start < capStop r ms mo := by
  unfold capStop
  rcases h2 with h2 | ⟨m, h2, h3⟩
  · subst h2; simp only []; omega
  · subst h2; simp only []; split <;> omega

theorem SInv.head_facts {s : Send} {g : Ghost} (h : SInv s g) (hr : g.reset = false) {r : Rg}
    {rest : List Rg} (hp : s.pending = r :: rest) :
    r.start < r.stop ∧ s.bufStart ≤ r.start ∧ r.stop ≤ g.written.length := by
  have hwf := h.wfP
  rw [hp] at hwf
  have h0 := wf_head hwf
  have m1 : mem r.start s.pending := by rw [hp]; exact mem_cons.2 (Or.inl ⟨Nat.le_refl _, h0⟩)
  have m2 : mem (r.stop - 1) s.pending := by rw [hp]; exact mem_cons.2 (Or.inl ⟨by omega, by omega⟩)
  have f1 := h.pending_facts hr m1
  have f2 := h.pending_facts hr m2
  omega

/-- the bytes `get_frame` copies out of the buffer are the written bytes at those offsets -/
theorem SInv.slice_eq {s : Send} {g : Ghost} (h : SInv s g) (hr : g.reset = false) {r : Rg}
    {rest : List Rg} (hp : s.pending = r :: rest) (stop : Nat) (h1 : r.start ≤ stop) (h2 : stop ≤ r.stop) :
    pySlice s.buffer ((r.start : Int) - s.bufStart) ((stop : Int) - s.bufStart)
        = (g.written.drop r.start).take (stop - r.start) ∧
      ((g.written.drop r.start).take (stop - r.start)).length = stop - r.start := by
  have hh := h.head_facts hr hp
  have hb := h.buf_eq
  constructor
  · rw [pySlice_nat s.buffer r.start stop s.bufStart hh.2.1 h1 (by rw [hb, List.length_drop]; omega)]
    rw [hb, List.drop_drop]
    congr 2
    omega
  · rw [List.length_take, List.length_drop]; omega

theorem SInv_get_idle {s : Send} {g : Ghost} (h : SInv s g) (hp : s.pending = [])
    (he : s.pendingEof = false) : SInv { s with bufferIsEmpty := true } g :=
  { h with
    reset_empty := fun _ => rfl
    flag := by intro _ hx; simp [hp, he] at hx }

theorem SInv_get_finonly {s : Send} {g : Ghost} (h : SInv s g) (hp : s.pending = [])
    (he : s.pendingEof = true) :
    SInv { s with pendingEof := false }
      { g with outstanding := ⟨g.written.length, g.written.length, true⟩ :: g.outstanding } :=
  { h with
    eof_fin := by intro hx; cases hx
    part := by
      intro hr i
      have := h.part hr i
      simp only [List.countP_cons, Fr.cov_iff]
      have e : ¬ (g.written.length ≤ i ∧ i < g.written.length) := by omega
      simp only [e, if_false]
      exact this
    fin_cons := by
      intro _ _
      exact Or.inr (Or.inl ⟨_, List.mem_cons_self, rfl⟩)
    fin_out := by
      intro f hf hfin
      rcases List.mem_cons.1 hf with hf | hf
      · subst hf; exact ⟨h.eof_fin he, rfl⟩
      · exact h.fin_out f hf hfin
    out_rng := by
      intro f hf
      rcases List.mem_cons.1 hf with hf | hf
      · subst hf; exact ⟨Nat.le_refl _, Nat.le_refl _, Or.inr rfl⟩
      · exact h.out_rng f hf
    flag := by intro _ hx; simp [hp] at hx
    fin_iff := h.fin_iff }

theorem SInv_get_data {s : Send} {g : Ghost} (h : SInv s g) (hr : g.reset = false) {r : Rg}
    {rest : List Rg} (hp : s.pending = r :: rest) (stop : Nat) (h1 : r.start < stop) (h2 : stop ≤ r.stop) :
    SInv (afterData s r.start stop)
      { g with outstanding := ⟨r.start, stop, decide (s.bufFin = some stop)⟩ :: g.outstanding } := by
  have hh := h.head_facts hr hp
  have hfin : s.bufFin = some stop → g.finWritten = true ∧ stop = g.written.length := by
    intro hx
    have := h.fin_eq
    rw [hx] at this
    cases hy : g.finWritten
    · simp [hy] at this
    · simp [hy] at this; exact ⟨rfl, this⟩
  exact
  { h with
    wfP := subtract_wf _ _ h1 _ h.wfP
    eof_fin := by
      simp only [afterData]
      intro hx
      split at hx
      · cases hx
      · exact h.eof_fin hx
    part := by
      intro _ i
      have h0 := h.part hr i
      show ind (mem i (subtract r.start stop s.pending))
          + List.countP (·.cov i) (⟨r.start, stop, decide (s.bufFin = some stop)⟩ :: g.outstanding)
          + ind (i < s.bufStart ∨ mem i s.acked) = ind (i < g.written.length)
      rw [ind_congr (subtract_mem r.start stop s.pending h.wfP i)]
      simp only [List.countP_cons, Fr.cov_iff]
      by_cases hi : r.start ≤ i ∧ i < stop
      · have hm : mem i s.pending := by rw [hp]; exact mem_cons.2 (Or.inl ⟨hi.1, by omega⟩)
        rw [ind_pos hm] at h0
        rw [ind_neg (by intro hx; exact hx.2 hi), if_pos hi]
        omega
      · rw [if_neg hi, ← h0]
        congr 2
        apply ind_congr
        constructor
        · exact fun hx => hx.1
        · exact fun hx => ⟨hx, hi⟩
    fin_cons := by
      intro _ hfw
      simp only [afterData]
      by_cases hx : s.bufFin = some stop
      · exact Or.inr (Or.inl ⟨_, List.mem_cons_self, by simp [hx]⟩)
      · rcases h.fin_cons hr hfw with h3 | ⟨f, h3, h4⟩ | h3
        · left; simp [hx, h3]
        · exact Or.inr (Or.inl ⟨f, List.mem_cons_of_mem _ h3, h4⟩)
        · exact Or.inr (Or.inr h3)
    fin_out := by
      intro f hf hfn
      rcases List.mem_cons.1 hf with hf | hf
      · subst hf
        simp only [decide_eq_true_eq] at hfn
        exact hfin hfn
      · exact h.fin_out f hf hfn
    out_rng := by
      intro f hf
      rcases List.mem_cons.1 hf with hf | hf
      · subst hf; exact ⟨by simp only []; omega, by simp only []; omega, Or.inl h1⟩
      · exact h.out_rng f hf
    flag := by
      intro _ _
      exact h.flag hr (Or.inl (by simp [hp]))
    fin_iff := h.fin_iff }

/-- every way `get_frame` can go in a reachable, un-reset state -/
theorem getFrame_cases {s : Send} {g : Ghost} (h : SInv s g) (hr : g.reset = false) (ms : Nat)
    (mo : Option Nat) :
    (s.pending = [] ∧ s.pendingEof = false ∧
        getFrame s ms mo = .ok ({ s with bufferIsEmpty := true }, none)) ∨
    (s.pending = [] ∧ s.pendingEof = true ∧
        getFrame s ms mo = .ok ({ s with pendingEof := false }, some ⟨g.written.length, [], true⟩)) ∨
    (∃ r rest, s.pending = r :: rest ∧ capStop r ms mo ≤ r.start ∧ getFrame s ms mo = .ok (s, none)) ∨
    (∃ r rest, s.pending = r :: rest ∧ r.start < capStop r ms mo ∧
        getFrame s ms mo = .ok (afterData s r.start (capStop r ms mo),
          some ⟨r.start, (g.written.drop r.start).take (capStop r ms mo - r.start),
                decide (s.bufFin = some (capStop r ms mo))⟩)) := by
  have hc : s.resetCode.isSome = false := by rw [h.code_iff]; exact hr
  obtain hp | ⟨r, rest, hp⟩ : s.pending = [] ∨ ∃ r rest, s.pending = r :: rest := by
    cases s.pending <;> simp
  · by_cases he : s.pendingEof = true
    · have hz : s.bufFin = some g.written.length := by
        rw [h.fin_eq, h.eof_fin he]; rfl
      exact Or.inr (Or.inl ⟨hp, he, getFrame_nil_eof s ms mo hc hp he _ hz⟩)
    · have he : s.pendingEof = false := by simpa using he
      exact Or.inl ⟨hp, he, getFrame_nil_idle s ms mo hc hp he⟩
  · by_cases hb : capStop r ms mo ≤ r.start
    · refine Or.inr (Or.inr (Or.inl ⟨r, rest, hp, hb, ?_⟩))
      rw [getFrame_cons s ms mo hc r rest hp, frameTail_blocked _ _ _ hb]
    · have hb : r.start < capStop r ms mo := by omega
      refine Or.inr (Or.inr (Or.inr ⟨r, rest, hp, hb, ?_⟩))
      rw [getFrame_cons s ms mo hc r rest hp, frameTail_data _ _ _ hb,
        (h.slice_eq hr hp _ (by omega) (capStop_le r ms mo).1).1]

theorem SInv_get {s : Send} {g : Ghost} (h : SInv s g) (ms : Nat) (mo : Option Nat) (s' : Send)
    (o : Option OutFrame) (hg : getFrame s ms mo = .ok (s', o)) : SInv s' (g.onGet o) := by
  cases hr : g.reset with
  | true =>
    rw [getFrame_reset s ms mo (by rw [h.code_iff]; exact hr)] at hg; cases hg
  | false =>
    rcases getFrame_cases h hr ms mo with ⟨hp, he, e⟩ | ⟨hp, he, e⟩ | ⟨r, rest, hp, hb, e⟩ | ⟨r, rest, hp, hb, e⟩
    · rw [e] at hg; injection hg with hg; injection hg with h1 h2; subst h1; subst h2
      exact SInv_get_idle h hp he
    · rw [e] at hg; injection hg with hg; injection hg with h1 h2; subst h1; subst h2
      exact SInv_get_finonly h hp he
    · rw [e] at hg; injection hg with hg; injection hg with h1 h2; subst h1; subst h2
      exact h
    · rw [e] at hg; injection hg with hg; injection hg with h1 h2; subst h1; subst h2
      have hl := (h.slice_eq hr hp _ (Nat.le_of_lt hb) (capStop_le r ms mo).1).2
      have := SInv_get_data h hr hp _ hb (capStop_le r ms mo).1
      simp only [Ghost.onGet, OutFrame.fr, hl]
      have e2 : r.start + (capStop r ms mo - r.start) = capStop r ms mo := by omega
      rw [e2]
      exact this

/-! ## Preservation: `on_data_delivery` -/

theorem ackRanges_spec' (s : Send) (a b : Nat) (hwf : WF s.acked)
    (hgt : ∀ i, mem i s.acked → s.bufStart < i) (hle : a < b → s.bufStart ≤ a) :
    AckSpec s (ackRanges s a b) a b := by
  by_cases hab : a < b
  · exact ackRanges_spec s a b hab hwf hgt (hle hab)
  · rw [ackRanges_noop s a b hab]
    refine ⟨hwf, ?_, hgt, Nat.le_refl _, by simp, rfl⟩
    intro i
    constructor
    · rintro (h | h)
      · exact Or.inl h
      · exact Or.inr (Or.inl h)
    · rintro (h | h | h)
      · exact Or.inl h
      · exact Or.inr h
      · omega

/-- the delivery report of an outstanding frame never trips the sender's assertion -/
theorem SInv.delivery_no_err {s : Send} {g : Ghost} (h : SInv s g) {a b : Nat} {fin : Bool}
    (hf : (⟨a, b, fin⟩ : Fr) ∈ g.outstanding) : ¬ (fin = true ∧ some b ≠ s.bufFin) := by
  rintro ⟨h1, h2⟩
  have := h.fin_out _ hf h1
  apply h2
  rw [h.fin_eq, this.1]
  simp only [if_true]
  exact congrArg some this.2

theorem SInv_delivery_reset {s : Send} {g : Ghost} (h : SInv s g) (hr : g.reset = true) (d : Delivery)
    (fr : Fr) : SInv s (g.onDelivery d fr) := by
  have e : g.onDelivery d fr = { g with outstanding := g.outstanding.erase fr } := by
    simp [Ghost.onDelivery, hr]
  rw [e]
  exact
  { h with
    part := by intro hx; simp [hr] at hx
    fin_cons := by intro hx; simp [hr] at hx
    flag := by intro hx; simp [hr] at hx
    fin_out := fun f hf => h.fin_out f (List.mem_of_mem_erase hf)
    out_rng := fun f hf => h.out_rng f (List.mem_of_mem_erase hf)
    fin_iff := h.fin_iff }

theorem SInv_delivery_lost {s : Send} {g : Ghost} (h : SInv s g) (hr : g.reset = false) {a b : Nat}
    {fin : Bool} (hf : (⟨a, b, fin⟩ : Fr) ∈ g.outstanding) :
    SInv (afterLost s a b fin) (g.onDelivery .lost ⟨a, b, fin⟩) := by
  have e : g.onDelivery .lost ⟨a, b, fin⟩ = { g with outstanding := g.outstanding.erase ⟨a, b, fin⟩ } := by
    simp [Ghost.onDelivery]
  rw [e]
  have hpm : ∀ i, mem i (afterLost s a b fin).pending ↔ mem i s.pending ∨ (a ≤ i ∧ i < b) := by
    intro i
    simp only [afterLost]
    split
    · exact add_mem _ _ (by omega) _ h.wfP i
    · constructor
      · exact Or.inl
      · rintro (h1 | h1)
        · exact h1
        · omega
  exact
  { h with
    wfP := by
      simp only [afterLost]
      split
      · exact add_wf _ _ (by omega) _ h.wfP
      · exact h.wfP
    eof_fin := by
      simp only [afterLost, Bool.or_eq_true]
      rintro (hx | hx)
      · exact (h.fin_out _ hf hx).1
      · exact h.eof_fin hx
    reset_empty := by intro hx; simp [hr] at hx
    part := by
      intro _ i
      have h0 := h.part hr i
      have hc := countP_erase_mem (·.cov i) g.outstanding ⟨a, b, fin⟩ hf
      show ind (mem i (afterLost s a b fin).pending)
          + List.countP (·.cov i) (g.outstanding.erase ⟨a, b, fin⟩)
          + ind (i < s.bufStart ∨ mem i s.acked) = ind (i < g.written.length)
      rw [ind_congr (hpm i)]
      simp only [Fr.cov_iff] at hc
      by_cases hi : a ≤ i ∧ i < b
      · have hfa := h.out_facts hr hf (i := i) (by simp [hi])
        rw [ind_neg hfa.2.2.2.1] at h0
        rw [if_pos hi] at hc
        rw [ind_pos (Or.inr hi)]
        omega
      · rw [if_neg hi] at hc
        have e2 : ind (mem i s.pending ∨ a ≤ i ∧ i < b) = ind (mem i s.pending) :=
          ind_congr ⟨fun hx => hx.resolve_right hi, Or.inl⟩
        rw [e2]; omega
    fin_cons := by
      intro _ hfw
      simp only [afterLost]
      cases fin with
      | true => left; rfl
      | false =>
        rcases h.fin_cons hr hfw with h3 | ⟨f, h3, h4⟩ | h3
        · left; simpa using h3
        · refine Or.inr (Or.inl ⟨f, ?_, h4⟩)
          exact (List.mem_erase_of_ne (by intro hx; rw [hx] at h4; cases h4)).2 h3
        · exact Or.inr (Or.inr h3)
    fin_out := fun f hf' => h.fin_out f (List.mem_of_mem_erase hf')
    out_rng := fun f hf' => h.out_rng f (List.mem_of_mem_erase hf')
    flag := by
      intro _ hx
      simp only [afterLost] at hx ⊢
      by_cases h1 : b > a ∨ fin = true
      · rw [if_pos h1]
      · rw [if_neg h1]
        have h2 : ¬ b > a := fun x => h1 (Or.inl x)
        have h3 : fin = false := by cases fin <;> simp_all
        rw [if_neg h2, h3] at hx
        exact h.flag hr (by simpa using hx)
    fin_iff := h.fin_iff }

theorem ackRanges_frame (s : Send) (a b : Nat) :
    ∃ ack bs buf, ackRanges s a b = { s with acked := ack, bufStart := bs, buffer := buf } := by
  unfold ackRanges
  split
  · simp only []
    split
    · exact ⟨_, _, _, rfl⟩
    · split
      · exact ⟨_, _, _, rfl⟩
      · exact ⟨_, _, _, rfl⟩
  · exact ⟨_, _, _, rfl⟩

/-- the sender's completion test, read through the invariant's links -/
theorem dataDone_check (g' : Ghost) (bs : Nat) (ack : List Rg) (af : Bool) (bufFin : Option Nat)
    (hfin : bufFin = if g'.finWritten = true then some g'.written.length else none)
    (hle : bs ≤ g'.written.length)
    (hgt : ∀ i, mem i ack → bs < i)
    (hlink : ∀ i, (i < bs ∨ mem i ack) ↔ ∃ f ∈ g'.acked, f.cov i = true)
    (haf : af = true ↔ ∃ f ∈ g'.acked, f.fin = true) :
    (some bs = bufFin ∧ af = true) ↔ DataDone g' := by
  constructor
  · rintro ⟨h1, h2⟩
    cases hfw : g'.finWritten with
    | false => rw [hfin, hfw] at h1; simp at h1
    | true =>
      rw [hfin, hfw] at h1
      simp only [if_true, Option.some.injEq] at h1
      refine ⟨hfw, haf.1 h2, ?_⟩
      intro i hi
      exact (hlink i).1 (Or.inl (by omega))
  · rintro ⟨hfw, hf2, hall⟩
    refine ⟨?_, haf.2 hf2⟩
    rw [hfin, hfw]
    simp only [if_true, Option.some.injEq]
    by_cases hlt : bs < g'.written.length
    · rcases (hlink bs).2 (hall bs hlt) with hx | hx
      · omega
      · have := hgt bs hx; omega
    · omega

theorem SInv_delivery_acked {s : Send} {g : Ghost} (h : SInv s g) (hr : g.reset = false) {a b : Nat}
    {fin : Bool} (hf : (⟨a, b, fin⟩ : Fr) ∈ g.outstanding) :
    SInv (afterAcked s a b fin) (g.onDelivery .acked ⟨a, b, fin⟩) := by
  have e : g.onDelivery .acked ⟨a, b, fin⟩ =
      { g with outstanding := g.outstanding.erase ⟨a, b, fin⟩, acked := ⟨a, b, fin⟩ :: g.acked } := by
    simp [Ghost.onDelivery, hr]
  rw [e]
  have hle : a < b → s.bufStart ≤ a := fun hab =>
    (h.out_facts hr hf (i := a) (by simp; omega)).2.1
  have spec := ackRanges_spec' s a b h.wfA (fun i hi => (h.acked_rng i hi).1) hle
  obtain ⟨ack, bs, buf, e1⟩ := ackRanges_frame s a b
  unfold afterAcked
  rw [e1] at spec ⊢
  have wf : WF ack := spec.wf
  have cover : ∀ i, (i < bs ∨ mem i ack) ↔ (i < s.bufStart ∨ mem i s.acked ∨ (a ≤ i ∧ i < b)) := spec.cover
  have gt : ∀ i, mem i ack → bs < i := spec.gt
  have le : s.bufStart ≤ bs := spec.le
  have hbuf : buf = s.buffer.drop (bs - s.bufStart) := spec.buf
  clear spec e1 e
  have hb : b ≤ g.written.length := (h.out_rng _ hf).2.1
  have hstop := h.stop_eq
  have hsl := h.start_le
  have bs_le : bs ≤ s.bufStop := by
    by_cases hx : bs = s.bufStart
    · omega
    · rcases (cover (bs - 1)).1 (Or.inl (by omega)) with h1 | h1 | h1
      · omega
      · have := (h.acked_rng _ h1).2; omega
      · omega
  have hra : g.resetAcked = false := by
    cases hx : g.resetAcked
    · rfl
    · have := h.racked hx; simp [hr] at this
  have link : ∀ i, (i < bs ∨ mem i ack) ↔ ∃ f ∈ (⟨a, b, fin⟩ : Fr) :: g.acked, f.cov i = true := by
    intro i
    rw [cover i, ← or_assoc, h.acked_link i]
    simp only [List.mem_cons, exists_eq_or_imp, Fr.cov_iff]
    constructor
    · rintro (h1 | h1)
      · exact Or.inr h1
      · exact Or.inl h1
    · rintro (h1 | h1)
      · exact Or.inr h1
      · exact Or.inl h1
  have afl : (fin || s.ackedFin) = true ↔ ∃ f ∈ (⟨a, b, fin⟩ : Fr) :: g.acked, f.fin = true := by
    simp only [Bool.or_eq_true, List.mem_cons, exists_eq_or_imp, h.afin_link]
  exact
  { h with
    wfA := wf
    start_le := bs_le
    buf_eq := by
      show buf = g.written.drop bs
      rw [hbuf, h.buf_eq, List.drop_drop]
      congr 1; omega
    reset_empty := by intro hx; simp [hr] at hx
    acked_rng := by
      intro i hi
      refine ⟨gt i hi, ?_⟩
      show i < s.bufStop
      rcases (cover i).1 (Or.inr hi) with h1 | h1 | h1
      · omega
      · exact (h.acked_rng _ h1).2
      · omega
    acked_link := link
    part := by
      intro _ i
      have h0 := h.part hr i
      have hc := countP_erase_mem (·.cov i) g.outstanding ⟨a, b, fin⟩ hf
      show ind (mem i s.pending)
          + List.countP (·.cov i) (g.outstanding.erase ⟨a, b, fin⟩)
          + ind (i < bs ∨ mem i ack) = ind (i < g.written.length)
      rw [ind_congr (cover i)]
      simp only [Fr.cov_iff] at hc
      by_cases hi : a ≤ i ∧ i < b
      · have hfa := h.out_facts hr hf (i := i) (by simp [hi])
        have h3 : ¬ (i < s.bufStart ∨ mem i s.acked) := by
          rintro (hx | hx)
          · omega
          · exact hfa.2.2.1 hx
        rw [ind_neg h3] at h0
        rw [if_pos hi] at hc
        rw [ind_pos (Or.inr (Or.inr hi))]
        omega
      · rw [if_neg hi] at hc
        have e2 : ind (i < s.bufStart ∨ mem i s.acked ∨ a ≤ i ∧ i < b)
            = ind (i < s.bufStart ∨ mem i s.acked) := by
          apply ind_congr
          constructor
          · rintro (hx | hx | hx)
            · exact Or.inl hx
            · exact Or.inr hx
            · exact absurd hx hi
          · rintro (hx | hx)
            · exact Or.inl hx
            · exact Or.inr (Or.inl hx)
        rw [e2]; omega
    fin_cons := by
      intro _ hfw
      simp only [ackFinish]
      cases fin with
      | true => right; right; rfl
      | false =>
        rcases h.fin_cons hr hfw with h3 | ⟨f, h3, h4⟩ | h3
        · exact Or.inl h3
        · refine Or.inr (Or.inl ⟨f, ?_, h4⟩)
          exact (List.mem_erase_of_ne (by intro hx; rw [hx] at h4; cases h4)).2 h3
        · right; right; simpa using h3
    afin_link := afl
    fin_out := fun f hf' => h.fin_out f (List.mem_of_mem_erase hf')
    fin_ack := by
      intro f hf' hfn
      rcases List.mem_cons.1 hf' with hx | hx
      · subst hx; exact h.fin_out _ hf hfn
      · exact h.fin_ack f hx hfn
    out_rng := fun f hf' => h.out_rng f (List.mem_of_mem_erase hf')
    flag := h.flag
    fin_iff := by
      have chk := dataDone_check
        { g with outstanding := g.outstanding.erase ⟨a, b, fin⟩, acked := ⟨a, b, fin⟩ :: g.acked }
        bs ack (fin || s.ackedFin) s.bufFin h.fin_eq (by show bs ≤ g.written.length; omega) gt link afl
      have old := h.fin_iff
      simp only [hra, Bool.false_eq_true, or_false] at old ⊢
      have mono : DataDone g → DataDone
          { g with outstanding := g.outstanding.erase ⟨a, b, fin⟩, acked := ⟨a, b, fin⟩ :: g.acked } := by
        rintro ⟨h1, ⟨f, h2, h3⟩, h4⟩
        refine ⟨h1, ⟨f, List.mem_cons_of_mem _ h2, h3⟩, ?_⟩
        intro i hi
        obtain ⟨f', h5, h6⟩ := h4 i hi
        exact ⟨f', List.mem_cons_of_mem _ h5, h6⟩
      simp only [ackFinish, Bool.or_eq_true, Bool.and_eq_true, decide_eq_true_eq]
      constructor
      · rintro (hx | hx)
        · exact mono (old.1 hx)
        · exact chk.1 ⟨hx.1, by simpa using hx.2⟩
      · intro hx
        right
        have := chk.2 hx
        exact ⟨this.1, by simpa using this.2⟩ }

theorem SInv_delivery {s : Send} {g : Ghost} (h : SInv s g) (d : Delivery) {a b : Nat} {fin : Bool}
    (hf : (⟨a, b, fin⟩ : Fr) ∈ g.outstanding) (s' : Send)
    (hd : onDataDelivery s d a b fin = .ok s') : SInv s' (g.onDelivery d ⟨a, b, fin⟩) := by
  have ne := h.delivery_no_err hf
  cases hr : g.reset with
  | true =>
    rw [onDataDelivery_reset s d a b fin ne (by rw [h.code_iff]; exact hr)] at hd
    injection hd with hd; subst hd
    exact SInv_delivery_reset h hr d _
  | false =>
    have hc : s.resetCode.isSome = false := by rw [h.code_iff]; exact hr
    cases d with
    | acked =>
      rw [onDataDelivery_acked s a b fin ne hc] at hd
      injection hd with hd; subst hd
      exact SInv_delivery_acked h hr hf
    | lost =>
      rw [onDataDelivery_lost s a b fin ne hc] at hd
      injection hd with hd; subst hd
      exact SInv_delivery_lost h hr hf

/-! ## Preservation: `reset`, `get_reset_frame`, `on_reset_delivery` -/

theorem SInv_reset {s : Send} {g : Ghost} (h : SInv s g) (code : Nat) :
    SInv (reset s code) { g with reset := true } := by
  cases hr : g.reset with
  | true =>
    have hc : s.resetCode.isSome = true := by rw [h.code_iff]; exact hr
    have e1 : reset s code = s := by
      unfold reset
      have : s.resetCode.isNone = false := by
        cases hx : s.resetCode <;> simp [hx] at hc ⊢
      simp [this]
    have e2 : { g with reset := true } = g := by
      cases g; simp only at hr; subst hr; rfl
    rw [e1, e2]; exact h
  | false =>
    have hc : s.resetCode.isSome = false := by rw [h.code_iff]; exact hr
    have e1 : reset s code = { s with resetCode := some code, resetPending := true, bufferIsEmpty := true } := by
      unfold reset
      have : s.resetCode.isNone = true := by
        cases hx : s.resetCode <;> simp [hx] at hc ⊢
      simp [this]
    rw [e1]
    exact
    { h with
      code_iff := rfl
      reset_empty := fun _ => rfl
      rpend := fun _ => rfl
      racked := fun _ => rfl
      rout := fun _ => rfl
      part := by intro hx; cases hx
      fin_cons := by intro hx; cases hx
      flag := by intro hx; cases hx
      fin_iff := h.fin_iff }

theorem SInv_getReset {s : Send} {g : Ghost} (h : SInv s g) (hr : g.reset = true) :
    SInv (getResetFrame s).1 { g with resetOut := g.resetOut + 1 } :=
  { h with
    rpend := fun _ => hr
    rout := fun _ => hr
    fin_iff := h.fin_iff }

theorem SInv_resetDelivery {s : Send} {g : Ghost} (h : SInv s g) (d : Delivery) (ho : 0 < g.resetOut) :
    SInv (onResetDelivery s d) (g.onResetDelivery d) := by
  have hr := h.rout ho
  cases d with
  | acked =>
    exact
    { h with
      racked := fun _ => hr
      rout := fun _ => hr
      fin_iff := by
        simp [onResetDelivery, Ghost.onResetDelivery] }
  | lost =>
    exact
    { h with
      rpend := fun _ => hr
      racked := fun _ => hr
      rout := fun _ => hr
      fin_iff := by
        have := h.fin_iff
        simpa [onResetDelivery, Ghost.onResetDelivery, DataDone] using this }

/-! ## The invariant holds along every well-formed history -/

theorem SInv_step {σ : Send × Ghost} (h : SInv σ.1 σ.2) (op : SOp) (ok : okOp σ op) :
    SInv (step σ op).1 (step σ op).2 := by
  obtain ⟨s, g⟩ := σ
  cases op with
  | write data fin =>
    simp only [step]
    split
    · rename_i s' hw; exact SInv_write h data fin s' hw
    · exact h
  | get ms mo =>
    simp only [step]
    split
    · rename_i s' o hg; exact SInv_get h ms mo s' o hg
    · exact h
  | delivery d a b fin =>
    simp only [step]
    split
    · rename_i s' hd; exact SInv_delivery h d ok s' hd
    · exact h
  | reset code => exact SInv_reset h code
  | getReset => exact SInv_getReset h ok
  | resetDelivery d => exact SInv_resetDelivery h d ok

theorem SInv_run {σ : Send × Ghost} (h : SInv σ.1 σ.2) (ops : List SOp) (hw : WFHist σ ops) :
    SInv (run σ ops).1 (run σ ops).2 := by
  induction ops generalizing σ with
  | nil => exact h
  | cons op rest ih => exact ih (SInv_step h op hw.1) hw.2

theorem SInv_reachable (ops : List SOp) (hw : WFHist σ0 ops) :
    SInv (run σ0 ops).1 (run σ0 ops).2 := SInv_run SInv_init ops hw

/-! ## Monotonicity of the history -/

theorem step_written_prefix (σ : Send × Ghost) (op : SOp) : σ.2.written <+: (step σ op).2.written := by
  cases op with
  | write data fin =>
    simp only [step]; split
    · exact List.prefix_append _ _
    · exact List.prefix_refl _
  | get ms mo =>
    simp only [step]; split
    · rename_i s' o _; cases o <;> exact List.prefix_refl _
    · exact List.prefix_refl _
  | delivery d a b fin =>
    simp only [step]; split <;> exact List.prefix_refl _
  | reset code => exact List.prefix_refl _
  | getReset => exact List.prefix_refl _
  | resetDelivery d => exact List.prefix_refl _

theorem run_written_prefix (σ : Send × Ghost) (ops : List SOp) : σ.2.written <+: (run σ ops).2.written := by
  induction ops generalizing σ with
  | nil => exact List.prefix_refl _
  | cons op rest ih => exact List.IsPrefix.trans (step_written_prefix σ op) (ih (step σ op))

theorem step_reset_mono (σ : Send × Ghost) (op : SOp) (h : σ.2.reset = true) : (step σ op).2.reset = true := by
  cases op with
  | write data fin => simp only [step]; split <;> exact h
  | get ms mo =>
    simp only [step]; split
    · rename_i s' o _; cases o <;> exact h
    · exact h
  | delivery d a b fin => simp only [step]; split <;> exact h
  | reset code => rfl
  | getReset => exact h
  | resetDelivery d => exact h

theorem run_reset_mono (σ : Send × Ghost) (ops : List SOp) (h : σ.2.reset = true) :
    (run σ ops).2.reset = true := by
  induction ops generalizing σ with
  | nil => exact h
  | cons op rest ih => exact ih (step σ op) (step_reset_mono σ op h)

/-! ## Statements used by the property theorems -/

/-- everything a caller can observe about an emitted frame -/
theorem SInv.frame_spec {s : Send} {g : Ghost} (h : SInv s g) {ms : Nat} {mo : Option Nat} {s' : Send}
    {f : OutFrame} (hg : getFrame s ms mo = .ok (s', some f)) :
    f.data = (g.written.drop f.offset).take f.data.length ∧
    f.offset + f.data.length ≤ g.written.length ∧
    f.data.length ≤ ms ∧
    (∀ m, mo = some m → f.data ≠ [] → f.offset + f.data.length ≤ m) ∧
    (f.fin = true → g.finWritten = true ∧ f.offset + f.data.length = g.written.length) ∧
    (f.data ≠ [] ∨ f.fin = true) := by
  cases hr : g.reset with
  | true => rw [getFrame_reset s ms mo (by rw [h.code_iff]; exact hr)] at hg; cases hg
  | false =>
    rcases getFrame_cases h hr ms mo with ⟨hp, he, e⟩ | ⟨hp, he, e⟩ | ⟨r, rest, hp, hb, e⟩ | ⟨r, rest, hp, hb, e⟩
    · rw [e] at hg; injection hg with hg; injection hg with h1 h2; cases h2
    · rw [e] at hg; injection hg with hg; injection hg with h1 h2
      injection h2 with h2; subst h2
      refine ⟨by simp, by simp, by simp, by simp, ?_, Or.inr rfl⟩
      intro _; exact ⟨h.eof_fin he, by simp⟩
    · rw [e] at hg; injection hg with hg; injection hg with h1 h2; cases h2
    · rw [e] at hg; injection hg with hg; injection hg with h1 h2
      injection h2 with h2; subst h2
      have hc := capStop_le r ms mo
      have hl := (h.slice_eq hr hp _ (Nat.le_of_lt hb) hc.1).2
      have hh := h.head_facts hr hp
      simp only [hl]
      refine ⟨trivial, by omega, by omega, ?_, ?_, ?_⟩
      · intro m hm _; have := hc.2.2 m hm; omega
      · simp only [decide_eq_true_eq]
        intro hx
        have := h.fin_eq
        rw [hx] at this
        cases hy : g.finWritten
        · simp [hy] at this
        · simp [hy] at this; exact ⟨rfl, by omega⟩
      · left
        intro hx
        have := congrArg List.length hx
        rw [hl] at this; simp at this; omega

/-- the bytes stay right however the history continues: later writes only append -/
theorem frame_bytes_stable {w w' : Bytes} (hp : w <+: w') {off : Nat} {data : Bytes}
    (h1 : data = (w.drop off).take data.length) (h2 : off + data.length ≤ w.length) :
    data = (w'.drop off).take data.length := by
  obtain ⟨t, rfl⟩ := hp
  rw [List.drop_append, List.take_append]
  have : data.length - (w.drop off).length = 0 := by rw [List.length_drop]; omega
  rw [this]; simpa using h1

/-- conservation, read off the partition -/
theorem SInv.conservation {s : Send} {g : Ghost} (h : SInv s g) (hr : g.reset = false) :
    (∀ i, i < g.written.length →
        mem i s.pending ∨ (∃ f ∈ g.outstanding, f.cov i = true) ∨ (∃ f ∈ g.acked, f.cov i = true)) ∧
    (g.finWritten = true →
        s.pendingEof = true ∨ (∃ f ∈ g.outstanding, f.fin = true) ∨ (∃ f ∈ g.acked, f.fin = true)) ∧
    ((s.pending ≠ [] ∨ s.pendingEof = true) → s.bufferIsEmpty = false) := by
  refine ⟨?_, ?_, h.flag hr⟩
  · intro i hi
    have h0 := h.part hr i
    rw [ind_pos hi] at h0
    by_cases h1 : mem i s.pending
    · exact Or.inl h1
    · rw [ind_neg h1] at h0
      by_cases h2 : i < s.bufStart ∨ mem i s.acked
      · exact Or.inr (Or.inr ((h.acked_link i).1 h2))
      · rw [ind_neg h2] at h0
        exact Or.inr (Or.inl (List.countP_pos_iff.1 (by omega)))
  · intro hfw
    rcases h.fin_cons hr hfw with h1 | h1 | h1
    · exact Or.inl h1
    · exact Or.inr (Or.inl h1)
    · exact Or.inr (Or.inr (h.afin_link.1 h1))

/-- no offset is ever in two places, and nothing beyond the written bytes is anywhere -/
theorem SInv.exclusive {s : Send} {g : Ghost} (h : SInv s g) (hr : g.reset = false) (i : Nat) :
    (mem i s.pending → i < g.written.length ∧ (∀ f ∈ g.outstanding, f.cov i = false) ∧
        ¬ ∃ f ∈ g.acked, f.cov i = true) ∧
    (∀ f ∈ g.outstanding, f.cov i = true → i < g.written.length ∧ ¬ ∃ f ∈ g.acked, f.cov i = true) := by
  constructor
  · intro hi
    have := h.pending_facts hr hi
    refine ⟨this.1, ?_, ?_⟩
    · intro f hf
      exact Bool.eq_false_iff.2 (List.countP_eq_zero.1 this.2.2.2 f hf)
    · rw [← h.acked_link i]
      rintro (hx | hx)
      · omega
      · exact this.2.2.1 hx
  · intro f hf hc
    have := h.out_facts hr hf hc
    refine ⟨this.1, ?_⟩
    rw [← h.acked_link i]
    rintro (hx | hx)
    · omega
    · exact this.2.2.1 hx

/-- a lost frame goes straight back to the pending set -/
theorem SInv.lost_reoffered {s : Send} {g : Ghost} (h : SInv s g) (hr : g.reset = false) {a b : Nat}
    {fin : Bool} (hf : (⟨a, b, fin⟩ : Fr) ∈ g.outstanding) :
    ∃ s', step (s, g) (.delivery .lost a b fin) = (s', g.onDelivery .lost ⟨a, b, fin⟩) ∧
      (∀ i, a ≤ i → i < b → mem i s'.pending) ∧ (fin = true → s'.pendingEof = true) ∧
      ((a < b ∨ fin = true) → s'.bufferIsEmpty = false) := by
  have hc : s.resetCode.isSome = false := by rw [h.code_iff]; exact hr
  refine ⟨afterLost s a b fin, ?_, ?_, ?_, ?_⟩
  · simp only [step, onDataDelivery_lost s a b fin (h.delivery_no_err hf) hc]
  · intro i h1 h2
    simp only [afterLost]
    rw [if_pos (by omega : b > a)]
    exact (add_mem a b (by omega) _ h.wfP i).2 (Or.inr ⟨h1, h2⟩)
  · intro hx; simp [afterLost, hx]
  · intro hx
    simp only [afterLost]
    rw [if_pos (by rcases hx with hx | hx; exact Or.inl hx; exact Or.inr hx)]

/-- whenever something is pending and the caps leave room, a non-empty frame starting
    at the first pending offset is produced; a pending FIN alone yields the FIN-only frame -/
theorem SInv.progress {s : Send} {g : Ghost} (h : SInv s g) (hr : g.reset = false) (ms : Nat)
    (mo : Option Nat) :
    (∀ r rest, s.pending = r :: rest → 0 < ms → (mo = none ∨ ∃ m, mo = some m ∧ r.start < m) →
        ∃ s' f, getFrame s ms mo = .ok (s', some f) ∧ f.offset = r.start ∧ f.data ≠ []) ∧
    (s.pending = [] → s.pendingEof = true →
        ∃ s', getFrame s ms mo = .ok (s', some ⟨g.written.length, [], true⟩)) := by
  constructor
  · intro r rest hp hms hmo
    have hh := h.head_facts hr hp
    have hgt := capStop_gt r ms mo hh.1 hms hmo
    rcases getFrame_cases h hr ms mo with ⟨hp', _, _⟩ | ⟨hp', _, _⟩ | ⟨r', rest', hp', hb, e⟩ | ⟨r', rest', hp', hb, e⟩
    · rw [hp] at hp'; cases hp'
    · rw [hp] at hp'; cases hp'
    · rw [hp] at hp'; injection hp' with h1 h2; subst h1; omega
    · rw [hp] at hp'; injection hp' with h1 h2; subst h1
      refine ⟨_, _, e, rfl, ?_⟩
      have hl := (h.slice_eq hr hp _ (Nat.le_of_lt hb) (capStop_le r ms mo).1).2
      intro hx
      have := congrArg List.length hx
      simp only [] at this
      rw [hl] at this; simp at this; omega
  · intro hp he
    rcases getFrame_cases h hr ms mo with ⟨_, he', _⟩ | ⟨_, _, e⟩ | ⟨r', rest', hp', _, _⟩ | ⟨r', rest', hp', _, _⟩
    · rw [he] at he'; cases he'
    · exact ⟨_, e⟩
    · rw [hp] at hp'; cases hp'
    · rw [hp] at hp'; cases hp'

/-- after `reset()` the sender refuses to build frames and reports an empty buffer -/
theorem SInv.after_reset {s : Send} {g : Ghost} (h : SInv s g) (hr : g.reset = true) (ms : Nat)
    (mo : Option Nat) : getFrame s ms mo = .error (.py .assertion) ∧ s.bufferIsEmpty = true :=
  ⟨getFrame_reset s ms mo (by rw [h.code_iff]; exact hr), h.reset_empty hr⟩

/-- the only failures reachable are the entry assertions (which precede every
    mutation in stream.py), so treating a failed call as a no-op in `step` is exact:
    `get_frame` fails only after `reset()`, `write` only after FIN or `reset()`, and
    the delivery report of a frame in flight never fails. -/
theorem SInv.errors_are_entry_asserts {s : Send} {g : Ghost} (h : SInv s g) :
    (∀ ms mo e, getFrame s ms mo = .error e → g.reset = true ∧ e = .py .assertion) ∧
    (∀ data fin e, write s data fin = .error e →
        (g.finWritten = true ∨ g.reset = true) ∧ e = .py .assertion) ∧
    (∀ d a b fin, (⟨a, b, fin⟩ : Fr) ∈ g.outstanding → ∃ s', onDataDelivery s d a b fin = .ok s') := by
  refine ⟨?_, ?_, ?_⟩
  · intro ms mo e he
    cases hr : g.reset with
    | true =>
      rw [getFrame_reset s ms mo (by rw [h.code_iff]; exact hr)] at he
      injection he with he; exact ⟨rfl, he.symm⟩
    | false =>
      rcases getFrame_cases h hr ms mo with ⟨_, _, e1⟩ | ⟨_, _, e1⟩ | ⟨_, _, _, _, e1⟩ | ⟨_, _, _, _, e1⟩ <;>
        (rw [e1] at he; cases he)
  · intro data fin e he
    by_cases h1 : s.bufFin.isSome = true
    · rw [write_err s data fin (Or.inl h1)] at he
      injection he with he
      refine ⟨Or.inl ?_, he.symm⟩
      cases hx : g.finWritten
      · rw [h.fin_eq, hx] at h1; simp at h1
      · rfl
    · by_cases h2 : s.resetCode.isSome = true
      · rw [write_err s data fin (Or.inr h2)] at he
        injection he with he
        exact ⟨Or.inr (by rw [← h.code_iff]; exact h2), he.symm⟩
      · rw [write_ok s data fin (by simpa using h1) (by simpa using h2)] at he; cases he
  · intro d a b fin hf
    have ne := h.delivery_no_err hf
    cases hr : s.resetCode.isSome with
    | true => exact ⟨_, onDataDelivery_reset s d a b fin ne hr⟩
    | false =>
      cases d with
      | acked => exact ⟨_, onDataDelivery_acked s a b fin ne hr⟩
      | lost => exact ⟨_, onDataDelivery_lost s a b fin ne hr⟩

end AQ.Stream
