/-
  Reassembly-buffer invariant of `QuicStreamReceiver` and the bounds of the
  peer-driven queues (CRYPTO reassembly, PATH_CHALLENGE, connection-ID
  retirements) for AQ.Props.C07.
-/
import AQ.Proofs.FlowRecv

namespace AQ.Flow
open AQ AQ.Stream AQ.RangeSet

/-! ## RangeSet.add keeps ranges below a bound and non-inverted -/

theorem absorb_facts (s : Nat) (rs : List Rg) :
    s ≤ (absorb s rs).1 ∧ (∀ x ∈ (absorb s rs).2, x ∈ rs) ∧
    (∀ H, s ≤ H → (∀ x ∈ rs, x.stop ≤ H) → (absorb s rs).1 ≤ H) := by
  induction rs generalizing s with
  | nil => simp [absorb]
  | cons r rest ih =>
    unfold absorb
    split
    · obtain ⟨h1, h2, h3⟩ := ih (max r.stop s)
      refine ⟨by omega, fun x hx => by simp [h2 x hx], ?_⟩
      intro H hs hrs
      exact h3 H (by have := hrs r (by simp); omega) (fun x hx => hrs x (by simp [hx]))
    · exact ⟨Nat.le_refl _, fun x hx => hx, fun H hs _ => hs⟩

theorem add_facts (H a b : Nat) (rs : List Rg) (hab : a ≤ b) (hb : b ≤ H)
    (hrs : ∀ x ∈ rs, x.stop ≤ H ∧ x.start ≤ x.stop) :
    ∀ x ∈ add a b rs, x.stop ≤ H ∧ x.start ≤ x.stop := by
  induction rs with
  | nil => simp [add]; exact ⟨hb, hab⟩
  | cons r rest ih =>
    have hr := hrs r (by simp)
    have hrest : ∀ x ∈ rest, x.stop ≤ H ∧ x.start ≤ x.stop := fun x hx => hrs x (by simp [hx])
    unfold add
    split
    · intro x hx; simp at hx; rcases hx with rfl | rfl | hx
      · exact ⟨hb, hab⟩
      · exact hr
      · exact hrest x hx
    · split
      · intro x hx; simp at hx; rcases hx with rfl | hx
        · exact hr
        · exact ih hrest x hx
      · obtain ⟨h1, h2, h3⟩ := absorb_facts (max b r.stop) rest
        intro x hx; simp at hx; rcases hx with rfl | hx
        · exact ⟨h3 H (by omega) (fun y hy => (hrest y hy).1), by simp; omega⟩
        · exact hrest x (h2 x hx)

/-! ## the receiver's buffer stays below `highest_offset` -/

def RecvOK (r : Recv) : Prop :=
  r.bufStart + r.buffer.length ≤ r.highest ∧ ∀ x ∈ r.ranges, x.stop ≤ r.highest ∧ x.start ≤ x.stop

theorem RecvOK.init : RecvOK ({} : Recv) := by simp [RecvOK]

theorem sliceAssign_length (buf : Bytes) (pos : Nat) (d : Bytes) (h : pos ≤ buf.length) :
    (sliceAssign buf pos d).length = max buf.length (pos + d.length) := by
  unfold sliceAssign
  simp only [List.length_append, List.length_take, List.length_drop]
  omega

theorem pullData_recvOK {r : Recv} (h : RecvOK r) :
    RecvOK (pullData r).1 ∧ (pullData r).1.highest = r.highest ∧ r.bufStart ≤ (pullData r).1.bufStart ∧
    (pullData r).1.finalSize = r.finalSize ∧ (pullData r).1.finished = r.finished := by
  unfold pullData
  split
  · exact ⟨h, rfl, Nat.le_refl _, rfl, rfl⟩
  · rename_i x rest hr
    split
    · rename_i hx
      have hxs := h.2 x (by rw [hr]; simp)
      refine ⟨⟨?_, ?_⟩, rfl, ?_, rfl, rfl⟩
      · simp only [List.length_drop]; have := h.1; omega
      · intro y hy; exact h.2 y (by rw [hr]; simp [hy])
      · simp only []; omega
    · exact ⟨h, rfl, Nat.le_refl _, rfl, rfl⟩

/-! ## `handle_frame` in stages (definitionally the same function) -/

def hfPre (r : Recv) (f : Frame) : Recv :=
  let frameEnd := f.offset + f.data.length
  let s := if f.fin then { r with finalSize := some frameEnd } else r
  if frameEnd > s.highest then { s with highest := frameEnd } else s

def hfMid (s : Recv) (f : Frame) : Recv :=
  let frameEnd := f.offset + f.data.length
  let (data, offset, pos) :=
    if f.offset < s.bufStart then (f.data.drop (s.bufStart - f.offset), s.bufStart, 0)
    else (f.data, f.offset, f.offset - s.bufStart)
  let s := if frameEnd > offset then { s with ranges := add offset frameEnd s.ranges } else s
  let buf := if pos > s.buffer.length then s.buffer ++ List.replicate (pos - s.buffer.length) 0 else s.buffer
  { s with buffer := sliceAssign buf pos data }

def hfPost (s : Recv) : Outcome (Recv × Option DataEv) :=
  let (s, out) := pullData s
  let endStream := decide (some s.bufStart = s.finalSize)
  let s := if endStream then { s with finished := true } else s
  if out ≠ [] ∨ endStream then .ok (s, some ⟨out, endStream⟩) else .ok (s, none)

theorem handleFrame_eq (r : Recv) (f : Frame) :
    handleFrame r f =
      if frameFinalSizeError r.finalSize f then .error .finalSize else
      if f.offset = (hfPre r f).bufStart ∧ f.data.length ≠ 0 ∧ (hfPre r f).buffer = [] then
        let s := { hfPre r f with bufStart := (hfPre r f).bufStart + f.data.length }
        let s := if f.fin then { s with finished := true } else s
        .ok (s, some ⟨f.data, f.fin⟩)
      else hfPost (hfMid (hfPre r f) f) := by
  rfl

theorem hfPre_facts (r : Recv) (f : Frame) :
    (hfPre r f).highest = max r.highest (f.offset + f.data.length) ∧ (hfPre r f).buffer = r.buffer ∧
    (hfPre r f).bufStart = r.bufStart ∧ (hfPre r f).ranges = r.ranges := by
  unfold hfPre
  simp only []
  split <;> split <;> (refine ⟨?_, rfl, rfl, rfl⟩; first | (dsimp only at *; omega) | omega)

theorem hfMid_ok {s : Recv} {f : Frame} (h : RecvOK s) (hle : f.offset + f.data.length ≤ s.highest) :
    RecvOK (hfMid s f) ∧ (hfMid s f).highest = s.highest ∧ (hfMid s f).bufStart = s.bufStart := by
  have h1 := h.1
  unfold hfMid
  simp only []
  by_cases hlt : f.offset < s.bufStart
  · rw [if_pos hlt]
    dsimp only
    by_cases hgt : f.offset + f.data.length > s.bufStart
    · rw [if_pos hgt]
      refine ⟨⟨?_, ?_⟩, rfl, rfl⟩
      · dsimp only
        rw [sliceAssign_length _ _ _ (by split <;> simp)]
        split <;> (try simp) <;> omega
      · intro x hx; exact add_facts s.highest _ _ _ (by omega) hle h.2 x hx
    · rw [if_neg hgt]
      refine ⟨⟨?_, h.2⟩, rfl, rfl⟩
      dsimp only
      rw [sliceAssign_length _ _ _ (by split <;> simp)]
      split <;> (try simp) <;> omega
  · rw [if_neg hlt]
    dsimp only
    by_cases hgt : f.offset + f.data.length > f.offset
    · rw [if_pos hgt]
      refine ⟨⟨?_, ?_⟩, rfl, rfl⟩
      · dsimp only
        rw [sliceAssign_length _ _ _ (by split <;> simp <;> omega)]
        split <;> (try simp) <;> omega
      · intro x hx; exact add_facts s.highest _ _ _ (by omega) hle h.2 x hx
    · rw [if_neg hgt]
      refine ⟨⟨?_, h.2⟩, rfl, rfl⟩
      dsimp only
      rw [sliceAssign_length _ _ _ (by split <;> simp <;> omega)]
      split <;> (try simp) <;> omega

theorem hfPost_ok {s s' : Recv} {ev : Option DataEv} (h : RecvOK s) (hp : hfPost s = .ok (s', ev)) :
    RecvOK s' ∧ s'.highest = s.highest ∧ s.bufStart ≤ s'.bufStart := by
  obtain ⟨p1, p2, p3, _, _⟩ := pullData_recvOK h
  unfold hfPost at hp
  simp only [] at hp
  generalize pullData s = q at *
  obtain ⟨q1, q2⟩ := q
  simp only [] at hp p1 p2 p3
  have key : ∀ (b : Prop) [Decidable b], RecvOK (if b then { q1 with finished := true } else q1) ∧
      (if b then { q1 with finished := true } else q1).highest = s.highest ∧
      s.bufStart ≤ (if b then { q1 with finished := true } else q1).bufStart := by
    intro b _; split
    · exact ⟨p1, p2, p3⟩
    · exact ⟨p1, p2, p3⟩
  split at hp <;> (simp at hp; obtain ⟨rfl, _⟩ := hp; exact key _)

theorem handleFrame_recvOK {r r' : Recv} {f : Frame} {ev : Option DataEv} (h : RecvOK r)
    (hf : handleFrame r f = .ok (r', ev)) :
    RecvOK r' ∧ r'.highest = max r.highest (f.offset + f.data.length) ∧ r.bufStart ≤ r'.bufStart := by
  rw [handleFrame_eq] at hf
  obtain ⟨e1, e2, e3, e4⟩ := hfPre_facts r f
  have hpre : RecvOK (hfPre r f) := by
    refine ⟨by rw [e2, e3, e1]; have := h.1; omega, ?_⟩
    intro x hx; rw [e4] at hx; rw [e1]; have := h.2 x hx; omega
  split at hf
  · simp at hf
  · split at hf
    · rename_i hfast
      simp only [] at hf
      have hb := hfast.2.2
      split at hf <;>
        (simp at hf; obtain ⟨rfl, _⟩ := hf
         refine ⟨⟨?_, ?_⟩, ?_, ?_⟩
         · simp [hb]; rw [e1]; have := hfast.1; rw [e3] at this ⊢; omega
         · intro x hx; exact hpre.2 x hx
         · exact e1
         · simp; rw [e3]; omega)
    · obtain ⟨m1, m2, m3⟩ := hfMid_ok (f := f) hpre (by rw [e1]; omega)
      obtain ⟨q1, q2, q3⟩ := hfPost_ok m1 hf
      exact ⟨q1, by rw [q2, m2, e1], by rw [← e3, ← m3]; exact q3⟩

/-! ## finished implies a final size -/

/-- the receive half is finished only with a fixed final size (FIN or RESET_STREAM) -/
def FinOK (r : Recv) : Prop := r.finished = true → r.finalSize.isSome = true

theorem hfPre_fin (r : Recv) (f : Frame) :
    (hfPre r f).finished = r.finished ∧ (r.finalSize.isSome = true → (hfPre r f).finalSize.isSome = true) ∧
    (f.fin = true → (hfPre r f).finalSize.isSome = true) := by
  unfold hfPre
  simp only []
  split <;> split <;> simp_all

theorem hfMid_fin (s : Recv) (f : Frame) : (hfMid s f).finished = s.finished ∧ (hfMid s f).finalSize = s.finalSize := by
  unfold hfMid
  simp only []
  split <;> split <;> simp

theorem pullData_fin (r : Recv) :
    (pullData r).1.finalSize = r.finalSize ∧ (pullData r).1.finished = r.finished := by
  unfold pullData
  split
  · exact ⟨rfl, rfl⟩
  · split <;> exact ⟨rfl, rfl⟩

theorem hfPost_finOK {s s' : Recv} {ev : Option DataEv} (h : FinOK s) (hp : hfPost s = .ok (s', ev)) : FinOK s' := by
  obtain ⟨p1, p2⟩ := pullData_fin s
  unfold hfPost at hp
  simp only [] at hp
  generalize pullData s = q at *
  obtain ⟨q1, q2⟩ := q
  simp only [] at hp p1 p2
  have key : ∀ (b : Prop) [Decidable b], (b → q1.finalSize.isSome = true) →
      FinOK (if b then { q1 with finished := true } else q1) := by
    intro b _ hb
    unfold FinOK at *
    split
    · intro _; exact hb (by assumption)
    · intro hfin; rw [p1]; exact h (by rw [← p2]; exact hfin)
  split at hp <;>
    (simp at hp; obtain ⟨rfl, _⟩ := hp; apply key; intro hb; rw [← hb]; rfl)

theorem handleFrame_finOK {r r' : Recv} {f : Frame} {ev : Option DataEv} (h : FinOK r)
    (hf : handleFrame r f = .ok (r', ev)) : FinOK r' := by
  rw [handleFrame_eq] at hf
  obtain ⟨p1, p2, p3⟩ := hfPre_fin r f
  split at hf
  · simp at hf
  · split at hf
    · simp only [] at hf
      split at hf <;> (simp at hf; obtain ⟨rfl, _⟩ := hf; unfold FinOK at *; simp_all)
    · obtain ⟨m1, m2⟩ := hfMid_fin (hfPre r f) f
      refine hfPost_finOK ?_ hf
      unfold FinOK at *
      rw [m1, m2, p1]
      intro hfin; exact p2 (h hfin)

end AQ.Flow
