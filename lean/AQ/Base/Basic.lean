/-
  Shared conventions for all models (core Lean only — no Mathlib here, so the
  driver links as a native executable).
-/
namespace AQ

/-- Byte strings (Python `bytes` / `bytearray`). -/
abbrev Bytes := List UInt8

/-- Exceptions as outcomes (DESIGN §4.4).  The first group are errors the code
    *intends* (protocol-level); `py` is a Python runtime exception escaping. -/
inductive PyExc where
  | assertion | index | key | value | typeErr | unicode | overflow | notImplemented
  deriving Repr, DecidableEq, Inhabited

inductive Err where
  | bufferRead            -- aioquic.buffer.BufferReadError
  | bufferWrite           -- aioquic.buffer.BufferWriteError
  | finalSize             -- stream.FinalSizeError
  | streamFinished        -- stream.StreamFinishedError
  | conn (code : Nat)     -- QuicConnectionError(error_code)
  | alert (desc : Nat)    -- tls.Alert
  | h3 (code : Nat)       -- h3 ProtocolError subclasses
  | builderStop           -- QuicPacketBuilderStop
  | py (e : PyExc)        -- a Python runtime exception
  deriving Repr, DecidableEq, Inhabited

abbrev Outcome (α : Type) := Except Err α

def Err.name : Err → String
  | .bufferRead => "BufferReadError"
  | .bufferWrite => "BufferWriteError"
  | .finalSize => "FinalSizeError"
  | .streamFinished => "StreamFinishedError"
  | .conn c => s!"QuicConnectionError({c})"
  | .alert d => s!"Alert({d})"
  | .h3 c => s!"H3Error({c})"
  | .builderStop => "QuicPacketBuilderStop"
  | .py .assertion => "AssertionError"
  | .py .index => "IndexError"
  | .py .key => "KeyError"
  | .py .value => "ValueError"
  | .py .typeErr => "TypeError"
  | .py .unicode => "UnicodeDecodeError"
  | .py .overflow => "OverflowError"
  | .py .notImplemented => "NotImplementedError"

/-- Python slice assignment `buf[pos:pos+len(d)] = d` (may extend). -/
def sliceAssign (buf : Bytes) (pos : Nat) (d : Bytes) : Bytes :=
  buf.take pos ++ d ++ buf.drop (pos + d.length)

/-- Python slice index normalisation for a sequence of length `n`. -/
def pyIndex (n : Nat) (x : Int) : Nat :=
  if x < 0 then (x + n).toNat else min x.toNat n

/-- Python `buf[a:b]` for possibly negative `a`, `b`. -/
def pySlice (buf : Bytes) (a b : Int) : Bytes :=
  let i := pyIndex buf.length a
  let j := pyIndex buf.length b
  (buf.drop i).take (j - i)

/-- hex rendering for the line protocol -/
def hexDigit (n : Nat) : Char :=
  if n < 10 then Char.ofNat (48 + n) else Char.ofNat (87 + n)

def toHex (bs : Bytes) : String :=
  String.ofList (bs.foldr (fun b acc => hexDigit (b.toNat / 16) :: hexDigit (b.toNat % 16) :: acc) [])

def hexVal (c : Char) : Option Nat :=
  if '0' ≤ c ∧ c ≤ '9' then some (c.toNat - 48)
  else if 'a' ≤ c ∧ c ≤ 'f' then some (c.toNat - 87)
  else if 'A' ≤ c ∧ c ≤ 'F' then some (c.toNat - 55)
  else none

def ofHexChars : List Char → Option Bytes
  | [] => some []
  | [_] => none
  | a :: b :: rest => do
    let x ← hexVal a
    let y ← hexVal b
    let r ← ofHexChars rest
    pure (UInt8.ofNat (x * 16 + y) :: r)

/-- `-` stands for the empty byte string on the wire of the line protocol. -/
def ofHex (s : String) : Option Bytes :=
  if s = "-" then some [] else ofHexChars s.toList

def hexOut (bs : Bytes) : String := if bs.isEmpty then "-" else toHex bs

end AQ
