/-
  Model of aioquic/quic/rangeset.py (RangeSet), as structural recursions over a
  list of half-open ranges.  All call sites pass non-negative integers (decoded
  varints, packet numbers, stream offsets), hence `Nat`.
-/
namespace AQ

/-- A range [start, stop). -/
structure Rg where
  start : Nat
  stop : Nat
deriving Repr, DecidableEq, Inhabited

abbrev RangeSet := List Rg

namespace RangeSet

/-- the inner `while … pop(i+1)` loop of `add`: absorb following ranges whose
    start ≤ stop. -/
def absorb (stop : Nat) : List Rg → Nat × List Rg
  | [] => (stop, [])
  | r :: rest => if r.start ≤ stop then absorb (max r.stop stop) rest else (stop, r :: rest)

/-- `RangeSet.add(start, stop)` (caller guarantees `stop > start`; the Python
    `assert` is modelled by the callers of this function). -/
def add (start stop : Nat) : List Rg → List Rg
  | [] => [⟨start, stop⟩]
  | r :: rest =>
    if stop < r.start then ⟨start, stop⟩ :: r :: rest
    else if start > r.stop then r :: add start stop rest
    else
      let s := min start r.start
      let p := absorb (max stop r.stop) rest
      ⟨s, p.1⟩ :: p.2

/-- `RangeSet.subtract(start, stop)` -/
def subtract (a b : Nat) : List Rg → List Rg
  | [] => []
  | r :: rest =>
    if b ≤ r.start then r :: rest
    else if a ≥ r.stop then r :: subtract a b rest
    else if a ≤ r.start ∧ b ≥ r.stop then subtract a b rest
    else if a > r.start then
      if b < r.stop then ⟨r.start, a⟩ :: ⟨b, r.stop⟩ :: rest
      else ⟨r.start, a⟩ :: subtract a b rest
    else ⟨b, r.stop⟩ :: subtract a b rest

/-- `RangeSet.shift()` : pop(0); `none` = IndexError -/
def shift : List Rg → Option (Rg × List Rg)
  | [] => none
  | r :: rest => some (r, rest)

/-- `RangeSet.bounds()`; `none` = IndexError -/
def bounds : List Rg → Option Rg
  | [] => none
  | r :: rest => some ⟨r.start, ((r :: rest).getLast (by simp)).stop⟩

def contains (x : Nat) (rs : List Rg) : Bool := rs.any (fun r => r.start ≤ x && x < r.stop)

def mem (x : Nat) (rs : List Rg) : Prop := ∃ r ∈ rs, r.start ≤ x ∧ x < r.stop

/-- well-formed: each nonempty, sorted, strictly separated (non-touching). -/
def WF : List Rg → Prop
  | [] => True
  | [r] => r.start < r.stop
  | r :: r' :: rest => r.start < r.stop ∧ r.stop < r'.start ∧ WF (r' :: rest)

def render (rs : List Rg) : String :=
  "[" ++ ",".intercalate (rs.map fun r => s!"{r.start}-{r.stop}") ++ "]"

end RangeSet
end AQ
