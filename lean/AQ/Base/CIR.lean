/-!
# C IR with a bounds-checking semantics (property C04)

`tools/extract_c.py` translates every function of `_buffer.c` / `_crypto.c`
into a term of the monad `CM` below (shallow embedding: the "IR" is the set of
combinators of this file, and the evaluator is their definition, so a
translated function is directly executable by the driver).

Memory = a table of *objects* (`size`, `data`); a pointer is `(object, offset)`.
Every `*p`, `p[i]`, `memcpy/memset/memcmp` and every external call that touches
memory is an access obligation; an access outside `[0,size)` is `Res.fault`.
Signed overflow, out-of-range shifts, relational comparison of pointers into
different objects and violated external-call preconditions are faults too.

## Trusted contracts (CPython / OpenSSL / libc are NOT verified; they are
## assumed to touch exactly the extents below)

* flat address space: forming `p + k` never wraps (user-space addresses
  < 2^47, |k| < 2^63), so pointer comparison = comparison of offsets; only
  *accesses* are checked, not the formation of out-of-range pointers.
* `malloc(n)` (n taken as size_t): NULL, or a fresh block of exactly `n` bytes;
  always NULL when n ≥ 2^63.  Object id 1 is the Buffer heap block.
* `PyArg_ParseTuple(AndKeywords)`: `y#` gives a pointer to an object of extent
  exactly `len` (reading index `len`, CPython's trailing NUL, through `p[i]`/memcpy counts as out
  of bounds; the NUL only makes C-string reads `%s`/`EVP_get_cipherbyname` terminate) and the
  true `len`; `n` any integer in [-2^63,2^63) (OverflowError
  otherwise); `K`/`I`/`H`/`B` the value mod 2^64/2^32/2^16/2^8 (`I` stored
  into an `int` is reinterpreted as signed 32-bit); wrong Python type →
  TypeError.  On failure the out-variables are unspecified (the translator
  insists the caller returns immediately).
* `PyBytes_FromStringAndSize(p,n)` requires `n ≥ 0`, reads `p[0,n)`;
  `Py_BuildValue("y#i",p,n,v)` requires `n ≥ 0`, reads `p[0,n)`.  Result
  object allocation is assumed to succeed.
* `PyLong_From*`, `PyErr_SetString`, `PyErr_NoMemory`, `ERR_clear_error`,
  `EVP_CIPHER_CTX_free`, `free`, `Py_DECREF` touch no modelled memory.
* `PyErr_Format(exc, "...%s", s)` and `EVP_get_cipherbyname(s)` read the C
  string at `s`: obligation = `s` points into an object that is followed by a NUL.
* `EVP_CIPHER_CTX_new()` NULL or a fresh context.  A context has a key length
  and an IV length: `EVP_CipherInit_ex(ctx, cipher≠NULL, …)` sets them to the
  cipher's defaults (assumed: key length in [16,32], IV length in [12,16]);
  `EVP_CIPHER_CTX_set_key_length(ctx,k)` on success makes the key length `k`
  (requires nothing); `EVP_CIPHER_CTX_ctrl(ctx, SET_IVLEN, n, NULL)` on success
  makes the IV length `n`.
* `EVP_CipherInit_ex(ctx, _, NULL, key, iv, enc)` reads `key[0,keylen ctx)` if
  `key≠NULL` and `iv[0,ivlen ctx)` if `iv≠NULL`; `ctx` must be non-NULL.
* `EVP_CipherUpdate(ctx,out,&outl,in,inl)`: `inl < 0` (as int) fails without touching memory
  (checked by OpenSSL; observed with 3.5.6: 2 GiB of associated data → CryptoError); otherwise
  reads `in[0,inl)`, writes `out[0,inl)` when `out≠NULL`, sets `outl = inl`
  (stream / GCM / one-block ECB use in these files); `out` and `in` distinct objects.
* `EVP_CipherFinal_ex(ctx, NULL, &outl)` writes no memory (GCM); success sets `outl = 0`.
* `EVP_CIPHER_CTX_ctrl(ctx, GET_TAG, n, p)` writes `p[0,n)`; `SET_TAG` reads `p[0,n)`.
* `for` loops: at most `loopMax = 8` iterations (more = fault `loopBound`).
-/
namespace AQ.C

structure Ptr where
  obj : Nat
  off : Int
  deriving DecidableEq, Repr, Inhabited

def Ptr.null : Ptr := ⟨0, 0⟩
@[simp] def Ptr.add (p : Ptr) (k : Int) : Ptr := ⟨p.obj, p.off + k⟩

inductive Exc where
  | bufferRead | bufferWrite | crypto | value | memory | typeErr | overflow
  deriving DecidableEq, Repr, Inhabited

def Exc.name : Exc → String
  | .bufferRead => "BufferReadError" | .bufferWrite => "BufferWriteError"
  | .crypto => "CryptoError" | .value => "ValueError" | .memory => "MemoryError"
  | .typeErr => "TypeError" | .overflow => "OverflowError"

inductive Fault where
  | oobRead (obj : Nat) (off n : Int) | oobWrite (obj : Nat) (off n : Int)
  | overlap | signedOverflow | shift | negBitop | ptrCmp | cstr | loopBound
  | contract (what : String)
  deriving DecidableEq, Repr, Inhabited

/-- Python-level values handed back to the interpreter. -/
inductive PyVal where
  | null | none | bool (b : Bool) | int (i : Int)
  | bytes (b : List UInt8) | bytesInt (b : List UInt8) (i : Int)
  deriving DecidableEq, Repr, Inhabited

/-- A Python argument as seen by PyArg_ParseTuple; the k-th `y#` argument's
    bytes live in object `10+k` of the state. -/
inductive PyArg where
  | absent | int (i : Int) | bytes | other
  deriving DecidableEq, Repr, Inhabited

def upd {α : Type} (f : Nat → α) (k : Nat) (v : α) : Nat → α := fun j => if j = k then v else f j
@[simp] theorem upd_apply {α} (f : Nat → α) (k : Nat) (v : α) (j : Nat) :
    upd f k v j = if j = k then v else f j := rfl

structure St where
  size : Nat → Int
  data : Nat → Int → UInt8
  nul : Nat → Bool          -- the object is followed by a NUL byte (CPython bytes objects, C literals)
  pf : Nat → Ptr            -- pointer-typed fields of `self`
  nf : Nat → Int            -- integer-typed fields of `self`
  err : Option Exc          -- CPython error indicator
  ora : Nat → Int           -- nondeterministic results of external calls
  oraB : Nat → Int → UInt8  -- nondeterministic byte contents produced by external calls
  tick : Nat
  cklen : Nat → Int         -- ghost: key length of cipher context (by object id)
  civlen : Nat → Int        -- ghost: iv length of cipher context

inductive Res (α : Type) where
  | ok (a : α) (s : St)
  | fault (f : Fault)

def CM (α : Type) := St → Res α

def ret {α} (a : α) : CM α := fun s => .ok a s
def bnd {α β} (m : CM α) (f : α → CM β) : CM β := fun s =>
  match m s with
  | .ok a s' => f a s'
  | .fault e => .fault e
def fault {α} (f : Fault) : CM α := fun _ => .fault f
/-- name a value (keeps proof terms small: the value is not substituted) -/
def val {α} (a : α) : CM α := ret a
def assert (c : Bool) (f : Fault) : CM Unit := fun s => if c then .ok () s else .fault f
def get : CM St := fun s => .ok s s
def gets {α} (f : St → α) : CM α := fun s => .ok (f s) s
def modify (f : St → St) : CM Unit := fun s => .ok () (f s)

/-! Bool comparisons without `Decidable` instance arguments (rewriting inside them is harmless) -/
def ilt (a b : Int) : Bool := decide (a < b)
def ile (a b : Int) : Bool := decide (a ≤ b)
def ieq (a b : Int) : Bool := decide (a = b)
def nateq (a b : Nat) : Bool := decide (a = b)
def u8z (x : UInt8) : Bool := decide (x = 0)
def peq (p q : Ptr) : Bool := decide (p = q)
def pyeq (p q : PyVal) : Bool := decide (p = q)

def inb (s : St) (p : Ptr) (n : Int) : Prop := 0 ≤ n ∧ 0 ≤ p.off ∧ p.off + n ≤ s.size p.obj
instance (s : St) (p : Ptr) (n : Int) : Decidable (inb s p n) := by unfold inb; exact inferInstance

def chkRd (p : Ptr) (n : Int) : CM Unit := fun s =>
  if inb s p n then .ok () s else .fault (.oobRead p.obj p.off n)
def chkWr (p : Ptr) (n : Int) : CM Unit := fun s =>
  if inb s p n then .ok () s else .fault (.oobWrite p.obj p.off n)

def rd1 (p : Ptr) : CM Int := fun s =>
  if inb s p 1 then .ok ((s.data p.obj p.off).toNat : Int) s else .fault (.oobRead p.obj p.off 1)

abbrev Data := Nat → Int → UInt8
/-- replace the byte contents (sizes never change here) -/
def setData (f : St → Data) : CM Unit := fun s => .ok () { s with data := f s }

def St.wr1 (s : St) (p : Ptr) (v : Int) : Data :=
  upd s.data p.obj (fun i => if i = p.off then UInt8.ofNat (v % 256).toNat else s.data p.obj i)
def wr1 (p : Ptr) (v : Int) : CM Unit := fun s =>
  if inb s p 1 then .ok () { s with data := s.wr1 p v } else .fault (.oobWrite p.obj p.off 1)

def St.copy (s : St) (d src : Ptr) (n : Int) : Data :=
  upd s.data d.obj (fun i =>
      if d.off ≤ i ∧ i < d.off + n then s.data src.obj (src.off + (i - d.off)) else s.data d.obj i)
def St.fill (s : St) (d : Ptr) (n : Int) (f : Int → UInt8) : Data :=
  upd s.data d.obj (fun i =>
      if d.off ≤ i ∧ i < d.off + n then f (i - d.off) else s.data d.obj i)

def readList (s : St) (p : Ptr) (n : Int) : List UInt8 :=
  (List.range n.toNat).map (fun (i : Nat) => s.data p.obj (p.off + (i : Int)))

/-! ### integers (C values are `Int`; the translator inserts the conversions) -/
def inS32 (x : Int) : Prop := -2147483648 ≤ x ∧ x ≤ 2147483647
def inS64 (x : Int) : Prop := -9223372036854775808 ≤ x ∧ x ≤ 9223372036854775807
instance (x : Int) : Decidable (inS32 x) := by unfold inS32; exact inferInstance
instance (x : Int) : Decidable (inS64 x) := by unfold inS64; exact inferInstance
/-- result of a signed 32-bit `+ - *`: overflow is undefined behaviour = fault -/
def chkS32 (x : Int) : CM Int := bnd (assert (ile (-2147483648) x && ile x 2147483647) .signedOverflow) fun _ => ret x
def chkS64 (x : Int) : CM Int := bnd (assert (ile (-9223372036854775808) x && ile x 9223372036854775807) .signedOverflow) fun _ => ret x
/-- implementation-defined conversion to a signed type (two's complement) -/
def wrapS32 (x : Int) : Int := (x + 2147483648) % 4294967296 - 2147483648
def wrapS64 (x : Int) : Int := (x + 9223372036854775808) % 18446744073709551616 - 9223372036854775808
/-- `a << k` at a signed type of `w` bits with maximum `lim` -/
def shlS (w lim a k : Int) : CM Int :=
  bnd (assert (ile 0 k && ilt k w) .shift) fun _ =>
  bnd (assert (ile 0 a && ile (a * (2 ^ k.toNat : Int)) lim) .signedOverflow) fun _ => ret (a * (2 ^ k.toNat : Int))
/-- `a << k` at an unsigned type of `w` bits (wraps) -/
def shlU (w m a k : Int) : CM Int :=
  bnd (assert (ile 0 k && ilt k w) .shift) fun _ => ret ((a * (2 ^ k.toNat : Int)) % m)
/-- `a >> k` (negative signed left operand: implementation-defined, treated as fault) -/
def shr (w a k : Int) : CM Int :=
  bnd (assert (ile 0 k && ilt k w) .shift) fun _ =>
  bnd (assert (ile 0 a) .negBitop) fun _ => ret (a / (2 ^ k.toNat : Int))
def bandV (a b : Int) : Int := ((a.toNat &&& b.toNat : Nat) : Int)
def borV (a b : Int) : Int := ((a.toNat ||| b.toNat : Nat) : Int)
def bxorV (a b : Int) : Int := ((a.toNat ^^^ b.toNat : Nat) : Int)
def band (a b : Int) : CM Int := bnd (assert (ile 0 a && ile 0 b) .negBitop) fun _ => ret (bandV a b)
def bor (a b : Int) : CM Int := bnd (assert (ile 0 a && ile 0 b) .negBitop) fun _ => ret (borV a b)
def bxor (a b : Int) : CM Int := bnd (assert (ile 0 a && ile 0 b) .negBitop) fun _ => ret (bxorV a b)
def b2i (b : Bool) : Int := if b then 1 else 0

/-! ### pointers -/
def pLt (p q : Ptr) : CM Bool := bnd (assert (nateq p.obj q.obj) .ptrCmp) fun _ => ret (ilt p.off q.off)
def pLe (p q : Ptr) : CM Bool := bnd (assert (nateq p.obj q.obj) .ptrCmp) fun _ => ret (ile p.off q.off)
def pGt (p q : Ptr) : CM Bool := pLt q p
def pGe (p q : Ptr) : CM Bool := pLe q p
def pDiff (p q : Ptr) : CM Int := bnd (assert (nateq p.obj q.obj) .ptrCmp) fun _ => chkS64 (p.off - q.off)

/-! ### struct fields of `self`, error indicator, oracle -/
def ldP (k : Nat) : CM Ptr := fun s => .ok (s.pf k) s
def stP (k : Nat) (p : Ptr) : CM Unit := modify fun s => { s with pf := upd s.pf k p }
def ldN (k : Nat) : CM Int := fun s => .ok (s.nf k) s
def stN (k : Nat) (v : Int) : CM Unit := modify fun s => { s with nf := upd s.nf k v }
def setErr (e : Exc) : CM Unit := modify fun s => { s with err := some e }
def draw : CM Int := fun s => .ok (s.ora s.tick) { s with tick := s.tick + 1 }
/-- a nondeterministic value in `[lo, hi]` -/
def drawIn (lo hi : Int) : CM Int := fun s =>
  .ok (if s.ora s.tick < lo then lo else if hi < s.ora s.tick then hi else s.ora s.tick) { s with tick := s.tick + 1 }

/-- bounded `for (i = 0; i < n; ++i)`: `fuel` is the literal `loopMax` -/
def forN {σ : Type} : Nat → Int → Int → (Int → σ → CM σ) → σ → CM σ
  | 0, i, n, _, acc => if i < n then fault .loopBound else ret acc
  | fuel + 1, i, n, body, acc =>
    if i < n then bnd (body i acc) fun acc' => forN fuel (i + 1) n body acc' else ret acc
def loopMax : Nat := 8

/-! ### libc -/
def memcpy (d s : Ptr) (n : Int) : CM Unit :=
  bnd (assert (!nateq d.obj s.obj) .overlap) fun _ =>
  bnd (chkRd s n) fun _ => bnd (chkWr d n) fun _ => setData fun st => st.copy d s n
def memset (d : Ptr) (v n : Int) : CM Unit :=
  bnd (chkWr d n) fun _ => setData fun st => st.fill d n (fun _ => UInt8.ofNat (v % 256).toNat)
def cmpList : List UInt8 → List UInt8 → Int
  | a :: as, b :: bs => if a < b then -1 else if b < a then 1 else cmpList as bs
  | _, _ => 0
def memcmp (a b : Ptr) (n : Int) : CM Int :=
  bnd (chkRd a n) fun _ => bnd (chkRd b n) fun _ => gets fun st => cmpList (readList st a n) (readList st b n)
/-- a C string is read at `p`: sufficient condition = `p` points into (or just past) an object that
    is followed by a NUL terminator -/
def rdCStr (p : Ptr) : CM Unit :=
  bnd get fun s =>
  assert (ile 0 p.off && ile p.off (s.size p.obj) && s.nul p.obj) .cstr
def heapObj : Nat := 1
def malloc (n : Int) : CM Ptr :=
  bnd draw fun r =>
  if r = 0 ∨ n ≥ 9223372036854775808 ∨ n < 0 then ret Ptr.null
  else bnd (modify fun s => { s with size := upd s.size 1 n }) fun _ =>
       bnd (setData fun s => upd s.data 1 (s.oraB s.tick)) fun _ =>
       ret ⟨1, 0⟩
def free (_ : Ptr) : CM Unit := ret ()

/-! ### CPython API -/
def PyErr_SetString (e : Exc) : CM Unit := setErr e
def PyErr_NoMemory : CM Unit := setErr .memory
def PyErr_Format_s (e : Exc) (s : Ptr) : CM Unit := bnd (rdCStr s) fun _ => setErr e
def PyBytes_FromStringAndSize (p : Ptr) (n : Int) : CM PyVal :=
  bnd (assert (ile 0 n) (.contract "PyBytes_FromStringAndSize: negative size")) fun _ =>
  bnd (chkRd p n) fun _ => gets fun s => .bytes (readList s p n)
def Py_BuildValue_y_i (p : Ptr) (n v : Int) : CM PyVal :=
  bnd (assert (ile 0 n) (.contract "Py_BuildValue y#: negative size")) fun _ =>
  bnd (chkRd p n) fun _ => gets fun s => .bytesInt (readList s p n) v
def PyLong_FromUnsignedLong (v : Int) : CM PyVal := ret (.int v)
def PyLong_FromUnsignedLongLong (v : Int) : CM PyVal := ret (.int v)
def PyLong_FromSsize_t (v : Int) : CM PyVal := ret (.int v)

/-- argument kinds of PyArg_ParseTuple -/
def argInt (lo hi : Int) (a : PyArg) : Option Int :=
  match a with
  | .int i => if lo ≤ i ∧ i ≤ hi then some i else none
  | _ => none
def argErr (a : PyArg) : Exc := match a with | .int _ => .overflow | _ => .typeErr
/-- `n`: Py_ssize_t with overflow check.  `none` = parse failure (error set). -/
def parseN (a : PyArg) : CM (Option Int) :=
  match argInt (-9223372036854775808) 9223372036854775807 a with
  | some i => ret (some i)
  | none => bnd (setErr (argErr a)) fun _ => ret none
/-- `K`,`I`,`H`,`B`: masked to `m = 2^bits` without overflow check -/
def parseMask (m : Int) (a : PyArg) : CM (Option Int) :=
  match a with
  | .int i => ret (some (i % m))
  | _ => bnd (setErr .typeErr) fun _ => ret none
/-- contract of the C helper `parse_uint_arg(args, max, msg, &v)`: an integer in `[0, max]`, else
    ValueError (out of range) / TypeError (not an integer) -/
def parseUint (mx : Int) (a : PyArg) : CM (Option Int) :=
  match argInt 0 mx a with
  | some i => ret (some i)
  | none => bnd (setErr (match a with | .int _ => .value | _ => .typeErr)) fun _ => ret none
/-- `y#`: pointer to object `o` and its length (= the object's extent; the trailing NUL CPython keeps
    after it is NOT part of the extent, it only serves C-string reads, see `rdCStr`) -/
def parseBytes (o : Nat) (a : PyArg) : CM (Option (Ptr × Int)) :=
  match a with
  | .bytes => gets fun s => some (⟨o, 0⟩, s.size o)
  | _ => bnd (setErr .typeErr) fun _ => ret none

/-! ### OpenSSL -/
def ctxBase : Nat := 30
def EVP_get_cipherbyname (name : Ptr) : CM Ptr :=
  bnd (rdCStr name) fun _ => bnd draw fun r => if r = 0 then ret Ptr.null else ret ⟨29, 0⟩
def EVP_CIPHER_CTX_new : CM Ptr :=
  bnd get fun s => bnd draw fun r => if r = 0 then ret Ptr.null else ret ⟨30 + s.tick, 0⟩
def EVP_CIPHER_CTX_free (_ : Ptr) : CM Unit := ret ()
def ERR_clear_error : CM Unit := ret ()
def needCtx (ctx : Ptr) : CM Unit := assert (!nateq ctx.obj 0) (.contract "NULL EVP_CIPHER_CTX")
def EVP_CipherInit_ex (ctx cipher _impl key iv : Ptr) (_enc : Int) : CM Int :=
  bnd (needCtx ctx) fun _ =>
  bnd (drawIn 16 32) fun kd => bnd (drawIn 12 16) fun ivd =>   -- the cipher's default key / IV length
  bnd (if cipher.obj ≠ 0 then modify fun s =>
        { s with cklen := upd s.cklen ctx.obj kd, civlen := upd s.civlen ctx.obj ivd } else ret ()) fun _ =>
  bnd get fun s =>
  bnd (if key.obj ≠ 0 then chkRd key (s.cklen ctx.obj) else ret ()) fun _ =>
  bnd (if iv.obj ≠ 0 then chkRd iv (s.civlen ctx.obj) else ret ()) fun _ =>
  bnd draw fun r => (if r = 0 then ret 0 else ret 1)
def EVP_CIPHER_CTX_set_key_length (ctx : Ptr) (k : Int) : CM Int :=
  bnd (needCtx ctx) fun _ => bnd draw fun r =>
  if r = 0 ∨ k < 0 then ret 0
  else bnd (modify fun s => { s with cklen := upd s.cklen ctx.obj k }) fun _ => ret 1
def EVP_CTRL_SET_IVLEN : Int := 9
def EVP_CTRL_GET_TAG : Int := 16
def EVP_CTRL_SET_TAG : Int := 17
def EVP_CIPHER_CTX_ctrl (ctx : Ptr) (op n : Int) (p : Ptr) : CM Int :=
  bnd (needCtx ctx) fun _ => bnd draw fun r =>
  if op = 9 then
    (if r = 0 ∨ n < 0 then ret 0
     else bnd (modify fun s => { s with civlen := upd s.civlen ctx.obj n }) fun _ => ret 1)
  else if op = 16 then
    bnd (chkWr p n) fun _ => bnd (setData fun s => s.fill p n (s.oraB s.tick)) fun _ => (if r = 0 then ret 0 else ret 1)
  else if op = 17 then
    bnd (chkRd p n) fun _ => (if r = 0 then ret 0 else ret 1)
  else fault (.contract "EVP_CIPHER_CTX_ctrl: unknown op")
/-- returns (result, *outl) -/
def EVP_CipherUpdate (ctx out inp : Ptr) (inl : Int) : CM (Int × Int) :=
  bnd (needCtx ctx) fun _ =>
  if inl < 0 then bnd draw fun o => ret (0, wrapS32 o)     -- OpenSSL rejects a negative length
  else
  bnd (chkRd inp inl) fun _ =>
  bnd (if out.obj ≠ 0 then
        bnd (assert (!nateq out.obj inp.obj) .overlap) fun _ =>
        bnd (chkWr out inl) fun _ => setData fun s => s.fill out inl (s.oraB s.tick)
       else ret ()) fun _ =>
  bnd draw fun r => if r = 0 then bnd draw fun o => ret (0, wrapS32 o) else ret (1, inl)
def EVP_CipherFinal_ex (ctx out : Ptr) : CM (Int × Int) :=
  bnd (needCtx ctx) fun _ =>
  bnd (assert (nateq out.obj 0) (.contract "EVP_CipherFinal_ex: only out=NULL modelled")) fun _ =>
  bnd draw fun r => bnd draw fun o =>
  if r = 0 then ret (0, wrapS32 o) else ret (1, 0)

end AQ.C
