import AQ.Base.Basic
import AQ.Base.RangeSet
import AQ.Model.Stream
import AQ.Model.Recovery
import AQ.Model.H3Validate
import AQ.Model.H3ValidateSpec
