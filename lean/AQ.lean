import AQ.Base.Basic
import AQ.Base.RangeSet
import AQ.Model.Stream
