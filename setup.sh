#!/bin/sh
# MANIFEST.setup_cmd: build the Lean library + the native model driver, offline.
set -e
cd "$(dirname "$0")"
mkdir -p evidence replays lean/AQ/Gen
[ -x tools/pregen.sh ] && tools/pregen.sh
cd lean
lake build
