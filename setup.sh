#!/bin/sh
# MANIFEST.setup_cmd: regenerate AQ/Gen from /repo, build the Lean library, every
# property module and the native model driver, offline.
set -e
cd "$(dirname "$0")"
mkdir -p evidence replays lean/AQ/Gen
# every Python file of the machinery must at least compile (a broken search tool must never fail silently)
PYTHONDONTWRITEBYTECODE=1 /venv/bin/python - <<'PYEOF'
import glob, sys
bad = []
for f in sorted(glob.glob("checks/*.py") + glob.glob("harness/*.py") + glob.glob("tools/*.py")):
    try:
        compile(open(f).read(), f, "exec")
    except SyntaxError as e:
        bad.append(f"{f}: {e}")
if bad:
    print("\n".join(bad)); sys.exit(1)
PYEOF
tools/pregen.sh
cd lean
lake build
lake build $(ls AQ/Props/*.lean | sed 's#/#.#g; s#\.lean$##')
