#!/bin/sh
# MANIFEST.setup_cmd: regenerate AQ/Gen from /repo, build the Lean library, every
# property module and the native model driver, offline.
set -e
cd "$(dirname "$0")"
mkdir -p evidence replays lean/AQ/Gen
tools/pregen.sh
cd lean
lake build
lake build $(ls AQ/Props/*.lean | sed 's#/#.#g; s#\.lean$##')
