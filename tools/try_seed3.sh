#!/bin/bash
# tools/try_seed3.sh <prop> <seed-dir with patch.diff/demo.py> [tag]
# Trial of a seeded change on a scratch worktree of /repo (VERIF_REPO), leaving /repo itself untouched so that
# builder agents can keep running their checks against it.  Same code path as applying the patch to /repo:
# every harness / extractor reads ${VERIF_REPO:-/repo}.
P=$1; O=$2; TAG=${3:-$(basename $(dirname $(dirname $O)))_$(basename $O)}
D=${SEEDREPO:-/tmp/seedrepo}
V=${VERIF_DIR:-$(cd "$(dirname "$0")/.." && pwd)}
[ -d $D ] || { git -C /repo worktree add -q --detach $D HEAD && cp /repo/src/aioquic/*.so $D/src/aioquic/; }
cd $D && git checkout -q -- . && git checkout -q --detach $(git -C /repo rev-parse HEAD) || exit 2
CC=$(grep -c '^+++ b/.*\.c$' $O/patch.diff)
rb() { if [ "$CC" != "0" ]; then (cd $D && /venv/bin/python setup.py build_ext --inplace >/dev/null 2>&1; rm -rf build); fi; }
git apply $O/patch.diff || { echo "APPLY-FAIL"; exit 2; }
rb
PYTHONPATH=$D/src /venv/bin/python $O/demo.py >/dev/null 2>&1; with=$?
if [ -z "$NOTEST" ]; then T=$(PYTHONPATH=$D/src /venv/bin/python -m pytest -q -p no:cacheprovider -x tests/ 2>&1 | tail -1); else T=skipped; fi
cd $V && VERIF_REPO=$D ./check $P > /tmp/seed3_$TAG.log 2>&1; rc=$?
cd $D && git checkout -q -- .; rb
PYTHONPATH=$D/src /venv/bin/python $O/demo.py >/dev/null 2>&1; without=$?
echo "demo with=$with without=$without tests: $T"
echo "check $P rc=$rc: $(grep -c VIOLATION /tmp/seed3_$TAG.log) violation lines; nofail=$(grep -c no-failing-input-found /tmp/seed3_$TAG.log); $(grep VIOLATION /tmp/seed3_$TAG.log | head -1 | cut -c1-160)"
