#!/venv/bin/python
"""Python `ast` -> log IR (lean/AQ/Gen/LogProgram.lean), regenerated on every run.

For every function of the files below that mentions the qlog logger / the
secrets log (directly or through a call) it emits the *slice* of the body that
matters for C20 as an `AQ.LogIR.Stmt`:

  * statements that mention no log name are collapsed into opaque `low`
    statements (they are protocol code); their calls to in-scope functions that
    (transitively) contain log code are kept as `call`
  * `if`/`while`/`for` whose test reads a log location (`if self._quic_logger
    is not None:`, compound guards, `if secrets_log_file is not None:`) become
    `ite`/`loop` with a guard expression reading an `L` location: their bodies
    are translated in *log context*, where only the statement shapes listed in
    `hi_stmt` are understood -- anything else FAILS LOUDLY
  * every expression is abstracted to the set of locations it reads; every
    assignment target to its location; locations are `L` (log-only) when their
    dotted name contains one of LOG_NAMES, when they are locals assigned in log
    context, or when they live in logger.py; `P` otherwise
  * partial operations inside log code (`.decode(`, subscripts, `int(`, `/`,
    `assert`, `len()` / subscript / attribute / method of a name annotated
    `Optional[...]` in the enclosing function that no dominating `is None` /
    `is not None` test (if, early return, conditional expression, `and`)
    excludes from being None) are listed in `partialOps`
    with the reason why they are protected, or emitted as `check` when nothing
    protects them
  * encoder results / `log_event(data=...)` arguments are typed by constructor
    (`JTy`) using the annotations of the source

The Lean side re-checks the typing rules on the emitted term (`WellTyped`);
what is trusted here is the translation itself (reads/writes of a statement,
the tables PURE_CALLS / CALLBACK_EDGES / ARGUED below, which are echoed into
the generated file).
"""
import ast
import os
import sys

HERE = os.path.dirname(os.path.abspath(__file__))
VERIF = os.path.dirname(HERE)
REPO = os.environ.get("VERIF_REPO", "/repo")
SRC = os.path.join(REPO, "src", "aioquic")
OUT = os.path.join(VERIF, "lean", "AQ", "Gen", "LogProgram.lean")

FILES = ["quic/logger.py", "quic/connection.py", "quic/recovery.py", "quic/packet_builder.py",
         "h3/connection.py", "quic/congestion/base.py", "quic/congestion/cubic.py"]
LOG_FILE = "quic/logger.py"
LOG_NAMES = {"_quic_logger", "quic_logger", "quic_logger_frames", "secrets_log_file"}
# functions outside logger.py whose whole body is log code (only ever run with logging on)
LOGONLY_EXTRA = {"QuicPacketRecovery._log_metrics_updated", "QuicCongestionControl.get_log_data",
                 "CubicCongestionControl.get_log_data", "dump_cid"}
# log *sinks*: file / trace-list handling; their partial operations are reported
# in `sinkOps` and covered by the assumption "the log sinks do not fail"
SINKS = {"QuicFileLogger.__init__", "QuicFileLogger.end_trace", "QuicLogger.end_trace"}
# calls allowed in log context that are pure reads of their arguments
PURE_CALLS = {"len", "bool", "isinstance", "list", "dict", "str", "min", "max", "sorted", "tuple",
              "binascii.hexlify", "time.time", "os.path.join", "os.path.isdir", "deque", "super", "int", "float",
              "open", "json.dump",
              "RangeSet"}     # RangeSet(iterable of ranges): builds a new object from its argument
PURE_METHODS = {"hex", "decode", "items", "get", "encode", "keys", "values", "join"}
# mutating methods allowed on log-only receivers
LOG_MUTATORS = {"append", "update", "write", "flush", "remove", "extend"}
# calls made through stored callbacks / by libraries: low statement calling X may run these
CALLBACK_EDGES = {
    "setup": ["_log_key_updated"], "teardown": ["_log_key_retired"], "apply_key_update": ["_log_key_updated"],
    "setup_initial": ["_log_key_updated"], "teardown_initial": ["_log_key_retired"],
    "handle_message": ["_update_traffic_key"],
}
# partial operations that no guard protects syntactically but that are total for a stated reason
ARGUED = {
    ("CubicCongestionControl.get_log_data", "int"):
        "_W_max is only ever assigned congestion_window values or int(...) results: a finite number",
    ("QuicConnection._update_traffic_key", "optional-attr"):
        "tls.client_random is set in Context.__init__ (client) / when the ClientHello is parsed (server), "
        "both before the key schedule can install a traffic key",
}
# functions analysed by the path theorems: every return/break/continue/raise stays explicit
PATH_FUNCS = {"QuicConnection.receive_datagram", "QuicConnection.datagrams_to_send",
              "QuicConnection._receive_retry_packet", "QuicConnection._receive_version_negotiation_packet"}
EVENT_IDS = {"packet_sent": 1, "packet_received": 2, "packet_dropped": 3}
MARKERS = {"decrypt_packet": 1, "on_packet_sent": 2}


class Unsupported(Exception):
    pass


def fail(node, fn, msg):
    raise Unsupported(f"{fn.file}:{getattr(node, 'lineno', '?')} in {fn.qual}: {msg}: "
                      f"{ast.unparse(node)[:160] if isinstance(node, ast.AST) else node}")


class Fn:
    def __init__(self, file, cls, node):
        self.file, self.cls, self.node = file, cls, node
        self.name = node.name
        self.qual = f"{cls}.{node.name}" if cls else node.name
        self.logonly = file == LOG_FILE or self.qual in LOGONLY_EXTRA
        self.sink = self.qual in SINKS
        self.all_log = file == LOG_FILE          # every location is log-only
        self.log_locals = set()
        self.params = [a.arg for a in node.args.args + node.args.kwonlyargs]
        self.ann = {a.arg: a.annotation for a in node.args.args + node.args.kwonlyargs if a.annotation is not None}


def load():
    fns, classes, trees = [], {}, {}
    for f in FILES:
        tree = ast.parse(open(os.path.join(SRC, f)).read(), filename=f)
        trees[f] = tree
        for n in tree.body:
            if isinstance(n, (ast.FunctionDef, ast.AsyncFunctionDef)):
                fns.append(Fn(f, None, n))
            elif isinstance(n, ast.ClassDef):
                classes[n.name] = (f, n)
                for m in n.body:
                    if isinstance(m, (ast.FunctionDef, ast.AsyncFunctionDef)):
                        fns.append(Fn(f, n.name, m))
    return fns, classes, trees


def idents(node):
    """every identifier (names, attribute names, keyword names, arg names) under node"""
    out = set()
    skip = set()          # annotation subtrees are not code (type hints, names imported only for them)
    for n in ast.walk(node):
        for a in ("annotation", "returns"):
            x = getattr(n, a, None)
            if isinstance(x, ast.AST):
                skip.update(id(y) for y in ast.walk(x))
    for n in ast.walk(node):
        if id(n) in skip:
            continue
        if isinstance(n, ast.Name):
            out.add(n.id)
        elif isinstance(n, ast.Attribute):
            out.add(n.attr)
        elif isinstance(n, ast.keyword) and n.arg:
            out.add(n.arg)
        elif isinstance(n, ast.arg):
            out.add(n.arg)
    return out


def called_names(node):
    """simple names of everything called under node (methods by attribute name,
    classes by their name -> __init__ resolved later)"""
    out = []
    for n in ast.walk(node):
        if isinstance(n, ast.Call):
            if isinstance(n.func, ast.Attribute):
                out.append(n.func.attr)
            elif isinstance(n.func, ast.Name):
                out.append(n.func.id)
    return out


def dotted(node):
    """a.b.c for Name/Attribute chains, else None"""
    parts = []
    while isinstance(node, ast.Attribute):
        parts.append(node.attr)
        node = node.value
    if isinstance(node, ast.Name):
        parts.append(node.id)
        return ".".join(reversed(parts))
    return None


class World:
    def __init__(self):
        self.fns, self.classes, self.trees = load()
        self.by_name = {}
        for f in self.fns:
            self.by_name.setdefault(f.name, []).append(f)
        self.compute_taint()
        self.loc_ids, self.expr_n, self.low_n = {}, 0, 0
        self.partial_ops, self.sink_ops, self.notes = [], [], []
        self.fn_ids = {}

    # ---------------------------------------------------------------- taint
    def resolve(self, name, fn=None):
        """in-scope functions a call by simple name may reach"""
        out = []
        if name in self.classes:
            out += [f for f in self.by_name.get("__init__", []) if f.cls == name]
        elif name != "__init__":
            out += self.by_name.get(name, [])
        for cb in CALLBACK_EDGES.get(name, []):
            out += self.by_name.get(cb, [])
        return out

    def compute_taint(self):
        direct = set()
        for f in self.fns:
            if f.logonly or (idents(f.node) & LOG_NAMES):
                direct.add(f)
        tainted = set(direct)
        changed = True
        edges = {f: {g for n in called_names(f.node) for g in self.resolve(n, f)} for f in self.fns}
        while changed:
            changed = False
            for f in self.fns:
                if f not in tainted and edges[f] & tainted:
                    tainted.add(f)
                    changed = True
        self.tainted = tainted

    def tainted_calls(self, node, fn):
        """in-scope tainted functions called under node, in source order"""
        out = []
        for n in called_names(node):
            for g in self.resolve(n, fn):
                if g in self.tainted and g not in out:
                    out.append(g)
        return out

    # ------------------------------------------------------------ locations
    def loc(self, fn, name):
        """location for dotted name `name` read/written in function fn"""
        parts = name.split(".")
        log = fn.all_log or bool(set(parts) & LOG_NAMES) or parts[0] in fn.log_locals
        if fn.logonly and parts[0] != "self":
            log = True                       # locals / parameters of log helpers
        if parts[0] == "self":
            key = f"{fn.cls}." + ".".join(parts[1:]) if len(parts) > 1 else f"{fn.cls}"
        else:
            key = f"{fn.qual}:{name}"
        k = ("L" if log else "P", key)
        if k not in self.loc_ids:
            self.loc_ids[k] = len(self.loc_ids) + 1      # id 0 = the trace's event deque
        return (k[0], self.loc_ids[k])

    def reads(self, fn, node):
        """locations read by an expression (Load names and attribute chains)"""
        out = []

        def visit(n):
            if isinstance(n, ast.Attribute):
                d = dotted(n)
                if d is not None:
                    add(d)
                    return
            if isinstance(n, ast.Name):
                add(n.id)
                return
            if isinstance(n, ast.Call) and isinstance(n.func, ast.Attribute):
                visit(n.func.value)          # receiver, not the method name
                for a in n.args:
                    visit(a)
                for k in n.keywords:
                    visit(k.value)
                return
            if isinstance(n, (ast.Lambda, ast.ListComp, ast.GeneratorExp, ast.DictComp, ast.SetComp)):
                for c in ast.iter_child_nodes(n):
                    visit(c)
                return
            for c in ast.iter_child_nodes(n):
                visit(c)

        def add(d):
            root = d.split(".")[0]
            if root in fn.locals_ or root == "self":
                l = self.loc(fn, d)
                if l not in out:
                    out.append(l)

        visit(node)
        return out

    def expr(self, fn, node, extra=()):
        self.expr_n += 1
        r = list(extra)
        for n in ([node] if isinstance(node, ast.AST) else node):
            for l in self.reads(fn, n):
                if l not in r:
                    r.append(l)
        return (self.expr_n, r)

    def is_log_expr(self, fn, node):
        return any(l[0] == "L" for l in self.reads(fn, node))


def local_names(fnnode):
    """parameters and every name bound in the function body"""
    out = {a.arg for a in fnnode.args.args + fnnode.args.kwonlyargs + fnnode.args.posonlyargs}
    if fnnode.args.vararg:
        out.add(fnnode.args.vararg.arg)
    if fnnode.args.kwarg:
        out.add(fnnode.args.kwarg.arg)
    for n in ast.walk(fnnode):
        if isinstance(n, ast.Name) and isinstance(n.ctx, (ast.Store, ast.Del)):
            out.add(n.id)
        elif isinstance(n, ast.ExceptHandler) and n.name:
            out.add(n.name)
    return out


def seq(items):
    items = [i for i in items if i != ("skip",)]
    merged = []
    for i in items:
        if i[0] == "seq":
            merged += i[1]
        else:
            merged.append(i)
    # merge runs of unmarked low statements
    out = []
    for i in merged:
        if out and i[0] == "low" and out[-1][0] == "low" and i[2] == 0 and out[-1][2] == 0:
            continue
        out.append(i)
    if not out:
        return ("skip",)
    if len(out) == 1:
        return out[0]
    return ("seq", out)


class Tr:
    """translation of one function"""

    def __init__(self, w, fn):
        self.w, self.fn = w, fn
        fn.locals_ = local_names(fn.node)
        self.nonnull = set()

    # ----------------------------------------------------------- predicates
    def mentions_log(self, node):
        if idents(node) & (LOG_NAMES | self.fn.log_locals):
            return True
        return False

    def interesting(self, node):
        if self.fn.qual in PATH_FUNCS and any(isinstance(n, (ast.Return, ast.Break, ast.Continue, ast.Raise))
                                              for n in ast.walk(node)):
            return True
        return (self.fn.logonly or self.mentions_log(node) or bool(self.w.tainted_calls(node, self.fn))
                or any(n in MARKERS for n in called_names(node)))

    def plain_interesting(self, node):
        return self.mentions_log(node) or bool(self.w.tainted_calls(node, self.fn))

    def new_low(self, node=None):
        mk = 0
        if node is not None:
            for n in called_names(node):
                mk = MARKERS.get(n, mk)
        self.w.low_n += 1
        return ("low", self.w.low_n, mk)

    def target_locs(self, t):
        if isinstance(t, (ast.Tuple, ast.List)):
            return [l for e in t.elts for l in self.target_locs(e)]
        if isinstance(t, ast.Starred):
            return self.target_locs(t.value)
        if isinstance(t, ast.Subscript):
            return self.target_locs(t.value)
        d = dotted(t)
        if d is None:
            fail(t, self.fn, "assignment target not understood")
        return [self.w.loc(self.fn, d)]

    # ------------------------------------------------------ protocol context
    def block(self, stmts, hi):
        return self.narrowed_block(stmts, lambda s: self.stmt(s, hi))

    # ---- which Optional-annotated names are known not to be None here ----
    def null_test(self, test):
        """(names that are not None when `test` is true, ... when it is false)"""
        opt = self.fn.optional
        if isinstance(test, ast.Compare) and len(test.ops) == 1 and isinstance(test.left, ast.Name) \
                and test.left.id in opt and isinstance(test.comparators[0], ast.Constant) and test.comparators[0].value is None:
            if isinstance(test.ops[0], ast.IsNot):
                return {test.left.id}, set()
            if isinstance(test.ops[0], ast.Is):
                return set(), {test.left.id}
        if isinstance(test, ast.Name) and test.id in opt:
            return {test.id}, set()
        if isinstance(test, ast.UnaryOp) and isinstance(test.op, ast.Not):
            t, f = self.null_test(test.operand)
            return f, t
        if isinstance(test, ast.BoolOp) and isinstance(test.op, ast.And):
            t = set()
            for v in test.values:
                t |= self.null_test(v)[0]
            return t, set()
        if isinstance(test, ast.BoolOp) and isinstance(test.op, ast.Or):
            f = set()
            for v in test.values:
                f |= self.null_test(v)[1]
            return set(), f
        return set(), set()

    @staticmethod
    def ends_abruptly(stmts):
        return bool(stmts) and isinstance(stmts[-1], (ast.Return, ast.Raise, ast.Continue, ast.Break))

    def with_nonnull(self, names, thunk):
        saved = set(self.nonnull)
        self.nonnull |= names
        try:
            return thunk()
        finally:
            self.nonnull = saved

    def narrowed_block(self, stmts, tr):
        """translate a statement list, tracking `if x is None: return`-style narrowing
        and forgetting a name when it is assigned"""
        saved = set(self.nonnull)
        out = []
        for s in stmts:
            stores = {n.id for n in ast.walk(s) if isinstance(n, ast.Name) and isinstance(n.ctx, ast.Store)}
            self.nonnull -= stores
            out.append(tr(s))
            self.nonnull -= stores
            if isinstance(s, ast.If):
                t, f = self.null_test(s.test)
                if self.ends_abruptly(s.body):
                    self.nonnull |= f
                if s.orelse and self.ends_abruptly(s.orelse):
                    self.nonnull |= t
        self.nonnull = saved
        return seq(out)

    def promote_local(self, recv):
        """receiver of a mutating call / subscript store in log context: a log-only
        location, or a plain local (not a parameter) which thereby becomes log-only --
        the typing then rejects any protocol statement that reads it"""
        fn, w = self.fn, self.w
        if w.is_log_expr(fn, recv) or fn.all_log:
            return True
        if isinstance(recv, ast.Name) and recv.id in fn.locals_ and recv.id not in fn.params:
            fn.log_locals.add(recv.id)
            return True
        return False

    def optional_use(self, node, target, what):
        """`target` (an expression) is dereferenced: a partial operation when it is an
        Optional-annotated name that may be None here"""
        if isinstance(target, ast.Name) and target.id in self.fn.optional and target.id in self.nonnull:
            return self.partial(node, "optional-arg", True,
                                f"{what} of `{target.id}`: dominated by a test that it is not None", node)
        if isinstance(target, ast.Name) and target.id in self.fn.optional and target.id not in self.nonnull:
            return self.partial(node, "optional-arg", False,
                                f"{what} of `{target.id}`: {ast.unparse(self.fn.optional_ann[target.id])} may be None on this path", node)
        return []

    def calls_of(self, node):
        return [("call", g.qual) for g in self.w.tainted_calls(node, self.fn)]

    def stmt(self, s, hi):
        if hi:
            return self.hi_stmt(s)
        fn, w = self.fn, self.w
        if isinstance(s, (ast.FunctionDef, ast.AsyncFunctionDef, ast.ClassDef)):
            if self.mentions_log(s):
                fail(s, fn, "nested definition mentioning a log name")
            # nested helper (e.g. create_crypto_pair): its body runs when called; keep its calls
            return seq([self.new_low()] + self.calls_of(s))
        if not self.interesting(s):
            return self.new_low(s)
        if isinstance(s, ast.If):
            pre = self.calls_of(s.test)
            h = w.is_log_expr(fn, s.test)
            t, f = self.null_test(s.test)
            return seq(pre + [("ite", w.expr(fn, s.test), self.with_nonnull(t, lambda: self.block(s.body, h)),
                               self.with_nonnull(f, lambda: self.block(s.orelse, h)))])
        if isinstance(s, ast.While):
            pre = self.calls_of(s.test)
            h = w.is_log_expr(fn, s.test)
            body = seq(pre + [self.block(s.body, h)])
            return seq(pre + [("loop", w.expr(fn, s.test), body), self.block(s.orelse, h)])
        if isinstance(s, (ast.For, ast.AsyncFor)):
            pre = self.calls_of(s.iter)
            h = w.is_log_expr(fn, s.iter)
            e = w.expr(fn, s.iter)
            binds = [("assign", t, w.expr(fn, s.iter)) for t in self.target_locs(s.target)]
            return seq(pre + [("loop", e, seq(binds + [self.block(s.body, h)])), self.block(s.orelse, h)])
        if isinstance(s, ast.Try):
            fin = []
            if s.finalbody:
                # a `finally` body that is pure protocol code: placed after the try and in a
                # catch-all handler that re-raises (a `return` inside the body skips it: imprecise,
                # irrelevant for the flow typing)
                if any(self.interesting(x) for x in s.finalbody):
                    fail(s, fn, "try/finally whose finally body is log-related")
                fin = [self.new_low()]
            w.expr_n += 1
            k = w.expr_n
            hs = ("skip",)
            for hd in reversed(s.handlers):
                w.expr_n += 1
                hs = ("ite", (w.expr_n, []), self.block(hd.body, False), hs) if hs != ("skip",) else self.block(hd.body, False)
            t = ("try", seq([self.block(s.body, False), self.block(s.orelse, False)]), k, hs)
            if fin:
                w.expr_n += 1
                t = ("try", t, w.expr_n, seq(fin + [("abrupt", "exc")]))
            return seq([t] + fin)
        if isinstance(s, (ast.With, ast.AsyncWith)):
            pre = []
            for it in s.items:
                if self.mentions_log(it.context_expr):
                    fail(s, fn, "with-item mentioning a log name")
                pre += [self.new_low(it.context_expr)] + self.calls_of(it.context_expr)
            return seq(pre + [self.block(s.body, False), self.new_low()])
        if isinstance(s, ast.Return):
            pre = self.simple(s, s.value) if s.value is not None and self.plain_interesting(s.value) else []
            return seq(pre + [("abrupt", "ret")])
        if isinstance(s, ast.Raise):
            pre = self.simple(s, s.exc) if s.exc is not None and self.plain_interesting(s.exc) else []
            return seq(pre + [("abrupt", "exc")])
        if isinstance(s, ast.Break):
            return ("abrupt", "brk")
        if isinstance(s, ast.Continue):
            return ("abrupt", "cont")
        if isinstance(s, ast.Pass):
            return ("skip",)
        if isinstance(s, ast.Expr):
            return seq(self.simple(s, s.value))
        if isinstance(s, ast.Assign):
            return seq(self.simple(s, s.value, [l for t in s.targets for l in self.target_locs(t)]))
        if isinstance(s, ast.AnnAssign):
            if s.value is None:
                return ("skip",)
            return seq(self.simple(s, s.value, self.target_locs(s.target)))
        if isinstance(s, ast.AugAssign):
            return seq(self.simple(s, [s.target, s.value], self.target_locs(s.target)))
        if isinstance(s, ast.Assert):
            return seq(self.simple(s, s.test) + [self.new_low()])
        fail(s, fn, "statement shape not understood in protocol context")

    def simple(self, s, value, targets=()):
        """a simple statement in protocol context that mentions a log name or
        calls tainted functions.  `value`: expression(s) evaluated."""
        fn, w = self.fn, self.w
        values = value if isinstance(value, list) else [value]
        pre = self.calls_of(s)
        logassigns = []
        for v in values:
            for c in ast.walk(v):
                if not isinstance(c, ast.Call):
                    continue
                # keyword arguments named like a log location flow into that field of the callee
                for k in c.keywords:
                    if k.arg in LOG_NAMES:
                        logassigns.append(("assign", ("L", self.kwloc(dotted(c.func) or "?", k.arg)), w.expr(fn, k.value)))
        # unguarded method call on a log-only receiver: AttributeError when the logger is None
        for v in values:
            if isinstance(v, ast.Call) and self.log_receiver(v):
                w.notes.append(f"{fn.qual}:{s.lineno}: unguarded call on a log-only receiver")
                return pre + [("check", w.expr(fn, v))]
        e = w.expr(fn, [self.strip_log_kw(v) for v in values])
        reads_log = any(l[0] == "L" for l in e[1])
        tl = list(targets)
        for t, tn in zip(tl, [x for x in (s.targets if isinstance(s, ast.Assign) else [])]):
            if reads_log and isinstance(tn, ast.Name):
                fn.log_locals.add(tn.id)
        if not tl:
            if reads_log:
                fail(s, fn, "protocol-context statement reads a log location")
            return [self.new_low(s)] + pre + logassigns
        if all(t[0] == "P" for t in tl) and not reads_log:
            return [self.new_low(s)] + pre + logassigns     # ordinary protocol assignment
        return pre + logassigns + [("assign", t, e) for t in tl]   # Lean decides whether this flow is allowed

    def kwloc(self, callee, kw):
        k = ("L", f"{callee}(...).{kw}")
        if k not in self.w.loc_ids:
            self.w.loc_ids[k] = len(self.w.loc_ids) + 1
        return self.w.loc_ids[k]

    def log_receiver(self, call):
        return isinstance(call.func, ast.Attribute) and self.w.is_log_expr(self.fn, call.func.value)

    def strip_log_kw(self, v):
        class T(ast.NodeTransformer):
            def visit_Call(s2, c):
                s2.generic_visit(c)
                c.keywords = [k for k in c.keywords if k.arg not in LOG_NAMES]
                return c
        import copy
        return T().visit(copy.deepcopy(v))

    # ----------------------------------------------------------- log context
    def hi_block(self, stmts):
        out = []
        for i, s in enumerate(stmts):
            if isinstance(s, ast.Return) and i != len(stmts) - 1:
                fail(s, self.fn, "return that is not in tail position in log code")
        return self.narrowed_block(stmts, self.hi_stmt)

    def hi_stmt(self, s):
        fn, w = self.fn, self.w
        if isinstance(s, ast.Expr):
            if isinstance(s.value, ast.Constant):
                return ("skip",)
            return seq(self.hi_expr(s.value))
        if isinstance(s, (ast.Assign, ast.AnnAssign, ast.AugAssign)):
            if isinstance(s, ast.AnnAssign) and s.value is None:
                return ("skip",)
            targets = s.targets if isinstance(s, ast.Assign) else [s.target]
            for t in targets:
                for n in ast.walk(t):
                    if isinstance(n, ast.Name) and isinstance(n.ctx, ast.Store):
                        fn.log_locals.add(n.id)
                if isinstance(t, ast.Subscript):
                    self.promote_local(t.value)          # data["k"] = v on a plain local
            pre = self.hi_expr(s.value)
            e = w.expr(fn, [s.value] + (targets if isinstance(s, ast.AugAssign) else []))
            return seq(pre + [("assign", l, e) for t in targets for l in self.target_locs(t)])
        if isinstance(s, ast.If):
            t, f = self.null_test(s.test)
            return seq(self.hi_expr(s.test) + [("ite", w.expr(fn, s.test), self.with_nonnull(t, lambda: self.hi_block(s.body)),
                                               self.with_nonnull(f, lambda: self.hi_block(s.orelse)))])
        if isinstance(s, ast.For):
            for n in ast.walk(s.target):
                if isinstance(n, ast.Name):
                    fn.log_locals.add(n.id)
            binds = [("assign", t, w.expr(fn, s.iter)) for t in self.target_locs(s.target)]
            if s.orelse:
                fail(s, fn, "for/else in log code")
            return seq(self.hi_expr(s.iter) + [("loop", w.expr(fn, s.iter), seq(binds + [self.hi_block(s.body)]))])
        if isinstance(s, ast.Return):
            if not fn.logonly:
                fail(s, fn, "return under a logger guard")
            if s.value is None:
                return ("skip",)
            return seq(self.hi_expr(s.value) + [("assign", w.loc(fn, "<ret>"), w.expr(fn, s.value))])
        if isinstance(s, ast.Pass):
            return ("skip",)
        if isinstance(s, ast.Assert):
            return seq(self.hi_expr(s.test) + self.partial(s, "assert", False, "assert statement", s.test))
        if isinstance(s, ast.Raise) and fn.sink:
            return seq(self.partial(s, "raise", False, "explicit raise", s.exc))
        if isinstance(s, ast.With) and fn.sink:
            pre = []
            for it in s.items:
                pre += self.hi_expr(it.context_expr)
                if it.optional_vars is not None:
                    for n in ast.walk(it.optional_vars):
                        if isinstance(n, ast.Name):
                            fn.log_locals.add(n.id)
                    pre += [("assign", t, w.expr(fn, it.context_expr)) for t in self.target_locs(it.optional_vars)]
            return seq(pre + [self.hi_block(s.body)])
        fail(s, fn, "statement shape not understood in log context")

    def partial(self, node, kind, guarded, why, expr_node):
        """record a partial operation; unprotected ones become `check` (sinks: table only)"""
        fn, w = self.fn, self.w
        if not guarded and (fn.qual, kind) in ARGUED:
            guarded, why = True, "argued: " + ARGUED[(fn.qual, kind)]
        rec = (fn.qual, getattr(node, "lineno", 0), kind, guarded, why)
        if fn.sink:
            w.sink_ops.append(rec)
            return []
        w.partial_ops.append(rec)
        if guarded:
            return []
        return [("check", w.expr(fn, expr_node))]

    def hi_expr(self, node):
        """effects of evaluating an expression in log context, in evaluation
        order: calls of in-scope log functions, mutations of log objects,
        partial operations"""
        fn, w = self.fn, self.w
        out = []
        if node is None:
            return out
        if isinstance(node, ast.Call):
            f = node.func
            for a in node.args:
                out += self.hi_expr(a)
            for k in node.keywords:
                out += self.hi_expr(k.value)
            if isinstance(f, ast.Attribute) and dotted(f) in PURE_CALLS:
                pass
            elif isinstance(f, ast.Attribute):
                out = self.hi_expr(f.value) + out + self.optional_use(node, f.value, f"method .{f.attr}()")
                m = f.attr
                cands = [g for g in w.by_name.get(m, []) if g.logonly]
                if m == "log_event":
                    ev = next((k.value.value for k in node.keywords if k.arg == "event" and isinstance(k.value, ast.Constant)), None)
                    if ev is None:
                        fail(node, fn, "log_event without a constant event name")
                    out += [("call", g.qual) for g in cands]
                    out.append(("logEvent", EVENT_IDS.get(ev, 0), w.expr(fn, node)))
                elif cands:
                    out += [("call", g.qual) for g in cands]
                elif m in LOG_MUTATORS and self.promote_local(f.value):
                    out += [("assign", l, w.expr(fn, node)) for l in self.target_locs(f.value)]
                    if m == "remove":
                        out += self.partial(node, "list.remove", False, "ValueError when absent", node)
                elif m == "decode":
                    ok = len(node.args) >= 2 or any(k.arg == "errors" for k in node.keywords)
                    why = "errors= handler given"
                    if not ok and isinstance(f.value, ast.Call) and dotted(f.value.func) == "binascii.hexlify":
                        ok, why = True, "binascii.hexlify output is ASCII"
                    out += self.partial(node, "decode", ok, why if ok else "bytes.decode without an error handler", node)
                elif m == "hex" and (dotted(f.value) or "").endswith("client_random"):
                    out += self.partial(node, "optional-attr", False, "tls.client_random is Optional[bytes]", node)
                elif m in PURE_METHODS:
                    pass
                elif dotted(f.value) == "self" and any(g in w.tainted and g.cls == fn.cls for g in w.by_name.get(m, [])):
                    w.notes.append(f"{fn.qual}:{node.lineno}: protocol-context function {m} called in log context")
                    out += [("call", g.qual) for g in w.by_name.get(m, []) if g in w.tainted and g.cls == fn.cls]
                elif m == "get_log_data":
                    out += [("call", g.qual) for g in w.by_name.get(m, [])]
                else:
                    fail(node, fn, "call not understood in log context")
            else:
                name = dotted(f)
                cands = [g for g in w.by_name.get(name, []) if g.logonly]
                if cands:
                    out += [("call", g.qual) for g in cands]
                elif name in w.classes and w.classes[name][0] == LOG_FILE:
                    out += [("call", g.qual) for g in w.by_name.get("__init__", []) if g.cls == name]
                elif name == "len" and node.args:
                    out += self.optional_use(node, node.args[0], "len()")
                elif name in ("int", "float"):
                    out += self.partial(node, name, False, f"{name}() of a non-finite / non-numeric value raises", node)
                elif name in PURE_CALLS:
                    pass
                else:
                    fail(node, fn, "call not understood in log context")
            return out
        if isinstance(node, ast.IfExp):
            t, f = self.null_test(node.test)
            out += self.hi_expr(node.test)
            out += self.with_nonnull(t, lambda: self.hi_expr(node.body))
            out += self.with_nonnull(f, lambda: self.hi_expr(node.orelse))
            return out
        if isinstance(node, ast.BoolOp) and isinstance(node.op, ast.And):
            acc = set()
            for v in node.values:
                out += self.with_nonnull(set(acc), lambda v=v: self.hi_expr(v))
                acc |= self.null_test(v)[0]
            return out
        if isinstance(node, ast.Attribute) and isinstance(node.ctx, ast.Load):
            out += self.optional_use(node, node.value, f"attribute .{node.attr}")
        if isinstance(node, ast.Subscript) and isinstance(node.ctx, ast.Load):
            out += self.optional_use(node, node.value, "subscript")
            out += self.hi_expr(node.value) + self.hi_expr(node.slice)
            if isinstance(node.slice, ast.Slice):
                return out                     # slicing never raises
            ok, why = self.subscript_total(node)
            out += self.partial(node, "subscript", ok, why, node)
            return out
        if isinstance(node, ast.BinOp) and isinstance(node.op, (ast.Div, ast.FloorDiv, ast.Mod)):
            out += self.hi_expr(node.left) + self.hi_expr(node.right)
            if isinstance(node.op, ast.Mod) and isinstance(node.left, ast.Constant) and isinstance(node.left.value, str):
                return out                     # "%s" formatting
            out += self.partial(node, "div", False, "division by zero", node)
            return out
        if isinstance(node, (ast.Lambda, ast.Await, ast.Yield, ast.YieldFrom, ast.NamedExpr)):
            fail(node, fn, "expression shape not understood in log context")
        if isinstance(node, (ast.ListComp, ast.SetComp, ast.GeneratorExp, ast.DictComp)):
            for g in node.generators:
                out += self.hi_expr(g.iter)
                for n in ast.walk(g.target):
                    if isinstance(n, ast.Name):
                        fn.log_locals.add(n.id)
                        fn.locals_.add(n.id)
                for c in g.ifs:
                    out += self.hi_expr(c)
            for part in ([node.key, node.value] if isinstance(node, ast.DictComp) else [node.elt]):
                out += self.hi_expr(part)
            return out
        for c in ast.iter_child_nodes(node):
            if isinstance(c, ast.expr):
                out += self.hi_expr(c)
            elif isinstance(c, ast.keyword):
                out += self.hi_expr(c.value)
        return out

    # ------------------------------------------------- totality of subscripts
    def subscript_total(self, node):
        fn, w = self.fn, self.w
        v, sl = node.value, node.slice
        # TABLE[enum_param] with a dict literal holding every member
        if isinstance(v, ast.Name) and isinstance(sl, ast.Name):
            tab = w.module_literal(fn.file, v.id)
            ann = fn.ann.get(sl.id)
            if isinstance(tab, ast.Dict) and ann is not None:
                enum = ast.unparse(ann).split(".")[-1]
                members = w.enum_members(enum)
                keys = {ast.unparse(k).split(".")[-1] for k in tab.keys if k is not None}
                if members and set(members) <= keys:
                    return True, f"dict literal {v.id} has a key for every member of {enum} (index annotated {enum})"
        # LIST2D[bool_local][enum.value]
        if isinstance(v, ast.Subscript) and isinstance(v.value, ast.Name) and isinstance(sl, ast.Attribute) and sl.attr == "value":
            tab = w.module_literal(fn.file, v.value.id)
            ann = fn.ann.get(dotted(sl.value) or "")
            if isinstance(tab, ast.List) and ann is not None:
                enum = ast.unparse(ann).split(".")[-1]
                vals = w.enum_members(enum)
                rows = [r for r in tab.elts if isinstance(r, ast.List)]
                if vals and len(rows) == len(tab.elts) and all(len(r.elts) == len(vals) for r in rows) \
                        and sorted(vals.values()) == list(range(len(vals))):
                    return True, f"every row of {v.value.id} has {len(vals)} entries = values of {enum}"
        if isinstance(v, ast.Name) and isinstance(sl, ast.Name) and sl.id in fn.bool_locals:
            tab = w.module_literal(fn.file, v.id)
            if isinstance(tab, ast.List) and len(tab.elts) == 2:
                return True, f"{v.id} has 2 rows, index {sl.id} is a bool (assigned from a comparison)"
        # h[0] / h[1] of an element of a `Headers` parameter
        if isinstance(v, ast.Name) and isinstance(sl, ast.Constant) and sl.value in (0, 1):
            src = fn.comp_iter.get(v.id)
            if src is not None and src in fn.ann and ast.unparse(fn.ann[src]) == "Headers":
                return True, "Headers = list[tuple[bytes, bytes]]: constant index of a 2-tuple (by annotation)"
        if isinstance(v, ast.Dict) and isinstance(sl, ast.Constant):
            if any(isinstance(k, ast.Constant) and k.value == sl.value for k in v.keys):
                return True, "constant key of a dict literal"
        return False, "no dominating guard, not a total table"


def _w_module_literal(self, file, name):
    for n in self.trees[file].body:
        if isinstance(n, ast.Assign) and len(n.targets) == 1 and isinstance(n.targets[0], ast.Name) \
                and n.targets[0].id == name:
            return n.value
    return None


def _w_enum_members(self, enum):
    """{member: value} of an Enum class found in packet.py / tls.py"""
    if enum in self._enums:
        return self._enums[enum]
    res = {}
    for f in ["quic/packet.py", "tls.py"]:
        tree = ast.parse(open(os.path.join(SRC, f)).read())
        for n in tree.body:
            if isinstance(n, ast.ClassDef) and n.name == enum and any("Enum" in ast.unparse(b) for b in n.bases):
                for m in n.body:
                    if isinstance(m, ast.Assign) and isinstance(m.targets[0], ast.Name) and isinstance(m.value, ast.Constant):
                        res[m.targets[0].id] = m.value.value
    self._enums[enum] = res
    return res


World.module_literal = _w_module_literal
World.enum_members = _w_enum_members
World._enums = {}


def prepare(fn):
    """per-function facts used by the totality rules"""
    fn.bool_locals, fn.comp_iter = set(), {}
    fn.optional_ann = {k: a for k, a in fn.ann.items() if ast.unparse(a).startswith("Optional[")}
    for n in ast.walk(fn.node):
        if isinstance(n, ast.AnnAssign) and isinstance(n.target, ast.Name) and ast.unparse(n.annotation).startswith("Optional["):
            fn.optional_ann[n.target.id] = n.annotation
    fn.optional = set(fn.optional_ann)
    for n in ast.walk(fn.node):
        if isinstance(n, ast.Assign) and len(n.targets) == 1 and isinstance(n.targets[0], ast.Name) \
                and isinstance(n.value, (ast.Compare, ast.BoolOp)) and isinstance(n.value, ast.Compare):
            fn.bool_locals.add(n.targets[0].id)
        if isinstance(n, ast.comprehension) and isinstance(n.target, ast.Name) and isinstance(n.iter, ast.Name):
            fn.comp_iter[n.target.id] = n.iter.id
        if isinstance(n, ast.For) and isinstance(n.target, ast.Name) and isinstance(n.iter, ast.Name):
            fn.comp_iter[n.target.id] = n.iter.id


def ir_walk(ir):
    yield ir
    k = ir[0]
    if k == "seq":
        for x in ir[1]:
            yield from ir_walk(x)
    elif k == "ite":
        yield from ir_walk(ir[2])
        yield from ir_walk(ir[3])
    elif k == "loop":
        yield from ir_walk(ir[2])
    elif k == "try":
        yield from ir_walk(ir[1])
        yield from ir_walk(ir[3])


def classify_helpers(w):
    """A function outside logger.py is *log-only* when its whole body translates in
    log context (guards, log calls, log-only helpers, pure reads, locals) and assigns
    nothing but log-only locations: `_log_packet_sent(packet)` extracted from its
    caller, with or without its own `is not None` guard.  Such a helper returns
    nothing.  Anything else stays an ordinary function analysed statement by
    statement (an unguarded logger use there is an error, a protocol write in a
    helper called under a guard is an error)."""
    changed = True
    while changed:
        changed = False
        for f in w.fns:
            if f.logonly or f not in w.tainted or f.file == LOG_FILE or f.name.startswith("__"):
                continue
            if not (idents(f.node) & LOG_NAMES) and not any(g.logonly for n in called_names(f.node) for g in w.by_name.get(n, [])):
                continue
            if any(isinstance(n, (ast.Yield, ast.YieldFrom, ast.Await, ast.FunctionDef, ast.Lambda, ast.ClassDef))
                   or (isinstance(n, ast.Return) and n.value is not None and not (isinstance(n.value, ast.Constant) and n.value.value is None))
                   for n in ast.walk(f.node) if n is not f.node):
                continue
            saved = (dict(w.loc_ids), w.expr_n, w.low_n, list(w.partial_ops), list(w.sink_ops), list(w.notes), set(f.log_locals))
            f.logonly = True
            ok = False
            try:
                prepare(f)
                body = Tr(w, f).hi_block(f.node.body)
                ok = all(x[1][0] == "L" for x in ir_walk(body) if x[0] == "assign") \
                    and not any(x[0] in ("low", "abrupt") for x in ir_walk(body)) \
                    and not any("protocol-context function" in n for n in w.notes[len(saved[5]):])
            except Unsupported:
                ok = False
            w.loc_ids, w.expr_n, w.low_n = saved[0], saved[1], saved[2]
            w.partial_ops, w.sink_ops, w.notes = saved[3], saved[4], saved[5]
            if ok:
                f.auto_logonly = True
                changed = True
            else:
                f.logonly = False
                f.log_locals = saved[6]
    return sorted(f.qual for f in w.fns if getattr(f, "auto_logonly", False))


def inline_helpers(w, prog, ir, depth=3):
    """in the path-analysed functions a call of an automatically classified log-only
    helper is replaced by the helper's body (a guarded log block at the call site)"""
    k = ir[0]
    if k == "call":
        g = next((f for f in w.fns if f.qual == ir[1]), None)
        if g is not None and getattr(g, "auto_logonly", False) and depth > 0 and ir[1] in prog:
            return inline_helpers(w, prog, prog[ir[1]][1], depth - 1)
        return ir
    if k == "seq":
        return seq([inline_helpers(w, prog, x, depth) for x in ir[1]])
    if k == "ite":
        return ("ite", ir[1], inline_helpers(w, prog, ir[2], depth), inline_helpers(w, prog, ir[3], depth))
    if k == "loop":
        return ("loop", ir[1], inline_helpers(w, prog, ir[2], depth))
    if k == "try":
        return ("try", inline_helpers(w, prog, ir[1], depth), ir[2], inline_helpers(w, prog, ir[3], depth))
    return ir


def translate(w):
    """returns {qual: (kind, body)} for every tainted function"""
    w.loc_ids, w.expr_n, w.low_n = {}, 0, 0
    w.partial_ops, w.sink_ops, w.notes = [], [], []
    for f in w.fns:
        f.locals_ = local_names(f.node)
    w.auto_logonly = classify_helpers(w)
    # fixpoint on log locals (a local assigned in log context is log-only everywhere)
    for _ in range(6):
        before = {f.qual: set(f.log_locals) for f in w.fns}
        w.loc_ids, w.expr_n, w.low_n = {}, 0, 0
        w.partial_ops, w.sink_ops, w.notes = [], [], []
        prog = {}
        for f in w.fns:
            if f not in w.tainted:
                continue
            prepare(f)
            tr = Tr(w, f)
            body = tr.hi_block(f.node.body) if f.logonly else tr.block(f.node.body, False)
            prog[f.qual] = ("logOnly" if f.logonly else "normal", body)
        if all(before[f.qual] == f.log_locals for f in w.fns):
            for q in PATH_FUNCS:
                if q in prog:
                    prog[q] = (prog[q][0], inline_helpers(w, prog, prog[q][1]))
            return prog
    raise Unsupported("log-local fixpoint did not converge")


# ---------------------------------------------------------------------------
# JSON typing of encoder results (type-directed, from the source annotations)
# ---------------------------------------------------------------------------
TYPE_FILES = FILES + ["quic/packet.py", "quic/configuration.py", "quic/stream.py", "h3/events.py"]
BASE = {"int": ("int",), "float": ("float",), "str": ("str",), "bool": ("bool",), "None": ("null",)}
# attribute / name types the annotations of the source do not give (trusted, echoed in the output)
TYPE_HINTS = {
    "payload_length": ("int",),            # len(data)
    "buf.capacity": ("int",), "start_off": ("int",),    # Buffer.capacity / Buffer.tell() are C ints
    "x.start": ("int",), "x.stop": ("int",),            # elements of a RangeSet are `range` objects
    "chosen_version": ("opt", ("int",)),
    "packet_number": ("int",),             # third component of CryptoPair.decrypt_packet(...) -> Tuple[bytes, bytes, int]   # common[0] if common else None, common: list[int]
    "self._cc.congestion_window": ("union", ("int",), ("float",)), "self.congestion_window": ("union", ("int",), ("float",)),
    "self.bytes_in_flight": ("int",), "self.ssthresh": ("opt", ("int",)),
    "stream.frame_size": ("int",), "stream.blocked_frame_size": ("opt", ("int",)),
    "header.supported_versions": ("list", ("int",)),
}


def union(a, b):
    if a == b:
        return a
    return ("union", a, b)


class Typer:
    def __init__(self, w):
        self.w = w
        self.attr_ann = {}
        for f in TYPE_FILES:
            tree = ast.parse(open(os.path.join(SRC, f)).read())
            for n in ast.walk(tree):
                if isinstance(n, ast.AnnAssign):
                    d = dotted(n.target)
                    if d:
                        self.attr_ann.setdefault(d.split(".")[-1], set()).add(ast.unparse(n.annotation))
        self.fn_ret = {}
        self.hints_used = set()

    def ann(self, a):
        """annotation (source text) -> JTy"""
        a = a.strip().strip("'\"")
        if a in BASE:
            return BASE[a]
        if a.startswith("Optional[") and a.endswith("]"):
            return ("opt", self.ann(a[9:-1]))
        if (a.startswith("list[") or a.startswith("List[")) and a.endswith("]"):
            return ("list", self.ann(a[5:-1]))
        if (a.startswith("dict[str,") or a.startswith("Dict[str,")) and a.endswith("]"):
            return ("dictOf", self.ann(a[9:-1].strip()))
        return ("unknown", "annotation " + a)

    def ret(self, g):
        """union of the return expressions of in-scope function g"""
        if g.qual in self.fn_ret:
            return self.fn_ret[g.qual]
        self.fn_ret[g.qual] = ("unknown", "recursive " + g.qual)
        t = None
        for r, env in self.returns(g.node.body, {}):
            x = self.ty(g, r.value, env) if r.value is not None else ("null",)
            t = x if t is None else union(t, x)
        self.fn_ret[g.qual] = t or ("null",)
        return self.fn_ret[g.qual]

    def returns(self, stmts, env):
        """(Return node, isinstance-narrowing env) pairs"""
        for s in stmts:
            if isinstance(s, ast.Return):
                yield s, env
            elif isinstance(s, ast.If):
                yield from self.returns(s.body, self.narrow(s.test, env))
                yield from self.returns(s.orelse, env)
            elif isinstance(s, (ast.For, ast.While, ast.With)):
                yield from self.returns(s.body, env)

    def narrow(self, test, env):
        if isinstance(test, ast.Call) and dotted(test.func) == "isinstance" and isinstance(test.args[0], ast.Name):
            t = dotted(test.args[1])
            if t in BASE:
                return dict(env, **{test.args[0].id: BASE[t]})
            if t == "bytes":
                return dict(env, **{test.args[0].id: ("unknown", "bytes")})
        return env

    def local(self, fn, name, env):
        """type of a local: union of everything assigned to it (dict literals
        grow by subscript stores)"""
        t, fields, wild = None, None, None

        def visit(stmts, env):
            nonlocal t, fields, wild
            for s in stmts:
                if isinstance(s, (ast.Assign, ast.AnnAssign)) and getattr(s, "value", None) is not None:
                    for tg in (s.targets if isinstance(s, ast.Assign) else [s.target]):
                        if isinstance(tg, ast.Name) and tg.id == name:
                            x = self.ty(fn, s.value, env)
                            if x[0] == "dict":
                                fields = list(x[1]) if fields is None else fields + list(x[1])
                            else:
                                t = x if t is None else union(t, x)
                        if isinstance(tg, ast.Subscript) and isinstance(tg.value, ast.Name) and tg.value.id == name:
                            x = self.ty(fn, s.value, env)
                            if isinstance(tg.slice, ast.Constant) and isinstance(tg.slice.value, str):
                                fields = (fields or []) + [(tg.slice.value, x)]
                            else:
                                wild = x if wild is None else union(wild, x)
                elif isinstance(s, ast.Expr) and isinstance(s.value, ast.Call) and isinstance(s.value.func, ast.Attribute) \
                        and s.value.func.attr == "update" and dotted(s.value.func.value) == name:
                    x = self.ty(fn, s.value.args[0], env)
                    if x[0] == "dict":
                        fields = (fields or []) + list(x[1])
                    else:
                        t = x if t is None else union(t, x)
                elif isinstance(s, ast.If):
                    visit(s.body, self.narrow(s.test, env))
                    visit(s.orelse, env)
                elif isinstance(s, (ast.For, ast.While, ast.With)):
                    visit(s.body, env)

        visit(fn.node.body, env)
        if fields is not None:
            d = ("dict", fields + ([("*", wild)] if wild is not None else []))
            t = d if t is None else union(t, d)
        return t

    def ty(self, fn, n, env):
        w = self.w
        if isinstance(n, ast.Constant):
            v = n.value
            return ("null",) if v is None else ("bool",) if isinstance(v, bool) else ("int",) if isinstance(v, int) \
                else ("float",) if isinstance(v, float) else ("str",) if isinstance(v, str) else ("unknown", repr(v))
        if isinstance(n, ast.Dict):
            fs = []
            for k, v in zip(n.keys, n.values):
                if not (isinstance(k, ast.Constant) and isinstance(k.value, str)):
                    return ("unknown", "dict key " + ast.unparse(k) if k else "**")
                fs.append((k.value, self.ty(fn, v, env)))
            return ("dict", fs)
        if isinstance(n, ast.List):
            t = None
            for e in n.elts:
                x = self.ty(fn, e, env)
                t = x if t is None else union(t, x)
            return ("list", t or ("null",))
        if isinstance(n, ast.ListComp):
            return ("list", self.ty(fn, n.elt, env))
        if isinstance(n, ast.IfExp):
            return union(self.ty(fn, n.body, env), self.ty(fn, n.orelse, env))
        if isinstance(n, (ast.Compare,)) or (isinstance(n, ast.UnaryOp) and isinstance(n.op, ast.Not)):
            return ("bool",)
        if isinstance(n, ast.BinOp):
            a, b = self.ty(fn, n.left, env), self.ty(fn, n.right, env)
            if a == ("str",) and isinstance(n.op, (ast.Add, ast.Mod)):
                return ("str",)
            if a == b == ("int",) and isinstance(n.op, (ast.Add, ast.Sub, ast.Mult)):
                return ("int",)
            if {a, b} <= {("int",), ("float",)} and isinstance(n.op, (ast.Add, ast.Sub, ast.Mult)):
                return ("float",)
            return ("unknown", ast.unparse(n))
        src = ast.unparse(n)
        if isinstance(n, ast.Call):
            f = n.func
            name = dotted(f) or ""
            last = name.split(".")[-1] if name else (f.attr if isinstance(f, ast.Attribute) else "")
            if last in ("hexdump", "dump_cid", "decode", "hex"):
                return ("str",)
            if last == "len":
                return ("int",)
            if last == "int":
                return ("int",)
            if name == "time.time":
                return ("float",)
            if last == "list" and src == "list(self._events)":
                return ("list", ("named", "eventRecord"))
            if last == "get" and isinstance(f, ast.Attribute) and isinstance(f.value, ast.Dict) and len(n.args) == 2:
                t = self.ty(fn, n.args[1], env)
                for v in f.value.values:
                    t = union(t, self.ty(fn, v, env))
                return t
            cands = [g for g in w.by_name.get(last, []) if g.logonly]
            if isinstance(f, ast.Attribute) and isinstance(f.value, ast.Call) and dotted(f.value.func) == "super":
                cands = [g for g in cands if g is not fn]
            if isinstance(f, ast.Attribute) and isinstance(f.value, ast.Name) and f.value.id != "self":
                # receiver is an element of an annotated list attribute: resolve by its class
                for c in ast.walk(fn.node):
                    if isinstance(c, ast.comprehension) and isinstance(c.target, ast.Name) and c.target.id == f.value.id:
                        anns = self.attr_ann.get((dotted(c.iter) or "").split(".")[-1], set())
                        for a in anns:
                            if a.startswith("list[") and a[5:-1] in w.classes:
                                cands = [g for g in cands if g.cls == a[5:-1]]
            if cands:
                t = None
                for g in cands:
                    x = self.ret(g)
                    t = x if t is None else union(t, x)
                return t
            return ("unknown", "call " + src)
        if isinstance(n, ast.Subscript):
            tab = w.module_literal(fn.file, dotted(n.value) or "")
            if isinstance(tab, ast.Dict):
                t = None
                for v in tab.values:
                    x = self.ty(fn, v, env)
                    t = x if t is None else union(t, x)
                return t
            return ("unknown", src)
        d = dotted(n)
        if d is None:
            return ("unknown", src)
        if d in env:
            return env[d]
        if d.split(".")[-1] == "quic_logger_frames":
            return ("list", ("named", "frameRecord"))
        if d in TYPE_HINTS:
            self.hints_used.add(d)
            return TYPE_HINTS[d]
        if "." not in d and d not in fn.locals_ and d not in fn.ann:
            lit = w.module_literal(fn.file, d)
            if isinstance(lit, ast.Constant):
                return self.ty(fn, lit, env)
        if "." not in d:
            if d in fn.ann:
                a = ast.unparse(fn.ann[d])
                if fn.name == "log_event" and d == "data":
                    return ("named", "eventData")
                return self.ann(a)
            t = self.local(fn, d, env)
            if t is not None:
                return t
            return ("unknown", "name " + d)
        anns = self.attr_ann.get(d.split(".")[-1], set())
        tys = {self.ann(a) for a in anns}
        if len(tys) == 1:
            return tys.pop()
        if not anns and d.startswith("self.") and d.count(".") == 1:
            # un-annotated attribute: typed by its assignment in __init__ of the same class
            for g in w.by_name.get("__init__", []):
                if g.cls == fn.cls:
                    for a in ast.walk(g.node):
                        if isinstance(a, ast.Assign) and dotted(a.targets[0]) == d:
                            if not hasattr(g, "locals_"):
                                g.locals_ = local_names(g.node)
                                prepare(g)
                            return self.ty(g, a.value, {})
        return ("unknown", f"attribute {d} annotations={sorted(anns)}")


def json_tables(w):
    """(encoder results, log_event data arguments, frame records)"""
    ty = Typer(w)
    enc, data, frames = [], [], []
    for g in w.fns:
        if g in w.tainted and g.logonly and not g.sink and g.name not in ("__init__", "start_trace", "end_trace"):
            if any(isinstance(n, ast.Return) and n.value is not None for n in ast.walk(g.node)):
                enc.append((g.qual, ty.ret(g)))
    for g in w.fns:
        if g not in w.tainted or g.file == LOG_FILE:
            continue
        prepare(g)
        g.locals_ = local_names(g.node)
        for n in ast.walk(g.node):
            if isinstance(n, ast.Call) and isinstance(n.func, ast.Attribute):
                if n.func.attr == "log_event":
                    for k in n.keywords:
                        if k.arg == "data":
                            data.append((f"{g.qual}:{n.lineno}", ty.ty(g, k.value, {})))
                elif n.func.attr == "append" and (dotted(n.func.value) or "").endswith("quic_logger_frames"):
                    frames.append((f"{g.qual}:{n.lineno}", ty.ty(g, n.args[0], {})))
    return enc, data, frames, sorted(ty.hints_used)


# ---------------------------------------------------------------------------
# emission
# ---------------------------------------------------------------------------
def lstr(s):
    return '"' + s.replace("\\", "\\\\").replace('"', '\\"').replace("\n", " ") + '"'


def emit_loc(l):
    return f".{l[0]} {l[1]}"


def emit_expr(e):
    return "⟨%d, [%s]⟩" % (e[0], ", ".join(emit_loc(l) for l in e[1]))


TAGS = {"ret": ".ret", "brk": ".brk", "cont": ".cont", "exc": "(.exc 0)"}


def emit_stmt(s, fid, ind=2):
    pad = " " * ind
    k = s[0]
    if k == "skip":
        return pad + ".skip"
    if k == "seq":
        items = s[1]
        out = emit_stmt(items[-1], fid, ind)
        for it in reversed(items[:-1]):
            out = pad + ".seq (\n" + emit_stmt(it, fid, ind + 1) + ") (\n" + out + ")"
        return out
    if k == "low":
        return pad + f".low {s[1]} {s[2]}"
    if k == "assign":
        return pad + f".assign ({emit_loc(s[1])}) {emit_expr(s[2])}"
    if k == "logEvent":
        return pad + f".logEvent {s[1]} {emit_expr(s[2])}"
    if k == "check":
        return pad + f".check {emit_expr(s[1])}"
    if k == "ite":
        return pad + f".ite {emit_expr(s[1])} (\n" + emit_stmt(s[2], fid, ind + 1) + ") (\n" + emit_stmt(s[3], fid, ind + 1) + ")"
    if k == "loop":
        return pad + f".loop {emit_expr(s[1])} (\n" + emit_stmt(s[2], fid, ind + 1) + ")"
    if k == "try":
        return pad + ".try_ (\n" + emit_stmt(s[1], fid, ind + 1) + f") {s[2]} (\n" + emit_stmt(s[3], fid, ind + 1) + ")"
    if k == "abrupt":
        return pad + f".abrupt {TAGS[s[1]]}"
    if k == "call":
        return pad + f".call {fid[s[1]]}"
    raise AssertionError(k)


def emit_jty(t):
    k = t[0]
    if k in ("int", "float", "str", "bool", "null"):
        return "." + k
    if k in ("opt", "list", "dictOf"):
        return f"(.{k} {emit_jty(t[1])})"
    if k == "union":
        return f"(.union {emit_jty(t[1])} {emit_jty(t[2])})"
    if k == "dict":
        return "(.dict [" + ", ".join(f"({lstr(n)}, {emit_jty(x)})" for n, x in t[1]) + "])"
    if k == "named":
        return t[1]
    if k == "unknown":
        return f"(.unknown {lstr(t[1])})"
    raise AssertionError(t)


def lident(q):
    return "".join(c if c.isalnum() else "_" for c in q)


def generate():
    w = World()
    prog = translate(w)
    enc, data, frames, hints = json_tables(w)
    quals = sorted(prog)
    fid = {q: i + 1 for i, q in enumerate(quals)}
    L = []
    L.append("/- GENERATED by tools/extract_log.py from the aioquic sources -- do not edit.")
    L.append("   files: " + ", ".join(FILES))
    L.append(f"   {len(quals)} functions, {len(w.loc_ids)} locations, {w.expr_n} expressions, {w.low_n} opaque statements")
    L.append("   trusted tables of the extractor:")
    L.append("   LOG_NAMES = " + ", ".join(sorted(LOG_NAMES)))
    L.append("   log-only helpers classified automatically = " + ", ".join(w.auto_logonly))
    L.append("   LOGONLY_EXTRA = " + ", ".join(sorted(LOGONLY_EXTRA)) + "; SINKS = " + ", ".join(sorted(SINKS)))
    L.append("   PURE_CALLS = " + ", ".join(sorted(PURE_CALLS)) + "; PURE_METHODS = " + ", ".join(sorted(PURE_METHODS)))
    L.append("   LOG_MUTATORS = " + ", ".join(sorted(LOG_MUTATORS)))
    L.append("   CALLBACK_EDGES = " + "; ".join(f"{k} -> {v}" for k, v in sorted(CALLBACK_EDGES.items())))
    L.append("   TYPE_HINTS used = " + ", ".join(f"{h}: {TYPE_HINTS[h]}" for h in hints))
    for n in w.notes:
        L.append("   NOTE " + n)
    L.append("-/")
    L.append("import AQ.Model.LogIR")
    L.append("set_option maxRecDepth 100000")
    L.append("namespace AQ.Gen")
    L.append("open AQ.LogIR")
    L.append("")
    for q in quals:
        kind, body = prog[q]
        L.append(f"/-- {q} -/")
        L.append(f"def body_{lident(q)} : Stmt :=")
        L.append(emit_stmt(body, fid))
        L.append(f"def fn_{lident(q)} : FnDecl := {{ id := {fid[q]}, kind := .{kind}, body := body_{lident(q)} }}")
        L.append("")
    L.append("def logProgram : List FnDecl := [")
    L.append(",\n".join(f"  fn_{lident(q)}" for q in quals))
    L.append("]")
    L.append("")
    L.append("def fnNames : List (Nat × String) := [")
    L.append(",\n".join(f"  ({fid[q]}, {lstr(q)})" for q in quals))
    L.append("]")
    L.append("")
    for q in sorted(PATH_FUNCS):
        L.append(f"def id_{lident(q)} : Nat := {fid[q]}")
    L.append("")
    L.append("/-- location names (class, id, dotted source name) -/")
    L.append("def locNames : List (String × Nat × String) := [")
    L.append(",\n".join(f"  ({lstr(k[0])}, {i}, {lstr(k[1])})" for k, i in sorted(w.loc_ids.items(), key=lambda x: x[1])))
    L.append("]")
    L.append("")

    def ops(name, recs):
        L.append(f"def {name} : List PartialOp := [")
        L.append(",\n".join(f"  {{ fn := {fid.get(r[0], 0)}, line := {r[1]}, kind := {lstr(r[2])}, guarded := {'true' if r[3] else 'false'}, "
                            f"why := {lstr(r[0] + ': ' + r[4])} }}" for r in recs))
        L.append("]")
        L.append("")
    ops("partialOps", w.partial_ops)
    ops("sinkOps", w.sink_ops)
    # JSON types
    ft = None
    for _, t in frames:
        ft = t if ft is None else union(ft, t)
    dt = None
    for _, t in data:
        dt = t if dt is None else union(dt, t)
    L.append(f"def frameRecord : JTy := {emit_jty(ft)}")
    L.append(f"def eventData : JTy := {emit_jty(dt)}")
    L.append('def eventRecord : JTy := .dict [("data", eventData), ("name", .str), ("time", .float)]')
    for name, tab in (("encoderResults", enc), ("eventDataArgs", data), ("frameAppendArgs", frames)):
        L.append(f"def {name} : List (String × JTy) := [")
        L.append(",\n".join(f"  ({lstr(k)}, {emit_jty(t)})" for k, t in tab))
        L.append("]")
        L.append("")
    L.append("end AQ.Gen")
    return "\n".join(L) + "\n", w, prog, (enc, data, frames)


def main():
    try:
        text, w, prog, tabs = generate()
    except Unsupported as e:
        print("extract_log: UNSUPPORTED SHAPE:", e)
        # leave no stale program behind: a stub on which every extracted-program theorem fails
        stub = ("/- GENERATED STUB: tools/extract_log.py did not understand the sources:\n   %s -/\n"
                "import AQ.Model.LogIR\nnamespace AQ.Gen\nopen AQ.LogIR\n"
                "def logProgram : List FnDecl := [{ id := 0, kind := .logOnly, body := .abrupt .ret }]\n"
                "def partialOps : List PartialOp := [{ fn := 0, line := 0, kind := \"unsupported\", guarded := false, why := \"\" }]\n"
                "def sinkOps : List PartialOp := []\n"
                "def frameRecord : JTy := .unknown \"unsupported\"\ndef eventData : JTy := .unknown \"unsupported\"\n"
                "def eventRecord : JTy := .unknown \"unsupported\"\n"
                "def encoderResults : List (String × JTy) := []\ndef eventDataArgs : List (String × JTy) := []\n"
                "def frameAppendArgs : List (String × JTy) := []\n"
                + "".join(f"def id_{lident(q)} : Nat := 0\n" for q in sorted(PATH_FUNCS)) +
                "end AQ.Gen\n") % str(e).replace("-/", "- /")
        os.makedirs(os.path.dirname(OUT), exist_ok=True)
        if not os.path.exists(OUT) or open(OUT).read() != stub:
            open(OUT, "w").write(stub)
        return 1
    os.makedirs(os.path.dirname(OUT), exist_ok=True)
    old = open(OUT).read() if os.path.exists(OUT) else None
    if old != text:
        open(OUT, "w").write(text)
    unprot = [r for r in w.partial_ops if not r[3]]
    unk = [k for tab in tabs for k, t in tab if "unknown" in repr(t)]
    print(f"extract_log: {len(prog)} functions, {len(w.loc_ids)} locations, {len(w.partial_ops)} partial operations "
          f"({len(unprot)} unprotected), {len(w.sink_ops)} sink operations, {len(unk)} results with a non-JSON part"
          f"{' (unchanged)' if old == text else ' (written)'}")
    for r in unprot:
        print("  unprotected:", r[0], "line", r[1], r[2], "-", r[4])
    for k in unk:
        print("  non-JSON:", k)
    for n in w.notes:
        print("  note:", n)
    print("  log-only helpers:", ", ".join(w.auto_logonly))
    return 0


if __name__ == "__main__":
    sys.exit(main())
