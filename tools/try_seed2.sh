#!/bin/bash
# tools/try_seed2.sh <prop> <k> : round-2 seeded change (worktree /tmp/mut2-<prop>); rebuilds C when the patch touches .c
P=$1; K=$2; D=/tmp/mut2-$P; O=$D/out/$K
CC=$(grep -c '^+++ b/.*\.c$' $O/patch.diff)
rb() { if [ "$CC" != "0" ]; then (cd $D && /venv/bin/python setup.py build_ext --inplace >/dev/null 2>&1; rm -rf build); fi; }
cd $D && git checkout -q -- . && git apply $O/patch.diff || { echo "APPLY-FAIL(worktree)"; exit 2; }
rb
PYTHONPATH=$D/src /venv/bin/python $O/demo.py >/dev/null 2>&1; with=$?
T=$(PYTHONPATH=$D/src /venv/bin/python -m pytest -q -p no:cacheprovider -x tests/ 2>&1 | tail -1)
git checkout -q -- .; rb
PYTHONPATH=$D/src /venv/bin/python $O/demo.py >/dev/null 2>&1; without=$?
echo "demo with=$with without=$without tests: $T"
cd /repo && git apply $O/patch.diff || { echo "APPLY-FAIL(repo)"; exit 2; }
cd /verif && ./check $P > /tmp/seed2_${P}_$K.log 2>&1; rc=$?
git -C /repo checkout -q -- .
echo "check $P rc=$rc: $(grep -c VIOLATION /tmp/seed2_${P}_$K.log) violation lines; $(grep VIOLATION /tmp/seed2_${P}_$K.log | head -1 | cut -c1-160)"
