#!/venv/bin/python
"""Regenerates MANIFEST.json from the table below (keeps it schema-valid)."""
import json
import os

HERE = os.path.dirname(os.path.dirname(os.path.abspath(__file__)))
ids = [json.loads(l)["id"] for l in open(os.path.join(HERE, "properties.jsonl"))]

PROOF = "proof"
CLAIMED = {
    "C10": dict(
        text="Lean 4 theorems (AQ.Props.C10) prove, for every operation sequence, that the receive half refines the "
             "offset-to-byte reference model (bytes always, end marker until a reset is accepted), that FinalSizeError is raised "
             "exactly under the stated condition, and for the send half: frame bytes = written bytes, conservation/re-offer after "
             "loss, progress, nothing after reset, finished iff; RangeSet laws incl. canonicity. The hand-written model is tied to "
             "stream.py/rangeset.py on every run by exhaustive small-scope + random differential correspondence through the compiled driver.",
        note="Trusted: Lean kernel; axioms propext/Classical.choice/Quot.sound only; model-to-code tie is the correspondence "
             "(harness/impl_stream.py, generator coverage); offsets are non-negative; delivery reports name outstanding frames (C08).",
        technique="Lean 4 refinement + invariant proofs over op sequences; differential correspondence model vs implementation",
        design="DESIGN.md §5 C10",
    ),
    "C08": dict(
        text="Lean 4 theorems (AQ.Props.C08) prove for every well-formed operation sequence (fresh packet numbers) and for EVERY "
             "float arithmetic: bytes_in_flight = total size of tracked in-flight packets (>= 0), ack-eliciting counters exact, every "
             "packet reported ACKED or LOST at most once and discarded packets never, congestion window >= 2 datagrams (Reno "
             "unconditionally; CUBIC under seven explicit IEEE order facts), plus necessity counterexamples. The model (recovery.py, "
             "reno.py, cubic.py, transcribed operation by operation over an abstract arithmetic) is run with Lean Float and compared "
             "bit-for-bit with the real QuicPacketRecovery on random interleavings; a connection-level oracle checks the ledger after "
             "every API call incl. Retry / Version Negotiation restarts. The flight-budget clause is decided with the builder model (C13).",
        note="Trusted: Lean kernel; standard axioms only; correspondence harness (harness/impl_recovery.py, harness/sim.py); "
             "CubicOrderFacts (IEEE-754 monotonicity/exactness below 2^53) are hypotheses of cwnd_floor_cubic only; packet numbers fresh per space.",
        technique="Lean 4 invariant proofs by induction over op sequences, generic in the float arithmetic; bit-exact differential correspondence",
        design="DESIGN.md §5 C08",
    ),
    "C15": dict(
        text="Lean 4 theorems (AQ.Props.C15) prove for ALL header lists and all 256 byte values: validator accepts => WellFormed (spec "
             "written from the property text), not WellFormed => H3_MESSAGE_ERROR, the exact characterisation of acceptance (incl. "
             "content-length grammar = CPython int(), differing duplicates rejected), no header event on an error path and every emitted "
             "header block WellFormed, and by induction over stream op sequences: an ended event implies every declared content-length "
             "equals the body bytes delivered (for FINs arriving with a complete frame / at a DATA frame end / alone; the two remaining "
             "FIN placements are recorded findings with counterexample theorems). Model tied to h3/connection.py by differential "
             "correspondence (all 256 single bytes, boundary-alphabet lists, pseudo-header subsets/orders, content-length spellings x "
             "body splits, real H3Connection + pylsqpack for the stream steps).",
        note="Trusted: Lean kernel; standard axioms; correspondence harness (harness/impl_h3validate.py); QPACK (pylsqpack) decoding "
             "is outside the model (decoded header lists are inputs); stream model covers well-framed input (C14/C16 cover the parser).",
        technique="Lean 4 decision-logic + invariant proofs over all header lists / op sequences; differential correspondence",
        design="DESIGN.md §5 C15",
    ),
}
NOT_YET = "machinery for this property is still under construction in this round (model/proofs/correspondence incomplete); not claimed"

checks = []
for pid, c in CLAIMED.items():
    checks.append({
        "property_id": pid,
        "quick_cmd": f"./check {pid} --tier quick",
        "thorough_cmd": f"./check {pid} --tier thorough",
        "evidence_file": f"evidence/{pid}.json",
        "replay_cmd_template": f"./check {pid} --replay {{path}}",
        "engine": "lean4-proof+correspondence",
        "level_claimed": {"category": c.get("category", PROOF), "text": c["text"], "design_ref": c["design"]},
        "level_note": c["note"],
        "technique": c["technique"],
    })
m = {
    "version": 1,
    "setup_cmd": "./setup.sh",
    "hooks": {
        "guard": "AIOQUIC_VERIF",
        "enable": "no source hooks exist: checks import a scratch copy of /repo's working tree (fresh C build) and observe through the public API and harness-side taps",
        "baseline_off_cmd": "cd /repo && /venv/bin/python -m pytest -ra -q -p no:cacheprovider --timeout=900 --continue-on-collection-errors",
        "source_commits": [],
        "add_only": True,
    },
    "engines": [{
        "name": "lean4-proof+correspondence", "path": "lean/ + harness/ + checks/",
        "serves_properties": sorted(CLAIMED),
        "kind_free_text": "Lean 4 theorems about executable models; models tied to the code on every run by a translator (C) or differential correspondence through a compiled driver",
    }],
    "checks": checks,
    "not_applicable": [{"property_id": i, "reason": NOT_YET} for i in ids if i not in CLAIMED],
    "notes": "fix: commits in /repo and recorded findings are listed in known_findings.jsonl; see DESIGN.md",
}
json.dump(m, open(os.path.join(HERE, "MANIFEST.json"), "w"), indent=1)
print("claimed:", sorted(CLAIMED))
