#!/venv/bin/python
"""Regenerates MANIFEST.json from the table below (keeps it schema-valid)."""
import json
import os

HERE = os.path.dirname(os.path.dirname(os.path.abspath(__file__)))
ids = [json.loads(l)["id"] for l in open(os.path.join(HERE, "properties.jsonl"))]

PROOF = "proof"
CLAIMED = {
    "C10": dict(
        text="Lean 4 theorems (AQ.Props.C10) prove, for every operation sequence, that the receive half refines the "
             "offset-to-byte reference model (bytes always, end marker until a reset is accepted), that FinalSizeError is raised "
             "exactly under the stated condition, and for the send half: frame bytes = written bytes, conservation/re-offer after "
             "loss, progress, nothing after reset, finished iff; RangeSet laws incl. canonicity. The hand-written model is tied to "
             "stream.py/rangeset.py on every run by exhaustive small-scope + random differential correspondence through the compiled driver.",
        note="Trusted: Lean kernel; axioms propext/Classical.choice/Quot.sound only; model-to-code tie is the correspondence "
             "(harness/impl_stream.py, generator coverage); offsets are non-negative; delivery reports name outstanding frames (C08).",
        technique="Lean 4 refinement + invariant proofs over op sequences; differential correspondence model vs implementation",
        design="DESIGN.md §5 C10",
    ),
    "C08": dict(
        text="Lean 4 theorems (AQ.Props.C08) prove for every well-formed operation sequence (fresh packet numbers) and for EVERY "
             "float arithmetic: bytes_in_flight = total size of tracked in-flight packets (>= 0), ack-eliciting counters exact, every "
             "packet reported ACKED or LOST at most once and discarded packets never, congestion window >= 2 datagrams (Reno "
             "unconditionally; CUBIC under seven explicit IEEE order facts), plus necessity counterexamples. The model (recovery.py, "
             "reno.py, cubic.py, transcribed operation by operation over an abstract arithmetic) is run with Lean Float and compared "
             "bit-for-bit with the real QuicPacketRecovery on random interleavings; a connection-level oracle checks the ledger after "
             "every API call incl. Retry / Version Negotiation restarts. The flight-budget clause is decided with the builder model (C13).",
        note="Trusted: Lean kernel; standard axioms only; correspondence harness (harness/impl_recovery.py, harness/sim.py); "
             "CubicOrderFacts (IEEE-754 monotonicity/exactness below 2^53) are hypotheses of cwnd_floor_cubic only; packet numbers fresh per space.",
        technique="Lean 4 invariant proofs by induction over op sequences, generic in the float arithmetic; bit-exact differential correspondence",
        design="DESIGN.md §5 C08",
    ),
    "C15": dict(
        text="Lean 4 theorems (AQ.Props.C15) prove for ALL header lists and all 256 byte values: validator accepts => WellFormed (spec "
             "written from the property text), not WellFormed => H3_MESSAGE_ERROR, the exact characterisation of acceptance (incl. "
             "content-length grammar = CPython int(), differing duplicates rejected), no header event on an error path and every emitted "
             "header block WellFormed, and by induction over stream op sequences: an ended event implies every declared content-length "
             "equals the body bytes delivered (for FINs arriving with a complete frame / at a DATA frame end / alone; the two remaining "
             "FIN placements are recorded findings with counterexample theorems). Model tied to h3/connection.py by differential "
             "correspondence (all 256 single bytes, boundary-alphabet lists, pseudo-header subsets/orders, content-length spellings x "
             "body splits, real H3Connection + pylsqpack for the stream steps).",
        note="Trusted: Lean kernel; standard axioms; correspondence harness (harness/impl_h3validate.py); QPACK (pylsqpack) decoding "
             "is outside the model (decoded header lists are inputs); stream model covers well-framed input (C14/C16 cover the parser).",
        technique="Lean 4 decision-logic + invariant proofs over all header lists / op sequences; differential correspondence",
        design="DESIGN.md §5 C15",
    ),
    "C09": dict(
        text="Lean 4 theorems (AQ.Props.C09) over every API-call sequence of the close/timer model (generic in the time type): a "
             "started, non-terminated connection always has closeAt set and get_timer is some t <= closeAt (never None, never raises); "
             "at most one ConnectionTerminated, nothing appended after it, TERMINATED is final; END states send nothing and closing "
             "packets are built in at most one call; entering CLOSING/DRAINING at t sets closeAt = t + 3*PTO and a timer at/after the "
             "deadline terminates with the recorded event; idle termination at the idle deadline, which only accepted packets move. "
             "Tie: the model is replayed (Float, bit-exact deadlines) against real client/server pairs after EVERY API call over "
             "small-scope plans x 6 handshake stages and random scripts (close at arbitrary points, fatal frames in every space, "
             "peer closes, blackouts, late timers); an independent oracle checks the property on the public trace.",
        note="Trusted: Lean kernel; standard axioms; harness/impl_close.py classification of receive_datagram outcomes; PTO / ack / "
             "loss / pacing deadlines are inputs of the model (observed values); OrdLaws (lt->le, refl, trans on finite doubles) for "
             "timer_defined; usage hypothesis: a client is fed no datagram before connect(); assumes the close frame always fits (C16).",
        technique="Lean 4 state-machine invariants by induction over API-call sequences; per-call differential correspondence",
        design="DESIGN.md §5 C09",
    ),
    "C18": dict(
        text="Lean 4 theorems (AQ.Props.C18) over all sequences of NEW_CONNECTION_ID / RETIRE_CONNECTION_ID / local change / peer "
             "switch / frame writes with arbitrary room / ack+loss reports: destination ID >= every processed retire-prior-to, every "
             "abandoned ID is queued, in flight or acknowledged (re-queued on loss), stock <= advertised limit or CONNECTION_ID_LIMIT_ERROR, "
             "issued <= min(8, peer limit), issued IDs accepted until retired, retired IDs replaced by fresh ones, and no step raises "
             "a Python exception (with counterexample theorems for the pre-fix behaviour). Tie: every call of a modelled method of a "
             "real QuicConnection (handler level exhaustive <= 4 events; connection level after a real handshake with injected frames, "
             "loss, partial acks, congestion) is diffed against the compiled model; a wire oracle checks destination IDs, RETIRE "
             "frames, acceptance and limits.",
        note="Trusted: Lean kernel; standard axioms; harness/impl_cid.py (method wrapping for observation); issued IDs are distinct; "
             "remote limit >= 2 and constant after the transport parameters; recovery reports each frame at most once (C08); asyncio "
             "server routing is covered by C19.",
        technique="Lean 4 invariant proofs over op sequences; call-level differential correspondence on real connections",
        design="DESIGN.md §5 C18",
    ),
    "C17": dict(
        text="Lean 4 theorems (AQ.Props.C17) for ALL values: varint / fixed-width / bytes / ACK-range-set / long+short header / "
             "Retry / Version Negotiation / transport-parameter round trips, model encoder bytes = independent RFC encoder bytes "
             "(AQ.Model.CodecSpec), decode-then-reencode laws, error classes, and per-parameter confinement to the declared length. "
             "Tie: Buffer (C) and packet.py driven on boundary-exhaustive and random inputs (all parameter subsets in thorough) "
             "against the compiled model and the spec encoders, plus RFC oracles in plain Python. TLS handshake message codecs are "
             "delivered with the TLS machinery (see C11) and are not yet part of this claim.",
        note="Trusted: Lean kernel; standard axioms; harness/impl_codec.py; packet header decode-then-reencode is checked by "
             "correspondence only; TLS message codecs pending.",
        technique="Lean 4 algebraic round-trip laws for all inputs; differential correspondence incl. independent encoder",
        design="DESIGN.md §5 C17",
    ),
}
NOT_YET = "machinery for this property is still under construction in this round (model/proofs/correspondence incomplete); not claimed"

checks = []
for pid, c in CLAIMED.items():
    checks.append({
        "property_id": pid,
        "quick_cmd": f"./check {pid} --tier quick",
        "thorough_cmd": f"./check {pid} --tier thorough",
        "evidence_file": f"evidence/{pid}.json",
        "replay_cmd_template": f"./check {pid} --replay {{path}}",
        "engine": "lean4-proof+correspondence",
        "level_claimed": {"category": c.get("category", PROOF), "text": c["text"], "design_ref": c["design"]},
        "level_note": c["note"],
        "technique": c["technique"],
    })
m = {
    "version": 1,
    "setup_cmd": "./setup.sh",
    "hooks": {
        "guard": "AIOQUIC_VERIF",
        "enable": "no source hooks exist: checks import a scratch copy of /repo's working tree (fresh C build) and observe through the public API and harness-side taps",
        "baseline_off_cmd": "cd /repo && /venv/bin/python -m pytest -ra -q -p no:cacheprovider --timeout=900 --continue-on-collection-errors",
        "source_commits": [],
        "add_only": True,
    },
    "engines": [{
        "name": "lean4-proof+correspondence", "path": "lean/ + harness/ + checks/",
        "serves_properties": sorted(CLAIMED),
        "kind_free_text": "Lean 4 theorems about executable models; models tied to the code on every run by a translator (C) or differential correspondence through a compiled driver",
    }],
    "checks": checks,
    "not_applicable": [{"property_id": i, "reason": NOT_YET} for i in ids if i not in CLAIMED],
    "notes": "fix: commits in /repo and recorded findings are listed in known_findings.jsonl; see DESIGN.md",
}
json.dump(m, open(os.path.join(HERE, "MANIFEST.json"), "w"), indent=1)
print("claimed:", sorted(CLAIMED))
