#!/venv/bin/python
"""Regenerates MANIFEST.json from the table below (keeps it schema-valid)."""
import json
import os

HERE = os.path.dirname(os.path.dirname(os.path.abspath(__file__)))
ids = [json.loads(l)["id"] for l in open(os.path.join(HERE, "properties.jsonl"))]

PROOF = "proof"
CLAIMED = {
    "C10": dict(
        text="Lean 4 theorems (AQ.Props.C10) prove, for every operation sequence, that the receive half refines the "
             "offset-to-byte reference model (bytes always, end marker until a reset is accepted), that FinalSizeError is raised "
             "exactly under the stated condition, and for the send half: frame bytes = written bytes, conservation/re-offer after "
             "loss, progress, nothing after reset, finished iff; RangeSet laws incl. canonicity. The hand-written model is tied to "
             "stream.py/rangeset.py on every run by exhaustive small-scope + random differential correspondence through the compiled driver.",
        note="Trusted: Lean kernel; axioms propext/Classical.choice/Quot.sound only; model-to-code tie is the correspondence "
             "(harness/impl_stream.py, generator coverage); offsets are non-negative; delivery reports name outstanding frames (C08).",
        technique="Lean 4 refinement + invariant proofs over op sequences; differential correspondence model vs implementation",
        design="DESIGN.md §5 C10",
    ),
    "C08": dict(
        text="Lean 4 theorems (AQ.Props.C08) prove for every well-formed operation sequence (fresh packet numbers) and for EVERY "
             "float arithmetic: bytes_in_flight = total size of tracked in-flight packets (>= 0), ack-eliciting counters exact, every "
             "packet reported ACKED or LOST at most once and discarded packets never, congestion window >= 2 datagrams (Reno "
             "unconditionally; CUBIC under seven explicit IEEE order facts), plus necessity counterexamples. The model (recovery.py, "
             "reno.py, cubic.py, transcribed operation by operation over an abstract arithmetic) is run with Lean Float and compared "
             "bit-for-bit with the real QuicPacketRecovery on random interleavings; a connection-level oracle checks the ledger after "
             "every API call incl. Retry / Version Negotiation restarts. Flight-budget clause: AQ.Props.C08b (builder model: in-flight bytes of one datagrams_to_send <= max(cwnd - in flight, 0), one datagram when a probe is pending) plus a connection-level oracle on full-window scenarios.",
        note="Trusted: Lean kernel; standard axioms only; correspondence harness (harness/impl_recovery.py, harness/sim.py); "
             "CubicOrderFacts (IEEE-754 monotonicity/exactness below 2^53) are hypotheses of cwnd_floor_cubic only; packet numbers fresh per space.",
        technique="Lean 4 invariant proofs by induction over op sequences, generic in the float arithmetic; bit-exact differential correspondence",
        design="DESIGN.md §5 C08",
    ),
    "C15": dict(
        text="Lean 4 theorems (AQ.Props.C15) prove for ALL header lists and all 256 byte values: validator accepts => WellFormed (spec "
             "written from the property text), not WellFormed => H3_MESSAGE_ERROR, the exact characterisation of acceptance (incl. "
             "content-length grammar = CPython int(), differing duplicates rejected), no header event on an error path and every emitted "
             "header block WellFormed, and by induction over stream op sequences: an ended event implies every declared content-length "
             "equals the body bytes delivered (for FINs arriving with a complete frame / at a DATA frame end / alone; the two remaining "
             "FIN placements are recorded findings with counterexample theorems). Model tied to h3/connection.py by differential "
             "correspondence (all 256 single bytes, boundary-alphabet lists, pseudo-header subsets/orders, content-length spellings x "
             "body splits, real H3Connection + pylsqpack for the stream steps).",
        note="Trusted: Lean kernel; standard axioms; correspondence harness (harness/impl_h3validate.py); QPACK (pylsqpack) decoding "
             "is outside the model (decoded header lists are inputs); stream model covers well-framed input (C14/C16 cover the parser).",
        technique="Lean 4 decision-logic + invariant proofs over all header lists / op sequences; differential correspondence",
        design="DESIGN.md §5 C15",
    ),
    "C09": dict(
        text="Lean 4 theorems (AQ.Props.C09) over every API-call sequence of the close/timer model (generic in the time type): a "
             "started, non-terminated connection always has closeAt set and get_timer is some t <= closeAt (never None, never raises); "
             "at most one ConnectionTerminated, nothing appended after it, TERMINATED is final; END states send nothing and closing "
             "packets are built in at most one call; entering CLOSING/DRAINING at t sets closeAt = t + 3*PTO and a timer at/after the "
             "deadline terminates with the recorded event; idle termination at the idle deadline, which only accepted packets move. "
             "Tie: the model is replayed (Float, bit-exact deadlines) against real client/server pairs after EVERY API call over "
             "small-scope plans x 6 handshake stages and random scripts (close at arbitrary points, fatal frames in every space, "
             "peer closes, blackouts, late timers, replayed duplicates); an independent oracle checks the property on the public trace (idle bound = last NEW packet, "
             "identified on the wire, + negotiated idle; closing = 3 x base PTO computed from the RTT fields). AQ.Props.C09Timers: the product of this "
             "model with the recovery model (C08/C01Loss) - a live connection has a timer, what firing it guarantees, closing terminates - with the loss "
             "deadline and PTO derived rather than input, tied by a recovery tap on the same traces (bit-exact glue at every get_timer / _close_begin).",
        note="Trusted: Lean kernel; standard axioms; harness/impl_close.py classification of receive_datagram outcomes; ack / pacing / idle-timeout values are inputs "
             "of the model (observed values), loss deadline and PTO are derived in C09Timers; OrdLaws (lt->le, refl, trans on finite doubles) for "
             "timer_defined; usage hypothesis: a client is fed no datagram before connect(); assumes the close frame always fits (C16).",
        technique="Lean 4 state-machine invariants by induction over API-call sequences; per-call differential correspondence",
        design="DESIGN.md §5 C09",
    ),
    "C18": dict(
        text="Lean 4 theorems (AQ.Props.C18) over all sequences of NEW_CONNECTION_ID / RETIRE_CONNECTION_ID / local change / peer "
             "switch / frame writes with arbitrary room / ack+loss reports: destination ID >= every processed retire-prior-to, every "
             "abandoned ID is queued, in flight or acknowledged (re-queued on loss), stock <= advertised limit or CONNECTION_ID_LIMIT_ERROR, "
             "issued <= min(8, peer limit), issued IDs accepted until retired, retired IDs replaced by fresh ones, and no step raises "
             "a Python exception (with counterexample theorems for the pre-fix behaviour). Tie: every call of a modelled method of a "
             "real QuicConnection (handler level exhaustive <= 4 events; connection level after a real handshake with injected frames, "
             "loss, partial acks, congestion) is diffed against the compiled model; a wire oracle checks destination IDs, RETIRE "
             "frames, acceptance and limits.",
        note="Trusted: Lean kernel; standard axioms; harness/impl_cid.py (method wrapping for observation); issued IDs are distinct; "
             "remote limit >= 2 and constant after the transport parameters; recovery reports each frame at most once (C08); asyncio "
             "server routing is covered by C19.",
        technique="Lean 4 invariant proofs over op sequences; call-level differential correspondence on real connections",
        design="DESIGN.md §5 C18",
    ),
    "C17": dict(
        text="Lean 4 theorems (AQ.Props.C17) for ALL values: varint / fixed-width / bytes / ACK-range-set / long+short header / "
             "Retry / Version Negotiation / transport-parameter round trips, model encoder bytes = independent RFC encoder bytes "
             "(AQ.Model.CodecSpec), decode-then-reencode laws, error classes, and per-parameter confinement to the declared length. "
             "Tie: Buffer (C) and packet.py driven on boundary-exhaustive and random inputs (all parameter subsets in thorough) "
             "against the compiled model and the spec encoders, plus RFC oracles in plain Python. TLS handshake messages: AQ.Props.C17tls "
             "(uintBE/opaque/block/list combinator laws, block never reads past its declared length, round trips of Finished, "
             "CertificateVerify, Certificate, EncryptedExtensions, ServerHello, ClientHello) + acceptance-model correspondence on mutated bytes. "
             "Packet headers: AQ.Props.C17hdr (pull_quic_header o library/RFC header encoders = identity for every well-formed header of "
             "both versions, all low first-byte bits and Length widths; error class; the code's malformed-input checks; truncation; "
             "consumed <= packet_length <= buffer). Typed TLS extension bodies: AQ.Props.C17tlsExt (round trip of every extension body "
             "tls.py parses, exactness inside the declared extension length) tied by the tlsx. correspondence (checks/c17_tlsext.py).",
        note="Trusted: Lean kernel; standard axioms; harness/impl_codec.py, impl_tlsext.py; Retry/VN have no general truncation theorem (a cut Retry is a shorter valid "
             "Retry - the code's behaviour); TLS canonicity proved for Finished/CertificateVerify only, NewSessionTicket/CertificateRequest decoders by correspondence.",
        technique="Lean 4 algebraic round-trip laws for all inputs; differential correspondence incl. independent encoder",
        design="DESIGN.md §5 C17",
    ),
    "C01": dict(
        text="Lean 4 theorems (AQ.Props.C01) on the one-stream end-to-end model (sender half + receiver half of C10 + wire of every "
             "emitted frame, any frame delivered any number of times in any order, ack/loss once per emission): delivered bytes = "
             "written.take(n) (prefix, in order, gap- and repeat-free), at most one end-of-stream event and only after FIN was written "
             "and everything delivered, no FinalSizeError from honest frames, conservation of unsent obligations, bounded progress "
             "(c01_liveness_partial / c01_liveness_bounded_partial: the temporal statement over infinite fair runs is not formalised), any "
             "set of streams (AQ.Props.C01Multi), key-generation bookkeeping (AQ.Props.C01Keys), and loss-detection completeness on the "
             "recovery model (AQ.Props.C01Loss: packet- and time-threshold completeness on ACK, surviving packet arms the loss timer, timer "
             "runs detection, PTO deadline and probe, each frame reported once), with counterexample theorems for the pre-fix behaviours. "
             "One open finding (C01-rebind-challenge-lost, KNOWN-FINDING line). Tie: per-step correspondence derived from real connections (wrapped stream methods) and a "
             "property oracle over PRNG scripts x adversarial then fair networks (drop/dup/reorder/rebind, both controllers, both "
             "versions, key updates, CID changes) + directed scenarios for each repaired defect.",
        note="Trusted: Lean kernel; standard axioms; harness/sim.py + impl_streamsys.py; flow-control checks are modelled as passing "
             "(C06/C07); key updates / CID changes / rebinding / liveness across them are covered by the oracle runs only.",
        technique="Lean 4 refinement composition + invariants over op sequences; connection-level correspondence and oracle",
        design="DESIGN.md §5 C01",
    ),
    "C02": dict(
        text="Lean 4 theorems: AQ.Props.C02 (truncated packet number expands to the closest candidate for every bits/expected, exact "
             "window for round trip, edge counterexample) and AQ.Props.C02b (nonce = iv XOR pn and injective; header protection "
             "round trip / sample untouched / injective for every header form and pn length; protect/unprotect round trip under "
             "AEAD correctness; accepted => bit-exact genuine packet under INT-CTXT, altered => rejected, Retry likewise; a datagram "
             "whose packets are all rejected changes nothing but byte counts / idle arm, and the genuine packet is accepted "
             "afterwards; extracted salts/labels/retry keys = RFC 9001/9369 constants). Tie: crypto tables regenerated from source "
             "on every run; real _crypto/CryptoContext vs the Lean pipeline with `cryptography` as independent primitive "
             "implementation + independent HKDF; bit/byte-flip oracle on recorded handshake/data/Retry datagrams for 3 suites x 2 "
             "versions x key phases (genuine packet delivered afterwards must behave as in the control run).",
        note="Trusted: Lean kernel; standard axioms; cryptographic facts (AEAD correct, INT-CTXT, mask length, Retry tag determinism) "
             "are explicit HYPOTHESES of the theorems; OpenSSL/cryptography internals; AQ.Model.RecvGate tied to receive_datagram "
             "by the flip oracle only; CryptoPair key-update logic exercised by scenarios, not modelled.",
        technique="Lean 4 algebraic laws + symbolic AEAD hypotheses; translator for tables; independent-implementation correspondence; exhaustive bit-flip oracle (thorough)",
        design="DESIGN.md §5 C02",
    ),
    "C05": dict(
        text="Lean 4 theorems (AQ.Props.C05, C05Frames) over tables REGENERATED from connection.py on every run: handler table within "
             "RFC 9000 Table 3 (+RFC 9221), except-clauses catch exactly the assumed classes (tables_ok by decide); recv_total: "
             "receive_datagram returns ignored/processed/closed-with-code, never raises, for every datagram, decrypt answer and frame "
             "list whose handler outcomes are in the allowed set; handlers_total/payload_bytes_total: every modelled _handle_*_frame "
             "ends only with BufferReadError/StreamFinishedError/QuicConnectionError; a crafted ACK cannot hit RangeSet's assert; "
             "pull_quic_header raises only ValueError/BufferReadError; after_close_total: any interleaving of the five public calls "
             "returns normally. Tie: extractor + three correspondences (header parser, _payload_received outcome/code/state, "
             "receive_datagram control flow) + hostile-input oracle (18 connection states x 4 epochs x 1355-frame catalogue, "
             "truncations, trains, mutated/coalesced datagrams, crafted transport parameters).",
        note="Trusted: Lean kernel; standard axioms; tools/extract_recv.py; hypotheses: tls.Context.handle_message raises only "
             "tls.Alert/BufferReadError/QuicConnectionError from callbacks (TLS layer: see C11 work), on_ack_received total (C08), "
             "frame writers raise only QuicPacketBuilderStop (C12/C13/C16); handler guards are hand-modelled.",
        technique="Lean 4 exception-outcome totality proofs over extracted tables; differential correspondence; hostile-input oracle",
        design="DESIGN.md §5 C05",
    ),
    "C12": dict(
        text="Lean 4 theorems (AQ.Props.C12): over all arrival sequences the ack queue stays well-formed and inside the set of "
             "authenticated received numbers, every number on the wire was received for any max_size truncation, the ack deadline is "
             "armed on arrival and survives, get_timer <= every armed ack deadline, ack_timely for 1-RTT under explicit side "
             "conditions (keys valid, packet/frame accepted, ranges fit, total order on times), Initial/Handshake never start a "
             "packet without the pending ACK; run-level statements on executable monitors (AQ.Model.AckSpec): ack_timely_run, ack_next_tx_run, "
             "ack_sound_run (soundness unconditional), ack_of_ack_prunes_exactly. Tie: real connections (sim + inject: all arrival orders/gaps/duplicates per space, "
             "loss of ACKs and ACK-of-ACK carriers) vs the model after each step; wire oracle: ACK ranges subset of authenticated "
             "numbers, ACK within the advertised delay when timers are honoured; ack-elicitation decided by the harness from the "
             "plaintext frames; stream-lifecycle frames incl. discarded streams; phase handshake-complete-not-confirmed, strictly timer-driven.",
        note="Trusted: Lean kernel; standard axioms; harness/impl_ack.py, ack_scen.py; codec round trip of ACK frames from C17; "
             "'next transmission' read for open connections (closing packets carry no ACK); truncation keeps the newest ranges.",
        technique="Lean 4 invariants over op sequences; connection-level correspondence and wire oracle",
        design="DESIGN.md §5 C12",
    ),
    "C13": dict(
        text="Lean 4 theorems (AQ.Props.C13) for every builder configuration and disciplined call sequence: no datagram exceeds "
             "max_datagram_size, a datagram with a client Initial / ack-eliciting server Initial is >= 1200 bytes (full statement, "
             "after the fixes), bytes_sent <= 3*bytes_received on every unvalidated path over all receive/new-address/validate/"
             "promote/send histories incl. the close path, one send call within the budget, builder raises only "
             "QuicPacketBuilderStop; the executable discipline test is proved sound and found true on every builder call recorded "
             "from real connections. Tie: real QuicPacketBuilder + CryptoPair vs the model on exhaustive/random call sequences; "
             "budget formulas compared on every datagrams_to_send; wire oracle for sizes, padding and the 3x rule per address "
             "(rebinding, spoofed-source Initials, 0-RTT filling the window).",
        note="Trusted: Lean kernel; standard axioms; harness/impl_builder.py, amp_scen.py; AQ.Model.Amplification is tied by its own `amp.` line protocol "
             "(every receive/send/validate/promote step of real connections, incl. the budgets given to the builder); header sizes are inputs.",
        technique="Lean 4 arithmetic invariants over builder/path histories; differential correspondence; wire oracle",
        design="DESIGN.md §5 C13",
    ),
    "C14": dict(
        text="Lean 4 theorems (AQ.Props.C14): for a request/push stream and any stateful non-blocking QPACK/validator oracle, "
             "delivering any chunking of the bytes (FIN on the last chunk or alone, empty chunks allowed) gives the same error or "
             "the same final state and per-stream normal form (headers, body, trailers, push promises, WebTransport bytes, ended) as "
             "one delivery; frame encode/parse round trip (varint law proved); send_headers+send_data round trip under QPACK "
             "correctness; counterexample theorems for the four pre-fix behaviours. Tie: real H3Connection + pylsqpack with recorded "
             "oracle answers replayed on the model; all 2^(n-1) splittings of short streams, random splittings/interleavings, real "
             "send/receive round trips incl. blocked streams; oracle: events normalised per stream identical across chunkings.",
        note="Trusted: Lean kernel; standard axioms; pylsqpack is an oracle (its answers are inputs); chunk independence is proved at "
             "_receive_request_or_push_data level for non-blocking oracles; uni-stream demux, blocking and cross-stream interleaving "
             "are covered by correspondence/oracle only (chunk_independent is partial in that sense).",
        technique="Lean 4 parser-invariant proof over all chunkings; oracle-replay differential correspondence; exhaustive small-scope splittings",
        design="DESIGN.md §5 C14",
    ),
    "C16": dict(
        text="Lean 4 theorems (AQ.Props.C16): for EVERY connection state, event and oracle, H3 handleEvent returns (events, or done + "
             "an H3 error code) and never raises; likewise H0; the CONNECTION_CLOSE frame always fits for every reason length and "
             "UTF-8 cut (close_emittable); one counterexample theorem per pre-fix escaping exception. Tie: real H3Connection/"
             "H0Connection vs model on all frame type/length/payload combinations (truncated varints, zero/huge lengths, reserved/"
             "duplicate settings, duplicate critical streams, wrong-stream frames, malformed QPACK) after valid prefixes; close-frame "
             "capacity arithmetic vs the real builder; oracle: no exception from handle_event or from datagrams_to_send after the close.",
        note="Trusted: Lean kernel; standard axioms; harness/impl_h3parser.py; QPACK/validators as oracle parameters; after an "
             "escaping exception the partially mutated Python state is not tracked (none escapes on the current tree).",
        technique="Lean 4 totality proofs over all states/events; differential correspondence; exception oracle",
        design="DESIGN.md §5 C16",
    ),
    "C20": dict(
        text="Lean 4 theorems: AQ.Props.C20 (generic noninterference for every well-typed log program, any semantics, loop bound and "
             "call depth; log code never raises; guarded blocks transparent; non-vacuity counterexamples) and AQ.Props.C20Gen by "
             "decide +kernel on the program REGENERATED from logger.py/connection.py/recovery.py/packet_builder.py/h3 on every run: "
             "it is well-typed (guards write only log-only locations, no log-to-protocol flow), encoders and log argument expressions contain no unprotected "
             "partial operation (incl. len/index/attribute of an Optional that may be None on the path), encoder results are JSON types only, exactly one packet_sent / packet_received-or-dropped record on "
             "every registering/authenticating path. Tie: the translator + paired runs (same seed, logging off vs qlog/secrets/both/"
             "file logger) over benign/lossy/hostile/HTTP3 (incl. QPACK-blocked HEADERS / trailers / PUSH_PROMISE with a late encoder stream) scenarios comparing events, decrypted frames, sizes, timers, final state, "
             "exceptions, strict JSON serialisation and record counts.",
        note="Trusted: Lean kernel (propext, Quot.sound only); tools/extract_log.py AST-to-IR translation and its tables (PURE_CALLS, "
             "CALLBACK_EDGES, ARGUED, TYPE_HINTS); log sinks do not fail; two partial operations rest on argued invariants; "
             "session-ticket/0-RTT paired scenarios not covered.",
        technique="Lean 4 noninterference theorem on a regenerated IR (translator) + decide on the extracted program; paired-run oracle",
        design="DESIGN.md §5 C20",
    ),
    "C11": dict(
        text="Lean 4 theorems (AQ.Props.C11) about the TLS machine REGENERATED from tls.py on every run (dispatch chain + ordered handler "
             "action lists): in all 13 states the accepted handshake types equal the RFC 8446/9001 table; a refused type raises "
             "unexpected_message with state, keys and transcript unchanged; for ALL message sequences and environments a client in "
             "POST_HANDSHAKE passed VerifyFinished preceded by VerifySig or an offered-and-selected PSK; a raise-free run from the "
             "EncryptedExtensions wait state is exactly the legal flight; keys are released only after the authenticating messages. "
             "Tie: the translator (fails loudly on unknown shapes) + real tls.Context in each state x every handshake type and "
             "key-holding adversarial flights (all permutations/sub-multisets with recomputed MACs) vs the machine's prediction; "
             "QUIC-level runs never report HandshakeCompleted for an illegal flight.",
        note="Trusted: Lean kernel (propext, Quot.sound); tools/extract_tls.py + tls_emit.py; Consistent/EnvOK hypothesis (flag reads "
             "see handler-entry values, checked on every observed transition); signature/MAC primitives are library calls.",
        technique="translator (Python ast -> Lean machine) + decide/induction over all message sequences; state x type correspondence",
        design="DESIGN.md §5 C11",
    ),
    "C03": dict(
        text="Lean 4 theorems (AQ.Props.C03): negotiate()/version selection laws (first common element; no common option => error for "
             "cipher suites, signature algorithms, groups, ALPN, QUIC versions incl. Version Negotiation and compatible negotiation), "
             "the generated hashing/MAC/signature/key-derivation order of every handler equals the RFC 8446 spec (transcript "
             "coverage), client completion implies VerifyFinished + VerifySig + VerifyCert (or PSK), negotiation precedes any key "
             "release; symbolic model: Finished binds the transcript, agreement_partial and byte_flip_blocks_partial under explicit "
             "hash/MAC/signature hypotheses. Tie: translator (same generated machine as C11) + real client/server pairs over the "
             "configuration lattice comparing both sides' negotiated tuple and secrets, and a message-level byte-flip "
             "man-in-the-middle (every flipped byte must block completion on the receiving side).",
        note="Trusted: Lean kernel; symbolic crypto assumptions are hypotheses of the _partial theorems (the computational claim is not "
             "proved); X.509 path/hostname validation is the libraries'; AllVerify (verify_mode != CERT_NONE) for client_complete_authentic.",
        technique="Lean 4 decision-logic and path analysis on a regenerated machine; symbolic transcript model; lattice + byte-flip correspondence",
        design="DESIGN.md §5 C03",
    ),
    "C19": dict(
        text="Lean 4 theorems (AQ.Props.C19) over ALL interleavings of atomic callbacks (datagram_received / timer / transmit / "
             "transmit_soon / application coroutines / server datagram / cid issued+retired / terminated, with the QUIC events of a "
             "callback as inputs constrained only by C01/C09): no waiter completed twice, every completion is success or "
             "ConnectionError, after ConnectionTerminated (resp. HandshakeCompleted) every waiter started before OR after is "
             "completed exactly once; reader bytes = concatenated StreamDataReceived data then EOF once; timer/transmit-task "
             "bookkeeping exact; routing table invariant (every issued-not-retired CID of a live connection routed, nothing for "
             "terminated ones); connection state under retry only for a token sealed for that address; the retry address encoding is injective and total "
             "for ports < 65536 (compared with retry.encode_address over all 65536 ports); counterexample theorems for "
             "the pre-fix schedules. Tie: real QuicConnectionProtocol/QuicServer over a scripted connection (exhaustive depth-3/4 "
             "step sequences) and over real connections on a virtual-time event loop with an adversarial in-memory network and a "
             "forged-token adversary that replays issued tokens from neighbouring addresses, and quiet worlds (writer operations separated by "
             "quiescence); every callback replayed on the model; oracle from the property text.",
        note="Trusted: Lean kernel; standard axioms; harness/vloop.py (virtual-time SelectorEventLoop) and impl_adapter.py; asyncio "
             "callbacks are atomic; ghost assumption monitors (unique waiter ids, event-order guarantees of C01/C09, unforgeable "
             "retry-token seal) are hypotheses; receive_datagram/handle_timer/datagrams_to_send do not raise (C05/C16).",
        technique="Lean 4 invariants over all schedules of atomic steps; callback-level differential correspondence on a virtual-time loop",
        design="DESIGN.md §5 C19",
    ),
    "C06": dict(
        text="Lean 4 theorems (AQ.Props.C06) for every well-formed op sequence (writes/resets/stops on any stream ids, MAX_DATA / "
             "MAX_STREAM_DATA / MAX_STREAMS / transport parameters incl. remembered 0-RTT limits, stream-loop serves with arbitrary "
             "flight space, delivery reports, discards): remote_max_data_used = sum of highest offsets over all streams ever created, "
             "highest <= per-stream limit, sum <= connection limit, every STREAM/RESET_STREAM/STOP_SENDING for a local stream within "
             "the stream-count limit in force, retransmissions take no credit, MAX_STREAMS releases every allowed blocked stream in "
             "any creation order, blocked data is offered by the next serve after the limit is raised; counterexample theorems for "
             "the pre-fix behaviours and for non-monotone transport parameters. Tie: every call of the modelled methods of a real "
             "QuicConnection (after a real handshake; puppet peer with the real keys, two real endpoints on the adversarial network, "
             "0-RTT incl. servers answering with smaller parameters after accepting or rejecting the early data) replayed on the "
             "compiled model; wire oracle against the limits the sender had received.",
        note="Trusted: Lean kernel; standard axioms; harness/impl_flow.py (method wrapping for observation); hypotheses: transport "
             "parameters: none for a server that accepted 0-RTT (the code compares the six parameters with the remembered values and "
             "closes with PROTOCOL_VIOLATION, fix a04e648; invariant_resumed_accepted, reduced_params_refused; the pre-fix behaviour is "
             "the quirk acceptReducedParams with tp_reduction_counterexample / tp_stream_reduction_counterexample) nor without "
             "resumption (invariant_single_handshake); MAX_* frames never lower a limit over all op sequences "
             "(remote_limits_monotone); remaining hypothesis tp.monotone only for the handshake parameters of a server that "
             "REJECTED 0-RTT, where the code assigns without comparison and resets nothing (tp_rejected_counterexample; the real "
             "client then exceeds the server's new limits or stalls: recorded finding C06-0rtt-rejected-limits with fix diff); "
             "delivery reports only for "
             "non-blocked streams and (ghost_invariant, emitted_within_stream_limit incl. FIN-only frames, retransmit_free) naming a "
             "frame emitted for that stream and not yet reported - the C10 hypothesis, under which every stream's send half is "
             "connected to the C10 sender invariant (AQ.Stream.SInv); the check validates it on every real trace. Documented "
             "tolerated behaviours: 0-RTT streams keep the remembered per-stream limit, MAX_STREAM_DATA for a still-blocked stream "
             "is overwritten on unblock (theorems + examples in AQ.Props.C06).",
        technique="Lean 4 invariants over op sequences; call-level differential correspondence on real connections; wire oracle",
        design="DESIGN.md §5 C06",
    ),
    "C07": dict(
        text="Lean 4 theorems (AQ.Props.C07), no hypothesis on the peer: FLOW_CONTROL_ERROR / STREAM_LIMIT_ERROR / FINAL_SIZE_ERROR "
             "are raised if and only if the frame exceeds the limit in force / the stream count / contradicts the fixed final size "
             "(STREAM and RESET_STREAM; a compliant peer is never accused); STREAM_LIMIT_ERROR / STREAM_STATE_ERROR iff statements for "
             "every frame type naming a stream id (stream_limit_iff, stream_id_frames_limit_iff, stream_id_frames_state_iff: "
             "RESET_STREAM, STOP_SENDING, MAX_STREAM_DATA, STREAM_DATA_BLOCKED); a stream is discarded only when its receive half "
             "finished by FIN or RESET_STREAM and its send half finished, frames are ignored only for discarded streams "
             "(discard_only_when_receive_finished, ignored_only_after_discard; stop_stream / STOP_SENDING never release a stream); the enforced MAX_DATA, MAX_STREAMS (bidi/uni) and per-stream "
             "MAX_STREAM_DATA limits equal the largest value ever written (all three at run level: enforced_eq_advertised, "
             "streams_enforced_eq_advertised, stream_enforced_eq_advertised); for every state reachable from the constructed "
             "connection, every stream and every op sequence, in terms of the ADVERTISED limits (largest value on the wire): unread "
             "bytes per stream <= advertised MAX_STREAM_DATA, unread bytes over all streams <= advertised MAX_DATA, the complete "
             "decision of STREAM / RESET_STREAM frames (STREAM_LIMIT / FLOW_CONTROL / FINAL_SIZE error or accepted, each iff) with "
             "no state change besides the stream lookup on refusal, limits never decrease and are raised only with the frame "
             "carrying the new value (stream_unread_within_advertised, connection_unread_within_advertised, "
             "stream_frame_against_advertised, reset_frame_against_advertised, limits_never_decrease[_run]); reassembly bytes <= limits, "
             "CRYPTO buffering <= 524288, remote challenges <= 32, peer-CID stock and pending retirements bounded. Tie: call-level "
             "correspondence on real connections with offsets/lengths/final sizes at limit-1, limit, limit+1, 2^62-1 on all stream "
             "types interleaved with limit updates and unbounded repetition loops; all five stream-id frame types on never-opened ids "
             "around MAX_STREAMS (also after it was raised, wrong initiator / direction); stop_stream then over-limit frames before/after "
             "the STOP_SENDING is acked or lost; RESET_STREAM x late/duplicated data x retransmitted RESET at the MAX_DATA boundary; limit "
             "raises due while the builder refuses the frame (full congestion window) then advertised / advertised+1 probes; a "
             "failing-input search (first the inputs on which model and implementation disagreed, moved to streams that cannot have "
             "been discarded so that the wire oracle must judge every frame; then thorough directed generators, unstrided pairs, "
             "biased PRNG; 60 s) runs when only the correspondence breaks; final-size probes at the delivered offset; floods of NEW_CONNECTION_ID (fresh / duplicate / stale below Retire Prior To) / "
             "PATH_CHALLENGE / CRYPTO without a transmit in between with the bounds checked after every datagram; wire oracle against the limits put on the wire (the oracle itself decides from the "
             "peer's frames when a receive half is complete).",
        note="Trusted: Lean kernel; standard axioms; harness/impl_flow.py; stream_enforced_eq_advertised assumes the fixes "
             "1778857 and 51656a6 are in place (FixedQ); a final size below data already received is accepted by the code "
             "(RFC 9000 4.5 observation, outside the property text).",
        technique="Lean 4 decision-logic iff theorems + invariants over op sequences; call-level differential correspondence; wire oracle",
        design="DESIGN.md §5 C07",
    ),
    "C04": dict(
        text="The Lean model of _buffer.c and _crypto.c is REGENERATED from the C source on every run (gcc -E + pycparser -> one Lean "
             "definition per C function in a bounds-checking semantics: objects with sizes, pointers = (object, offset), every "
             "dereference / memcpy / CPython / OpenSSL call is an access obligation, typed integer arithmetic with overflow = fault). "
             "46 Lean theorems (AQ.Props.C04) about the generated definitions: for every self state satisfying the invariant and EVERY "
             "argument value (ill-typed included) each of the 27 functions neither faults nor breaks the invariant, an error return "
             "leaves the Buffer usable with pos unchanged, plus call-site corollaries for decrypt_packet (any datagram <= 65535) and "
             "encrypt_packet (any max_datagram_size >= 1200). Tie: the translator (fails loudly on unsupported C) + differential "
             "correspondence of the translated functions against the freshly compiled extension (exhaustive small-capacity method "
             "sequences with boundary integers, (packet length, offset) grids) + ASan/UBSan sweep as failing-input search.",
        note="Trusted: Lean kernel; standard axioms; tools/extract_c.py + stub headers; external-call contracts listed in AQ/Base/CIR.lean "
             "(malloc, PyBytes_FromStringAndSize, Py_BuildValue, PyArg formats, parse_uint_arg as an argument contract, EVP_* read/"
             "write extents and key/iv lengths); flat address space; CPython argument parsing and OpenSSL internals are assumed to "
             "respect those extents (exercised by the sanitizer sweep, not proved).",
        technique="translator (C -> Lean bounds semantics) + per-function safety theorems by symbolic execution/omega; differential correspondence; sanitizer search",
        design="DESIGN.md §5 C04",
    ),
}
NOT_YET = "machinery for this property is still under construction in this round (model/proofs/correspondence incomplete); not claimed"

checks = []
for pid, c in CLAIMED.items():
    checks.append({
        "property_id": pid,
        "quick_cmd": f"./check {pid} --tier quick",
        "thorough_cmd": f"./check {pid} --tier thorough",
        "evidence_file": f"evidence/{pid}.json",
        "replay_cmd_template": f"./check {pid} --replay {{path}}",
        "engine": "lean4-proof+correspondence",
        "level_claimed": {"category": c.get("category", PROOF), "text": c["text"], "design_ref": c["design"]},
        "level_note": c["note"],
        "technique": c["technique"],
    })
m = {
    "version": 1,
    "setup_cmd": "./setup.sh",
    "hooks": {
        "guard": "AIOQUIC_VERIF",
        "enable": "no source hooks exist: checks import a scratch copy of /repo's working tree (fresh C build) and observe through the public API and harness-side taps",
        "baseline_off_cmd": "cd /repo && /venv/bin/python -m pytest -ra -q -p no:cacheprovider --timeout=900 --continue-on-collection-errors",
        "source_commits": [],
        "add_only": True,
    },
    "engines": [{
        "name": "lean4-proof+correspondence", "path": "lean/ + harness/ + checks/",
        "serves_properties": sorted(CLAIMED),
        "kind_free_text": "Lean 4 theorems about executable models; models tied to the code on every run by a translator (C) or differential correspondence through a compiled driver",
    }],
    "checks": checks,
    "not_applicable": [{"property_id": i, "reason": NOT_YET} for i in ids if i not in CLAIMED],
    "notes": "fix: commits in /repo and recorded findings are listed in known_findings.jsonl; see DESIGN.md",
}
json.dump(m, open(os.path.join(HERE, "MANIFEST.json"), "w"), indent=1)
print("claimed:", sorted(CLAIMED))
