#!/venv/bin/python
"""TC tie for C04: translate _buffer.c / _crypto.c into Lean (AQ/Gen/CBuffer.lean, CCrypto.lean).

    gcc -E -P -nostdinc -I tools/cstubs  <file>   (real preprocessor, stub headers)
    pycparser                                     (AST)
    one Lean `def` per C function, a term of the monad `AQ.C.CM` of
    lean/AQ/Base/CIR.lean whose combinators carry the bounds-checking semantics.

Mapping (everything not listed raises Unsupported = exit 3 naming the construct):
  * `self` (first parameter, struct pointer) is implicit: scalar fields are
    `ldP/stP k` (pointers) or `ldN/stN k` (integers), array fields are memory
    objects 2,3,… of their declared size (decay to `⟨obj,0⟩`).
  * locals become Lean binders (`bnd (val e) fun x_n =>`), re-bound on assignment;
    `if`/`switch` duplicate the continuation (no join points), `return` drops it.
  * `*p`, `p[i]` (byte element types only) → `rd1`/`wr1`; `memcpy/memset/memcmp`,
    CPython and OpenSSL calls → the contracts documented at the top of CIR.lean.
  * every arithmetic node is typed with C's integer promotions / usual arithmetic
    conversions; signed `+ - *` → `chkS32/chkS64` (overflow = fault), unsigned
    → `% 2^n`; conversions to signed → `wrapS32/64`; shifts → `shlS/shlU/shr`;
    `& | ^` → `band/bor/bxor` (operands must be non-negative);
    pointer `< <= > >=` → `pLt…` (same object required), `p - q` → `pDiff`.
  * `if (!PyArg_ParseTuple(args, fmt, &v…)) return X;` → `parseN/parseMask/
    parseBytes` on the function's `PyArg` parameters (k-th `y#` = object 10+k).
  * `if (!parse_uint_arg(args, MAX, msg, &v)) return X;` → `parseUint MAX a0` (contract function, see
    CONTRACT_FUNCS: its body is not translated, only shape-checked).
  * `for (int i = 0; i < E; ++i)` with loop-invariant E → `forN loopMax`.
  * string literals used as memory (memcmp) are objects 20,21,… (`LitsOk`).
  * only ENTRY POINTS (functions referenced from the method/getset/slot tables) are emitted; calls of other
    functions of the translation unit are inlined at the call site (depth <= 4, recursion rejected).
Skipped functions (named explicitly, anything else unknown is an error):
  *_dealloc (only frees; calls through the tp_free slot) and PyInit_* (module
  set-up, touches no buffer memory).
"""
import os
import subprocess
import sys

HERE = os.path.dirname(os.path.abspath(__file__))
VERIF = os.path.dirname(HERE)
sys.path.insert(0, VERIF)
from pycparser import c_ast, CParser  # noqa: E402


class Unsupported(Exception):
    pass


def bad(node, what):
    coord = getattr(node, "coord", None)
    raise Unsupported(f"unsupported C construct: {what} [{type(node).__name__} at {coord}]")


# ------------------------------------------------------------------ C types
class T:
    pass


class TInt(T):
    def __init__(self, bits, signed):
        self.bits, self.signed = bits, signed

    def __eq__(self, o):
        return isinstance(o, TInt) and (self.bits, self.signed) == (o.bits, o.signed)

    def __repr__(self):
        return f"{'i' if self.signed else 'u'}{self.bits}"

    @property
    def lo(self):
        return -(1 << (self.bits - 1)) if self.signed else 0

    @property
    def hi(self):
        return (1 << (self.bits - 1)) - 1 if self.signed else (1 << self.bits) - 1


class TPtr(T):
    def __init__(self, to):
        self.to = to

    def __repr__(self):
        return f"ptr({self.to})"


class TNamed(T):
    """opaque / struct / PyObject / void"""
    def __init__(self, name):
        self.name = name

    def __repr__(self):
        return self.name


class TArr(T):
    def __init__(self, elem, n):
        self.elem, self.n = elem, n


INT = TInt(32, True)
VOID = TNamed("void")
PYOBJ = TPtr(TNamed("PyObject"))
BASE = {
    ("char",): TInt(8, True), ("unsigned", "char"): TInt(8, False),
    ("short",): TInt(16, True), ("unsigned", "short"): TInt(16, False),
    ("int",): INT, ("unsigned", "int"): TInt(32, False), ("unsigned",): TInt(32, False),
    ("long",): TInt(64, True), ("unsigned", "long"): TInt(64, False),
    ("long", "long"): TInt(64, True), ("unsigned", "long", "long"): TInt(64, False),
    ("void",): VOID,
}


def is_pyobj(t):
    return isinstance(t, TPtr) and isinstance(t.to, TNamed) and t.to.name == "PyObject"


def is_ptr(t):
    return isinstance(t, TPtr) and not is_pyobj(t)


def promote(t):
    if isinstance(t, TInt) and t.bits < 32:
        return INT
    return t


def usual(a, b):
    a, b = promote(a), promote(b)
    if a == b:
        return a
    if a.signed == b.signed:
        return a if a.bits >= b.bits else b
    u, s = (a, b) if not a.signed else (b, a)
    return u if u.bits >= s.bits else s


def lit(n):
    return str(n) if n >= 0 else f"({n})"


def conv(x, frm, to, node=None):
    """Lean text converting integer atom x of C type frm to C type to"""
    if isinstance(frm, TInt) and isinstance(to, TInt):
        if to.lo <= frm.lo and frm.hi <= to.hi:
            return x
        if not to.signed:
            return f"({x} % {1 << to.bits})"
        if to.bits in (32, 64):
            return f"(wrapS{to.bits} {x})"
        bad(node, f"conversion {frm} -> {to}")
    if isinstance(frm, TPtr) and isinstance(to, TPtr):
        return x
    bad(node, f"conversion {frm} -> {to}")


EXC = {"BufferReadError": ".bufferRead", "BufferWriteError": ".bufferWrite",
       "CryptoError": ".crypto", "PyExc_ValueError": ".value"}
PYCONST = {"Py_None": "PyVal.none", "Py_True": "(PyVal.bool true)", "Py_False": "(PyVal.bool false)"}
# externals with a contract in CIR.lean whose C prototype (from the stubs) drives the argument conversions
GENERIC_EXT = {"malloc", "free", "memcpy", "memset", "memcmp", "PyBytes_FromStringAndSize",
               "PyLong_FromUnsignedLong", "PyLong_FromUnsignedLongLong", "PyLong_FromSsize_t",
               "EVP_get_cipherbyname", "EVP_CIPHER_CTX_new", "EVP_CIPHER_CTX_free", "ERR_clear_error",
               "EVP_CipherInit_ex", "EVP_CIPHER_CTX_set_key_length", "EVP_CIPHER_CTX_ctrl"}
VOID_RESULT = {"memcpy", "memset", "free"}
SKIP_SUFFIX = ("_dealloc",)
# C helper treated as an ARGUMENT CONTRACT (not translated; its shape is checked by check_contract_fn):
#   int parse_uint_arg(PyObject *args, uint64_t max, const char *error, uint64_t *value)
#   success (1): *value = the Python integer argument, 0 <= *value <= max;  failure (0): exception set
#   (TypeError for a non-integer, ValueError when out of range), *value untouched.
CONTRACT_FUNCS = {"parse_uint_arg"}
SKIP_PREFIX = ("PyInit_",)


def bind(m, var, rest):
    return f"bnd ({m}) fun {var} =>\n{rest}"


class FileTr:
    def __init__(self, ast):
        self.ast = ast
        self.typedefs = {}
        self.structs = {}     # typedef name -> {"pf": {f: k}, "nf": {f: (k, T)}, "arr": {f: (obj, n, elemT)}}
        self.protos = {}      # external name -> (ret T, [param T], varargs)
        self.funcs = {}       # translated function name -> dict
        self.lits = {}        # string literal -> object id
        self.n = 0
        self.props = {}
        self.inline_stack = []
        self.inlined = {}
        self.collect()

    # ---------------------------------------------------------- declarations
    def ctype(self, d):
        if isinstance(d, c_ast.TypeDecl):
            t = d.type
            if isinstance(t, c_ast.IdentifierType):
                names = tuple(n for n in t.names if n not in ("const", "signed"))
                if names in BASE:
                    return BASE[names]
                if len(names) == 1 and names[0] in self.typedefs:
                    return self.typedefs[names[0]]
                bad(d, f"type {names}")
            if isinstance(t, c_ast.Struct):
                return TNamed("struct " + (t.name or "?"))
            bad(d, "type declarator")
        if isinstance(d, c_ast.PtrDecl):
            if isinstance(d.type, c_ast.FuncDecl):
                return TPtr(TNamed("function"))
            return TPtr(self.ctype(d.type))
        if isinstance(d, c_ast.ArrayDecl):
            n = self.const_int(d.dim) if d.dim is not None else None
            return TArr(self.ctype(d.type), n)
        if isinstance(d, c_ast.Typename):
            return self.ctype(d.type)
        if isinstance(d, c_ast.Decl):
            return self.ctype(d.type)
        bad(d, "declarator")

    def const_int(self, e):
        if isinstance(e, c_ast.Constant) and e.type in ("int", "long int", "unsigned int", "unsigned long int", "long long int"):
            return int(e.value.rstrip("uUlL"), 0)
        if isinstance(e, c_ast.BinaryOp) and e.op in "+-*":
            a, b = self.const_int(e.left), self.const_int(e.right)
            return {"+": a + b, "-": a - b, "*": a * b}[e.op]
        bad(e, "non-constant array dimension")

    def collect(self):
        for ext in self.ast.ext:
            if isinstance(ext, c_ast.Typedef):
                t = ext.type
                if isinstance(t, c_ast.TypeDecl) and isinstance(t.type, c_ast.Struct) and t.type.decls:
                    self.typedefs[ext.name] = TNamed(ext.name)
                    self.layout(ext.name, t.type)
                elif isinstance(t, c_ast.TypeDecl) and isinstance(t.type, c_ast.Struct):
                    self.typedefs[ext.name] = TNamed(ext.name)      # opaque struct
                else:
                    self.typedefs[ext.name] = self.ctype(t)
            elif isinstance(ext, c_ast.Decl) and isinstance(ext.type, c_ast.FuncDecl):
                self.protos[ext.name] = self.signature(ext.type)
            elif isinstance(ext, c_ast.FuncDef):
                ret, params, _ = self.signature(ext.decl.type, names=True)
                self.funcs[ext.decl.name] = {"ret": ret, "params": params, "node": ext}

    def signature(self, fd, names=False):
        ret = self.ctype(fd.type)
        params, varargs = [], False
        for p in (fd.args.params if fd.args else []):
            if isinstance(p, c_ast.EllipsisParam):
                varargs = True
                continue
            t = self.ctype(p.type)
            if t is VOID:
                continue
            params.append((p.name, t) if names else t)
        return ret, params, varargs

    def layout(self, name, st):
        lay = {"pf": {}, "nf": {}, "arr": {}}
        obj = 2
        for d in st.decls:
            t = self.ctype(d.type)
            if d.name == "ob_head":
                continue
            if isinstance(t, TArr):
                if not (isinstance(t.elem, TInt) and t.elem.bits == 8):
                    bad(d, "struct array field with non-byte elements")
                lay["arr"][d.name] = (obj, t.n, t.elem)
                obj += 1
            elif isinstance(t, TPtr):
                lay["pf"][d.name] = (len(lay["pf"]), t)
            elif isinstance(t, TInt):
                lay["nf"][d.name] = (len(lay["nf"]), t)
            else:
                bad(d, "struct field type")
        self.structs[name] = lay

    def fresh(self, base):
        self.n += 1
        return f"{base}_{self.n}"

    # ------------------------------------------------------------ expressions
    # ex(e, env, k): Lean code evaluating e then continuing with k(atom, ctype, env)
    def is_null(self, e):
        if isinstance(e, c_ast.Cast) and isinstance(self.ctype(e.to_type), TPtr):
            return self.is_null(e.expr)
        return isinstance(e, c_ast.Constant) and e.type == "int" and int(e.value.rstrip("uUlL"), 0) == 0

    def null_of(self, t):
        return "PyVal.null" if is_pyobj(t) else "Ptr.null"

    def ex(self, e, env, k):
        m = getattr(self, "ex_" + type(e).__name__, None)
        if m is None:
            bad(e, "expression")
        return m(e, env, k)

    def ex_Constant(self, e, env, k):
        if e.type == "string":
            s = e.value[1:-1]
            if "\\" in s:
                bad(e, "escape in string literal used as memory")
            obj = self.lits.setdefault(s, 20 + len(self.lits))
            return k(f"(⟨{obj}, 0⟩ : Ptr)", TPtr(TInt(8, True)), env)
        if "int" not in e.type:
            bad(e, f"constant of type {e.type}")
        txt = e.value.rstrip("uUlL")
        v = int(txt, 0)
        suffix = e.value[len(txt):].lower()
        if "u" in suffix:
            bad(e, "unsigned literal suffix")
        hexa = txt.lower().startswith("0x")
        for t in ([INT, TInt(32, False), TInt(64, True), TInt(64, False)] if hexa else [INT, TInt(64, True)]):
            if t.lo <= v <= t.hi:
                return k(lit(v), t, env)
        bad(e, "integer literal out of range")

    def ex_ID(self, e, env, k):
        if e.name in env:
            if env[e.name] is None:
                bad(e, f"use of uninitialised local {e.name}")
            return k(env[e.name][0], env[e.name][1], env)
        if e.name in PYCONST:
            return k(PYCONST[e.name], PYOBJ, env)
        bad(e, f"identifier {e.name}")

    def ex_Cast(self, e, env, k):
        to = self.ctype(e.to_type)
        if isinstance(to, TPtr) and self.is_null(e.expr):
            return k(self.null_of(to), to, env)
        return self.ex(e.expr, env, lambda a, t, env: k(conv(a, t, to, e), to, env))

    def ex_StructRef(self, e, env, k):
        return self.lv(e, env, lambda d, env: self.load(d, env, k))

    def ex_ArrayRef(self, e, env, k):
        return self.lv(e, env, lambda d, env: self.load(d, env, k))

    def ex_TernaryOp(self, e, env, k):
        def after(c, env):
            probe = {}
            self.ex(e.iftrue, env, lambda a, t, _e: probe.setdefault("a", t) and "")
            self.ex(e.iffalse, env, lambda a, t, _e: probe.setdefault("b", t) and "")
            t = usual(probe["a"], probe["b"]) if isinstance(probe["a"], TInt) else probe["a"]
            br = lambda x: self.ex(x, env, lambda a, ta, _e: f"ret {conv(a, ta, t, e)}")
            v = self.fresh("t")
            return bind(f"if {c} then\n({br(e.iftrue)})\nelse\n({br(e.iffalse)})", v, k(v, t, env))
        return self.cond(e.cond, env, after)

    def ex_UnaryOp(self, e, env, k):
        if e.op == "*":
            return self.lv(e, env, lambda d, env: self.load(d, env, k))
        if e.op == "!":
            return self.cond(e, env, lambda c, env: k(f"(b2i {c})", INT, env))
        if e.op == "-":
            if isinstance(e.expr, c_ast.Constant):
                return self.ex(e.expr, env, lambda a, t, env: k(lit(-int(a)), t, env))
            def neg(a, t, env):
                t = promote(t)
                if not t.signed:
                    return k(f"((0 - {a}) % {1 << t.bits})", t, env)
                v = self.fresh("n")
                return bind(f"chkS{t.bits} (0 - {a})", v, k(v, t, env))
            return self.ex(e.expr, env, neg)
        if e.op in ("p++", "++"):
            def inc(d, env):
                def got(old, t, env):
                    if isinstance(t, TPtr):
                        self.elem8(t, e)
                        new = f"({old}.add 1)"
                        return self.store(d, new, env, lambda env: k(old if e.op == "p++" else new, t, env))
                    pt = promote(t)
                    v = self.fresh("inc")
                    arith = f"chkS{pt.bits} ({old} + 1)" if pt.signed else f"val (({old} + 1) % {1 << pt.bits})"
                    return bind(arith, v, self.store(d, conv(v, pt, t, e), env,
                                                     lambda env: k(old if e.op == "p++" else conv(v, pt, t, e), t, env)))
                return self.load(d, env, got)
            return self.lv(e.expr, env, inc)
        if e.op == "sizeof":
            d = self.array_field(e.expr)
            if d is None:
                bad(e, "sizeof of anything but a struct array field")
            return k(lit(d[1]), TInt(64, False), env)
        bad(e, f"unary operator {e.op}")

    def elem8(self, t, node):
        if not (isinstance(t, TPtr) and isinstance(t.to, TInt) and t.to.bits == 8):
            bad(node, f"pointer arithmetic / dereference on non-byte pointer {t}")

    def array_field(self, e):
        if isinstance(e, c_ast.StructRef) and e.type == "->" and isinstance(e.name, c_ast.ID) \
                and e.name.name == "self" and self.cur["lay"] and e.field.name in self.cur["lay"]["arr"]:
            return self.cur["lay"]["arr"][e.field.name]
        return None

    # lvalues: ("local", name, T) | ("pf", k, T) | ("nf", k, T) | ("mem", ptrAtom, elemT) | ("arr", obj, n, elemT)
    def lv(self, e, env, k):
        if isinstance(e, c_ast.ID):
            if e.name not in env:
                bad(e, f"identifier {e.name}")
            return k(("local", e.name, self.cur["ltypes"][e.name]), env)
        if isinstance(e, c_ast.StructRef):
            if not (e.type == "->" and isinstance(e.name, c_ast.ID) and e.name.name == "self" and self.cur["lay"]):
                bad(e, "struct access other than self->field")
            lay, f = self.cur["lay"], e.field.name
            if f in lay["pf"]:
                return k(("pf",) + lay["pf"][f], env)
            if f in lay["nf"]:
                return k(("nf",) + lay["nf"][f], env)
            if f in lay["arr"]:
                return k(("arr",) + lay["arr"][f], env)
            bad(e, f"unknown field {f}")
        if isinstance(e, c_ast.UnaryOp) and e.op == "*":
            def got(p, t, env):
                self.elem8(t, e)
                return k(("mem", p, t.to), env)
            return self.ex(e.expr, env, got)
        if isinstance(e, c_ast.ArrayRef):
            def base(p, t, env):
                self.elem8(t, e)
                def idx(i, ti, env):
                    if not isinstance(ti, TInt):
                        bad(e, "non-integer subscript")
                    return k(("mem", f"({p}.add {i})", t.to), env)
                return self.ex(e.subscript, env, idx)
            return self.ex(e.name, env, base)
        bad(e, "lvalue")

    def load(self, d, env, k):
        kind = d[0]
        if kind == "local":
            if env[d[1]] is None:
                raise Unsupported(f"use of uninitialised local {d[1]} in {self.cur['name']}")
            return k(env[d[1]][0], d[2], env)
        if kind == "arr":   # array decays to pointer to its first element
            return k(f"(⟨{d[1]}, 0⟩ : Ptr)", TPtr(d[3]), env)
        v = self.fresh("v")
        if kind == "pf":
            return bind(f"ldP {d[1]}", v, k(v, d[2], env))
        if kind == "nf":
            return bind(f"ldN {d[1]}", v, k(v, d[2], env))
        if kind == "mem":
            return bind(f"rd1 {d[1]}", v, k(v, d[2], env))
        raise AssertionError(kind)

    def store(self, d, a, env, k):
        """a already converted to the lvalue's type; k(env)"""
        kind = d[0]
        if kind == "local":
            v = self.fresh(d[1])
            env2 = dict(env)
            env2[d[1]] = (v, d[2])
            self.cur["assigned"].add(d[1])
            return bind(f"val {a}", v, k(env2))
        if kind == "pf":
            return bind(f"stP {d[1]} {a}", "_", k(env))
        if kind == "nf":
            return bind(f"stN {d[1]} {a}", "_", k(env))
        if kind == "mem":
            return bind(f"wr1 {d[1]} {a}", "_", k(env))
        bad(None, "assignment to an array")

    def ex_Assignment(self, e, env, k):
        def with_lv(d, env):
            lt = d[2] if d[0] != "arr" else None
            if lt is None:
                bad(e, "assignment to array")
            if e.op == "=":
                def got(a, t, env):
                    if isinstance(lt, TPtr):
                        if not isinstance(t, TPtr):
                            bad(e, f"assigning {t} to pointer")
                        if is_pyobj(lt) != is_pyobj(t):
                            bad(e, "PyObject*/pointer mix")
                        c = a
                    else:
                        c = conv(a, t, lt, e)
                    return self.store(d, c, env, lambda env: k(c, lt, env))
                if isinstance(lt, TPtr) and self.is_null(e.rvalue):
                    return got(self.null_of(lt), lt, env)
                return self.ex(e.rvalue, env, got)
            op = e.op[:-1]
            def cur(old, t, env):
                return self.ex(e.rvalue, env, lambda b, tb, env: self.binop(
                    op, old, t, b, tb, env, e,
                    lambda r, tr, env: self.store(d, r if isinstance(lt, TPtr) else conv(r, tr, lt, e), env,
                                                  lambda env: k(r, lt, env))))
            return self.load(d, env, cur)
        return self.lv(e.lvalue, env, with_lv)

    def ex_BinaryOp(self, e, env, k):
        if e.op in ("&&", "||", "==", "!=", "<", "<=", ">", ">="):
            return self.cond(e, env, lambda c, env: k(f"(b2i {c})", INT, env))
        return self.ex(e.left, env, lambda a, ta, env: self.ex(
            e.right, env, lambda b, tb, env: self.binop(e.op, a, ta, b, tb, env, e, k)))

    def binop(self, op, a, ta, b, tb, env, node, k):
        v = self.fresh("x")
        if isinstance(ta, TPtr) or isinstance(tb, TPtr):
            if op == "+" and isinstance(tb, TPtr):
                a, ta, b, tb = b, tb, a, ta
            if op in "+-" and isinstance(ta, TPtr) and isinstance(tb, TInt):
                self.elem8(ta, node)
                return k(f"({a}.add {b})" if op == "+" else f"({a}.add (0 - {b}))", ta, env)
            if op == "-" and isinstance(ta, TPtr) and isinstance(tb, TPtr):
                self.elem8(ta, node)
                self.elem8(tb, node)
                return bind(f"pDiff {a} {b}", v, k(v, TInt(64, True), env))
            bad(node, f"pointer operation {op}")
        if not (isinstance(ta, TInt) and isinstance(tb, TInt)):
            bad(node, f"operands of {op}")
        if op in ("<<", ">>"):
            t = promote(ta)
            a = conv(a, ta, t, node)
            if op == ">>":
                return bind(f"shr {t.bits} {a} {b}", v, k(v, t, env))
            if t.signed:
                return bind(f"shlS {t.bits} {t.hi} {a} {b}", v, k(v, t, env))
            return bind(f"shlU {t.bits} {1 << t.bits} {a} {b}", v, k(v, t, env))
        t = usual(ta, tb)
        a, b = conv(a, ta, t, node), conv(b, tb, t, node)
        if op in ("+", "-", "*"):
            if t.signed:
                return bind(f"chkS{t.bits} ({a} {op} {b})", v, k(v, t, env))
            return bind(f"val (({a} {op} {b}) % {1 << t.bits})", v, k(v, t, env))
        if op in ("&", "|", "^"):
            fn = {"&": "band", "|": "bor", "^": "bxor"}[op]
            return bind(f"{fn} {a} {b}", v, k(v, t, env))
        bad(node, f"binary operator {op}")

    def batom(self, b, prop, neg):
        """Bool atom with the Prop it decides (used by `if`)"""
        if neg:
            b, prop = f"(!{b})", f"¬({prop})"
        self.props[b] = prop
        return b

    # cond(e, env, k): k(boolAtom, env)
    def cond(self, e, env, k):
        if isinstance(e, c_ast.UnaryOp) and e.op == "!":
            return self.cond(e.expr, env, lambda c, env: k(
                self.batom(f"(!{c})", f"¬({self.props.get(c, c + ' = true')})", False), env))
        if isinstance(e, c_ast.BinaryOp) and e.op in ("&&", "||"):
            def left(ca, env):
                seen = {}
                def fin(cb, _e):
                    seen["env"] = _e
                    return f"ret {cb}"
                rhs = self.cond(e.right, env, fin)
                self.no_local_effects(e.right)
                # locals bound inside the conditionally evaluated operand (out-params) are poisoned afterwards
                env = {n: (b if seen["env"].get(n) == b else None) for n, b in env.items()}
                v = self.fresh("c")
                if e.op == "||":
                    return bind(f"if {ca} then ret true else\n({rhs})", v, k(v, env))
                return bind(f"if {ca} then\n({rhs})\nelse ret false", v, k(v, env))
            return self.cond(e.left, env, left)
        if isinstance(e, c_ast.BinaryOp) and e.op in ("==", "!=", "<", "<=", ">", ">="):
            lop = {"==": "=", "!=": "≠", "<": "<", "<=": "≤", ">": ">", ">=": "≥"}[e.op]
            def cmp(a, ta, b, tb, env):
                if isinstance(ta, TPtr) and isinstance(tb, TPtr):
                    if e.op in ("==", "!="):
                        fn = "pyeq" if is_pyobj(ta) else "peq"
                        return k(self.batom(f"({fn} {a} {b})", f"{a} = {b}", e.op == "!="), env)
                    fn = {"<": "pLt", "<=": "pLe", ">": "pGt", ">=": "pGe"}[e.op]
                    v = self.fresh("c")
                    return bind(f"{fn} {a} {b}", v, k(v, env))
                if isinstance(ta, TInt) and isinstance(tb, TInt):
                    t = usual(ta, tb)
                    a, b = conv(a, ta, t, e), conv(b, tb, t, e)
                    fn, x, y, neg, pr = {"==": ("ieq", a, b, False, f"{a} = {b}"), "!=": ("ieq", a, b, True, f"{a} = {b}"),
                                         "<": ("ilt", a, b, False, f"{a} < {b}"), "<=": ("ile", a, b, False, f"{a} ≤ {b}"),
                                         ">": ("ilt", b, a, False, f"{b} < {a}"), ">=": ("ile", b, a, False, f"{b} ≤ {a}")}[e.op]
                    return k(self.batom(f"({fn} {x} {y})", pr, neg), env)
                bad(e, f"comparison of {ta} and {tb}")
            def lhs(a, ta, env):
                if isinstance(ta, TPtr) and self.is_null(e.right):
                    return cmp(a, ta, self.null_of(ta), ta, env)
                return self.ex(e.right, env, lambda b, tb, env: cmp(a, ta, b, tb, env))
            return self.ex(e.left, env, lhs)
        def truth(a, t, env):
            if isinstance(t, TPtr):
                fn = "pyeq" if is_pyobj(t) else "peq"
                return k(self.batom(f"({fn} {a} {self.null_of(t)})", f"{a} = {self.null_of(t)}", True), env)
            return k(self.batom(f"(ieq {a} 0)", f"{a} = 0", True), env)
        return self.ex(e, env, truth)

    # branch(e, env, kT, kF): short-circuit control flow; a continuation may be emitted more than once
    def branch(self, e, env, kT, kF):
        if isinstance(e, c_ast.UnaryOp) and e.op == "!":
            return self.branch(e.expr, env, kF, kT)
        if isinstance(e, c_ast.BinaryOp) and e.op == "||":
            return self.branch(e.left, env, kT, lambda env: self.branch(e.right, env, kT, kF))
        if isinstance(e, c_ast.BinaryOp) and e.op == "&&":
            return self.branch(e.left, env, lambda env: self.branch(e.right, env, kT, kF), kF)
        def fin(c, env):
            c = self.props.get(c, f"{c} = true")
            return f"if {c} then\n({kT(env)})\nelse\n({kF(env)})"
        return self.cond(e, env, fin)

    def dup_sides(self, e, neg=False):
        if isinstance(e, c_ast.UnaryOp) and e.op == "!":
            return self.dup_sides(e.expr, not neg)
        if isinstance(e, c_ast.BinaryOp) and e.op in ("||", "&&"):
            side = "T" if (e.op == "||") != neg else "F"
            return {side} | self.dup_sides(e.left, neg) | self.dup_sides(e.right, neg)
        return set()

    def terminates(self, s):
        if s is None:
            return False
        if isinstance(s, c_ast.Return):
            return True
        if isinstance(s, c_ast.Compound):
            return bool(s.block_items) and self.terminates(s.block_items[-1])
        if isinstance(s, c_ast.If):
            return self.terminates(s.iftrue) and self.terminates(s.iffalse)
        return False

    def no_local_effects(self, e):
        class V(c_ast.NodeVisitor):
            def visit_Assignment(s, n):
                bad(n, "assignment inside a short-circuit operand")
            def visit_UnaryOp(s, n):
                if n.op in ("p++", "++", "p--", "--"):
                    bad(n, "increment inside a short-circuit operand")
                s.generic_visit(n)
        V().visit(e)

    # ------------------------------------------------------------------ calls
    def args_then(self, args, ptypes, env, node, k):
        """evaluate args left to right, converting to the prototype's parameter types"""
        out = []
        def step(i, env):
            if i == len(args):
                return k(out, env)
            pt = ptypes[i] if i < len(ptypes) else None
            if isinstance(pt, TPtr) and self.is_null(args[i]):
                out.append(self.null_of(pt))
                return step(i + 1, env)
            def got(a, t, env):
                if pt is None:
                    out.append((a, t))
                elif isinstance(pt, TPtr):
                    if not isinstance(t, TPtr) or is_pyobj(pt) != is_pyobj(t):
                        bad(node, f"argument {i}: {t} passed for {pt}")
                    out.append(a)
                else:
                    out.append(conv(a, t, pt, node))
                return step(i + 1, env)
            return self.ex(args[i], env, got)
        return step(0, env)

    def result(self, call, rt, env, k):
        if rt is VOID:
            return bind(call, "_", k("()", VOID, env))
        v = self.fresh("r")
        return bind(call, v, k(v, rt, env))

    def out_local(self, a, env, want):
        if not (isinstance(a, c_ast.UnaryOp) and a.op == "&" and isinstance(a.expr, c_ast.ID) and a.expr.name in env):
            bad(a, "out-parameter that is not &local")
        t = self.cur["ltypes"][a.expr.name]
        if want is not None and not (isinstance(t, TInt) and t.bits == want.bits):
            bad(a, f"out-parameter &{a.expr.name} of type {t} where {want} is written")
        return a.expr.name, t

    def ex_FuncCall(self, e, env, k):
        if not isinstance(e.name, c_ast.ID):
            bad(e, "indirect call")
        f = e.name.name
        args = list(e.args.exprs) if e.args else []
        if f in ("PyErr_SetString", "PyErr_Format"):
            if not (isinstance(args[0], c_ast.ID) and args[0].name in EXC):
                bad(e, "exception object")
            exc = EXC[args[0].name]
            if f == "PyErr_SetString":
                return self.result(f"PyErr_SetString {exc}", VOID, env, k)
            fmt = args[1].value if isinstance(args[1], c_ast.Constant) else None
            if fmt is None or fmt.count("%") != 1 or "%s" not in fmt or len(args) != 3:
                bad(e, "PyErr_Format with a format other than a single %s")
            return self.ex(args[2], env, lambda a, t, env: (isinstance(t, TPtr) or bad(e, "%s argument")) and
                           self.result(f"PyErr_Format_s {exc} {a}", VOID, env, k))
        if f == "PyErr_NoMemory":
            return self.result("PyErr_NoMemory", VOID, env, k)
        if f == "Py_BuildValue":
            fmts = {'"y#i"': INT, '"y#I"': TInt(32, False)}
            if not (isinstance(args[0], c_ast.Constant) and args[0].value in fmts and len(args) == 4):
                bad(e, "Py_BuildValue format other than \"y#i\" / \"y#I\"")
            vt_want = fmts[args[0].value]
            pt = [TPtr(TInt(8, False)), TInt(64, True), None]
            def built(a, env):
                v, tv = a[2]
                if not (isinstance(tv, TInt) and tv.bits <= 32):
                    bad(e, "Py_BuildValue 'i'/'I' argument wider than int")
                return self.result(f"Py_BuildValue_y_i {a[0]} {a[1]} {conv(v, tv, vt_want, e)}", PYOBJ, env, k)
            return self.args_then(args[1:], pt, env, e, built)
        if f in ("EVP_CipherUpdate", "EVP_CipherFinal_ex"):
            name, t = self.out_local(args[2], env, INT)
            rest = args[:2] + args[3:]
            _, pts, _ = self.protos[f]
            pts = pts[:2] + pts[3:]
            def done(a, env):
                r = self.fresh("r")
                return bind(f"{f} {' '.join(a)}", r, self.store(
                    ("local", name, t), conv(f"{r}.2", INT, t, e), env, lambda env: k(f"{r}.1", INT, env)))
            return self.args_then(rest, pts, env, e, done)
        if f in GENERIC_EXT:
            rt, pts, va = self.protos[f]
            if va or len(pts) != len(args):
                bad(e, f"call of {f} with {len(args)} arguments")
            if f in VOID_RESULT:
                rt = VOID
            return self.args_then(args, pts, env, e,
                                  lambda a, env: self.result(" ".join([f] + a), rt, env, k))
        if f in self.funcs and not self.skipped(f):
            return self.inline_call(f, args, env, e, k)
        bad(e, f"call of unknown function {f}")

    # calls of helper functions defined in the same translation unit are INLINED at the call site:
    # the callee's body becomes a sub-computation `bnd (<body>) fun r => …` with the arguments bound to
    # its parameters, so every obligation of the helper is re-established in each calling context and
    # the generated file contains entry points only (no generated helper names for theorems to depend on).
    MAX_INLINE_DEPTH = 4

    def inline_call(self, f, args, env, e, k):
        fn = self.funcs[f]
        if f in self.inline_stack:
            bad(e, f"recursive call of {f}")
        if len(self.inline_stack) >= self.MAX_INLINE_DEPTH:
            bad(e, f"helper calls nested deeper than {self.MAX_INLINE_DEPTH}")
        params, passes_self = fn["params"], False
        if params and params[0][0] == "self":
            if not (isinstance(args[0], c_ast.ID) and args[0].name == "self" and self.cur["lay"] is not None):
                bad(e, "call passing something other than self as self")
            pt = params[0][1]
            if not (isinstance(pt, TPtr) and isinstance(pt.to, TNamed) and pt.to.name == self.cur.get("struct")):
                bad(e, f"helper {f} takes a different struct as self")
            passes_self, args, params = True, args[1:], params[1:]
        for _, pt in params:
            if is_pyobj(pt):
                bad(e, "internal call of a Python-level method")
        if len(args) != len(params):
            bad(e, f"call of {f} with {len(args)} arguments")

        def with_args(atoms, env):
            outer = self.cur
            cur = {"name": outer["name"] + "/" + f, "ret": fn["ret"], "lay": outer["lay"] if passes_self else None,
                   "struct": outer.get("struct") if passes_self else None, "ltypes": {}, "assigned": set(),
                   "kwlists": {}, "nargs": None, "fmt": ""}
            cenv, binds = {}, []
            for (pn, pt), a in zip(params, atoms):
                v = self.fresh(pn)
                binds.append((v, a))
                cenv[pn] = (v, pt)
                cur["ltypes"][pn] = pt
            self.cur = cur
            self.inline_stack.append(f)
            try:
                def end(_env):
                    if fn["ret"] is VOID:
                        return "ret ()"
                    raise Unsupported(f"{f}: control reaches the end of a non-void function")
                body = self.st([fn["node"].body], cenv, end)
                if cur["nargs"] is not None:
                    raise Unsupported(f"{f}: Python argument parsing inside a helper function")
            finally:
                self.inline_stack.pop()
                self.cur = outer
            for v, a in reversed(binds):
                body = bind(f"val {a}", v, body)
            self.inlined.setdefault(f, 0)
            self.inlined[f] += 1
            return self.result(f"/- inlined {f} -/\n{body}", fn["ret"], env, k)
        return self.args_then(args, [t for _, t in params], env, e, with_args)

    def entry_points(self):
        """functions referenced from the module's method / getset / slot tables"""
        names = set()
        funcs = self.funcs
        class V(c_ast.NodeVisitor):
            def visit_ID(v, n):
                if n.name in funcs:
                    names.add(n.name)
        for ext in self.ast.ext:
            if isinstance(ext, c_ast.Decl) and ext.init is not None and not isinstance(ext.type, c_ast.FuncDecl):
                V().visit(ext.init)
        return names

    def skipped(self, f):
        return f.endswith(SKIP_SUFFIX) or f.startswith(SKIP_PREFIX) or f in CONTRACT_FUNCS

    def check_contract_fn(self, name):
        """structural tie for a helper modelled by contract: right signature, only CPython calls on
        PyObject*, no array/pointer arithmetic, exactly one store `*value = v` through the out-pointer"""
        fn = self.funcs[name]
        want = [PYOBJ, TInt(64, False), TPtr(TInt(8, True)), TPtr(TInt(64, False))]
        got = [t for _, t in fn["params"]]
        ok = fn["ret"] == INT and len(got) == 4 and is_pyobj(got[0]) and got[1] == want[1] \
            and isinstance(got[3], TPtr) and got[3].to == want[3].to
        if not ok:
            raise Unsupported(f"contract function {name}: unexpected signature {fn['ret']} {got}")
        out = fn["params"][3][0]
        allowed = {"PyArg_ParseTuple", "PyNumber_Index", "PyLong_AsUnsignedLongLong", "Py_DecRef", "PyErr_Occurred",
                   "PyErr_ExceptionMatches", "PyErr_Clear", "PyErr_SetString"}
        stores = []
        class V(c_ast.NodeVisitor):
            def visit_ArrayRef(v, n):
                bad(n, f"array access in contract function {name}")
            def visit_FuncCall(v, n):
                if not (isinstance(n.name, c_ast.ID) and n.name.name in allowed):
                    bad(n, f"call in contract function {name}")
                v.generic_visit(n)
            def visit_UnaryOp(v, n):
                if n.op == "*":
                    stores.append(n)
                    if not (isinstance(n.expr, c_ast.ID) and n.expr.name == out):
                        bad(n, f"dereference in contract function {name}")
                elif n.op in ("p++", "++", "p--", "--"):
                    bad(n, f"increment in contract function {name}")
                v.generic_visit(n)
            def visit_BinaryOp(v, n):
                if n.op in ("+", "-", "*", "/", "<<", ">>"):
                    bad(n, f"arithmetic in contract function {name}")
                v.generic_visit(n)
        V().visit(fn["node"].body)
        if len(stores) != 1:
            raise Unsupported(f"contract function {name}: expected exactly one store through *{out}")

    # ------------------------------------------------------------- statements
    def st(self, stmts, env, k):
        if not stmts:
            return k(env)
        s, rest = stmts[0], stmts[1:]
        cont = lambda env: self.st(rest, env, k)
        if isinstance(s, c_ast.Compound):
            return self.st(list(s.block_items or []), env, cont)
        if isinstance(s, c_ast.EmptyStatement):
            return cont(env)
        if isinstance(s, c_ast.Decl):
            return self.st_decl(s, env, cont)
        if isinstance(s, c_ast.DeclList):
            return self.st(list(s.decls), env, cont)
        if isinstance(s, c_ast.Return):
            rt = self.cur["ret"]
            if s.expr is None:
                return "ret ()"
            if isinstance(rt, TPtr) and self.is_null(s.expr):
                return f"ret {self.null_of(rt)}"
            def done(a, t, env):
                if isinstance(rt, TPtr):
                    if not isinstance(t, TPtr) or is_pyobj(t) != is_pyobj(rt):
                        bad(s, f"returning {t} from a function returning {rt}")
                    return f"ret {a}"
                return f"ret {conv(a, t, rt, s)}"
            return self.ex(s.expr, env, done)
        if isinstance(s, c_ast.If):
            pa = self.parse_pattern(s)
            if pa is not None:
                return self.st_parse(s, pa, env, cont)
            kT = lambda env: self.st([s.iftrue], env, cont)
            kF = lambda env: self.st([s.iffalse] if s.iffalse is not None else [], env, cont)
            dup = self.dup_sides(s.cond)
            if ("T" not in dup or self.terminates(s.iftrue)) and ("F" not in dup or self.terminates(s.iffalse)):
                return self.branch(s.cond, env, kT, kF)
            return self.cond(s.cond, env, lambda c, env: f"if {c} then\n({kT(env)})\nelse\n({kF(env)})")
        if isinstance(s, c_ast.Switch):
            return self.st_switch(s, env, cont)
        if isinstance(s, c_ast.For):
            return self.st_for(s, env, cont)
        if isinstance(s, (c_ast.FuncCall, c_ast.Assignment, c_ast.UnaryOp)):
            if isinstance(s, c_ast.UnaryOp) and s.op not in ("p++", "++"):
                bad(s, "expression statement")
            return self.ex(s, env, lambda a, t, env: cont(env))
        bad(s, "statement")

    def st_decl(self, d, env, cont):
        t = self.ctype(d.type)
        if isinstance(t, TArr):
            if isinstance(d.init, c_ast.InitList) and isinstance(t.elem, TPtr):
                names = []
                for x in d.init.exprs:
                    if isinstance(x, c_ast.Constant) and x.type == "string":
                        names.append(x.value[1:-1])
                    elif not self.is_null(x):
                        bad(d, "keyword list entry")
                self.cur["kwlists"][d.name] = names
                return cont(env)
            bad(d, "local array")
        if not isinstance(t, (TInt, TPtr)):
            bad(d, f"local of type {t}")
        self.cur["ltypes"][d.name] = t
        env = dict(env)
        env[d.name] = None
        if d.init is None:
            return cont(env)
        return self.ex(c_ast.Assignment("=", c_ast.ID(d.name), d.init, d.coord), env, lambda a, t, env: cont(env))

    def st_switch(self, s, env, cont):
        items = list(s.stmt.block_items or []) if isinstance(s.stmt, c_ast.Compound) else bad(s, "switch body")
        def got(a, t, env):
            t2 = promote(t)
            a2 = conv(a, t, t2, s)
            def chain(i):
                if i == len(items):
                    return cont(env)
                it = items[i]
                if not isinstance(it, (c_ast.Case, c_ast.Default)):
                    bad(it, "statement outside case in switch")
                body = list(it.stmts or [])
                if not body or not isinstance(body[-1], (c_ast.Break, c_ast.Return)):
                    bad(it, "case falling through")
                if isinstance(body[-1], c_ast.Break):
                    body = body[:-1]
                self.no_break(body)
                code = self.st(body, env, cont)
                if isinstance(it, c_ast.Default):
                    if i != len(items) - 1:
                        bad(it, "default that is not the last label")
                    return code
                c = self.const_int(it.expr)
                return f"if {a2} = {lit(c)} then\n({code})\nelse\n({chain(i + 1)})"
            return chain(0)
        return self.ex(s.cond, env, got)

    def no_break(self, stmts, also_return=False):
        class V(c_ast.NodeVisitor):
            def visit_Break(s, n):
                bad(n, "break in an unsupported position")
            def visit_Continue(s, n):
                bad(n, "continue")
            def visit_Goto(s, n):
                bad(n, "goto")
            def visit_Return(s, n):
                if also_return:
                    bad(n, "return inside a loop")
        for x in stmts:
            V().visit(x)

    def st_for(self, s, env, cont):
        ok = (isinstance(s.init, c_ast.DeclList) and len(s.init.decls) == 1 and s.init.decls[0].init is not None
              and self.is_null(s.init.decls[0].init) and self.ctype(s.init.decls[0].type) == INT
              and isinstance(s.cond, c_ast.BinaryOp) and s.cond.op == "<" and isinstance(s.cond.left, c_ast.ID)
              and s.cond.left.name == s.init.decls[0].name
              and isinstance(s.next, c_ast.UnaryOp) and s.next.op in ("++", "p++")
              and isinstance(s.next.expr, c_ast.ID) and s.next.expr.name == s.init.decls[0].name
              and isinstance(s.cond.right, (c_ast.ID, c_ast.Constant)))
        if not ok:
            bad(s, "for loop not of the form `for (int i = 0; i < <local|constant>; ++i)`")
        iv = s.init.decls[0].name
        body = [s.stmt]
        self.no_break(body, also_return=True)
        def bound(n, tn, env):
            if promote(tn) != INT:
                bad(s, "loop bound not of type int")
            n = conv(n, tn, INT, s)
            self.cur["ltypes"][iv] = INT
            def run(accname):
                i, acc = self.fresh(iv), self.fresh("acc")
                e2 = dict(env)
                e2[iv] = (i, INT)
                if accname:
                    e2[accname] = (acc, self.cur["ltypes"][accname])
                final = {}
                def end(e3):
                    final["env"] = e3
                    return f"ret {e3[accname][0]}" if accname else "ret ()"
                code = self.st(body, e2, end)
                changed = [x for x in env if x != iv and final["env"].get(x) != e2.get(x)]
                if final["env"].get(iv) != e2[iv] or (isinstance(s.cond.right, c_ast.ID) and s.cond.right.name in changed):
                    bad(s, "loop body assigns the loop counter or the bound")
                return code, changed, i, acc
            _, changed, _, _ = run(None)
            if len(changed) > 1:
                bad(s, "loop body assigns more than one outer local")
            accname = changed[0] if changed else None
            code, changed2, i, acc = run(accname)
            if changed2 != changed:
                raise AssertionError("unstable loop analysis")
            init = env[accname][0] if accname else "()"
            if accname and env[accname] is None:
                bad(s, "loop accumulator uninitialised")
            r = self.fresh(accname or "u")
            env2 = dict(env)
            if accname:
                env2[accname] = (r, self.cur["ltypes"][accname])
            sigma = "Int" if accname else "Unit"
            return bind(f"forN 8 0 {n} (fun {i} ({acc} : {sigma}) =>\n{code}) {init}", r, cont(env2))
        return self.ex(s.cond.right, env, bound)

    # ------------------------------------------------- PyArg_ParseTuple pattern
    def parse_pattern(self, s):
        c = s.cond
        if isinstance(c, c_ast.UnaryOp) and c.op == "!" and isinstance(c.expr, c_ast.FuncCall) \
                and isinstance(c.expr.name, c_ast.ID) and c.expr.name.name in ("PyArg_ParseTuple", "PyArg_ParseTupleAndKeywords"):
            if s.iffalse is not None or not isinstance(
                    s.iftrue if not isinstance(s.iftrue, c_ast.Compound) else (s.iftrue.block_items or [None])[0], c_ast.Return):
                bad(s, "PyArg_ParseTuple failure branch that does not return immediately")
            return c.expr
        if isinstance(c, c_ast.UnaryOp) and c.op == "!" and isinstance(c.expr, c_ast.FuncCall) \
                and isinstance(c.expr.name, c_ast.ID) and c.expr.name.name in CONTRACT_FUNCS:
            if s.iffalse is not None or not isinstance(
                    s.iftrue if not isinstance(s.iftrue, c_ast.Compound) else (s.iftrue.block_items or [None])[0], c_ast.Return):
                bad(s, "parse_uint_arg failure branch that does not return immediately")
            return c.expr
        class V(c_ast.NodeVisitor):
            def visit_FuncCall(v, n):
                if isinstance(n.name, c_ast.ID) and (n.name.name.startswith("PyArg_Parse") or n.name.name in CONTRACT_FUNCS):
                    bad(n, "PyArg_ParseTuple outside `if (!PyArg_ParseTuple(...)) return X;`")
                v.generic_visit(n)
        V().visit(s.cond)
        return None

    def st_parse_uint(self, s, call, env, cont):
        args = list(call.args.exprs)
        if call.name.name not in self.funcs:
            bad(call, "contract function without definition")
        self.check_contract_fn(call.name.name)
        if len(args) != 4 or not (isinstance(args[0], c_ast.ID) and args[0].name == "args"):
            bad(call, "parse_uint_arg call shape")
        mx = self.const_int(args[1])
        if not 0 <= mx < (1 << 64):
            bad(call, "parse_uint_arg max out of uint64 range")
        vn, vt = self.out_local(args[3], env, TInt(64, False))
        if vt != TInt(64, False):
            bad(call, "parse_uint_arg out-parameter that is not uint64_t")
        if self.cur["nargs"] is not None:
            bad(call, "second argument parse in one function")
        self.cur["nargs"] = 1
        self.cur["fmt"] = f"uint<={mx}"
        fail = self.st([s.iftrue], env, lambda env: bad(s, "failure branch falls through"))
        o, x = self.fresh("o"), self.fresh("p")
        body = self.store(("local", vn, vt), x, env, cont)
        return bind(f"parseUint {mx} a0", o, f"match {o} with\n| none => ({fail})\n| some {x} =>\n{body}")

    def st_parse(self, s, call, env, cont):
        if call.name.name in CONTRACT_FUNCS:
            return self.st_parse_uint(s, call, env, cont)
        args = list(call.args.exprs)
        kw = call.name.name.endswith("AndKeywords")
        fmt_node = args[2 if kw else 1]
        outs = args[4 if kw else 2:]
        if kw:
            kl = args[3].expr if isinstance(args[3], c_ast.Cast) else args[3]
            if not (isinstance(kl, c_ast.ID) and kl.name in self.cur["kwlists"]):
                bad(call, "keyword list")
        if not (isinstance(fmt_node, c_ast.Constant) and fmt_node.type == "string"):
            bad(call, "non-literal format")
        fmt = fmt_node.value[1:-1]
        units, opt, i = [], False, 0
        while i < len(fmt):
            if fmt[i] == "|":
                opt = True
                i += 1
            elif fmt.startswith("y#", i):
                units.append(("y#", opt))
                i += 2
            elif fmt[i] in "nKIHB":
                units.append((fmt[i], opt))
                i += 1
            else:
                bad(call, f"format unit {fmt[i:]!r}")
        if self.cur["nargs"] is not None:
            bad(call, "second PyArg_ParseTuple in one function")
        self.cur["nargs"] = len(units)
        self.cur["fmt"] = fmt
        if kw and len(self.cur["kwlists"][kl.name]) != len(units):
            bad(call, "keyword list length differs from format")
        fail = self.st([s.iftrue], env, lambda env: bad(s, "failure branch falls through"))
        nbytes = [0]
        def unit(j, oi, env):
            if j == len(units):
                if oi != len(outs):
                    bad(call, "number of out-parameters differs from format")
                return cont(env)
            u, optional = units[j]
            o = self.fresh("o")
            if u == "y#":
                pn, pt = self.out_local(outs[oi], env, None)
                ln, lt = self.out_local(outs[oi + 1], env, TInt(64, True))
                self.elem8(pt, call)
                if lt != TInt(64, True):
                    bad(call, "y# length variable that is not Py_ssize_t")
                obj = 10 + nbytes[0]
                nbytes[0] += 1
                m = f"parseBytes {obj} a{j}"
                if optional:
                    if env[pn] is None or env[ln] is None:
                        bad(call, "optional argument without default")
                    m = f"if a{j} = .absent then ret (some ({env[pn][0]}, {env[ln][0]})) else {m}"
                pr = self.fresh("pr")
                body = self.store(("local", pn, pt), f"{pr}.1", env, lambda env: self.store(
                    ("local", ln, lt), f"{pr}.2", env, lambda env: unit(j + 1, oi + 2, env)))
                return bind(m, o, f"match {o} with\n| none => ({fail})\n| some {pr} =>\n{body}")
            bits = {"n": 64, "K": 64, "I": 32, "H": 16, "B": 8}[u]
            vn, vt = self.out_local(outs[oi], env, TInt(bits, False))
            m = f"parseN a{j}" if u == "n" else f"parseMask {1 << bits} a{j}"
            if u == "n" and not vt.signed:
                bad(call, "n into an unsigned variable")
            if optional:
                if env[vn] is None:
                    bad(call, "optional argument without default")
                m = f"if a{j} = .absent then ret (some {env[vn][0]}) else {m}"
            x = self.fresh("p")
            valx = x if u == "n" else conv(x, TInt(bits, False), vt, call)
            body = self.store(("local", vn, vt), valx, env, lambda env: unit(j + 1, oi + 1, env))
            return bind(m, o, f"match {o} with\n| none => ({fail})\n| some {x} =>\n{body}")
        return unit(0, 0, env)

    # -------------------------------------------------------------- functions
    def lean_type(self, t):
        if is_pyobj(t):
            return "PyVal"
        if isinstance(t, TPtr):
            return "Ptr"
        if isinstance(t, TInt):
            return "Int"
        if t is VOID:
            return "Unit"
        raise Unsupported(f"return/parameter type {t}")

    def function(self, name):
        fn = self.funcs[name]
        params = fn["params"]
        lay = None
        env, lparams = {}, []
        self.cur = {"name": name, "ret": fn["ret"], "lay": None, "ltypes": {}, "assigned": set(),
                    "kwlists": {}, "nargs": None, "fmt": ""}
        python_level = False
        for i, (pn, pt) in enumerate(params):
            if i == 0 and pn == "self":
                if not (isinstance(pt, TPtr) and isinstance(pt.to, TNamed) and pt.to.name in self.structs):
                    raise Unsupported(f"{name}: self of type {pt}")
                lay = self.structs[pt.to.name]
                self.cur["lay"] = lay
                self.cur["struct"] = pt.to.name
            elif is_pyobj(pt) or (pn == "closure"):
                python_level = True      # args / kwargs / closure: only reachable through PyArg_ParseTuple
            else:
                env[pn] = (pn, pt)
                self.cur["ltypes"][pn] = pt
                lparams.append(f"({pn} : {self.lean_type(pt)})")
        def end(env):
            if fn["ret"] is VOID:
                return "ret ()"
            raise Unsupported(f"{name}: control reaches the end of a non-void function")
        body = self.st([fn["node"].body], env, end)
        nargs = self.cur["nargs"] or 0
        if python_level:
            lparams = [f"(a{j} : PyArg)" for j in range(nargs)] + lparams
        elif self.cur["nargs"] is not None:
            raise Unsupported(f"{name}: PyArg_ParseTuple in a function without an args parameter")
        sig = f"def {name} {' '.join(lparams)} : CM {self.lean_type(fn['ret'])} :="
        body = "\n".join("  " + l for l in body.split("\n"))
        meta = {"name": name, "nargs": nargs, "fmt": self.cur["fmt"], "struct": self.cur.get("struct"),
                "python_level": python_level}
        return f"/-- `{name}` (format {self.cur['fmt']!r}) -/\n{sig}\n{body}\n", meta

    def emit(self, module, src_rel):
        out = [f"/- GENERATED by tools/extract_c.py from {src_rel} -- do not edit -/",
               "import AQ.Base.CIR", "set_option linter.unusedVariables false", f"namespace AQ.Gen.{module}", "open AQ.C", ""]
        defs, metas = [], []
        entry = self.entry_points()
        helpers = [n for n in self.funcs if not self.skipped(n) and n not in entry]
        for name in self.funcs:
            if self.skipped(name) or name not in entry:
                continue
            d, m = self.function(name)
            defs.append(d)
            metas.append(m)
        used = {m['struct'] for m in metas}
        for sname, lay in self.structs.items():
            if sname not in used:
                continue
            out.append(f"/-- layout of `{sname}`: pointer fields {dict((f, k) for f, (k, _) in lay['pf'].items())}, "
                       f"integer fields {dict((f, k) for f, (k, _) in lay['nf'].items())}, "
                       f"array objects {dict((f, (o, n)) for f, (o, n, _) in lay['arr'].items())} -/")
            sizes = " ∧ ".join(f"s.size {o} = {n}" for _, (o, n, _) in lay["arr"].items()) or "True"
            out.append(f"def {sname}_arrays (s : St) : Prop := {sizes}")
            out.append(f"def {sname}_arraySizes : List (Nat × Int) := [{', '.join(f'({o}, {n})' for _, (o, n, _) in lay['arr'].items())}]")
        out.append("/- helper functions inlined at their call sites (not emitted): " +
                   (", ".join(f"{h} x{self.inlined.get(h, 0)}" for h in helpers) or "none") + " -/")
        lits = " ∧ ".join(f"s.size {o} = {len(s) + 1}" for s, o in self.lits.items()) or "True"
        out.append("/-- string literals used as memory objects (NUL-terminated) -/")
        out.append(f"def LitsOk (s : St) : Prop := {lits}")
        out.append("def lits : List (Nat × String) := [" + ", ".join(f'({o}, "{s}")' for s, o in self.lits.items()) + "]")
        out.append("")
        out += defs
        out.append(f"end AQ.Gen.{module}")
        return "\n".join(out) + "\n", metas


# ------------------------------------------------------------------- driver
FILES = [("_buffer.c", "CBuffer"), ("_crypto.c", "CCrypto")]
GEN = os.path.join(VERIF, "lean", "AQ", "Gen")


def preprocess(path):
    r = subprocess.run(["gcc", "-E", "-P", "-nostdinc", "-I", os.path.join(HERE, "cstubs"), path],
                       capture_output=True, text=True)
    if r.returncode != 0:
        raise Unsupported(f"preprocessor failed on {path}: {r.stderr[-800:]}")
    return r.stdout


def translate(path, module):
    text = preprocess(path)
    try:
        ast = CParser().parse(text, filename=os.path.basename(path))
    except Exception as e:  # pycparser.plyparser.ParseError
        raise Unsupported(f"C parse error in {path}: {e}")
    tr = FileTr(ast)
    return tr.emit(module, os.path.basename(path))


def write_if_changed(path, content):
    if os.path.exists(path) and open(path).read() == content:
        return False
    os.makedirs(os.path.dirname(path), exist_ok=True)
    with open(path, "w") as f:
        f.write(content)
    return True


def run(verbose=False):
    """returns (ok, messages, metas); on an unsupported construct nothing is written for that file"""
    from harness import tree
    import json
    ok, msgs, metas = True, [], {}
    for rel, module in FILES:
        try:
            content, meta = translate(tree.src(rel), module)
        except Unsupported as e:
            ok = False
            msgs.append(f"{rel}: {e}")
            continue
        metas[module] = meta
        ch = write_if_changed(os.path.join(GEN, module + ".lean"), content)
        if verbose:
            msgs.append(f"{rel}: {len(meta)} functions -> AQ/Gen/{module}.lean ({'written' if ch else 'unchanged'})")
    if ok:
        write_if_changed(os.path.join(GEN, "c_meta.json"), json.dumps(metas, indent=1, sort_keys=True) + "\n")
    return ok, msgs, metas


if __name__ == "__main__":
    ok, msgs, _ = run(verbose=True)
    for m in msgs:
        print(m)
    sys.exit(0 if ok else 3)
