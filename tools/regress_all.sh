#!/bin/bash
# tools/regress_all.sh [workers] [props...] : re-trial the whole corpus (seeded/ must be reported with a concrete replay,
# harmless/ must be quiet) in parallel, each worker in its own copy of /verif and its own scratch worktree of /repo.
N=${1:-5}; shift
PROPS=${@:-C01 C02 C03 C04 C05 C06 C07 C08 C09 C10 C11 C12 C13 C14 C15 C16 C17 C18 C19 C20}
V=$(cd "$(dirname "$0")/.." && pwd)
i=0; declare -a L
for p in $PROPS; do L[$((i % N))]="${L[$((i % N))]} $p"; i=$((i+1)); done
for w in $(seq 0 $((N-1))); do
  ( rm -rf /tmp/reg-$w; cp -r $V /tmp/reg-$w
    for p in ${L[$w]}; do SEEDREPO=/tmp/seedrepo-reg$w /tmp/reg-$w/tools/regress.sh $p; done > /tmp/reg-$w.log 2>&1
    git -C /repo worktree remove --force /tmp/seedrepo-reg$w 2>/dev/null; rm -rf /tmp/reg-$w ) &
done
wait
cat /tmp/reg-[0-9]*.log | grep -E "^seeded|^ref" > /tmp/regress_all.log
echo "seeded reported with replay: $(grep -c '^seeded.*rc=1.*nofail=0' /tmp/regress_all.log) / $(grep -c '^seeded' /tmp/regress_all.log); harmless quiet: $(grep -c '^ref.*rc=0' /tmp/regress_all.log) / $(grep -c '^ref' /tmp/regress_all.log)"
grep -E "^seeded" /tmp/regress_all.log | grep -v "rc=1.*nofail=0"; grep -E "^ref" /tmp/regress_all.log | grep -v "rc=0"
