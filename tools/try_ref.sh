#!/bin/bash
# tools/try_ref.sh <prop> <dir with patch.diff> : harmless-rewrite (false alarm) trial on the scratch worktree /tmp/seedrepo
P=$1; O=$2; TAG=ref_${P}_$(basename $O)
D=${SEEDREPO:-/tmp/seedrepo}
V=${VERIF_DIR:-$(cd "$(dirname "$0")/.." && pwd)}
[ -d $D ] || { git -C /repo worktree add -q --detach $D HEAD && cp /repo/src/aioquic/*.so $D/src/aioquic/; }
cd $D && git checkout -q -- . && git checkout -q --detach $(git -C /repo rev-parse HEAD) || exit 2
CC=$(grep -c '^+++ b/.*\.c$' $O/patch.diff)
rb() { if [ "$CC" != "0" ]; then (cd $D && /venv/bin/python setup.py build_ext --inplace >/dev/null 2>&1; rm -rf build); fi; }
git apply $O/patch.diff || { echo "APPLY-FAIL"; exit 2; }
rb
cd $V && VERIF_REPO=$D ./check $P > /tmp/$TAG.log 2>&1; rc=$?
cd $D && git checkout -q -- .; rb
echo "ref $P $(basename $O): rc=$rc violations=$(grep -c VIOLATION /tmp/$TAG.log) nofail=$(grep -c no-failing-input-found /tmp/$TAG.log)"
