/* stub: types come from Python.h */
