/* stub for tools/extract_c.py */
typedef struct evp_cipher_st EVP_CIPHER;
typedef struct evp_cipher_ctx_st EVP_CIPHER_CTX;
#define EVP_CTRL_CCM_SET_IVLEN 0x9
#define EVP_CTRL_CCM_GET_TAG 0x10
#define EVP_CTRL_CCM_SET_TAG 0x11
EVP_CIPHER_CTX *EVP_CIPHER_CTX_new(void);
void EVP_CIPHER_CTX_free(EVP_CIPHER_CTX *);
const EVP_CIPHER *EVP_get_cipherbyname(const char *);
int EVP_CipherInit_ex(EVP_CIPHER_CTX *, const EVP_CIPHER *, void *, const unsigned char *, const unsigned char *, int);
int EVP_CIPHER_CTX_set_key_length(EVP_CIPHER_CTX *, int);
int EVP_CIPHER_CTX_ctrl(EVP_CIPHER_CTX *, int, int, void *);
int EVP_CipherUpdate(EVP_CIPHER_CTX *, unsigned char *, int *, const unsigned char *, int);
int EVP_CipherFinal_ex(EVP_CIPHER_CTX *, unsigned char *, int *);
int EVP_add_cipher(const EVP_CIPHER *);
const EVP_CIPHER *EVP_aes_128_ecb(void); const EVP_CIPHER *EVP_aes_128_gcm(void);
const EVP_CIPHER *EVP_aes_256_ecb(void); const EVP_CIPHER *EVP_aes_256_gcm(void);
