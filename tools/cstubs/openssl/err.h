void ERR_clear_error(void);
