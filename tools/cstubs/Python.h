/* stub for tools/extract_c.py: only what _buffer.c/_crypto.c need to preprocess and parse */
#ifndef STUB_PYTHON_H
#define STUB_PYTHON_H
typedef long Py_ssize_t;
typedef unsigned long size_t;
typedef unsigned char uint8_t;
typedef unsigned short uint16_t;
typedef unsigned int uint32_t;
typedef unsigned long uint64_t;
typedef struct _object PyObject;
typedef struct _typeobject PyTypeObject;
typedef void (*freefunc)(void *);
typedef PyObject *(*PyCFunction)(PyObject *, PyObject *);
typedef PyObject *(*getter)(PyObject *, void *);
typedef int (*setter)(PyObject *, PyObject *, void *);
typedef struct { const char *ml_name; PyCFunction ml_meth; int ml_flags; const char *ml_doc; } PyMethodDef;
typedef struct { const char *name; getter get; setter set; const char *doc; void *closure; } PyGetSetDef;
typedef struct { int slot; void *pfunc; } PyType_Slot;
typedef struct { const char *name; int basicsize; int itemsize; unsigned int flags; PyType_Slot *slots; } PyType_Spec;
struct PyModuleDef { int m_base; const char *m_name; const char *m_doc; Py_ssize_t m_size; PyMethodDef *m_methods; void *m_reload; void *m_traverse; void *m_clear; void *m_free; };
#define NULL ((void*)0)
#define PyObject_HEAD int ob_head;
#define PyModuleDef_HEAD_INIT 0
#define PyMODINIT_FUNC PyObject *
#define METH_VARARGS 1
#define Py_TPFLAGS_DEFAULT 0
#define Py_tp_dealloc 52
#define Py_tp_doc 56
#define Py_tp_getset 73
#define Py_tp_init 60
#define Py_tp_methods 64
#define Py_tp_free 74
extern PyObject *Py_None, *Py_True, *Py_False;
extern PyObject *PyExc_ValueError;
#define Py_RETURN_NONE return Py_None
#define Py_RETURN_TRUE return Py_True
#define Py_RETURN_FALSE return Py_False
#define Py_INCREF(x) Py_IncRef((PyObject*)(x))
#define Py_DECREF(x) Py_DecRef((PyObject*)(x))
#define Py_TYPE(x) Py_TYPE_((PyObject*)(x))
void Py_IncRef(PyObject *); void Py_DecRef(PyObject *); PyTypeObject *Py_TYPE_(PyObject *);
int PyArg_ParseTuple(PyObject *, const char *, ...);
int PyArg_ParseTupleAndKeywords(PyObject *, PyObject *, const char *, char **, ...);
void PyErr_SetString(PyObject *, const char *);
PyObject *PyErr_NoMemory(void);
PyObject *PyErr_Format(PyObject *, const char *, ...);
PyObject *PyErr_NewException(const char *, PyObject *, PyObject *);
PyObject *PyBytes_FromStringAndSize(const char *, Py_ssize_t);
PyObject *PyNumber_Index(PyObject *);
unsigned long long PyLong_AsUnsignedLongLong(PyObject *);
PyObject *PyErr_Occurred(void);
int PyErr_ExceptionMatches(PyObject *);
void PyErr_Clear(void);
extern PyObject *PyExc_OverflowError;
PyObject *PyLong_FromUnsignedLong(unsigned long);
PyObject *PyLong_FromUnsignedLongLong(unsigned long);
PyObject *PyLong_FromSsize_t(Py_ssize_t);
PyObject *Py_BuildValue(const char *, ...);
void *PyType_GetSlot(PyTypeObject *, int);
PyObject *PyType_FromSpec(PyType_Spec *);
PyObject *PyModule_Create(struct PyModuleDef *);
int PyModule_AddObject(PyObject *, const char *, PyObject *);
void *malloc(size_t); void free(void *);
void *memcpy(void *, const void *, size_t);
void *memset(void *, int, size_t);
int memcmp(const void *, const void *, size_t);
#endif
