#!/venv/bin/python
"""Translator for C05: parses aioquic's receive path with `ast` and emits
lean/AQ/Gen/RecvTables.lean:

  * the frame handler table (type -> handler name, allowed epochs) — by EVALUATION: read from
    `conn._QuicConnection__frame_handlers` of a connection constructed in the tree under test,
  * NON_ACK_ELICITING_FRAME_TYPES, PROBING_FRAME_TYPES (packet.py),
  * END_STATES,
  * every `except` clause on the receive path: which exception classes are
    caught around which call and what the clause does (raise
    QuicConnectionError(code) / pass / return / continue / close),
  * the exception class hierarchy of the classes named in those clauses.

Usage: tools/extract_recv.py [--repo /repo] [--out lean/AQ/Gen/RecvTables.lean] [--check]
`--check` exits 1 when the file on disk differs from what the source says.
"""
import argparse
import ast
import os
import re
import sys

import json
import subprocess

HERE = os.path.dirname(os.path.dirname(os.path.abspath(__file__)))
sys.path.insert(0, os.path.join(HERE, "tools"))
import ast_normalize  # noqa: E402

# the methods of QuicConnection that are units of the models (or deliberately outside them).  A
# private method that is NOT listed here is a helper somebody factored out: it is inlined at its
# call sites before the structure of the extracted functions is classified.
KNOWN_METHODS = """__init__ configuration original_destination_connection_id change_connection_id close connect
datagrams_to_send get_next_available_stream_id get_timer handle_timer next_event _idle_timeout receive_datagram
request_key_update reset_stream send_ping send_datagram_frame send_stream_data stop_stream _alpn_handler
_assert_stream_can_receive _assert_stream_can_send _consume_peer_cid _close_begin _close_end _connect _discard_epoch
_find_network_path _get_or_create_stream _get_or_create_stream_for_send _handle_session_ticket _initialize
_handle_ack_frame _handle_connection_close_frame _handle_crypto_frame _handle_data_blocked_frame
_handle_datagram_frame _handle_handshake_done_frame _handle_max_data_frame _handle_max_stream_data_frame
_handle_max_streams_bidi_frame _handle_max_streams_uni_frame _handle_new_connection_id_frame _handle_new_token_frame
_handle_padding_frame _handle_path_challenge_frame _handle_path_response_frame _handle_ping_frame
_handle_reset_stream_frame _handle_retire_connection_id_frame _handle_stop_sending_frame _handle_stream_frame
_handle_stream_data_blocked_frame _handle_streams_blocked_frame _log_key_retired _log_key_updated _on_ack_delivery
_on_connection_limit_delivery _on_handshake_done_delivery _on_max_stream_data_delivery _on_new_connection_id_delivery
_on_ping_delivery _on_retire_connection_id_delivery _payload_received _receive_retry_packet
_receive_version_negotiation_packet _replenish_connection_ids _retire_peer_cid _push_crypto_data _send_probe
_parse_transport_parameters _serialize_transport_parameters _set_state _stream_can_receive _stream_can_send
_unblock_streams _update_traffic_key _add_local_challenge _write_application _write_handshake _write_ack_frame
_write_connection_close_frame _write_connection_limits _write_crypto_frame _write_datagram_frame
_write_handshake_done_frame _write_new_connection_id_frame _write_path_challenge_frame _write_path_response_frame
_write_ping_frame _write_reset_stream_frame _write_retire_connection_id_frame _write_stop_sending_frame
_write_stream_frame _write_stream_limits _write_streams_blocked_frame""".split()

EVAL_SCRIPT = r"""
import builtins, json
from aioquic.quic.configuration import QuicConfiguration
from aioquic.quic import connection as C, packet as P, crypto as K, stream as S, packet_builder as B
from aioquic import tls as T, buffer as F
conn = C.QuicConnection(configuration=QuicConfiguration(is_client=True))
table = getattr(conn, "_QuicConnection__frame_handlers")
order = ["INITIAL", "HANDSHAKE", "ZERO_RTT", "ONE_RTT"]
rows = []
for t in sorted(table):
    h, eps = table[t]
    if getattr(h, "__self__", None) is not conn:
        raise SystemExit("handler of frame type %r is not a bound method of the connection" % t)
    names = sorted((e.name for e in eps), key=order.index)
    rows.append([int(t), h.__func__.__name__, names])
def find(name):
    for m in (C, P, K, S, B, T, F, builtins):
        if isinstance(getattr(m, name, None), type):
            return getattr(m, name)
    raise SystemExit("unknown exception class " + name)
anc = {}
for name in CLASSES:
    anc[name] = [c.__name__ for c in find(name).__mro__ if c not in (object, BaseException)]
print(json.dumps({
    "rows": rows,
    "nae": sorted(int(x) for x in P.NON_ACK_ELICITING_FRAME_TYPES),
    "probing": sorted(int(x) for x in P.PROBING_FRAME_TYPES),
    "end_states": [s.name for s in sorted(C.END_STATES, key=lambda s: s.value)],
    "error_codes": [[e.name, int(e)] for e in P.QuicErrorCode],
    "frame_types": {e.name: int(e) for e in P.QuicFrameType},
    "ancestors": anc,
}))
"""


def evaluate(pythonpath, classes):
    """EVALUATION instead of syntax: the frame-handler table (type -> handler method, allowed epochs),
    the frame-type sets, END_STATES, the error codes and the exception hierarchy are read from the
    imported modules / a constructed connection of the tree under test"""
    env = dict(os.environ, PYTHONPATH=pythonpath)
    code = "CLASSES = %r\n%s" % (sorted(classes), EVAL_SCRIPT)
    r = subprocess.run([sys.executable, "-c", code], capture_output=True, text=True, env=env, cwd="/")
    if r.returncode != 0:
        raise ExtractError("evaluation of the tree failed: " + (r.stderr or r.stdout)[-600:])
    return json.loads(r.stdout.strip().splitlines()[-1])


def norm_method(conn, name, ifelse=False):
    """method `name` of QuicConnection after normalisation (helpers inlined, aliases, flag idiom)"""
    for node in conn.body:
        if isinstance(node, ast.ClassDef) and node.name == "QuicConnection":
            try:
                fn, _ = ast_normalize.normalize(node, find_method(conn, "QuicConnection", name), KNOWN_METHODS,
                                                ifelse=ifelse)
            except ast_normalize.NormalizeError as e:
                raise ExtractError(f"{name}: cannot normalise: {e}")
            return fn
    raise ExtractError("class QuicConnection")


class ExtractError(Exception):
    pass


def const_value(node, enums):
    """Constant -> its value; QuicErrorCode.X -> "X" (resolved by evaluation later); a + b -> a"""
    if isinstance(node, ast.Constant):
        return node.value
    if isinstance(node, ast.Attribute) and isinstance(node.value, ast.Name) and node.value.id == "QuicErrorCode":
        return node.attr
    if isinstance(node, ast.BinOp) and isinstance(node.op, ast.Add):
        a = const_value(node.left, enums)
        if a is not None:
            return a     # CRYPTO_ERROR + alert description: the base code
    return None


def find_method(tree, cls, name):
    for node in tree.body:
        if isinstance(node, ast.ClassDef) and node.name == cls:
            for st in node.body:
                if isinstance(st, ast.FunctionDef) and st.name == name:
                    return st
    raise ExtractError(f"{cls}.{name}")


def exc_names(t):
    if t is None:
        return ["BaseException"]
    if isinstance(t, ast.Tuple):
        return [n for e in t.elts for n in exc_names(e)]
    if isinstance(t, ast.Attribute):
        return [t.attr]
    return [t.id]


def clause_action(handler, enums):
    """('raise-conn', code) | ('pass',) | ('return',) | ('continue',) | ('close',) | ('assign',)"""
    for st in handler.body:
        if isinstance(st, ast.Raise) and isinstance(st.exc, ast.Call) and getattr(st.exc.func, "id", "") == "QuicConnectionError":
            for kw in st.exc.keywords:
                if kw.arg == "error_code":
                    return ("raise-conn", const_value(kw.value, enums))
        if isinstance(st, ast.Raise):
            return ("raise-other", None)
    last = handler.body[-1]
    if isinstance(last, ast.Pass):
        return ("pass", None)
    if isinstance(last, ast.Return):
        return ("return", None)
    if isinstance(last, (ast.Continue, ast.Break)):
        return ("continue", None)
    if isinstance(last, ast.Expr) and isinstance(last.value, ast.Call) and getattr(last.value.func, "attr", "") == "close":
        return ("close", None)
    if isinstance(last, ast.Assign):
        return ("assign", None)
    raise ExtractError("unknown except body: " + ast.dump(last)[:120])


def guarded_call(try_node):
    """name of the (last) call / subscript guarded by the try body"""
    names = []
    for st in try_node.body:
        for n in ast.walk(st):
            if isinstance(n, ast.Call):
                f = n.func
                names.append(f.attr if isinstance(f, ast.Attribute) else getattr(f, "id", "?"))
            elif isinstance(n, ast.Subscript) and isinstance(n.value, ast.Attribute):
                names.append("[" + n.value.attr.split("__")[-1] + "]")
    pri = ["_write_connection_close_frame", "_write_handshake",
           "frame_handler", "_payload_received", "decrypt_packet", "pull_quic_header", "handle_message",
           "pull_quic_transport_parameters", "handle_frame", "handle_reset", "[frame_handlers]", "pop", "decode",
           "pull_uint_var", "popleft"]
    for p in pri:
        if p in names:
            return p
    return names[-1] if names else "?"


def except_clauses(fn, enums):
    out = []
    for n in ast.walk(fn):
        if isinstance(n, ast.Try) and n.handlers:
            g = guarded_call(n)
            for h in n.handlers:
                act, code = clause_action(h, enums)
                for cls in exc_names(h.type):
                    out.append((fn.name, g, cls, act, code))
    return out


def close_start_packet_guarded(conn):
    """datagrams_to_send, close path: is the `builder.start_packet(...)` call inside the
    `try … except QuicPacketBuilderStop` that guards `_write_connection_close_frame`?"""
    fn = norm_method(conn, "datagrams_to_send")
    found = None
    for n in ast.walk(fn):
        if isinstance(n, ast.Try) and n.handlers and guarded_call(n) == "_write_connection_close_frame":
            names = [getattr(c.func, "attr", "") for st in n.body for c in ast.walk(st) if isinstance(c, ast.Call)]
            found = "start_packet" in names
    if found is None:
        raise ExtractError("datagrams_to_send: no try around _write_connection_close_frame")
    # every start_packet call of the function must be inside some try that catches the stop
    guarded_ids = set()
    for n in ast.walk(fn):
        if isinstance(n, ast.Try) and any("QuicPacketBuilderStop" in exc_names(h.type) for h in n.handlers):
            for st in n.body:
                for c in ast.walk(st):
                    guarded_ids.add(id(c))
    for c in ast.walk(fn):
        if isinstance(c, ast.Call) and getattr(c.func, "attr", "") == "start_packet" and id(c) not in guarded_ids:
            found = False
    return found


def alpn_lookup_guarded(conn):
    """`_alpn_handler` (TLS callback, runs inside receive_datagram): every subscript of
    `self._cryptos_initial[...]` — a dict keyed by configuration.supported_versions — sits under an
    `if`/`elif` whose test contains `<x> in self._configuration.supported_versions`"""
    fn = norm_method(conn, "_alpn_handler", ifelse=True)

    def tests_membership(test):
        """+1: the test implies membership in supported_versions, -1: it implies non-membership"""
        if isinstance(test, ast.UnaryOp) and isinstance(test.op, ast.Not):
            return -tests_membership(test.operand)
        if isinstance(test, ast.BoolOp) and isinstance(test.op, ast.And):
            return 1 if any(tests_membership(v) == 1 for v in test.values) else 0
        if isinstance(test, ast.BoolOp) and isinstance(test.op, ast.Or):
            return -1 if any(tests_membership(v) == -1 for v in test.values) and len(test.values) == 1 else 0
        if isinstance(test, ast.Compare) and len(test.ops) == 1 and any(
                isinstance(c, ast.Attribute) and c.attr == "supported_versions" for c in test.comparators):
            if isinstance(test.ops[0], ast.In):
                return 1
            if isinstance(test.ops[0], ast.NotIn):
                return -1
        return 0

    ok = True
    seen = False

    def walk(stmts, guarded):
        nonlocal ok, seen
        for st in stmts:
            if isinstance(st, ast.If):
                m = tests_membership(st.test)
                walk(st.body, guarded or m == 1)
                walk(st.orelse, guarded or m == -1)
            elif isinstance(st, (ast.For, ast.While, ast.With, ast.Try)):
                walk(st.body, guarded)
                walk(getattr(st, "orelse", []), guarded)
            else:
                for n in ast.walk(st):
                    if isinstance(n, ast.Subscript) and isinstance(n.value, ast.Attribute) \
                            and n.value.attr == "_cryptos_initial":
                        seen = True
                        if not guarded:
                            ok = False
    walk(fn.body, False)
    if not seen:
        raise ExtractError("_alpn_handler: no _cryptos_initial lookup")
    return ok


def change_cid_raises(conn):
    """what `change_connection_id()` — called by receive_datagram's migration block — can raise,
    by situation: "empty" (no spare peer CID), "available", "always".  A `raise` (or the unguarded
    `pop(0)` of `_consume_peer_cid`) is attributed to the branch of the `if self._peer_cid_available`
    test it sits in."""
    fn = norm_method(conn, "change_connection_id")
    out = []

    def is_avail(t):
        return isinstance(t, ast.Attribute) and t.attr == "_peer_cid_available"

    def walk(stmts, sit):
        for st in stmts:
            if isinstance(st, ast.If):
                t = st.test
                if is_avail(t):
                    walk(st.body, "available" if sit == "always" else sit)
                    walk(st.orelse, "empty" if sit == "always" else sit)
                elif isinstance(t, ast.UnaryOp) and isinstance(t.op, ast.Not) and is_avail(t.operand):
                    walk(st.body, "empty" if sit == "always" else sit)
                    walk(st.orelse, "available" if sit == "always" else sit)
                    # statements after an `if not available: raise/return` run only when available
                    if st.body and isinstance(st.body[-1], (ast.Raise, ast.Return)) and sit == "always":
                        rest = stmts[stmts.index(st) + 1:]
                        walk(rest, "available")
                        return
                else:
                    walk(st.body, sit)
                    walk(st.orelse, sit)
            elif isinstance(st, ast.Raise):
                exc = st.exc
                name = "Exception"
                if isinstance(exc, ast.Call):
                    exc = exc.func
                if isinstance(exc, ast.Name):
                    name = exc.id
                elif isinstance(exc, ast.Attribute):
                    name = exc.attr
                out.append((sit, name))
            elif isinstance(st, (ast.Try, ast.With, ast.For, ast.While)):
                raise ExtractError("change_connection_id: unexpected control flow")
            else:
                for n in ast.walk(st):
                    if isinstance(n, ast.Assert):
                        out.append((sit, "AssertionError"))
                    if isinstance(n, ast.Call) and getattr(n.func, "attr", "") == "_consume_peer_cid" \
                            and sit != "available":
                        out.append(("empty", "IndexError"))     # pop(0) on an empty list
    walk(fn.body, "always")
    # the helpers it calls must not raise on their own
    for helper in ("_retire_peer_cid", "_consume_peer_cid"):
        h = norm_method(conn, helper)
        for n in ast.walk(h):
            if isinstance(n, (ast.Raise, ast.Assert)):
                out.append(("always", "Exception"))
    return out


EPOCH_LEAN = {"INITIAL": ".initial", "ZERO_RTT": ".zeroRtt", "HANDSHAKE": ".handshake", "ONE_RTT": ".oneRtt"}
FUNCS = ["receive_datagram", "_payload_received", "_handle_crypto_frame", "_handle_connection_close_frame",
         "_handle_path_response_frame", "_handle_reset_stream_frame", "_handle_stream_frame",
         "_parse_transport_parameters", "next_event", "datagrams_to_send", "_write_application"]


def generate(repo, pythonpath=None):
    src = os.path.join(repo, "src", "aioquic")
    conn = ast.parse(open(os.path.join(src, "quic", "connection.py")).read())
    clauses = []
    for f in FUNCS:
        clauses += [(FUNCS.index(f),) + c for c in except_clauses(norm_method(conn, f), None)]
    # canonical order: by function, then by guarded call; clauses of one try keep their source order
    # (first match wins), tries guarding the same call keep the order of the normalised source
    clauses = [c[1:] for c in sorted(clauses, key=lambda c: (c[0], c[2]))]
    classes = sorted({c for _, _, c, _, _ in clauses} | {
        "BufferReadError", "BufferWriteError", "StreamFinishedError", "FinalSizeError", "QuicConnectionError", "Alert",
        "QuicPacketBuilderStop", "CryptoError", "KeyUnavailableError", "ValueError", "KeyError", "IndexError",
        "AssertionError", "TypeError", "UnicodeDecodeError", "OverflowError", "UnboundLocalError",
        "NotImplementedError", "AttributeError", "MemoryError", "RecursionError"})
    ev = evaluate(pythonpath or os.path.join(repo, "src"), classes)
    rows = [(t, h, ep) for t, h, ep in ev["rows"]]
    nae, prob, end_states = ev["nae"], ev["probing"], ev["end_states"]
    anc = ev["ancestors"]
    # error codes of `raise QuicConnectionError(error_code=QuicErrorCode.X)` in the clauses: by name
    codes = dict(ev["error_codes"])
    clauses = [(fn, g, cls, act, codes[code] if isinstance(code, str) else code) for fn, g, cls, act, code in clauses]
    L = []
    L.append("/- GENERATED by tools/extract_recv.py from src/aioquic/quic/{connection,packet}.py — do not edit. -/")
    L.append("namespace AQ.Gen.Recv")
    L.append("")
    L.append("inductive Epoch where\n  | initial | zeroRtt | handshake | oneRtt\n  deriving DecidableEq, Repr, Inhabited")
    L.append("")
    L.append("/-- `QuicConnection.__frame_handlers`: frame type, handler method, allowed epochs -/")
    L.append("def handlerTable : List (Nat × String × List Epoch) := [")
    L.append(",\n".join("  (0x%02X, \"%s\", [%s])" % (t, h, ", ".join(EPOCH_LEAN[e] for e in ep)) for t, h, ep in rows))
    L.append("]")
    L.append("")
    L.append("def nonAckEliciting : List Nat := [%s]" % ", ".join("0x%02X" % x for x in nae))
    L.append("def probing : List Nat := [%s]" % ", ".join("0x%02X" % x for x in prob))
    L.append("def endStates : List String := [%s]" % ", ".join('"%s"' % s for s in end_states))
    L.append("")
    L.append("inductive Action where\n  | raiseConn (code : Nat) | raiseOther | pass | ret | cont | close | assign\n  deriving DecidableEq, Repr")
    L.append("")
    L.append("structure Clause where\n  fn : String\n  guarded : String\n  cls : String\n  action : Action\n  deriving DecidableEq, Repr")
    L.append("")
    actmap = {"pass": ".pass", "return": ".ret", "continue": ".cont", "close": ".close", "assign": ".assign",
              "raise-other": ".raiseOther"}
    L.append("/-- every `except` clause of the receive path, in source order -/")
    L.append("def clauses : List Clause := [")
    cl = []
    for fn, g, cls, act, code in clauses:
        a = f"(.raiseConn 0x{code:X})" if act == "raise-conn" else actmap[act]
        cl.append(f'  ⟨"{fn}", "{g}", "{cls}", {a}⟩')
    L.append(",\n".join(cl))
    L.append("]")
    L.append("")
    L.append("/-- exception class, its ancestors (nearest first, itself included) -/")
    L.append("def ancestors : List (String × List String) := [")
    L.append(",\n".join('  ("%s", [%s])' % (c, ", ".join('"%s"' % a for a in anc[c])) for c in classes))
    L.append("]")
    L.append("")
    L.append("/-- `_alpn_handler`: the `_cryptos_initial[version]` lookup is guarded by")
    L.append("    `version in self._configuration.supported_versions` -/")
    L.append("def alpnLookupGuarded : Bool := %s" % ("true" if alpn_lookup_guarded(conn) else "false"))
    L.append("")
    L.append("/-- `datagrams_to_send`, close path: `builder.start_packet(...)` is inside the try that catches")
    L.append("    QuicPacketBuilderStop -/")
    L.append("def closeStartPacketGuarded : Bool := %s" % ("true" if close_start_packet_guarded(conn) else "false"))
    L.append("")
    L.append("/-- `change_connection_id()` (called by the migration block of receive_datagram): the")
    L.append("    exceptions it raises, by situation \"empty\" / \"available\" / \"always\" -/")
    L.append("def changeCidRaises : List (String × String) := [%s]" % ", ".join(
        '("%s", "%s")' % x for x in change_cid_raises(conn)))
    L.append("")
    L.append("def errorCodes : List (String × Nat) := [%s]" % ", ".join('("%s", 0x%X)' % (k, v) for k, v in ev["error_codes"]))
    L.append("")
    L.append("end AQ.Gen.Recv")
    return "\n".join(L) + "\n"


def main():
    ap = argparse.ArgumentParser()
    ap.add_argument("--repo", default=os.environ.get("VERIF_REPO", "/repo"))
    ap.add_argument("--out", default=os.path.join(HERE, "lean", "AQ", "Gen", "RecvTables.lean"))
    ap.add_argument("--pythonpath", default=None, help="where to import the tree's aioquic from (default <repo>/src)")
    ap.add_argument("--check", action="store_true")
    a = ap.parse_args()
    text = generate(a.repo, a.pythonpath)
    old = open(a.out).read() if os.path.exists(a.out) else None
    if a.check:
        sys.exit(0 if old == text else 1)
    if old != text:
        os.makedirs(os.path.dirname(a.out), exist_ok=True)
        open(a.out, "w").write(text)
        print("wrote", a.out)


if __name__ == "__main__":
    main()
