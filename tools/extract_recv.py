#!/venv/bin/python
"""Translator for C05: parses aioquic's receive path with `ast` and emits
lean/AQ/Gen/RecvTables.lean:

  * the frame handler table of QuicConnection.__init__ (type -> handler name,
    allowed epochs),
  * NON_ACK_ELICITING_FRAME_TYPES, PROBING_FRAME_TYPES (packet.py),
  * END_STATES,
  * every `except` clause on the receive path: which exception classes are
    caught around which call and what the clause does (raise
    QuicConnectionError(code) / pass / return / continue / close),
  * the exception class hierarchy of the classes named in those clauses.

Usage: tools/extract_recv.py [--repo /repo] [--out lean/AQ/Gen/RecvTables.lean] [--check]
`--check` exits 1 when the file on disk differs from what the source says.
"""
import argparse
import ast
import os
import re
import sys

HERE = os.path.dirname(os.path.dirname(os.path.abspath(__file__)))


class ExtractError(Exception):
    pass


def enum_values(tree, cls):
    for node in tree.body:
        if isinstance(node, ast.ClassDef) and node.name == cls:
            out = {}
            for st in node.body:
                if isinstance(st, ast.Assign) and isinstance(st.value, ast.Constant):
                    out[st.targets[0].id] = st.value.value
            return out
    raise ExtractError(cls)


def const_value(node, enums):
    """int value of Constant / QuicFrameType.X / QuicErrorCode.X / a + b"""
    if isinstance(node, ast.Constant):
        return node.value
    if isinstance(node, ast.Attribute) and isinstance(node.value, ast.Name) and node.value.id in enums:
        return enums[node.value.id][node.attr]
    if isinstance(node, ast.BinOp) and isinstance(node.op, ast.Add):
        a = const_value(node.left, enums)
        if a is not None:
            return a     # CRYPTO_ERROR + alert description: the base code
    return None


def frozenset_members(tree, name, enums):
    for node in tree.body:
        if isinstance(node, ast.Assign) and getattr(node.targets[0], "id", None) == name:
            call = node.value
            if not (isinstance(call, ast.Call) and call.func.id == "frozenset"):
                raise ExtractError(name)
            return [const_value(e, enums) if not (isinstance(e, ast.Attribute) and e.value.id == "QuicConnectionState")
                    else e.attr for e in call.args[0].elts]
    raise ExtractError(name)


def find_method(tree, cls, name):
    for node in tree.body:
        if isinstance(node, ast.ClassDef) and node.name == cls:
            for st in node.body:
                if isinstance(st, ast.FunctionDef) and st.name == name:
                    return st
    raise ExtractError(f"{cls}.{name}")


def handler_table(init, enums, shortcuts):
    for st in ast.walk(init):
        if isinstance(st, ast.Assign) and isinstance(st.targets[0], ast.Attribute) and \
                st.targets[0].attr.endswith("__frame_handlers"):
            rows = []
            for k, v in zip(st.value.keys, st.value.values):
                ftype = const_value(k, enums)
                h, ep = v.elts
                if not (isinstance(h, ast.Attribute) and isinstance(ep, ast.Call) and ep.func.id == "EPOCHS"):
                    raise ExtractError("handler row")
                rows.append((ftype, h.attr, [shortcuts[c] for c in ep.args[0].value]))
            return rows
    raise ExtractError("__frame_handlers")


def exc_names(t):
    if t is None:
        return ["BaseException"]
    if isinstance(t, ast.Tuple):
        return [n for e in t.elts for n in exc_names(e)]
    if isinstance(t, ast.Attribute):
        return [t.attr]
    return [t.id]


def clause_action(handler, enums):
    """('raise-conn', code) | ('pass',) | ('return',) | ('continue',) | ('close',) | ('assign',)"""
    for st in handler.body:
        if isinstance(st, ast.Raise) and isinstance(st.exc, ast.Call) and getattr(st.exc.func, "id", "") == "QuicConnectionError":
            for kw in st.exc.keywords:
                if kw.arg == "error_code":
                    return ("raise-conn", const_value(kw.value, enums))
        if isinstance(st, ast.Raise):
            return ("raise-other", None)
    last = handler.body[-1]
    if isinstance(last, ast.Pass):
        return ("pass", None)
    if isinstance(last, ast.Return):
        return ("return", None)
    if isinstance(last, (ast.Continue, ast.Break)):
        return ("continue", None)
    if isinstance(last, ast.Expr) and isinstance(last.value, ast.Call) and getattr(last.value.func, "attr", "") == "close":
        return ("close", None)
    if isinstance(last, ast.Assign):
        return ("assign", None)
    raise ExtractError("unknown except body: " + ast.dump(last)[:120])


def guarded_call(try_node):
    """name of the (last) call / subscript guarded by the try body"""
    names = []
    for st in try_node.body:
        for n in ast.walk(st):
            if isinstance(n, ast.Call):
                f = n.func
                names.append(f.attr if isinstance(f, ast.Attribute) else getattr(f, "id", "?"))
            elif isinstance(n, ast.Subscript) and isinstance(n.value, ast.Attribute):
                names.append("[" + n.value.attr.split("__")[-1] + "]")
    pri = ["_write_connection_close_frame", "_write_handshake",
           "frame_handler", "_payload_received", "decrypt_packet", "pull_quic_header", "handle_message",
           "pull_quic_transport_parameters", "handle_frame", "handle_reset", "[frame_handlers]", "pop", "decode",
           "pull_uint_var", "popleft"]
    for p in pri:
        if p in names:
            return p
    return names[-1] if names else "?"


def except_clauses(fn, enums):
    out = []
    for n in ast.walk(fn):
        if isinstance(n, ast.Try) and n.handlers:
            g = guarded_call(n)
            for h in n.handlers:
                act, code = clause_action(h, enums)
                for cls in exc_names(h.type):
                    out.append((fn.name, g, cls, act, code))
    return out


def class_bases(trees, c_sources):
    bases = {}
    for tree in trees:
        for node in ast.walk(tree):
            if isinstance(node, ast.ClassDef) and node.bases:
                b = node.bases[0]
                bases[node.name] = b.attr if isinstance(b, ast.Attribute) else getattr(b, "id", "?")
    for src in c_sources:
        for m in re.finditer(r'PyErr_NewException\(MODULE_NAME "\.(\w+)",\s*PyExc_(\w+)', src):
            bases[m.group(1)] = m.group(2)
    builtin = {"ValueError": "Exception", "KeyError": "LookupError", "IndexError": "LookupError",
               "LookupError": "Exception", "UnicodeDecodeError": "UnicodeError", "UnicodeError": "ValueError",
               "AssertionError": "Exception", "TypeError": "Exception", "OverflowError": "ArithmeticError",
               "ArithmeticError": "Exception", "UnboundLocalError": "NameError", "NameError": "Exception",
               "NotImplementedError": "RuntimeError", "RuntimeError": "Exception", "AttributeError": "Exception",
               "MemoryError": "Exception", "RecursionError": "RuntimeError"}
    for k, v in builtin.items():
        bases.setdefault(k, v)
    return bases


def ancestors(cls, bases):
    out = [cls]
    while cls in bases and bases[cls] not in out:
        cls = bases[cls]
        out.append(cls)
    return out


def close_start_packet_guarded(conn):
    """datagrams_to_send, close path: is the `builder.start_packet(...)` call inside the
    `try … except QuicPacketBuilderStop` that guards `_write_connection_close_frame`?"""
    fn = find_method(conn, "QuicConnection", "datagrams_to_send")
    found = None
    for n in ast.walk(fn):
        if isinstance(n, ast.Try) and n.handlers and guarded_call(n) == "_write_connection_close_frame":
            names = [getattr(c.func, "attr", "") for st in n.body for c in ast.walk(st) if isinstance(c, ast.Call)]
            found = "start_packet" in names
    if found is None:
        raise ExtractError("datagrams_to_send: no try around _write_connection_close_frame")
    # every start_packet call of the function must be inside some try that catches the stop
    guarded_ids = set()
    for n in ast.walk(fn):
        if isinstance(n, ast.Try) and any("QuicPacketBuilderStop" in exc_names(h.type) for h in n.handlers):
            for st in n.body:
                for c in ast.walk(st):
                    guarded_ids.add(id(c))
    for c in ast.walk(fn):
        if isinstance(c, ast.Call) and getattr(c.func, "attr", "") == "start_packet" and id(c) not in guarded_ids:
            found = False
    return found


def alpn_lookup_guarded(conn):
    """`_alpn_handler` (TLS callback, runs inside receive_datagram): every subscript of
    `self._cryptos_initial[...]` — a dict keyed by configuration.supported_versions — sits under an
    `if`/`elif` whose test contains `<x> in self._configuration.supported_versions`"""
    fn = find_method(conn, "QuicConnection", "_alpn_handler")

    def tests_membership(test):
        for n in ast.walk(test):
            if isinstance(n, ast.Compare) and any(isinstance(o, ast.In) for o in n.ops):
                if any(isinstance(c, ast.Attribute) and c.attr == "supported_versions" for c in n.comparators):
                    return True
        return False

    ok = True
    seen = False

    def walk(stmts, guarded):
        nonlocal ok, seen
        for st in stmts:
            if isinstance(st, ast.If):
                walk(st.body, guarded or tests_membership(st.test))
                walk(st.orelse, guarded)
            elif isinstance(st, (ast.For, ast.While, ast.With, ast.Try)):
                walk(st.body, guarded)
                walk(getattr(st, "orelse", []), guarded)
            else:
                for n in ast.walk(st):
                    if isinstance(n, ast.Subscript) and isinstance(n.value, ast.Attribute) \
                            and n.value.attr == "_cryptos_initial":
                        seen = True
                        if not guarded:
                            ok = False
    walk(fn.body, False)
    if not seen:
        raise ExtractError("_alpn_handler: no _cryptos_initial lookup")
    return ok


def change_cid_raises(conn):
    """what `change_connection_id()` — called by receive_datagram's migration block — can raise,
    by situation: "empty" (no spare peer CID), "available", "always".  A `raise` (or the unguarded
    `pop(0)` of `_consume_peer_cid`) is attributed to the branch of the `if self._peer_cid_available`
    test it sits in."""
    fn = find_method(conn, "QuicConnection", "change_connection_id")
    out = []

    def is_avail(t):
        return isinstance(t, ast.Attribute) and t.attr == "_peer_cid_available"

    def walk(stmts, sit):
        for st in stmts:
            if isinstance(st, ast.If):
                t = st.test
                if is_avail(t):
                    walk(st.body, "available" if sit == "always" else sit)
                    walk(st.orelse, "empty" if sit == "always" else sit)
                elif isinstance(t, ast.UnaryOp) and isinstance(t.op, ast.Not) and is_avail(t.operand):
                    walk(st.body, "empty" if sit == "always" else sit)
                    walk(st.orelse, "available" if sit == "always" else sit)
                    # statements after an `if not available: raise/return` run only when available
                    if st.body and isinstance(st.body[-1], (ast.Raise, ast.Return)) and sit == "always":
                        rest = stmts[stmts.index(st) + 1:]
                        walk(rest, "available")
                        return
                else:
                    walk(st.body, sit)
                    walk(st.orelse, sit)
            elif isinstance(st, ast.Raise):
                exc = st.exc
                name = "Exception"
                if isinstance(exc, ast.Call):
                    exc = exc.func
                if isinstance(exc, ast.Name):
                    name = exc.id
                elif isinstance(exc, ast.Attribute):
                    name = exc.attr
                out.append((sit, name))
            elif isinstance(st, (ast.Try, ast.With, ast.For, ast.While)):
                raise ExtractError("change_connection_id: unexpected control flow")
            else:
                for n in ast.walk(st):
                    if isinstance(n, ast.Assert):
                        out.append((sit, "AssertionError"))
                    if isinstance(n, ast.Call) and getattr(n.func, "attr", "") == "_consume_peer_cid" \
                            and sit != "available":
                        out.append(("empty", "IndexError"))     # pop(0) on an empty list
    walk(fn.body, "always")
    # the helpers it calls must not raise on their own
    for helper in ("_retire_peer_cid", "_consume_peer_cid"):
        h = find_method(conn, "QuicConnection", helper)
        for n in ast.walk(h):
            if isinstance(n, (ast.Raise, ast.Assert)):
                out.append(("always", "Exception"))
    return out


EPOCH_LEAN = {"INITIAL": ".initial", "ZERO_RTT": ".zeroRtt", "HANDSHAKE": ".handshake", "ONE_RTT": ".oneRtt"}
FUNCS = ["receive_datagram", "_payload_received", "_handle_crypto_frame", "_handle_connection_close_frame",
         "_handle_path_response_frame", "_handle_reset_stream_frame", "_handle_stream_frame",
         "_parse_transport_parameters", "next_event", "datagrams_to_send", "_write_application"]


def generate(repo):
    src = os.path.join(repo, "src", "aioquic")
    conn_src = open(os.path.join(src, "quic", "connection.py")).read()
    pkt_src = open(os.path.join(src, "quic", "packet.py")).read()
    conn = ast.parse(conn_src)
    pkt = ast.parse(pkt_src)
    others = [ast.parse(open(os.path.join(src, p)).read()) for p in
              ("quic/stream.py", "quic/crypto.py", "quic/packet_builder.py", "tls.py")]
    c_sources = [open(os.path.join(src, p)).read() for p in ("_buffer.c", "_crypto.c")]
    enums = {"QuicFrameType": enum_values(pkt, "QuicFrameType"), "QuicErrorCode": enum_values(pkt, "QuicErrorCode")}
    shortcuts = {}
    for node in conn.body:
        if isinstance(node, ast.Assign) and getattr(node.targets[0], "id", None) == "EPOCH_SHORTCUTS":
            for k, v in zip(node.value.keys, node.value.values):
                shortcuts[k.value] = v.attr
    if sorted(shortcuts) != ["0", "1", "H", "I"]:
        raise ExtractError("EPOCH_SHORTCUTS")
    rows = handler_table(find_method(conn, "QuicConnection", "__init__"), enums, shortcuts)
    nae = sorted(frozenset_members(pkt, "NON_ACK_ELICITING_FRAME_TYPES", enums))
    prob = sorted(frozenset_members(pkt, "PROBING_FRAME_TYPES", enums))
    end_states = frozenset_members(conn, "END_STATES", enums)
    clauses = []
    for f in FUNCS:
        clauses += except_clauses(find_method(conn, "QuicConnection", f), enums)
    bases = class_bases([conn, pkt] + others, c_sources)
    classes = sorted({c for _, _, c, _, _ in clauses} | {
        "BufferReadError", "BufferWriteError", "StreamFinishedError", "FinalSizeError", "QuicConnectionError", "Alert",
        "QuicPacketBuilderStop", "CryptoError", "KeyUnavailableError", "ValueError", "KeyError", "IndexError",
        "AssertionError", "TypeError", "UnicodeDecodeError", "OverflowError", "UnboundLocalError",
        "NotImplementedError", "AttributeError", "MemoryError", "RecursionError"})
    L = []
    L.append("/- GENERATED by tools/extract_recv.py from src/aioquic/quic/{connection,packet}.py — do not edit. -/")
    L.append("namespace AQ.Gen.Recv")
    L.append("")
    L.append("inductive Epoch where\n  | initial | zeroRtt | handshake | oneRtt\n  deriving DecidableEq, Repr, Inhabited")
    L.append("")
    L.append("/-- `QuicConnection.__frame_handlers`: frame type, handler method, allowed epochs -/")
    L.append("def handlerTable : List (Nat × String × List Epoch) := [")
    L.append(",\n".join("  (0x%02X, \"%s\", [%s])" % (t, h, ", ".join(EPOCH_LEAN[e] for e in ep)) for t, h, ep in rows))
    L.append("]")
    L.append("")
    L.append("def nonAckEliciting : List Nat := [%s]" % ", ".join("0x%02X" % x for x in nae))
    L.append("def probing : List Nat := [%s]" % ", ".join("0x%02X" % x for x in prob))
    L.append("def endStates : List String := [%s]" % ", ".join('"%s"' % s for s in end_states))
    L.append("")
    L.append("inductive Action where\n  | raiseConn (code : Nat) | raiseOther | pass | ret | cont | close | assign\n  deriving DecidableEq, Repr")
    L.append("")
    L.append("structure Clause where\n  fn : String\n  guarded : String\n  cls : String\n  action : Action\n  deriving DecidableEq, Repr")
    L.append("")
    actmap = {"pass": ".pass", "return": ".ret", "continue": ".cont", "close": ".close", "assign": ".assign",
              "raise-other": ".raiseOther"}
    L.append("/-- every `except` clause of the receive path, in source order -/")
    L.append("def clauses : List Clause := [")
    cl = []
    for fn, g, cls, act, code in clauses:
        a = f"(.raiseConn 0x{code:X})" if act == "raise-conn" else actmap[act]
        cl.append(f'  ⟨"{fn}", "{g}", "{cls}", {a}⟩')
    L.append(",\n".join(cl))
    L.append("]")
    L.append("")
    L.append("/-- exception class, its ancestors (nearest first, itself included) -/")
    L.append("def ancestors : List (String × List String) := [")
    L.append(",\n".join('  ("%s", [%s])' % (c, ", ".join('"%s"' % a for a in ancestors(c, bases))) for c in classes))
    L.append("]")
    L.append("")
    L.append("/-- `_alpn_handler`: the `_cryptos_initial[version]` lookup is guarded by")
    L.append("    `version in self._configuration.supported_versions` -/")
    L.append("def alpnLookupGuarded : Bool := %s" % ("true" if alpn_lookup_guarded(conn) else "false"))
    L.append("")
    L.append("/-- `datagrams_to_send`, close path: `builder.start_packet(...)` is inside the try that catches")
    L.append("    QuicPacketBuilderStop -/")
    L.append("def closeStartPacketGuarded : Bool := %s" % ("true" if close_start_packet_guarded(conn) else "false"))
    L.append("")
    L.append("/-- `change_connection_id()` (called by the migration block of receive_datagram): the")
    L.append("    exceptions it raises, by situation \"empty\" / \"available\" / \"always\" -/")
    L.append("def changeCidRaises : List (String × String) := [%s]" % ", ".join(
        '("%s", "%s")' % x for x in change_cid_raises(conn)))
    L.append("")
    ec = enums["QuicErrorCode"]
    L.append("def errorCodes : List (String × Nat) := [%s]" % ", ".join('("%s", 0x%X)' % (k, v) for k, v in ec.items()))
    L.append("")
    L.append("end AQ.Gen.Recv")
    return "\n".join(L) + "\n"


def main():
    ap = argparse.ArgumentParser()
    ap.add_argument("--repo", default=os.environ.get("VERIF_REPO", "/repo"))
    ap.add_argument("--out", default=os.path.join(HERE, "lean", "AQ", "Gen", "RecvTables.lean"))
    ap.add_argument("--check", action="store_true")
    a = ap.parse_args()
    text = generate(a.repo)
    old = open(a.out).read() if os.path.exists(a.out) else None
    if a.check:
        sys.exit(0 if old == text else 1)
    if old != text:
        os.makedirs(os.path.dirname(a.out), exist_ok=True)
        open(a.out, "w").write(text)
        print("wrote", a.out)


if __name__ == "__main__":
    main()
