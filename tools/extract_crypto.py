#!/venv/bin/python
"""tools/extract_crypto.py --repo <repo> --out <lean file>

TRANSLATOR for the constant tables of packet protection: parses
src/aioquic/quic/crypto.py, src/aioquic/quic/packet.py and src/aioquic/tls.py
with `ast` (nothing is imported or executed) and emits
lean/AQ/Gen/CryptoTables.lean.  `AQ.Props.C02b.tables_match_rfc` proves the
emitted tables equal the RFC constants of AQ.Model.PacketProtSpec.

Anything whose shape is not the expected one is an error (exit 1): the check
then reports a broken correspondence instead of guessing."""
import argparse
import ast
import os
import sys


class Bad(Exception):
    pass


def parse(path):
    return ast.parse(open(path).read(), path)


def top_assign(mod, name):
    for n in mod.body:
        if isinstance(n, ast.Assign) and len(n.targets) == 1 and isinstance(n.targets[0], ast.Name) \
                and n.targets[0].id == name:
            return n.value
    raise Bad(f"no top-level assignment to {name}")


def func(mod, name):
    for n in ast.walk(mod):
        if isinstance(n, ast.FunctionDef) and n.name == name:
            return n
    raise Bad(f"no function {name}")


def klass(mod, name):
    for n in mod.body:
        if isinstance(n, ast.ClassDef) and n.name == name:
            return n
    raise Bad(f"no class {name}")


def const_int(e):
    if isinstance(e, ast.Constant) and isinstance(e.value, int):
        return e.value
    raise Bad(f"expected int literal, got {ast.dump(e)}")


def const_bytes(e):
    if isinstance(e, ast.Constant) and isinstance(e.value, bytes):
        return e.value
    raise Bad(f"expected bytes literal, got {ast.dump(e)}")


def unhexlify(e):
    """binascii.unhexlify("…")"""
    if isinstance(e, ast.Call) and isinstance(e.func, ast.Attribute) and e.func.attr == "unhexlify" \
            and len(e.args) == 1 and isinstance(e.args[0], ast.Constant) and isinstance(e.args[0].value, str):
        return bytes.fromhex(e.args[0].value)
    raise Bad(f"expected binascii.unhexlify(<str>), got {ast.dump(e)}")


def attr_name(e):
    """X.NAME -> NAME"""
    if isinstance(e, ast.Attribute):
        return e.attr
    raise Bad(f"expected attribute, got {ast.dump(e)}")


def enum_values(cls):
    out = {}
    for n in cls.body:
        if isinstance(n, ast.Assign) and len(n.targets) == 1 and isinstance(n.targets[0], ast.Name) \
                and isinstance(n.value, ast.Constant) and isinstance(n.value.value, int):
            out[n.targets[0].id] = n.value.value
    return out


def is_version2_test(t):
    return (isinstance(t, ast.Compare) and len(t.ops) == 1 and isinstance(t.ops[0], ast.Eq)
            and isinstance(t.comparators[0], ast.Attribute) and t.comparators[0].attr == "VERSION_2")


def labels_of_return(stmt):
    """return (hkdf_expand_label(alg, secret, b"label", b"", size), …×3) -> ([labels], [sizes])"""
    if not (isinstance(stmt, ast.Return) and isinstance(stmt.value, ast.Tuple) and len(stmt.value.elts) == 3):
        raise Bad("derive_key_iv_hp: expected `return (…, …, …)`")
    labels, sizes = [], []
    for c in stmt.value.elts:
        if not (isinstance(c, ast.Call) and getattr(c.func, "id", None) == "hkdf_expand_label" and len(c.args) == 5):
            raise Bad("derive_key_iv_hp: expected hkdf_expand_label(alg, secret, label, b\"\", size)")
        if const_bytes(c.args[3]) != b"":
            raise Bad("derive_key_iv_hp: non-empty hash value")
        labels.append(const_bytes(c.args[2]))
        sizes.append(c.args[4].id if isinstance(c.args[4], ast.Name) else const_int(c.args[4]))
    return labels, sizes


def extract(repo):
    src = os.path.join(repo, "src", "aioquic")
    crypto = parse(os.path.join(src, "quic", "crypto.py"))
    packet = parse(os.path.join(src, "quic", "packet.py"))
    tls = parse(os.path.join(src, "tls.py"))
    T = {}
    suite_ids = enum_values(klass(tls, "CipherSuite"))
    versions = enum_values(klass(packet, "QuicProtocolVersion"))
    T["version1"], T["version2"] = versions["VERSION_1"], versions["VERSION_2"]
    # CIPHER_SUITES = {CipherSuite.X: (b"hp", b"aead"), …}
    d = top_assign(crypto, "CIPHER_SUITES")
    if not isinstance(d, ast.Dict):
        raise Bad("CIPHER_SUITES is not a dict literal")
    names = {}
    for k, v in zip(d.keys, d.values):
        if not (isinstance(v, ast.Tuple) and len(v.elts) == 2):
            raise Bad("CIPHER_SUITES value is not a pair")
        names[attr_name(k)] = (const_bytes(v.elts[0]).decode(), const_bytes(v.elts[1]).decode())
    T["initial_suite"] = suite_ids[attr_name(top_assign(crypto, "INITIAL_CIPHER_SUITE"))]
    T["salt1"] = unhexlify(top_assign(crypto, "INITIAL_SALT_VERSION_1"))
    T["salt2"] = unhexlify(top_assign(crypto, "INITIAL_SALT_VERSION_2"))
    T["sample_size"] = const_int(top_assign(crypto, "SAMPLE_SIZE"))
    # derive_key_iv_hp: key size per suite, labels per version
    f = func(crypto, "derive_key_iv_hp")
    big, key_big, key_small, lab = None, None, None, {}
    for st in f.body:
        if isinstance(st, ast.If) and isinstance(st.test, ast.Compare) and isinstance(st.test.ops[0], ast.In):
            big = [attr_name(e) for e in st.test.comparators[0].elts]
            key_big = const_int(st.body[0].value)
            key_small = const_int(st.orelse[0].value)
        elif isinstance(st, ast.If) and is_version2_test(st.test):
            l2, s2 = labels_of_return(st.body[0])
            l1, s1 = labels_of_return(st.orelse[0])
            if s1 != ["key_size", 12, "key_size"] or s2 != s1:
                raise Bad(f"derive_key_iv_hp: unexpected sizes {s1} {s2}")
            lab = {1: l1, 2: l2}
    if big is None or not lab:
        raise Bad("derive_key_iv_hp: shape not recognised")
    T["iv_length"] = 12
    T["suites"] = sorted((suite_ids[n], hp, aead, key_big if n in big else key_small) for n, (hp, aead) in names.items())
    # next_key_phase: the key-update label, per version if the code distinguishes
    f = func(crypto, "next_key_phase")
    ku = {}
    plain = [const_bytes(c.args[2]) for c in ast.walk(f) if isinstance(c, ast.Call)
             and getattr(c.func, "id", None) == "hkdf_expand_label" and isinstance(c.args[2], ast.Constant)]
    if plain:
        ku = {1: plain[0], 2: plain[0]}
    else:
        for st in f.body:
            if isinstance(st, ast.If) and is_version2_test(st.test):
                ku = {2: const_bytes(st.body[0].value), 1: const_bytes(st.orelse[0].value)}
    if not ku:
        raise Bad("next_key_phase: label not recognised")
    T["labels1"] = [x.decode() for x in lab[1] + [ku[1]]]
    T["labels2"] = [x.decode() for x in lab[2] + [ku[2]]]
    # setup_initial: labels per role
    f = func(crypto, "setup_initial")
    st = next(s for s in f.body if isinstance(s, ast.If) and getattr(s.test, "id", None) == "is_client")
    recv_c, send_c = (const_bytes(e) for e in st.body[0].value.elts)
    recv_s, send_s = (const_bytes(e) for e in st.orelse[0].value.elts)
    if (recv_c, send_c) != (send_s, recv_s):
        raise Bad("setup_initial: client/server labels are not mirrored")
    T["client_in"], T["server_in"] = send_c.decode(), send_s.decode()
    # packet.py
    T["rk1"] = unhexlify(top_assign(packet, "RETRY_AEAD_KEY_VERSION_1"))
    T["rk2"] = unhexlify(top_assign(packet, "RETRY_AEAD_KEY_VERSION_2"))
    T["rn1"] = unhexlify(top_assign(packet, "RETRY_AEAD_NONCE_VERSION_1"))
    T["rn2"] = unhexlify(top_assign(packet, "RETRY_AEAD_NONCE_VERSION_2"))
    T["retry_tag_size"] = const_int(top_assign(packet, "RETRY_INTEGRITY_TAG_SIZE"))
    T["pn_max_size"] = const_int(top_assign(packet, "PACKET_NUMBER_MAX_SIZE"))
    T["long_header"] = const_int(top_assign(packet, "PACKET_LONG_HEADER"))
    T["fixed_bit"] = const_int(top_assign(packet, "PACKET_FIXED_BIT"))
    order = ["INITIAL", "ZERO_RTT", "HANDSHAKE", "RETRY"]
    for v in (1, 2):
        d = top_assign(packet, f"PACKET_LONG_TYPE_ENCODE_VERSION_{v}")
        m = {attr_name(k): const_int(val) for k, val in zip(d.keys, d.values)}
        T[f"lt{v}"] = [m[o] for o in order]
    # get_retry_integrity_tag / encode_long_header_first_byte / pull_quic_header select the table by version
    f = func(packet, "get_retry_integrity_tag")
    st = next(s for s in f.body if isinstance(s, ast.If) and is_version2_test(s.test))
    if [a.value.id for a in st.body] != ["RETRY_AEAD_KEY_VERSION_2", "RETRY_AEAD_NONCE_VERSION_2"] or \
            [a.value.id for a in st.orelse] != ["RETRY_AEAD_KEY_VERSION_1", "RETRY_AEAD_NONCE_VERSION_1"]:
        raise Bad("get_retry_integrity_tag: key/nonce selection not recognised")
    f = func(packet, "encode_long_header_first_byte")
    st = next(s for s in f.body if isinstance(s, ast.If) and is_version2_test(s.test))
    if st.body[0].value.id != "PACKET_LONG_TYPE_ENCODE_VERSION_2" or st.orelse[0].value.id != "PACKET_LONG_TYPE_ENCODE_VERSION_1":
        raise Bad("encode_long_header_first_byte: table selection not recognised")
    ret = f.body[-1]
    shift = [n for n in ast.walk(ret) if isinstance(n, ast.BinOp) and isinstance(n.op, ast.LShift)]
    if len(shift) != 1 or const_int(shift[0].right) != 4:
        raise Bad("encode_long_header_first_byte: type bits are not shifted by 4")
    f = func(packet, "pull_quic_header")
    dec = [n for n in ast.walk(f) if isinstance(n, ast.Subscript) and getattr(n.value, "id", "").startswith("PACKET_LONG_TYPE_DECODE_VERSION_")]
    if sorted(n.value.id[-1] for n in dec) != ["1", "2"]:
        raise Bad("pull_quic_header: decode tables not recognised")
    for n in dec:
        sl = n.slice
        if not (isinstance(sl, ast.BinOp) and isinstance(sl.op, ast.RShift) and const_int(sl.right) == 4
                and isinstance(sl.left, ast.BinOp) and isinstance(sl.left.op, ast.BitAnd) and const_int(sl.left.right) == 0x30):
            raise Bad("pull_quic_header: type bits are not (first_byte & 0x30) >> 4")
    for v in (1, 2):
        d = top_assign(packet, f"PACKET_LONG_TYPE_DECODE_VERSION_{v}")
        if "PACKET_LONG_TYPE_ENCODE_VERSION_%d" % v not in ast.dump(d):
            raise Bad("decode table is not the inverse of the encode table")
    return T


def lean_bytes(b):
    return "[" + ", ".join("0x%02x" % x for x in b) + "]"


def lean_strs(xs):
    return "[" + ", ".join('"%s"' % x for x in xs) + "]"


def emit(T, repo):
    suites = ",\n    ".join('(0x%04x, "%s", "%s", %d)' % s for s in T["suites"])
    return f"""/-
  GENERATED by tools/extract_crypto.py from crypto.py / packet.py / tls.py — do not edit.
-/
import AQ.Base.Basic

namespace AQ.Gen.CryptoTables
open AQ

def cipherSuites : List (Nat × String × String × Nat) :=
  [ {suites} ]
def initialCipherSuite : Nat := 0x{T['initial_suite']:04x}
def ivLength : Nat := {T['iv_length']}
def sampleSize : Nat := {T['sample_size']}
def retryTagSize : Nat := {T['retry_tag_size']}
def packetNumberMaxSize : Nat := {T['pn_max_size']}
def version1 : Nat := 0x{T['version1']:08x}
def version2 : Nat := 0x{T['version2']:08x}
def labelsV1 : List String := {lean_strs(T['labels1'])}
def labelsV2 : List String := {lean_strs(T['labels2'])}
def clientInitialLabel : String := "{T['client_in']}"
def serverInitialLabel : String := "{T['server_in']}"
def initialSaltV1 : Bytes := {lean_bytes(T['salt1'])}
def initialSaltV2 : Bytes := {lean_bytes(T['salt2'])}
def retryKeyV1 : Bytes := {lean_bytes(T['rk1'])}
def retryNonceV1 : Bytes := {lean_bytes(T['rn1'])}
def retryKeyV2 : Bytes := {lean_bytes(T['rk2'])}
def retryNonceV2 : Bytes := {lean_bytes(T['rn2'])}
def longTypesV1 : List Nat := {T['lt1']}
def longTypesV2 : List Nat := {T['lt2']}
def headerFormBit : Nat := 0x{T['long_header']:02x}
def fixedBit : Nat := 0x{T['fixed_bit']:02x}

end AQ.Gen.CryptoTables
"""


def main():
    ap = argparse.ArgumentParser()
    ap.add_argument("--repo", default=os.environ.get("VERIF_REPO", "/repo"))
    ap.add_argument("--out", required=True)
    a = ap.parse_args()
    try:
        T = extract(a.repo)
    except (Bad, StopIteration, AttributeError, IndexError, KeyError) as e:
        print(f"extract_crypto: {type(e).__name__}: {e}")
        sys.exit(1)
    text = emit(T, a.repo)
    old = open(a.out).read() if os.path.exists(a.out) else None
    if old != text:
        os.makedirs(os.path.dirname(a.out), exist_ok=True)
        open(a.out, "w").write(text)
    print(f"extract_crypto: {'unchanged' if old == text else 'written'} {a.out} labelsV2={T['labels2']}")


main()
