#!/venv/bin/python
"""tools/extract_crypto.py --repo <repo> [--tree <built tree>] --out <lean file>

TRANSLATOR for the constant tables of packet protection.  The tables are obtained
by EVALUATING the code under test, not by matching its syntax: the working tree
(a scratch copy with freshly compiled extensions, harness/tree.py) is imported and

  * `derive_key_iv_hp` is called for every (cipher suite, version) with a
    recording stub in place of `hkdf_expand_label`      -> labels, key / iv length
  * `next_key_phase` is called on a context of every (suite, version)  -> "ku" label
  * `CryptoPair.setup_initial` is called for both roles and versions with
    recording stubs for `hkdf_extract` / `hkdf_expand_label`  -> salts, "client in" / "server in"
  * `get_retry_integrity_tag` is called per version with a recording AESGCM  -> Retry key / nonce
  * `encode_long_header_first_byte` / `pull_quic_header` are called for every
    packet type and version                                -> long-header type bits
  * plain constants (SAMPLE_SIZE, PACKET_NUMBER_MAX_SIZE, …) are read as module attributes.

so any behaviour-preserving rewrite yields byte-identical output.  What cannot
be observed that way (a stub never called, inconsistent answers between suites,
labels that are not ASCII …) is an error (exit 1): the check then reports a
broken correspondence instead of guessing.  `AQ.Props.C02b.tables_match_rfc`
proves the emitted tables equal the RFC constants of AQ.Model.PacketProtSpec."""
import argparse
import os
import sys

HERE = os.path.dirname(os.path.dirname(os.path.abspath(__file__)))


class Bad(Exception):
    pass


def need(cond, msg):
    if not cond:
        raise Bad(msg)


def extract(tree_dir):
    sys.path.insert(0, tree_dir)
    for m in [m for m in sys.modules if m == "aioquic" or m.startswith("aioquic.")]:
        del sys.modules[m]
    import aioquic
    need(aioquic.__file__.startswith(tree_dir), f"imported {aioquic.__file__}, not the tree under test")
    from aioquic import tls
    from aioquic.buffer import Buffer
    from aioquic.quic import crypto, packet

    T = {}
    V1, V2 = int(packet.QuicProtocolVersion.VERSION_1), int(packet.QuicProtocolVersion.VERSION_2)
    T["version1"], T["version2"] = V1, V2
    calls = []

    def expand(algorithm, secret, label, hash_value, length):
        calls.append(("expand", bytes(label), bytes(hash_value), int(length)))
        return bytes(length)

    def extract_(algorithm, salt, key_material):
        calls.append(("extract", bytes(salt), bytes(key_material)))
        return bytes(algorithm.digest_size)
    real = (crypto.hkdf_expand_label, crypto.hkdf_extract)
    crypto.hkdf_expand_label, crypto.hkdf_extract = expand, extract_
    try:
        # cipher table, key length, labels [key, iv, hp], iv length
        suites = []
        labels = {V1: None, V2: None}
        iv_len = set()
        need(isinstance(crypto.CIPHER_SUITES, dict) and crypto.CIPHER_SUITES, "CIPHER_SUITES is not a non-empty dict")
        for cs, names in crypto.CIPHER_SUITES.items():
            hp_name, aead_name = (bytes(x).decode("ascii") for x in names)
            klen = set()
            for v in (V1, V2):
                del calls[:]
                secret = bytes(tls.cipher_suite_hash(cs).digest_size)
                out = crypto.derive_key_iv_hp(cipher_suite=cs, secret=secret, version=v)
                need(len(calls) == 3 and all(c[0] == "expand" and c[2] == b"" for c in calls),
                     f"derive_key_iv_hp({cs!r}, {v:#x}): expected three hkdf_expand_label(…, b\"\", n) calls, saw {calls}")
                need([len(x) for x in out] == [c[3] for c in calls], "derive_key_iv_hp does not return (key, iv, hp) in call order")
                lab = [c[1].decode("ascii") for c in calls]
                need(labels[v] in (None, lab), f"labels differ between cipher suites: {labels[v]} / {lab}")
                labels[v] = lab
                need(calls[0][3] == calls[2][3], "key and hp lengths differ")
                klen.add(calls[0][3])
                iv_len.add(calls[1][3])
            need(len(klen) == 1, f"key length of {cs!r} depends on the version")
            suites.append((int(cs), hp_name, aead_name, klen.pop()))
        need(len(iv_len) == 1, f"iv length is not constant: {iv_len}")
        T["suites"] = sorted(suites)
        T["iv_length"] = iv_len.pop()
        # key update label: the first expansion next_key_phase performs
        ku = {V1: set(), V2: set()}
        for cs in crypto.CIPHER_SUITES:
            for v in (V1, V2):
                ctx = crypto.CryptoContext()
                ctx.setup(cipher_suite=cs, secret=bytes(tls.cipher_suite_hash(cs).digest_size), version=v)
                del calls[:]
                nxt = crypto.next_key_phase(ctx)
                need(calls and calls[0][0] == "expand" and calls[0][2] == b"" and
                     calls[0][3] == tls.cipher_suite_hash(cs).digest_size,
                     f"next_key_phase: first derivation is not the updated secret: {calls[:1]}")
                need(nxt.key_phase == 1 - ctx.key_phase, "next_key_phase does not flip the key phase")
                ku[v].add(calls[0][1].decode("ascii"))
        need(all(len(x) == 1 for x in ku.values()), f"key update label depends on the cipher suite: {ku}")
        T["labels1"] = labels[V1] + [ku[V1].pop()]
        T["labels2"] = labels[V2] + [ku[V2].pop()]
        # Initial secrets: salt per version, labels per role
        roles = {}
        salts = {}
        for v in (V1, V2):
            for is_client in (True, False):
                del calls[:]
                pair = crypto.CryptoPair()
                cid = bytes(range(8))
                pair.setup_initial(cid=cid, is_client=is_client, version=v)
                ex = [c for c in calls if c[0] == "extract"]
                need(len(ex) == 1 and ex[0][2] == cid, f"setup_initial: expected one hkdf_extract(salt, cid), saw {ex}")
                salts.setdefault(v, set()).add(ex[0][1])
                secret_len = tls.cipher_suite_hash(crypto.INITIAL_CIPHER_SUITE).digest_size
                first = [c for c in calls if c[0] == "expand" and c[3] == secret_len and c[1] not in
                         [x.encode() for x in labels[v]]][:2]
                need(len(first) == 2, f"setup_initial: the two role secrets were not derived: {calls}")
                need(pair.recv.cipher_suite == pair.send.cipher_suite == crypto.INITIAL_CIPHER_SUITE, "Initial cipher suite")
                # order in the code: recv first, then send
                roles.setdefault(("recv", is_client), set()).add(first[0][1])
                roles.setdefault(("send", is_client), set()).add(first[1][1])
        need(all(len(x) == 1 for x in roles.values()) and all(len(x) == 1 for x in salts.values()),
             f"Initial labels / salts are not functions of role / version: {roles} {salts}")
        cin, sin = roles[("send", True)].pop(), roles[("send", False)].pop()
        need(roles[("recv", True)] == {sin} and roles[("recv", False)] == {cin}, "client/server Initial labels are not mirrored")
        T["client_in"], T["server_in"] = cin.decode("ascii"), sin.decode("ascii")
        T["salt1"], T["salt2"] = salts[V1].pop(), salts[V2].pop()
        T["initial_suite"] = int(crypto.INITIAL_CIPHER_SUITE)
    finally:
        crypto.hkdf_expand_label, crypto.hkdf_extract = real
    T["sample_size"] = int(crypto.SAMPLE_SIZE)
    # Retry key / nonce: what get_retry_integrity_tag hands to AES-GCM
    seen = []

    class RecordingAESGCM:
        def __init__(self, key):
            self.key = bytes(key)

        def encrypt(self, nonce, data, associated_data):
            seen.append((self.key, bytes(nonce), bytes(data), bytes(associated_data)))
            return bytes(packet.RETRY_INTEGRITY_TAG_SIZE)
    real_gcm = packet.AESGCM
    packet.AESGCM = RecordingAESGCM
    try:
        for v, k in ((V1, "1"), (V2, "2")):
            del seen[:]
            packet.get_retry_integrity_tag(b"\xf0retry", bytes(range(8)), version=v)
            need(len(seen) == 1 and seen[0][2] == b"" and seen[0][3] == bytes([8]) + bytes(range(8)) + b"\xf0retry",
                 f"get_retry_integrity_tag: expected one AESGCM.encrypt(nonce, b\"\", pseudo packet), saw {seen}")
            T["rk" + k], T["rn" + k] = seen[0][0], seen[0][1]
    finally:
        packet.AESGCM = real_gcm
    T["retry_tag_size"] = int(packet.RETRY_INTEGRITY_TAG_SIZE)
    T["pn_max_size"] = int(packet.PACKET_NUMBER_MAX_SIZE)
    T["long_header"] = int(packet.PACKET_LONG_HEADER)
    T["fixed_bit"] = int(packet.PACKET_FIXED_BIT)
    # long header type bits: encoder and parser must agree
    order = ["INITIAL", "ZERO_RTT", "HANDSHAKE", "RETRY"]
    for v, k in ((V1, "1"), (V2, "2")):
        bits = []
        for name in order:
            pt = packet.QuicPacketType[name]
            fb = packet.encode_long_header_first_byte(v, pt, 0)
            need(fb & 0xC0 == T["long_header"] | T["fixed_bit"] and fb & 0x0F == 0, f"first byte {fb:#x} of {name}")
            need(packet.encode_long_header_first_byte(v, pt, 0x0F) == fb | 0x0F, "low bits of the first byte")
            data = bytes([fb]) + v.to_bytes(4, "big") + bytes(2) + bytes(20)
            got = packet.pull_quic_header(Buffer(data=data), host_cid_length=8).packet_type
            need(got == pt, f"pull_quic_header reads type bits of {name} (version {v:#x}) as {got}")
            bits.append((fb & 0x30) >> 4)
        need(sorted(bits) == [0, 1, 2, 3], f"type bits are not a permutation: {bits}")
        T["lt" + k] = bits
    return T


def lean_bytes(b):
    return "[" + ", ".join("0x%02x" % x for x in b) + "]"


def lean_strs(xs):
    return "[" + ", ".join('"%s"' % x for x in xs) + "]"


def emit(T, repo):
    suites = ",\n    ".join('(0x%04x, "%s", "%s", %d)' % s for s in T["suites"])
    return f"""/-
  GENERATED by tools/extract_crypto.py from crypto.py / packet.py / tls.py — do not edit.
-/
import AQ.Base.Basic

namespace AQ.Gen.CryptoTables
open AQ

def cipherSuites : List (Nat × String × String × Nat) :=
  [ {suites} ]
def initialCipherSuite : Nat := 0x{T['initial_suite']:04x}
def ivLength : Nat := {T['iv_length']}
def sampleSize : Nat := {T['sample_size']}
def retryTagSize : Nat := {T['retry_tag_size']}
def packetNumberMaxSize : Nat := {T['pn_max_size']}
def version1 : Nat := 0x{T['version1']:08x}
def version2 : Nat := 0x{T['version2']:08x}
def labelsV1 : List String := {lean_strs(T['labels1'])}
def labelsV2 : List String := {lean_strs(T['labels2'])}
def clientInitialLabel : String := "{T['client_in']}"
def serverInitialLabel : String := "{T['server_in']}"
def initialSaltV1 : Bytes := {lean_bytes(T['salt1'])}
def initialSaltV2 : Bytes := {lean_bytes(T['salt2'])}
def retryKeyV1 : Bytes := {lean_bytes(T['rk1'])}
def retryNonceV1 : Bytes := {lean_bytes(T['rn1'])}
def retryKeyV2 : Bytes := {lean_bytes(T['rk2'])}
def retryNonceV2 : Bytes := {lean_bytes(T['rn2'])}
def longTypesV1 : List Nat := {T['lt1']}
def longTypesV2 : List Nat := {T['lt2']}
def headerFormBit : Nat := 0x{T['long_header']:02x}
def fixedBit : Nat := 0x{T['fixed_bit']:02x}

end AQ.Gen.CryptoTables
"""


def main():
    ap = argparse.ArgumentParser()
    ap.add_argument("--repo", default=os.environ.get("VERIF_REPO", "/repo"))
    ap.add_argument("--tree", help="directory holding a built copy of the aioquic package (harness/tree.py)")
    ap.add_argument("--out", required=True)
    a = ap.parse_args()
    tree_dir = a.tree
    if not tree_dir:
        os.environ["VERIF_REPO"] = a.repo
        sys.path.insert(0, HERE)
        from harness import tree
        tree_dir = tree.build()
    try:
        T = extract(tree_dir)
    except Bad as e:
        print(f"extract_crypto: cannot observe: {e}")
        sys.exit(1)
    except Exception as e:  # noqa  (the code under test raised while being evaluated)
        print(f"extract_crypto: {type(e).__name__} while evaluating the code under test: {e}")
        sys.exit(1)
    text = emit(T, a.repo)
    old = open(a.out).read() if os.path.exists(a.out) else None
    if old != text:
        os.makedirs(os.path.dirname(a.out), exist_ok=True)
        open(a.out, "w").write(text)
    print(f"extract_crypto: {'unchanged' if old == text else 'written'} {a.out} labelsV2={T['labels2']}")


main()
