#!/bin/sh
# regenerate lean/AQ/Gen/* from the sources (written only when the content changes)
set -e
cd "$(dirname "$0")/.."
/venv/bin/python tools/extract_log.py
