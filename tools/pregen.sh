#!/bin/sh
# regenerate lean/AQ/Gen/* from the sources (written only when the content changes)
set -e
cd "$(dirname "$0")/.."
/venv/bin/python tools/extract_c.py >/dev/null
/venv/bin/python tools/extract_log.py
/venv/bin/python tools/extract_recv.py
/venv/bin/python tools/extract_crypto.py --repo "${VERIF_REPO:-/repo}" --out lean/AQ/Gen/CryptoTables.lean
/venv/bin/python tools/extract_tls.py
