#!/usr/bin/env python3
"""prints the prompt given to an independent 'seeded change' sub-agent"""
import json, sys
pid = sys.argv[1]
n = sys.argv[2] if len(sys.argv) > 2 else "3"
for l in open('/verif/properties.jsonl'):
    p = json.loads(l)
    if p['id'] == pid:
        break
print(f"""You are given a git worktree of the Python QUIC/HTTP3 library aioquic at /tmp/mut-{pid} (a detached checkout; work ONLY there; do not look at or touch /verif, /repo or other /tmp directories). Python is /venv/bin/python (aioquic's dependencies are installed; the package imported by default is NOT your worktree — run things with `cd /tmp/mut-{pid} && PYTHONPATH=/tmp/mut-{pid}/src /venv/bin/python …`; if you change a .c file rebuild with `cd /tmp/mut-{pid} && /venv/bin/python setup.py build_ext --inplace`; note src/aioquic/*.so are not tracked: if they are missing run that build once). The test-suite is `cd /tmp/mut-{pid} && PYTHONPATH=/tmp/mut-{pid}/src /venv/bin/python -m pytest -q -p no:cacheprovider tests/` (≈40 s, 470 tests, all pass on the unchanged tree).

This semantic property is supposed to hold for the library:

  {p['title']}
  {p['statement']}
  (quantified over: {p['quantifier']['text']})
  (code it lives in: {', '.join(p['anchors']['files'])})

TASK: produce {n} DIFFERENT realistic source changes (each a small diff to the library code under src/aioquic, the kind of thing a refactoring, an optimisation or a plausible bug-fix-gone-wrong would introduce) that each BREAK this property while the code still imports/compiles and the WHOLE existing test-suite still passes. Prefer changes that need something specific to manifest — a particular interleaving or ordering, a loss/ack at a particular point, a multi-step sequence of operations, an unusual boundary input, or two cooperating sites that each look fine alone — NOT ones that ordinary use would expose at once. Each change must break a different aspect/clause of the property or live in a different function.

For each change k = 1..{n} deliver in /tmp/mut-{pid}/out/k/:
  * patch.diff — `git diff` of ONLY that change against the unchanged worktree (apply one change at a time; `git checkout -- .` between them);
  * demo.py — a small self-contained program (run as `PYTHONPATH=<tree>/src /venv/bin/python demo.py`) that exits 0 on the unchanged tree and exits non-zero (assertion naming what went wrong) with the change applied, demonstrating the property violation through the library's API (public API or the classes named above);
  * meta.json — {{"property": "{pid}", "clause": "<which part of the property breaks>", "needs": "<what specific input/sequence/interleaving is needed for it to manifest>", "files": [...], "tests_pass": true}}.
Verify yourself, for every change: the full test-suite passes with it; demo.py fails with it and passes without it. Finish with `git checkout -- .` so the worktree is clean (keep out/ — it is untracked). Final answer: a 3-line summary per change.""")
