"""Failing-input search for C04: run candidate op-line cases on a build of _buffer.c/_crypto.c
with `clang -fsanitize=address,undefined`; a sanitizer report is a concrete witness."""
import json
import os
import re
import subprocess
import sys
import tempfile

HERE = os.path.dirname(os.path.abspath(__file__))
VERIF = os.path.dirname(HERE)
sys.path.insert(0, VERIF)


def asan_env():
    rt = subprocess.run(["clang", "-print-file-name=libclang_rt.asan-x86_64.so"],
                        capture_output=True, text=True).stdout.strip()
    env = dict(os.environ)
    env.update({"LD_PRELOAD": rt, "PYTHONMALLOC": "malloc",
                "ASAN_OPTIONS": "detect_leaks=0:abort_on_error=0:allocator_may_return_null=1",
                "UBSAN_OPTIONS": "print_stacktrace=1:halt_on_error=1"})
    return env


def summarize(report):
    m = re.search(r"ERROR: AddressSanitizer: (\S+)", report)
    kind = m.group(1) if m else None
    if kind is None:
        m = re.search(r"runtime error: ([^\n]+)", report)
        kind = "ubsan: " + m.group(1) if m else "crash"
    fn = None
    for m in re.finditer(r"#\d+ 0x[0-9a-f]+ in (\w+)", report):
        if m.group(1).startswith(("Buffer_", "AEAD_", "HeaderProtection_", "create_ctx", "parse_uint_arg")):  # C frames of the extension
            fn = m.group(1)
            break
    rw = re.search(r"\b(READ|WRITE) of size (\d+)", report)
    return {"sanitizer": kind, "function": fn, "access": f"{rw.group(1)} {rw.group(2)}" if rw else None}


def op_of(fn):
    """line-protocol op exercising a C function (to stop re-reporting the same defect)"""
    if not fn:
        return None
    if fn == "Buffer_init":
        return None            # the constructor is the first line of every case
    for pre, op in (("Buffer_", "c.buf."), ("AEAD_", "c.aead."), ("HeaderProtection_", "c.hp.")):
        if fn.startswith(pre):
            return op + fn[len(pre):].replace("_getter", "")
    return None


def run(cases, timeout=600, per_function=2):
    """returns (witnesses, executed): witnesses = [{case, index, report, summary}]"""
    from harness import tree
    root = tree.build(asan=True)
    env = asan_env()
    fd, path = tempfile.mkstemp(suffix=".json", prefix="c04cases-")
    with os.fdopen(fd, "w") as f:
        json.dump(cases, f)
    found, start, executed = [], 0, 0
    counts, skip_ops = {}, set()
    try:
        while start < len(cases):
            r = subprocess.run(["/venv/bin/python", os.path.join(HERE, "c04_asan_child.py"), root, VERIF, path, str(start),
                                json.dumps(sorted(skip_ops))],
                               capture_output=True, text=True, env=env, timeout=timeout)
            for m in re.finditer(r"^@corrupt (\d+) (.*)$", r.stdout, re.M):
                i = int(m.group(1))
                if not any(f["index"] == i for f in found):
                    found.append({"index": i, "case": cases[i], "report": m.group(2),
                                  "summary": {"sanitizer": "state-corruption", "function": None, "access": m.group(2)}})
            marks = re.findall(r"^@ (\d+|done)$", r.stdout, re.M)
            if marks and marks[-1] == "done":
                executed = len(cases)
                break
            if not marks:
                raise RuntimeError("sanitizer child did not start: " + r.stderr[-1500:])
            i = int(marks[-1])
            executed = i + 1
            rep = r.stderr[r.stderr.rfind(f"@ {i}\n"):]
            ops = re.findall(r"^@@ (\d+)$", r.stdout[r.stdout.rfind(f"@ {i}\n"):], re.M)
            j = int(ops[-1]) if ops else len(cases[i]) - 1
            found.append({"index": i, "case": cases[i], "op_index": j, "report": rep[-4000:], "summary": summarize(rep)})
            start = i + 1
            if len(found) >= 25:            # enough witnesses; every further report costs a process restart
                break
            # after `per_function` reports in the same C function, stop exercising the op that reaches it
            fn = found[-1]["summary"]["function"]
            counts[fn] = counts.get(fn, 0) + 1
            if counts[fn] >= per_function and op_of(fn) and j > 0 and cases[i][j].split()[0] == op_of(fn):
                skip_ops.add(op_of(fn))
    finally:
        os.unlink(path)
    return found, executed


if __name__ == "__main__":
    cs = [l.split(";") for l in sys.argv[1:]] or [["c.hp.new aes-128-ecb " + "00" * 16, "c.hp.remove 10 9"]]
    w, n = run(cs)
    print(f"{n} cases executed, {len(w)} sanitizer reports")
    for x in w:
        print(x["case"], x["summary"])
