#!/venv/bin/python
"""Translator tie for the TLS engine: parses <repo>/src/aioquic/tls.py with `ast`
on every run and emits lean/AQ/Gen/TlsMachine.lean (+ tls_machine.json for the
Python side of the correspondence):

  * the dispatch table State x HandshakeType -> handler of
    Context._handle_reassembled_message (fall-through = raise
    AlertUnexpectedMessage), what runs before / after the dispatch, and the
    shape of Context.handle_message;
  * for every handler the ordered ACTION LIST with the enclosing conditions;
  * constants (enums, cipher-suite / signature / group tables, defaults).

Statement or call shapes that are not understood raise ExtractError: the tie is
broken loudly, nothing is skipped.  Files are rewritten only when they change.
"""
import ast
import builtins
import json
import os
import re
import sys

HERE = os.path.dirname(os.path.dirname(os.path.abspath(__file__)))
sys.path.insert(0, os.path.dirname(os.path.abspath(__file__)))


import tls_norm as N  # noqa: E402


class ExtractError(Exception):
    pass


def bad(node, why):
    raise ExtractError(f"tls.py:{getattr(node, 'lineno', '?')}: {why}: {ast.unparse(node)[:160]}")


HANDLERS = re.compile(r"^_(client|server)_(handle|send|expect)_|^_check_certificate_verify_signature$|^_set_peer_certificate$")

# calls that neither touch the security state nor escape with an exception of
# their own (data construction, reads); BufferReadError from buffer reads is
# mapped to AlertDecodeError by handle_message
NEUTRAL_NAMES = {
    "int", "len", "bytes", "isinstance", "cast", "partial", "range", "tuple", "list",
    "ClientHello", "ServerHello", "EncryptedExtensions", "Certificate", "CertificateRequest",
    "CertificateVerify", "Finished", "NewSessionTicket", "OfferedPsks", "Buffer", "KeySchedule",
    "KeyScheduleProxy", "SessionTicket", "encode_public_key", "os.urandom", "struct.unpack",
    "self._signature_algorithms_for_private_key", "signature_algorithm_matches_key",
}
NEUTRAL_METHODS = {"public_key", "public_bytes", "append", "tell", "data_slice", "select", "copy"}
# calls into external libraries / application callbacks that may raise anything
EXT_NAMES = {
    "decode_public_key", "ipaddress.ip_address", "ec.generate_private_key", "ec.ECDH",
    "signature_algorithm_params", "x509.load_der_x509_certificate", "self.alpn_cb",
    "self.new_session_ticket_cb", "self.get_session_ticket_cb", "self._build_session_ticket",
    "x25519.X25519PrivateKey.generate", "x448.X448PrivateKey.generate",
}
EXT_METHODS = {"exchange", "sign"}
MSG = {
    "client_hello": "CLIENT_HELLO", "server_hello": "SERVER_HELLO", "new_session_ticket": "NEW_SESSION_TICKET",
    "encrypted_extensions": "ENCRYPTED_EXTENSIONS", "certificate": "CERTIFICATE",
    "certificate_request": "CERTIFICATE_REQUEST", "certificate_verify": "CERTIFICATE_VERIFY", "finished": "FINISHED",
}
# tests the hand-written Lean refers to by name: (function, source text) -> name
KNOWN_TESTS = {
    ("_client_handle_hello", "peer_hello.pre_shared_key is not None"): "ch_psk_selected",
    ("_client_handle_hello", "self._key_schedule_psk is None or peer_hello.pre_shared_key != 0 or "
                             "cipher_suite != self._key_schedule_psk.cipher_suite"): "ch_psk_reject",
    ("_client_handle_encrypted_extensions", "self._session_resumed"): "ee_resumed",
    ("_client_handle_certificate_verify", "self._verify_mode != ssl.CERT_NONE"): "cv_verify_required",
    ("_client_handle_finished", "self._certificate_request is not None"): "fin_cert_requested",
    ("_client_handle_finished", "self.certificate is not None and self.certificate_private_key is not None"): "fin_have_cert",
    ("_client_handle_finished", "signature_algorithm"): "fin_have_sigalg",
    ("_client_send_hello", "self.session_ticket and self.session_ticket.is_valid"): "hello_ticket_valid",
    ("_client_send_hello", "hello.early_data"): "hello_early_data",
    ("_server_handle_certificate", "certificate.certificates"): "scert_nonempty",
    ("_server_handle_hello", "self._alpn_protocols is not None"): "sh_alpn_configured",
    ("_server_handle_hello", "self.get_session_ticket_cb is not None and psk_key_exchange_mode is not None and "
                             "(peer_hello.pre_shared_key is not None) and (len(peer_hello.pre_shared_key.identities) == 1) "
                             "and (len(peer_hello.pre_shared_key.binders) == 1)"): "sh_psk_offered",
    ("_server_handle_hello", "session_ticket is not None and session_ticket.is_valid and "
                             "(session_ticket.cipher_suite == cipher_suite)"): "sh_ticket_ok",
    ("_server_handle_hello", "peer_hello.early_data"): "sh_early_data",
    ("_server_handle_hello", "pre_shared_key is None", 0): "sh_no_psk_a",
    ("_server_handle_hello", "pre_shared_key is None", 1): "sh_no_psk_b",
    ("_server_handle_hello", "self._request_client_certificate", 0): "sh_request_cert_a",
    ("_server_handle_hello", "self._request_client_certificate", 1): "sh_request_cert_b",
    ("_server_expect_finished", "self.new_session_ticket_cb is not None and self._psk_key_exchange_mode is not None"):
        "sef_send_ticket",
}
SCHED = {"self.key_schedule": "main", "self._key_schedule_psk": "psk", "self._key_schedule_proxy": "proxy"}


def dotted(node):
    try:
        return ast.unparse(node)
    except Exception:  # pragma: no cover
        return "?"


def enum_members(cls):
    out = []
    for st in cls.body:
        if isinstance(st, ast.Assign) and len(st.targets) == 1 and isinstance(st.targets[0], ast.Name) \
                and isinstance(st.value, ast.Constant) and isinstance(st.value.value, int):
            out.append((st.targets[0].id, st.value.value))
        elif isinstance(st, ast.Expr) and isinstance(st.value, ast.Constant):
            continue
        elif isinstance(st, ast.Pass):
            continue
        else:
            bad(st, f"enum {cls.name}: member shape")
    return out


class Fn:
    """action-list extraction of one handler function"""

    def __init__(self, fdef, alerts, helpers=None, module_globals=()):
        self.f = fdef
        self.name = fdef.name
        self.alerts = alerts
        self.helpers = helpers or {}       # private methods of Context that may be inlined
        self.globals = set(module_globals)
        self.steps = []
        self.tests = []          # dicts {name, line, text}
        self.ntest = 0
        self.ntry = 0
        self.locals_def = {}     # local name -> defining expression (last straight-line def)
        self.scratch = set()     # local Buffer objects
        self.cur = None          # statement being translated
        self.seen_text = {}
        self.src = [fdef.name]   # function whose source is being walked (handler or inlined helper)
        self.fstack = [fdef]
        self.epoch = {}          # local / self attribute -> number of assignments seen so far
        self.same = {}           # (text, assignment epochs of what it reads) -> test name
        self.present = set()     # texts (both orientations) of every `if` test of the handler and the helpers
        for fd in [fdef] + list(self.helpers.values()):
            for x in ast.walk(fd):
                if isinstance(x, ast.If):
                    t = N.simplify(x.test)
                    self.present |= {dotted(t), dotted(N.negate(t))}
        self.inlined = []
        self.walk_top(fdef.body, [], False)

    # -- helpers
    def emit(self, node, cond, act, caught=False):
        # `line` is the first line of the enclosing statement (all actions of one
        # statement share it: the statement is the unit that raises); `at` is the
        # line of the call / node itself
        st = self.cur if self.cur is not None else node
        self.steps.append({"line": st.lineno, "end": getattr(st, "end_lineno", st.lineno), "at": node.lineno,
                           "cond": [list(c) for c in cond], "act": act, "caught": caught, "src": self.src[-1]})

    def localish(self, name):
        import builtins
        return name != "self" and name not in self.globals and not hasattr(builtins, name)

    def norm_text(self, expr):
        names = {x.id for x in ast.walk(expr) if isinstance(x, ast.Name) and self.localish(x.id)}
        return N.alpha_test(expr, names)

    def new_test(self, node, expr, kind="if", span=None):
        """register the test of an if / loop; returns (name, polarity).  A named test (KNOWN_TESTS) is
        recognised by its text, by the text of its NEGATION (polarity False: `if x == A: return` and
        `if x != A: ...` are the same test), and — when its exact text occurs nowhere in the function —
        by its text up to a renaming of locals, provided that is unambiguous."""
        text = expr if isinstance(expr, str) else dotted(expr)
        flipped, name = False, None
        if not isinstance(expr, str):
            cands = ((expr, False), (N.negate(expr), True))
            hit = next(((c, f, dotted(c)) for c, f in cands if self.known_exact(dotted(c))), None)
            if hit is None:
                hit = next(((c, f, self.known_renamed(c)) for c, f in cands if self.known_renamed(c) is not None), None)
            if hit is not None:
                expr, flipped, text = hit          # canonical orientation and (named) text
        key = (self.name, text)
        # the same condition tested again, nothing it reads having been assigned in between, is the SAME
        # test (unless the occurrences are named individually)
        deps = ()
        if not isinstance(expr, str):
            deps = tuple(sorted((d, self.epoch.get(d, 0)) for d in
                                {dotted(x) for x in ast.walk(expr) if isinstance(x, (ast.Name, ast.Attribute))}))
            individually = any(len(k) == 3 and k[:2] == key for k in KNOWN_TESTS)
            if not individually and (text, deps) in self.same:
                name = self.same[(text, deps)]
                lo, hi = (span.lineno, span.end_lineno) if span is not None else (node.body[0].lineno, node.body[-1].end_lineno)
                self.tests.append({"name": name, "fn": self.src[-1], "line": node.lineno, "text": text, "kind": kind,
                                   "flipped": flipped, "true_lo": lo, "true_hi": hi, "again": True})
                return name, not flipped
        occ = self.seen_text.get(key, 0)
        self.seen_text[key] = occ + 1
        if key in KNOWN_TESTS and occ == 0:
            name = KNOWN_TESTS[key]
        elif key + (occ,) in KNOWN_TESTS:
            name = KNOWN_TESTS[key + (occ,)]
        else:
            name = f"{self.name.strip('_')}_{kind}{self.ntest}"
        self.ntest += 1
        lo, hi = (span.lineno, span.end_lineno) if span is not None else (node.body[0].lineno, node.body[-1].end_lineno)
        self.tests.append({"name": name, "fn": self.src[-1], "line": node.lineno, "text": text, "kind": kind,
                           "flipped": flipped, "true_lo": lo, "true_hi": hi})
        if not isinstance(expr, str):
            self.same[(text, deps)] = name
        return name, not flipped

    def known_exact(self, text):
        return any(k[0] == self.name and k[1] == text for k in KNOWN_TESTS)

    def known_renamed(self, expr):
        """the text of the unique named test of this function that equals `expr` up to local names and
        whose own text does not occur in the function"""
        norm = self.norm_text(expr)
        hits = {k[1] for k in KNOWN_TESTS if k[0] == self.name and k[1] not in self.present
                and self.norm_text(ast.parse(k[1], mode="eval").body) == norm}
        return hits.pop() if len(hits) == 1 else None

    def alert_of(self, exc):
        """`AlertX(...)` or `AlertX` -> class name"""
        if isinstance(exc, ast.Call):
            exc = exc.func
        if isinstance(exc, ast.Name) and exc.id in self.alerts:
            return exc.id
        return None

    # -- expressions: classify every call, in evaluation order
    def calls(self, expr, cond, caught, allow_special=()):
        for node in self.post_order(expr):
            if isinstance(node, ast.Call):
                self.call(node, cond, caught, allow_special)
            elif isinstance(node, (ast.Lambda, ast.Await, ast.Yield, ast.YieldFrom, ast.NamedExpr)):
                bad(node, "expression kind not understood")

    def post_order(self, node):
        for ch in ast.iter_child_nodes(node):
            yield from self.post_order(ch)
        yield node

    def call(self, node, cond, caught, allow_special):
        name = dotted(node.func)
        meth = node.func.attr if isinstance(node.func, ast.Attribute) else None
        if name in allow_special:
            return
        if name in NEUTRAL_NAMES or (meth in NEUTRAL_METHODS and name not in EXT_NAMES):
            return
        if name in self.alerts:
            return   # constructing an alert object (argument of negotiate / raise)
        if name.endswith(".finished_verify_data"):
            key = dotted(node.args[0]) if node.args else "?"
            k = {"self._enc_key": "enc", "self._dec_key": "dec", "binder_key": "binder"}.get(key)
            sched = SCHED.get(dotted(node.func.value))
            if k is None or sched is None:
                bad(node, "finished_verify_data: key or schedule not understood")
            self.emit(node, cond, {"k": "computeMac", "key": k, "sched": sched}, caught)
            return
        if name.endswith(".certificate_verify_data"):
            return   # input of sign / verify, recorded there
        if meth == "sign":
            arg = node.args[0] if node.args else None
            if not (isinstance(arg, ast.Call) and dotted(arg.func) == "self.key_schedule.certificate_verify_data"):
                bad(node, "sign(): signed data is not key_schedule.certificate_verify_data(..)")
            self.emit(node, cond, {"k": "sign", "ctx": dotted(arg.args[0])}, caught)
            return
        if meth == "derive_secret":
            sched = SCHED.get(dotted(node.func.value))
            lab = node.args[0] if node.args else None
            if sched is None or not (isinstance(lab, ast.Constant) and isinstance(lab.value, bytes)):
                bad(node, "derive_secret: schedule or label not understood")
            self.emit(node, cond, {"k": "derive", "label": lab.value.decode("ascii"), "sched": sched}, caught)
            return
        if name in EXT_NAMES or meth in EXT_METHODS:
            self.emit(node, cond, {"k": "ext", "name": name}, caught)
            return
        if isinstance(node.func, ast.Call) and dotted(node.func.func) != "":   # GROUP_TO_CURVE[..]() etc.
            return
        if isinstance(node.func, ast.Subscript) and dotted(node.func.value) == "GROUP_TO_CURVE":
            self.emit(node, cond, {"k": "ext", "name": "GROUP_TO_CURVE[]"}, caught)
            return
        bad(node, f"call to {name!r} is not classified")

    # -- statements
    def walk(self, stmts, cond, caught):
        for st in stmts:
            self.stmt(st, cond, caught)

    def walk_top(self, stmts, cond, caught):
        """body of a function (handler or inlined helper): an early-return guard `if c: ...; return`
        is the same as wrapping the rest of the body in `if not c:`; a trailing bare return is dropped"""
        stmts = list(stmts)
        while stmts and isinstance(stmts[-1], ast.Return) and stmts[-1].value is None:
            stmts.pop()
        for idx, st in enumerate(stmts):
            if isinstance(st, ast.If) and not st.orelse and st.body and isinstance(st.body[-1], ast.Return) \
                    and st.body[-1].value is None and not any(isinstance(x, ast.Return) for b in st.body[:-1] for x in ast.walk(b)):
                t = self.test_expr(st.test)
                self.calls(t, cond, caught)
                name, pol = self.new_test(st, t)
                self.walk(st.body[:-1], cond + [(name, pol)], caught)
                self.walk_top(stmts[idx + 1:], cond + [(name, not pol)], caught)
                return
            self.stmt(st, cond, caught)

    def stmt(self, st, cond, caught):
        if not isinstance(st, (ast.If, ast.For, ast.Try)) or self.is_check(st):
            self.cur = st
        else:
            self.cur = None
        try:
            return self.stmt_(st, cond, caught)
        finally:
            self.cur = None

    def is_check(self, st):
        """`if a != b: raise Alert` folded into one verify action"""
        return isinstance(st, ast.If) and self.mac_check(st) is not None

    def mac_check(self, st):
        """(kind, received, expected source, alert) when `st` is `if RECEIVED != EXPECTED: raise Alert`
        and EXPECTED comes — through locals or `self._expected_verify_data` — from
        `key_schedule.finished_verify_data(key)`; the operands are identified by data flow, not by name"""
        t = N.simplify(st.test)
        if not (isinstance(t, ast.Compare) and len(t.ops) == 1 and isinstance(t.ops[0], ast.NotEq)
                and len(st.body) == 1 and isinstance(st.body[0], ast.Raise) and not st.orelse):
            return None
        alert = self.alert_of(st.body[0].exc)
        if alert is None:
            return None
        sides = [t.left, t.comparators[0]]
        res = [self.resolve_mac(x) for x in sides]
        for i in (1, 0):
            if res[i] is not None:
                key = dotted(res[i].args[0]) if res[i].args else ""
                kdef = self.locals_def.get(key)
                binder = kdef is not None and "res binder" in dotted(kdef)
                # received value: one level of local resolution, remaining locals alpha-renamed;
                # expected value: fully resolved
                recv = N.resolve(sides[1 - i], self.single_defs(), depth=1)
                names = {x.id for x in ast.walk(recv) if isinstance(x, ast.Name) and x.id in self.locals_def}
                exp = N.resolve(res[i], self.single_defs())
                return ("verifyBinder" if binder else "verifyFinished", N.alpha_test(recv, names), dotted(exp), alert)
        return None

    def resolve_mac(self, expr):
        v = expr
        for _ in range(3):
            if isinstance(v, ast.Name) and v.id in self.locals_def:
                v = self.locals_def[v.id]
            elif dotted(v) == "self._expected_verify_data" and dotted(v) in EXPECTED_ATTR:
                v = EXPECTED_ATTR[dotted(v)]
            else:
                break
        if isinstance(v, ast.Call) and dotted(v.func).endswith(".finished_verify_data"):
            return v
        return None

    def single_defs(self):
        return {k: v for k, v in self.locals_def.items()}

    def stmt_(self, st, cond, caught):
        if isinstance(st, ast.Expr) and isinstance(st.value, ast.Constant):
            return                                              # docstring
        if isinstance(st, (ast.Pass, ast.Nonlocal)):
            return
        if isinstance(st, ast.Return):
            if st.value is not None:
                self.calls(st.value, cond, caught)
            return self.emit(st, cond, {"k": "ret"})
        if isinstance(st, ast.Break):
            return self.emit(st, cond, {"k": "brk"})
        if isinstance(st, ast.Raise) and st.exc is None and getattr(self, "in_handler", 0):
            return self.emit(st, cond, {"k": "reraise"})      # bare `raise` inside an except clause
        if isinstance(st, ast.Raise):
            a = self.alert_of(st.exc) if st.exc is not None else None
            if a is None:
                bad(st, "raise of something that is not a tls.Alert class")
            return self.emit(st, cond, {"k": "raise", "alert": a})
        if isinstance(st, ast.Assert):
            self.calls(st.test, cond, caught)
            return self.emit(st, cond, {"k": "assert", "text": dotted(st.test)}, caught)
        if isinstance(st, ast.If):
            return self.if_(st, cond, caught)
        if isinstance(st, ast.For):
            return self.for_(st, cond, caught)
        if isinstance(st, ast.With):
            return self.with_(st, cond, caught)
        if isinstance(st, ast.Try):
            return self.try_(st, cond, caught)
        if isinstance(st, ast.AnnAssign):
            if st.value is None:
                return                                          # bare annotation
            return self.assign([st.target], st.value, st, cond, caught)
        if isinstance(st, ast.Assign):
            return self.assign(st.targets, st.value, st, cond, caught)
        if isinstance(st, ast.Expr) and isinstance(st.value, ast.Call):
            return self.call_stmt(st, st.value, cond, caught)
        bad(st, "statement shape not understood")

    def if_(self, st, cond, caught):
        mc = self.mac_check(st)
        if mc is not None:
            kind, recv, src, alert = mc
            return self.emit(st, cond, {"k": kind, "alert": alert, "expected": src, "left": recv,
                                        "test": f"{recv} != {src}"})
        t = self.test_expr(st.test)
        self.calls(t, cond, caught)
        name, pol = self.new_test(st, t)
        yes, no = cond + [(name, pol)], cond + [(name, not pol)]
        if not pol and st.orelse and not N.terminates(st.body) and not N.terminates(st.orelse):
            # `if not c: A else: B` is `if c: B else: A`: the arms are exclusive, emit the named one first
            self.walk(st.orelse, no, caught)
            return self.walk(st.body, yes, caught)
        # `if c: A else: raise E`  ==  `if not c: raise E` ; A     (and the mirror image): the branch
        # that always raises / returns is a guard, the other one continues at the outer level
        if st.orelse and N.terminates(st.orelse) and not N.terminates(st.body):
            self.walk(st.orelse, no, caught)
            self.walk(st.body, cond, caught)
        elif st.orelse and N.terminates(st.body) and not N.terminates(st.orelse):
            self.walk(st.body, yes, caught)
            self.walk(st.orelse, cond, caught)
        else:
            self.walk(st.body, yes, caught)
            if st.orelse:
                self.walk(st.orelse, no, caught)

    def test_expr(self, test):
        """the test with negations pushed inwards; a boolean local that is defined once and used only
        here is replaced by its definition (`ok = a and b` / `if not ok: raise` == `if not a or not b`)"""
        t = N.simplify(test)
        core = t.operand if isinstance(t, ast.UnaryOp) and isinstance(t.op, ast.Not) else t
        if isinstance(core, ast.Name) and self.localish(core.id):
            f = self.fstack[-1]
            defs = N.single_defs(f)
            uses = sum(1 for x in ast.walk(f) if isinstance(x, ast.Name) and x.id == core.id and isinstance(x.ctx, ast.Load))
            if core.id in defs and uses == 1 and isinstance(defs[core.id], (ast.BoolOp, ast.Compare, ast.UnaryOp)):
                t = N.simplify(N.substitute(t, {core.id: defs[core.id]}))
        return t

    def mac_source(self, name, node):      # kept for callers that resolve by name
        v = self.resolve_mac(ast.parse(name, mode="eval").body)
        if v is None:
            bad(node, f"comparison operand {name} is not a finished_verify_data(..) value")
        return dotted(v)

    def for_(self, st, cond, caught):
        if st.orelse:
            bad(st, "for/else not understood")
        self.calls(st.iter, cond, caught)
        name, _ = self.new_test(st, "for " + dotted(st.target) + " in " + dotted(st.iter), "loop")
        before = len(self.steps)
        self.walk(st.body, cond + [(name, True)], caught)
        for s in self.steps[before:]:
            if s["act"]["k"] not in ("local", "ext", "brk", "setAttr"):
                bad(st, f"loop body contains a {s['act']['k']} action (only neutral actions are modelled in loops)")

    def with_(self, st, cond, caught):
        if len(st.items) != 1 or not isinstance(st.items[0].context_expr, ast.Call):
            bad(st, "with statement not understood")
        c = st.items[0].context_expr
        if dotted(c.func) != "push_message" or len(c.args) != 2:
            bad(st, "with statement other than push_message(key_schedule, buf)")
        sched = SCHED.get(dotted(c.args[0]))
        if sched is None:
            bad(st, "push_message on an unknown key schedule")
        if not st.body or not (isinstance(st.body[-1], ast.Expr) and isinstance(st.body[-1].value, ast.Call)):
            bad(st, "push_message body must end with the single push_<message>(buf, ..) call")
        # statements that only prepare the message value (locals, loops appending to a list) may precede
        # the push; they must not be actions of their own nor write into the buffer
        before = len(self.steps)
        self.walk(st.body[:-1], cond, caught)
        for x in self.steps[before:]:
            if x["act"]["k"] not in ("local", "ext", "brk"):
                bad(st, f"a {x['act']['k']} action inside push_message before the push")
        for prep in st.body[:-1]:
            for x in ast.walk(prep):
                if isinstance(x, ast.Name) and x.id == dotted(c.args[1]):
                    bad(st, "the output buffer is touched inside push_message before the push")
        self.cur = st
        p = st.body[-1].value
        m = re.match(r"^push_(\w+)$", dotted(p.func))
        if not m or m.group(1) not in MSG or dotted(p.args[0]) != dotted(c.args[1]):
            bad(st, "push_message body must push a known message into the same buffer")
        for a in p.args[1:]:
            self.calls(a, cond, caught)
        self.emit(st, cond, {"k": "pushMessage", "msg": MSG[m.group(1)], "hashed": True, "sched": sched})

    def try_(self, st, cond, caught):
        if st.finalbody:
            bad(st, "try/finally not understood")
        self.walk(st.body, cond, True)
        prev = []            # an `except` clause is entered only if the earlier ones did not match
        for h in st.handlers:
            tid = f"{self.name.strip('_')}_exc{self.ntry}"
            self.ntry += 1
            self.tests.append({"name": tid, "fn": self.src[-1], "line": h.lineno, "flipped": False,
                               "text": "except " + (dotted(h.type) if h.type is not None else "BaseException"),
                               "kind": "except", "true_lo": h.body[0].lineno, "true_hi": h.body[-1].end_lineno})
            self.in_handler = getattr(self, "in_handler", 0) + 1
            try:
                self.walk(h.body, cond + prev + [(tid, True)], caught)
            finally:
                self.in_handler -= 1
            prev = prev + [(tid, False)]
        if st.orelse:
            self.walk(st.orelse, cond + prev, caught)

    def inlinable(self, call):
        if not isinstance(call, ast.Call):
            return None
        m = re.match(r"^self\.(_\w+)$", dotted(call.func))
        if not m or m.group(1) not in self.helpers:
            return None
        return self.helpers[m.group(1)]

    def inline(self, call, target, st, cond, caught):
        """a private helper of Context called from a handler is walked in place: its actions stay in the
        handler's ordered list, under the conditions of the call site (parameters replaced by the
        arguments).  Bounded depth, no recursion; `x = self._h(..)` needs a single trailing `return e`."""
        h = self.inlinable(call)
        if h.name in self.src:
            bad(call, f"recursive helper {h.name}")
        if len(self.src) > 3:
            bad(call, "helper calls nested too deep to inline")
        params = [a.arg for a in h.args.args][1:]
        if h.args.vararg or h.args.kwarg or h.args.kwonlyargs or len(call.args) > len(params):
            bad(call, f"call of helper {h.name}: argument shape not understood")
        mapping = dict(zip(params, call.args))
        for k in call.keywords:
            if k.arg is None or k.arg not in params:
                bad(call, f"call of helper {h.name}: keyword not understood")
            mapping[k.arg] = k.value
        defaults = dict(zip(params[len(params) - len(h.args.defaults):], h.args.defaults))
        for p_ in params:
            if p_ not in mapping:
                if p_ not in defaults:
                    bad(call, f"call of helper {h.name}: missing argument {p_}")
                mapping[p_] = defaults[p_]
        reassigned = set(N.assigned_names(h.body)) & set(params)
        if reassigned:
            bad(call, f"helper {h.name} assigns its parameter(s) {sorted(reassigned)}")
        body = [N.substitute(x, mapping) for x in h.body
                if not (isinstance(x, ast.Expr) and isinstance(x.value, ast.Constant))]
        for a in call.args + [k.value for k in call.keywords]:
            self.calls(a, cond, caught)
        ret = None
        if target is not None:
            if not body or not isinstance(body[-1], ast.Return) or body[-1].value is None:
                bad(call, f"helper {h.name} used for its value must end with a single `return <expr>`")
            ret, body = body[-1].value, body[:-1]
        if any(isinstance(x, ast.Return) and x.value is not None for b in body for x in ast.walk(b)):
            bad(call, f"helper {h.name}: `return <value>` in the middle is not understood")
        self.src.append(h.name)
        self.fstack.append(h)
        if h.name not in self.inlined:
            self.inlined.append(h.name)
        saved = self.cur
        try:
            self.walk_top(body, cond, caught)
            if ret is not None and not (isinstance(ret, ast.Name) and dotted(ret) == dotted(target)):
                self.cur = st
                self.assign([target], ret, st, cond, caught)
        finally:
            self.src.pop()
            self.fstack.pop()
            self.cur = saved

    def assign(self, targets, value, st, cond, caught):
        for t in targets:
            for x in ast.walk(t):
                if isinstance(x, (ast.Name, ast.Attribute)) and isinstance(getattr(x, "ctx", None), ast.Store):
                    self.epoch[dotted(x)] = self.epoch.get(dotted(x), 0) + 1
        if len(targets) == 1 and self.inlinable(value) is not None:
            return self.inline(value, targets[0], st, cond, caught)
        tnames = [dotted(t) for t in targets]
        # special right-hand sides
        if isinstance(value, ast.Call):
            name = dotted(value.func)
            m = re.match(r"^pull_(\w+)$", name)
            if m and m.group(1) in MSG:
                if dotted(value.args[0]) != "input_buf":
                    bad(st, "message parser applied to something that is not the received message")
                self.emit(st, cond, {"k": "parse", "msg": MSG[m.group(1)]})
                for t in tnames:
                    if t.startswith("self."):
                        self.emit(st, cond, {"k": "setAttr", "attr": t[5:], "val": "other"})
                return
            if name == "negotiate":
                field = tnames[0].replace("self.", "")
                alert = None
                if len(value.args) == 3:
                    alert = self.alert_of(value.args[2])
                    if alert is None:
                        bad(st, "negotiate(): third argument is not an alert")
                for a in value.args[:2]:
                    self.calls(a, cond, caught)
                self.emit(st, cond, {"k": "negotiate", "field": field, "alert": alert,
                                     "supported": dotted(value.args[0]), "offered": dotted(value.args[1])})
                if tnames[0].startswith("self."):
                    self.emit(st, cond, {"k": "setAttr", "attr": tnames[0][5:], "val": "other"})
                return
        self.calls(value, cond, caught)
        for t, tn in zip(targets, tnames):
            if isinstance(t, ast.Attribute) and isinstance(t.value, ast.Name) and t.value.id == "self":
                if isinstance(value, ast.Constant) and value.value is None:
                    v = "none"
                elif isinstance(value, ast.Constant) and value.value is True:
                    v = "true"
                elif isinstance(value, ast.Constant) and value.value is False:
                    v = "false"
                else:
                    v = "other"
                self.emit(st, cond, {"k": "setAttr", "attr": t.attr, "val": v, "src": dotted(value)}, caught)
            elif isinstance(t, (ast.Name, ast.Attribute, ast.Subscript, ast.Tuple)):
                if isinstance(t, ast.Name):
                    self.locals_def[t.id] = value
                    if isinstance(value, ast.Call) and dotted(value.func) == "Buffer":
                        self.scratch.add(t.id)
                self.emit(st, cond, {"k": "local", "name": tn}, caught)
            else:
                bad(st, "assignment target not understood")

    def call_stmt(self, st, c, cond, caught):
        if self.inlinable(c) is not None:
            return self.inline(c, None, st, cond, caught)
        name = dotted(c.func)
        args = [dotted(a) for a in c.args]
        if name == "self._set_state":
            return self.set_state(st, c.args[0], cond)
        if name in ("self._setup_traffic_protection", "self.update_traffic_key_cb"):
            d = re.match(r"^Direction\.(\w+)$", args[0])
            e = re.match(r"^Epoch\.(\w+)$", args[1])
            if not d or not e:
                bad(st, "traffic key release with non-literal direction / epoch")
            for a in c.args[2:]:
                self.calls(a, cond, caught)
            if name.endswith("protection"):
                lab = c.args[2]
                if not (isinstance(lab, ast.Constant) and isinstance(lab.value, bytes)):
                    bad(st, "_setup_traffic_protection with a non-literal label")
                # _setup_traffic_protection = key_schedule.derive_secret(label) then the release
                self.emit(st, cond, {"k": "derive", "label": lab.value.decode("ascii"), "sched": "main"})
            return self.emit(st, cond, {"k": "releaseKey", "dir": d.group(1), "epoch": e.group(1)})
        if name == "self._check_certificate_verify_signature":
            return self.emit(st, cond, {"k": "verifySig"})
        if name == "verify_certificate":
            kw = {k.arg: dotted(k.value) for k in c.keywords}
            return self.emit(st, cond, {"k": "verifyCert", "args": kw})
        if name == "public_key.verify":
            # inside _check_certificate_verify_signature
            data = c.args[1] if len(c.args) > 1 else None
            if not (isinstance(data, ast.Call) and dotted(data.func) == "self.key_schedule.certificate_verify_data"):
                bad(st, "public_key.verify(): data is not key_schedule.certificate_verify_data(..)")
            if not caught:
                bad(st, "public_key.verify() outside try/except InvalidSignature")
            for a in c.args[2:]:
                self.calls(a, cond, caught)
            return self.emit(st, cond, {"k": "cryptoVerify", "ctx": dotted(data.args[0])}, caught)
        m = re.match(r"^(self\.\w+)\.(update_hash|extract)$", name)
        if m and m.group(1) in SCHED:
            sched = SCHED[m.group(1)]
            if m.group(2) == "extract":
                self.calls(c.args[0], cond, caught) if c.args else None
                return self.emit(st, cond, {"k": "extract", "sched": sched, "arg": args[0] if args else "None"})
            a = args[0]
            if a == "input_buf.data":
                what = "whole"
            elif a in ("input_buf.data_slice(0, hash_offset)", "tmp_buf.data_slice(0, hash_offset)"):
                what = "beforeBinders"
            elif a in ("input_buf.data_slice(hash_offset, hash_offset + 3 + binder_length)",
                       "tmp_buf.data_slice(hash_offset, hash_offset + 3) + binder"):
                what = "binders"
            elif a.endswith(".data") and a[:-5] in self.scratch and self.pushed_into(a[:-5]) == "FINISHED":
                what = "anticipatedFinished"
            else:
                bad(st, "update_hash argument not understood")
            return self.emit(st, cond, {"k": "updateHash", "sched": sched, "what": what})
        hm = re.match(r"^self\.(_\w+)$", name)
        if hm and HANDLERS.match(hm.group(1)) and hm.group(1) != "_check_certificate_verify_signature":
            return self.emit(st, cond, {"k": "call", "fn": hm.group(1)})     # another extracted handler
        m = re.match(r"^push_(\w+)$", name)
        if m and m.group(1) in MSG:
            buf = args[0]
            for a in c.args[1:]:
                self.calls(a, cond, caught)
            if buf in self.scratch:
                self.pushed = getattr(self, "pushed", {})
                self.pushed[buf] = MSG[m.group(1)]
                return self.emit(st, cond, {"k": "local", "name": f"{buf}<-{MSG[m.group(1)]}"}, caught)
            return self.emit(st, cond, {"k": "pushMessage", "msg": MSG[m.group(1)], "hashed": False, "sched": "none"})
        self.calls(c, cond, caught)
        if not self.steps or self.steps[-1]["line"] != st.lineno:
            self.emit(st, cond, {"k": "local", "name": name}, caught)

    def set_state(self, st, arg, cond):
        """`_set_state(State.X)`; `_set_state(X if c else Y)` == `if c: _set_state(X) else: _set_state(Y)`;
        the argument may go through a local defined once"""
        for _ in range(3):
            if isinstance(arg, ast.Name) and arg.id in self.locals_def:
                arg = self.locals_def[arg.id]
        if isinstance(arg, ast.IfExp):
            t = N.simplify(arg.test)
            if any(isinstance(x, ast.Name) and self.localish(x.id) for x in ast.walk(t)):
                bad(st, "_set_state(.. if c else ..): the condition reads locals")
            name, pol = self.new_test(st, t, "if", span=arg.body)
            self.tests[-1]["ifexp"] = True
            self.set_state(st, arg.body, cond + [(name, pol)])
            return self.set_state(st, arg.orelse, cond + [(name, not pol)])
        m = re.match(r"^State\.(\w+)$", dotted(arg))
        if not m:
            bad(st, "_set_state argument")
        return self.emit(st, cond, {"k": "setState", "state": m.group(1)})

    def pushed_into(self, buf):
        return getattr(self, "pushed", {}).get(buf)


EXPECTED_ATTR = {}


class _Unknown:
    """a message-type value outside the HandshakeType enum"""


def _dispatch_eval(expr, env):
    """evaluate a dispatch test for a CONCRETE state / message type.  Understood: comparisons
    (==, !=, in, not in, is, is not) between the state (self.state or a local alias of it), the
    message type and enum members / tuples, lists, sets of them; and / or / not."""
    if isinstance(expr, ast.BoolOp):
        vals = [_dispatch_eval(v, env) for v in expr.values]
        return all(vals) if isinstance(expr.op, ast.And) else any(vals)
    if isinstance(expr, ast.UnaryOp) and isinstance(expr.op, ast.Not):
        return not _dispatch_eval(expr.operand, env)
    if isinstance(expr, ast.Compare) and len(expr.ops) == 1:
        l, r = _dispatch_term(expr.left, env), _dispatch_term(expr.comparators[0], env)
        op = expr.ops[0]
        if isinstance(op, (ast.Eq, ast.Is)):
            return l == r
        if isinstance(op, (ast.NotEq, ast.IsNot)):
            return l != r
        if isinstance(op, ast.In):
            return l in r
        if isinstance(op, ast.NotIn):
            return l not in r
    bad(expr, "dispatch: test not understood")


def _dispatch_term(node, env):
    txt = dotted(node)
    if txt in env:
        return env[txt]
    m = re.match(r"^(State|HandshakeType)\.(\w+)$", txt)
    if m:
        return (m.group(1), m.group(2))
    if isinstance(node, (ast.Tuple, ast.List, ast.Set)):
        return [_dispatch_term(e, env) for e in node.elts]
    bad(node, "dispatch: operand not understood")


def _dispatch_run(stmts, env):
    """the effect of a statement block for a concrete (state, type): ('raise', alert) |
    ('call', handler) | None (falls through)"""
    for st in stmts:
        if isinstance(st, ast.Expr) and isinstance(st.value, ast.Constant):
            continue
        if isinstance(st, ast.Pass):
            continue
        if isinstance(st, ast.If):
            r = _dispatch_run(st.body if _dispatch_eval(st.test, env) else st.orelse, env)
            if r is not None:
                return r
            continue
        if isinstance(st, ast.Raise):
            return ("raise", dotted(st.exc.func if isinstance(st.exc, ast.Call) else st.exc))
        if isinstance(st, ast.Expr) and isinstance(st.value, ast.Call):
            hm = re.match(r"^self\.(_\w+)$", dotted(st.value.func))
            if not hm or not st.value.args or dotted(st.value.args[0]) != "input_buf":
                bad(st, "dispatch: a branch may only call one handler with the message")
            return ("call", hm.group(1))
        bad(st, "dispatch: statement not understood")
    return None


def extract_dispatch(fdef, alerts, enums):
    """State x HandshakeType -> handler, by evaluating the dispatch code of
    _handle_reassembled_message for every concrete state and message type (so the shape of the
    tests — if/else vs guard clauses, == vs != vs membership, a local alias of self.state — does
    not matter, only the decision taken)"""
    body = [s for s in fdef.body if not (isinstance(s, ast.Expr) and isinstance(s.value, ast.Constant))]
    aliases = ["self.state"]
    while body and isinstance(body[0], ast.Assign) and len(body[0].targets) == 1 \
            and isinstance(body[0].targets[0], ast.Name) and dotted(body[0].value) in aliases:
        aliases.append(body[0].targets[0].id)          # state = self.state  (read once)
        body = body[1:]
    if not body or not isinstance(body[0], ast.If):
        bad(fdef, "_handle_reassembled_message does not start with the state dispatch (something runs before it)")
    chain = [body[0]]
    post = body[1:]
    for s in post:
        if not isinstance(s, ast.Assert):
            bad(s, "statement after the dispatch is not an assert")
    for x in ast.walk(body[0]):
        if isinstance(x, (ast.Assign, ast.AugAssign, ast.AnnAssign, ast.For, ast.While, ast.With, ast.Try)):
            bad(x, "dispatch: statement not understood inside the dispatch")
    table, order = {}, []
    types = [n for n, _ in enums["HandshakeType"]]
    for state, _ in enums["State"]:
        row, handled = {}, False
        for t in types + [None]:
            env = {a: ("State", state) for a in aliases}
            env["message_type"] = ("HandshakeType", t) if t is not None else _Unknown
            r = _dispatch_run(chain, env)
            if r is None:
                continue                                # state not in the chain (e.g. the start state)
            handled = True
            if r[0] == "raise":
                if r[1] != "AlertUnexpectedMessage":
                    bad(fdef, f"dispatch: {state} x {t} is refused with {r[1]}, not AlertUnexpectedMessage")
            elif t is None:
                bad(fdef, f"dispatch: {state} accepts a message type outside the enum")
            else:
                row[t] = r[1]
        if handled:
            table[state] = row
            order.append(state)
    return table, order, [dotted(s) for s in post]


# canonical form (tools/tls_norm.py: locals alpha-renamed v0, v1, ..)
HANDLE_MESSAGE_SKELETON = [
    "if self.state == State.CLIENT_HANDSHAKE_START:\n    self._client_send_hello(output_buf[Epoch.INITIAL])\n    return",
    "self._receive_buffer += input_data",
    "while len(self._receive_buffer) >= 4:",
    "v0 = self._receive_buffer[0]",
    "v1 = 4 + int.from_bytes(self._receive_buffer[1:4], byteorder='big')",
    "if len(self._receive_buffer) < v1:\n    break",
    "v2 = self._receive_buffer[:v1]",
    "self._receive_buffer = self._receive_buffer[v1:]",
    "try:\n    self._handle_reassembled_message(message_type=v0, input_buf=Buffer(data=v2), "
    "output_buf=output_buf)\nexcept BufferReadError:\n    raise AlertDecodeError('Could not parse TLS message')",
]


def check_handle_message(fdef):
    """handle_message must be: start -> send hello; reassemble; dispatch each
    complete message; BufferReadError -> AlertDecodeError.  Nothing else."""
    body = N.canon_stmts(fdef.body, params=[a.arg for a in fdef.args.args])
    got = []
    for s in body:
        if isinstance(s, ast.While):
            got.append("while " + dotted(s.test) + ":")
            for x in s.body:
                if isinstance(x, ast.Expr) and isinstance(x.value, ast.Constant):
                    continue
                got.append(dotted(x))
        else:
            got.append(dotted(s))
    if got != HANDLE_MESSAGE_SKELETON:
        for a, b in zip(got + [None] * 20, HANDLE_MESSAGE_SKELETON + [None] * 20):
            if a != b:
                raise ExtractError(f"Context.handle_message changed shape:\n  found    {a!r}\n  expected {b!r}")
    return {"start_state": "CLIENT_HANDSHAKE_START", "start_fn": "_client_send_hello",
            "buffer_read_error": "AlertDecodeError"}


def check_setup_traffic_protection(fdef):
    first = [s for s in fdef.body if not (isinstance(s, ast.Expr) and isinstance(s.value, ast.Constant))][0]
    if not (isinstance(first, ast.Assign) and dotted(first.value) == "self.key_schedule.derive_secret(label)"):
        bad(fdef, "_setup_traffic_protection must start by deriving the secret: <key> = self.key_schedule.derive_secret(label)")
    calls = [s for s in fdef.body if isinstance(s, ast.Expr) and isinstance(s.value, ast.Call)
             and dotted(s.value.func) == "self.update_traffic_key_cb"]
    if len(calls) != 1 or [dotted(a) for a in calls[0].value.args[:2]] != ["direction", "epoch"]:
        bad(fdef, "_setup_traffic_protection must release exactly the (direction, epoch) key it is given")
    n = sum(1 for x in ast.walk(fdef) if isinstance(x, ast.Call) and dotted(x.func) == "self.update_traffic_key_cb")
    if n != 1:
        bad(fdef, "_setup_traffic_protection releases more than one key")


def check_set_state(fdef):
    if dotted(fdef.body[-1]) != "self.state = state":
        bad(fdef, "_set_state must end with self.state = state")
    for x in ast.walk(fdef):
        if isinstance(x, ast.Raise):
            bad(x, "_set_state raises")


NEGOTIATE_SKELETON = (
    "if offered is not None:\n    for v0 in supported:\n        if v0 in offered:\n            return v0\n"
    "if exc is not None:\n    raise exc\nreturn None"
)
SENSITIVE = ("self.state", "self._session_resumed")


def const_list(node, what):
    """[A.B, C.D, ...] -> ['B', 'D'] (names) or ints"""
    if not isinstance(node, ast.List):
        bad(node, f"{what}: not a list literal")
    out = []
    for e in node.elts:
        if isinstance(e, ast.Attribute):
            out.append(e.attr)
        elif isinstance(e, ast.Name):
            out.append(e.id)
        elif isinstance(e, ast.Constant):
            out.append(e.value)
        else:
            bad(e, f"{what}: element")
    return out


def extract(path):
    src = open(path).read()
    mod = ast.parse(src)
    enums, alerts, tables = {}, {}, {}
    ctx = None
    funcs = {}
    for node in mod.body:
        if isinstance(node, ast.ClassDef):
            bases = [dotted(b) for b in node.bases]
            if bases and bases[0] in ("Enum", "IntEnum"):
                enums[node.name] = enum_members(node)
            elif bases == ["Alert"]:
                d = [s for s in node.body if isinstance(s, ast.Assign)]
                if len(d) != 1 or not dotted(d[0].value).startswith("AlertDescription."):
                    bad(node, "alert class shape")
                alerts[node.name] = dotted(d[0].value).split(".")[1]
            elif node.name == "Context":
                ctx = node
        elif isinstance(node, ast.FunctionDef):
            funcs[node.name] = node
        elif isinstance(node, (ast.Assign, ast.AnnAssign)):
            tgt = node.targets[0] if isinstance(node, ast.Assign) else node.target
            if isinstance(tgt, ast.Name) and tgt.id in ("CIPHER_SUITES", "SIGNATURE_ALGORITHMS", "GROUP_TO_CURVE"):
                if not isinstance(node.value, ast.Dict):
                    bad(node, "table is not a dict literal")
                tables[tgt.id] = [(k.attr, dotted(v)) for k, v in zip(node.value.keys, node.value.values)]
    if ctx is None:
        raise ExtractError("class Context not found")
    neg = "\n".join(dotted(s) for s in N.canon_stmts(funcs["negotiate"].body, params=["supported", "offered", "exc"]))
    if neg != NEGOTIATE_SKELETON:
        raise ExtractError("negotiate() changed shape:\n" + neg)
    methods = {m.name: m for m in ctx.body if isinstance(m, ast.FunctionDef)}
    # where the expected client Finished comes from
    for m in methods.values():
        for x in ast.walk(m):
            if isinstance(x, ast.Assign) and dotted(x.targets[0]) == "self._expected_verify_data":
                EXPECTED_ATTR["self._expected_verify_data"] = x.value
    dispatch, order, post = extract_dispatch(methods["_handle_reassembled_message"], alerts, enums)
    hm = check_handle_message(methods["handle_message"])
    check_setup_traffic_protection(methods["_setup_traffic_protection"])
    check_set_state(methods["_set_state"])
    # names bound at module level (imports, classes, functions, constants): not locals
    module_globals = set()
    for node in mod.body:
        if isinstance(node, (ast.Import, ast.ImportFrom)):
            module_globals |= {(a.asname or a.name).split(".")[0] for a in node.names}
        elif isinstance(node, (ast.ClassDef, ast.FunctionDef)):
            module_globals.add(node.name)
        elif isinstance(node, (ast.Assign, ast.AnnAssign)):
            for t in (node.targets if isinstance(node, ast.Assign) else [node.target]):
                if isinstance(t, ast.Name):
                    module_globals.add(t.id)
    # private helpers of Context that are inlined where a handler calls them
    helpers = {n: m for n, m in methods.items()
               if n.startswith("_") and not n.startswith("__") and not HANDLERS.match(n)
               and n not in ("_set_state", "_setup_traffic_protection", "_handle_reassembled_message")
               and "self." + n not in NEUTRAL_NAMES and "self." + n not in EXT_NAMES}
    fns, tests, inlined = {}, [], {}
    for name, m in methods.items():
        if HANDLERS.match(name):
            f = Fn(m, set(alerts), helpers, module_globals)
            fns[name] = f.steps
            tests += f.tests
            inlined[name] = f.inlined
    used_helpers = {h for hs in inlined.values() for h in hs}
    for name, m in methods.items():
        if HANDLERS.match(name) or name in used_helpers:
            continue
        elif name not in ("__init__", "_set_state", "_setup_traffic_protection"):
            for x in ast.walk(m):
                if isinstance(x, (ast.Assign, ast.AugAssign)):
                    for t in (x.targets if isinstance(x, ast.Assign) else [x.target]):
                        if dotted(t) in SENSITIVE:
                            bad(x, f"{name} assigns {dotted(t)} outside the extracted handlers")
                if isinstance(x, ast.Call) and dotted(x.func) in ("self._set_state", "self.update_traffic_key_cb",
                                                                 "self._setup_traffic_protection"):
                    if name not in ("handle_message", "_handle_reassembled_message"):
                        bad(x, f"{name} changes state / releases keys outside the extracted handlers")
    for st, row in dispatch.items():
        for t, h in row.items():
            if h not in fns:
                raise ExtractError(f"dispatch target {h} was not extracted")
    known = set(KNOWN_TESTS.values())
    missing = known - {t["name"] for t in tests}
    if missing:
        raise ExtractError(f"conditions the proofs refer to were not found in tls.py: {sorted(missing)}")
    # defaults of Context.__init__
    defaults = {}
    for x in ast.walk(methods["__init__"]):
        if isinstance(x, (ast.Assign, ast.AnnAssign)):
            t = x.targets[0] if isinstance(x, ast.Assign) else x.target
            n = dotted(t)
            if n in ("self._cipher_suites", "self._signature_algorithms", "self._supported_groups",
                     "self._supported_versions", "self._legacy_compression_methods", "self._psk_key_exchange_modes") \
                    and isinstance(x.value, ast.List):
                defaults[n[6:]] = const_list(x.value, n)
    consts = {}
    for node in mod.body:
        if isinstance(node, ast.Assign) and isinstance(node.targets[0], ast.Name) \
                and node.targets[0].id.startswith("TLS_VERSION") and isinstance(node.value, ast.Constant):
            consts[node.targets[0].id] = node.value.value
    # data flow into certificate validation: which expressions verify_certificate() receives and
    # which methods of Context ever assign the configuration attributes it reads
    vc_args = []
    for steps in fns.values():
        for st in steps:
            if st["act"]["k"] == "verifyCert":
                vc_args.append(sorted(st["act"]["args"].items()))
    if len(vc_args) != 1:
        raise ExtractError(f"expected exactly one verify_certificate() call in the handlers, found {len(vc_args)}")
    # what the client OFFERS: the keyword arguments of the ClientHello it builds (locals resolved) —
    # the option lists must be the configuration attributes themselves
    offer = []
    sh = methods["_client_send_hello"]
    hellos = [x for x in ast.walk(sh) if isinstance(x, ast.Assign) and isinstance(x.value, ast.Call)
              and dotted(x.value.func) == "ClientHello"]
    if len(hellos) != 1:
        raise ExtractError("_client_send_hello: expected exactly one ClientHello(..) construction")
    sd = N.single_defs(sh)
    for k in hellos[0].value.keywords:
        if k.arg in ("cipher_suites", "legacy_compression_methods", "alpn_protocols", "psk_key_exchange_modes",
                     "signature_algorithms", "supported_versions", "other_extensions"):
            offer.append((k.arg, dotted(N.resolve(k.value, sd)).replace("\n", " ")))
    cfg = ["_server_name", "_cadata", "_cafile", "_capath", "_verify_mode", "_cipher_suites", "_alpn_protocols",
           "_signature_algorithms", "_supported_groups", "_supported_versions", "_legacy_compression_methods",
           "_psk_key_exchange_modes"]
    writers = {a: [] for a in cfg}
    for name, m in methods.items():
        for x in ast.walk(m):
            tgts = []
            if isinstance(x, ast.Assign):
                tgts = x.targets
            elif isinstance(x, (ast.AugAssign, ast.AnnAssign)):
                tgts = [x.target]
            elif isinstance(x, ast.Delete):
                tgts = x.targets
            elif isinstance(x, ast.Call) and dotted(x.func) in ("setattr", "delattr") and x.args \
                    and dotted(x.args[0]) == "self":
                bad(x, f"{name}: setattr/delattr on self hides attribute writes")
            if isinstance(x, ast.Call) and isinstance(x.func, ast.Attribute) and x.func.attr in (
                    "append", "insert", "extend", "remove", "pop", "clear", "sort", "reverse", "update", "__setitem__") \
                    and isinstance(x.func.value, ast.Attribute) and dotted(x.func.value.value) == "self" \
                    and x.func.value.attr in writers and name not in writers[x.func.value.attr]:
                writers[x.func.value.attr].append(name)          # in-place mutation of a configuration list
            for t in tgts:
                for leaf in ast.walk(t):
                    if isinstance(leaf, ast.Attribute) and dotted(leaf.value) == "self" and leaf.attr in writers \
                            and name not in writers[leaf.attr]:
                        writers[leaf.attr].append(name)
    # data flow of the two authentication checks (RFC 8446 §4.4.3 / §4.4.4): what is verified with
    # which key over which transcript value
    flow = []
    chk = methods["_check_certificate_verify_signature"]
    vcalls = [x for x in ast.walk(chk) if isinstance(x, ast.Call) and dotted(x.func) == "public_key.verify"]
    if len(vcalls) != 1:
        raise ExtractError("_check_certificate_verify_signature: expected exactly one public_key.verify(..) call")
    pk = [x.value for x in ast.walk(chk) if isinstance(x, ast.Assign) and dotted(x.targets[0]) == "public_key"]
    if len(pk) != 1:
        raise ExtractError("_check_certificate_verify_signature: public_key must be assigned exactly once")
    pkv = pk[0]
    if isinstance(pkv, ast.Call) and dotted(pkv.func) == "cast":
        pkv = pkv.args[1]
    flow.append(("sig.key", dotted(pkv)))
    for i, nm in enumerate(("sig.signature", "sig.data", "sig.params")):
        flow.append((nm, dotted(vcalls[0].args[i]) if i < len(vcalls[0].args) else ""))
    for fn, steps in fns.items():
        for st in steps:
            if st["act"]["k"] == "verifyFinished":
                flow.append((f"finished.{fn}.received", st["act"]["left"]))
                flow.append((f"finished.{fn}.expected", st["act"]["expected"]))
                # the comparison itself: Python `!=` on bytes = exact equality, length included
                flow.append((f"finished.{fn}.refuse_if", st["act"]["test"]))
            if st["act"]["k"] == "verifyBinder":
                flow.append((f"binder.{fn}.expected", st["act"]["expected"]))
                flow.append((f"binder.{fn}.refuse_if", st["act"]["test"]))
    ks = next(n for n in mod.body if isinstance(n, ast.ClassDef) and n.name == "KeySchedule")
    ks_methods = {m.name: m for m in ks.body if isinstance(m, ast.FunctionDef)}
    for m in ks.body:
        if isinstance(m, ast.FunctionDef) and m.name in ("certificate_verify_data", "finished_verify_data",
                                                         "derive_secret", "update_hash"):
            # canonical rendering: private expression helpers inlined, single-use temporaries
            # substituted, remaining locals alpha-renamed (tools/tls_norm.py)
            flow.append((f"KeySchedule.{m.name}", N.canon_text(m.body, params=[a.arg for a in m.args.args], helpers=ks_methods)))
    stp = methods["_setup_traffic_protection"]
    flow.append(("_setup_traffic_protection", N.canon_text(stp.body, params=[a.arg for a in stp.args.args], helpers=methods)))
    for slot in ("_enc_key", "_dec_key", "_expected_verify_data"):
        ws = []
        for name, m in methods.items():
            for x in ast.walk(m):
                if isinstance(x, (ast.Assign, ast.AnnAssign)):
                    tg = x.targets if isinstance(x, ast.Assign) else [x.target]
                    if any(dotted(t) == "self." + slot for t in tg) and x.value is not None:
                        ws.append(f"{name}: {dotted(N.resolve(x.value, N.single_defs(m)))}")
        flow.append((f"writers.{slot}", " | ".join(ws)))
    for node in mod.body:
        if isinstance(node, ast.Assign) and isinstance(node.targets[0], ast.Name) \
                and node.targets[0].id in ("SERVER_CONTEXT_STRING", "CLIENT_CONTEXT_STRING"):
            flow.append((node.targets[0].id, node.value.value.decode("ascii")))
    # trust store of verify_certificate(): every call on the X509Store and the store context, with
    # the enclosing `if` tests / `for` iterables
    vf = funcs["verify_certificate"]
    store_flow = []

    def walk_store(stmts, ctxs):
        for st in stmts:
            if isinstance(st, ast.If):
                walk_store(st.body, ctxs + ["if " + dotted(st.test)])
                walk_store(st.orelse, ctxs + ["if not (" + dotted(st.test) + ")"])
            elif isinstance(st, ast.For):
                walk_store(st.body, ctxs + ["for " + dotted(st.target) + " in " + dotted(st.iter)])
            elif isinstance(st, ast.Try):
                walk_store(st.body, ctxs)
                for h in st.handlers:
                    walk_store(h.body, ctxs + ["except " + (dotted(h.type) if h.type else "")])
                walk_store(st.orelse, ctxs)
            elif isinstance(st, ast.With):
                walk_store(st.body, ctxs)
            else:
                for x in ast.walk(st):
                    if isinstance(x, ast.Call):
                        fn = dotted(x.func)
                        if fn.startswith("store.") or fn.startswith("store_ctx.") or fn.endswith("X509StoreContext") \
                                or fn.endswith("X509Store"):
                            store_flow.append((" ; ".join(ctxs), dotted(x).replace("\n", " ")))
                    if isinstance(x, (ast.Assign, ast.AugAssign)) and "store" in dotted(x) and not isinstance(x, ast.Call):
                        pass

    walk_store(vf.body, [])
    for x in ast.walk(vf):        # the store must not leak into helpers we do not see
        if isinstance(x, ast.Call) and any(dotted(a) in ("store", "store_ctx") for a in list(x.args) + [k.value for k in x.keywords]) \
                and not dotted(x.func).endswith("X509StoreContext"):
            bad(x, "verify_certificate passes the trust store to another function")
    return {
        "verify_cert_store": store_flow,
        "auth_flow": flow,
        "client_hello_offer": offer,
        "verify_cert_args": vc_args[0], "config_writers": [[a, writers[a]] for a in cfg],
        "source": os.path.relpath(path, os.path.dirname(os.path.dirname(os.path.dirname(path)))),
        "enums": enums, "alerts": alerts, "tables": tables, "defaults": defaults, "consts": consts,
        "inlined": inlined,
        "dispatch": dispatch, "dispatch_order": order, "post_dispatch": post, "pre_dispatch": [],
        "handle_message": hm, "functions": fns, "tests": tests,
    }


def write_if_changed(path, text):
    os.makedirs(os.path.dirname(path), exist_ok=True)
    if os.path.exists(path) and open(path).read() == text:
        return False
    with open(path, "w") as fh:
        fh.write(text)
    return True


def main(argv=None):
    repo = os.environ.get("VERIF_REPO", "/repo")
    ir = extract(os.path.join(repo, "src", "aioquic", "tls.py"))
    gen = os.path.join(HERE, "lean", "AQ", "Gen")
    import tls_emit
    a = write_if_changed(os.path.join(gen, "tls_machine.json"), json.dumps(ir, indent=1, sort_keys=True) + "\n")
    b = write_if_changed(os.path.join(gen, "TlsMachine.lean"), tls_emit.lean(ir))
    if argv and "-v" in argv:
        print(f"extract_tls: {len(ir['functions'])} handlers, {sum(map(len, ir['functions'].values()))} steps, "
              f"{len(ir['tests'])} tests; json {'written' if a else 'unchanged'}, lean {'written' if b else 'unchanged'}")
    return ir


if __name__ == "__main__":
    try:
        main(sys.argv[1:])
    except ExtractError as exc:
        print("extract_tls: BROKEN TIE:", exc, file=sys.stderr)
        sys.exit(3)
