#!/venv/bin/python
"""Translator tie for the TLS engine: parses <repo>/src/aioquic/tls.py with `ast`
on every run and emits lean/AQ/Gen/TlsMachine.lean (+ tls_machine.json for the
Python side of the correspondence):

  * the dispatch table State x HandshakeType -> handler of
    Context._handle_reassembled_message (fall-through = raise
    AlertUnexpectedMessage), what runs before / after the dispatch, and the
    shape of Context.handle_message;
  * for every handler the ordered ACTION LIST with the enclosing conditions;
  * constants (enums, cipher-suite / signature / group tables, defaults).

Statement or call shapes that are not understood raise ExtractError: the tie is
broken loudly, nothing is skipped.  Files are rewritten only when they change.
"""
import ast
import json
import os
import re
import sys

HERE = os.path.dirname(os.path.dirname(os.path.abspath(__file__)))
sys.path.insert(0, os.path.dirname(os.path.abspath(__file__)))


class ExtractError(Exception):
    pass


def bad(node, why):
    raise ExtractError(f"tls.py:{getattr(node, 'lineno', '?')}: {why}: {ast.unparse(node)[:160]}")


HANDLERS = re.compile(r"^_(client|server)_(handle|send|expect)_|^_check_certificate_verify_signature$|^_set_peer_certificate$")

# calls that neither touch the security state nor escape with an exception of
# their own (data construction, reads); BufferReadError from buffer reads is
# mapped to AlertDecodeError by handle_message
NEUTRAL_NAMES = {
    "int", "len", "bytes", "isinstance", "cast", "partial", "range", "tuple", "list",
    "ClientHello", "ServerHello", "EncryptedExtensions", "Certificate", "CertificateRequest",
    "CertificateVerify", "Finished", "NewSessionTicket", "OfferedPsks", "Buffer", "KeySchedule",
    "KeyScheduleProxy", "SessionTicket", "encode_public_key", "os.urandom", "struct.unpack",
    "self._signature_algorithms_for_private_key", "signature_algorithm_matches_key",
}
NEUTRAL_METHODS = {"public_key", "public_bytes", "append", "tell", "data_slice", "select", "copy"}
# calls into external libraries / application callbacks that may raise anything
EXT_NAMES = {
    "decode_public_key", "ipaddress.ip_address", "ec.generate_private_key", "ec.ECDH",
    "signature_algorithm_params", "x509.load_der_x509_certificate", "self.alpn_cb",
    "self.new_session_ticket_cb", "self.get_session_ticket_cb", "self._build_session_ticket",
    "x25519.X25519PrivateKey.generate", "x448.X448PrivateKey.generate",
}
EXT_METHODS = {"exchange", "sign"}
MSG = {
    "client_hello": "CLIENT_HELLO", "server_hello": "SERVER_HELLO", "new_session_ticket": "NEW_SESSION_TICKET",
    "encrypted_extensions": "ENCRYPTED_EXTENSIONS", "certificate": "CERTIFICATE",
    "certificate_request": "CERTIFICATE_REQUEST", "certificate_verify": "CERTIFICATE_VERIFY", "finished": "FINISHED",
}
# tests the hand-written Lean refers to by name: (function, source text) -> name
KNOWN_TESTS = {
    ("_client_handle_hello", "peer_hello.pre_shared_key is not None"): "ch_psk_selected",
    ("_client_handle_hello", "self._key_schedule_psk is None or peer_hello.pre_shared_key != 0 or "
                             "cipher_suite != self._key_schedule_psk.cipher_suite"): "ch_psk_reject",
    ("_client_handle_encrypted_extensions", "self._session_resumed"): "ee_resumed",
    ("_client_handle_certificate_verify", "self._verify_mode != ssl.CERT_NONE"): "cv_verify_required",
    ("_client_handle_finished", "self._certificate_request is not None"): "fin_cert_requested",
    ("_client_handle_finished", "self.certificate is not None and self.certificate_private_key is not None"): "fin_have_cert",
    ("_client_handle_finished", "signature_algorithm"): "fin_have_sigalg",
    ("_client_send_hello", "self.session_ticket and self.session_ticket.is_valid"): "hello_ticket_valid",
    ("_client_send_hello", "hello.early_data"): "hello_early_data",
    ("_server_handle_certificate", "certificate.certificates"): "scert_nonempty",
    ("_server_handle_hello", "self._alpn_protocols is not None"): "sh_alpn_configured",
    ("_server_handle_hello", "self.get_session_ticket_cb is not None and psk_key_exchange_mode is not None and "
                             "(peer_hello.pre_shared_key is not None) and (len(peer_hello.pre_shared_key.identities) == 1) "
                             "and (len(peer_hello.pre_shared_key.binders) == 1)"): "sh_psk_offered",
    ("_server_handle_hello", "session_ticket is not None and session_ticket.is_valid and "
                             "(session_ticket.cipher_suite == cipher_suite)"): "sh_ticket_ok",
    ("_server_handle_hello", "peer_hello.early_data"): "sh_early_data",
    ("_server_handle_hello", "pre_shared_key is None", 0): "sh_no_psk_a",
    ("_server_handle_hello", "pre_shared_key is None", 1): "sh_no_psk_b",
    ("_server_handle_hello", "self._request_client_certificate", 0): "sh_request_cert_a",
    ("_server_handle_hello", "self._request_client_certificate", 1): "sh_request_cert_b",
    ("_server_expect_finished", "self.new_session_ticket_cb is not None and self._psk_key_exchange_mode is not None"):
        "sef_send_ticket",
}
SCHED = {"self.key_schedule": "main", "self._key_schedule_psk": "psk", "self._key_schedule_proxy": "proxy"}


def dotted(node):
    try:
        return ast.unparse(node)
    except Exception:  # pragma: no cover
        return "?"


def enum_members(cls):
    out = []
    for st in cls.body:
        if isinstance(st, ast.Assign) and len(st.targets) == 1 and isinstance(st.targets[0], ast.Name) \
                and isinstance(st.value, ast.Constant) and isinstance(st.value.value, int):
            out.append((st.targets[0].id, st.value.value))
        elif isinstance(st, ast.Expr) and isinstance(st.value, ast.Constant):
            continue
        elif isinstance(st, ast.Pass):
            continue
        else:
            bad(st, f"enum {cls.name}: member shape")
    return out


class Fn:
    """action-list extraction of one handler function"""

    def __init__(self, fdef, alerts):
        self.f = fdef
        self.name = fdef.name
        self.alerts = alerts
        self.steps = []
        self.tests = []          # dicts {name, line, text}
        self.ntest = 0
        self.ntry = 0
        self.locals_def = {}     # local name -> defining expression (last straight-line def)
        self.scratch = set()     # local Buffer objects
        self.cur = None          # statement being translated
        self.seen_text = {}
        self.walk(fdef.body, [], False)

    # -- helpers
    def emit(self, node, cond, act, caught=False):
        # `line` is the first line of the enclosing statement (all actions of one
        # statement share it: the statement is the unit that raises); `at` is the
        # line of the call / node itself
        st = self.cur if self.cur is not None else node
        self.steps.append({"line": st.lineno, "end": getattr(st, "end_lineno", st.lineno), "at": node.lineno,
                           "cond": [list(c) for c in cond], "act": act, "caught": caught})

    def new_test(self, node, text, kind="if"):
        key = (self.name, text)
        occ = self.seen_text.get(key, 0)
        self.seen_text[key] = occ + 1
        if key in KNOWN_TESTS and occ == 0:
            name = KNOWN_TESTS[key]
        elif key + (occ,) in KNOWN_TESTS:
            name = KNOWN_TESTS[key + (occ,)]
        else:
            name = f"{self.name.strip('_')}_{kind}{self.ntest}"
        self.ntest += 1
        self.tests.append({"name": name, "fn": self.name, "line": node.lineno, "text": text, "kind": kind,
                           "true_lo": node.body[0].lineno, "true_hi": node.body[-1].end_lineno})
        return name

    def alert_of(self, exc):
        """`AlertX(...)` or `AlertX` -> class name"""
        if isinstance(exc, ast.Call):
            exc = exc.func
        if isinstance(exc, ast.Name) and exc.id in self.alerts:
            return exc.id
        return None

    # -- expressions: classify every call, in evaluation order
    def calls(self, expr, cond, caught, allow_special=()):
        for node in self.post_order(expr):
            if isinstance(node, ast.Call):
                self.call(node, cond, caught, allow_special)
            elif isinstance(node, (ast.Lambda, ast.Await, ast.Yield, ast.YieldFrom, ast.NamedExpr)):
                bad(node, "expression kind not understood")

    def post_order(self, node):
        for ch in ast.iter_child_nodes(node):
            yield from self.post_order(ch)
        yield node

    def call(self, node, cond, caught, allow_special):
        name = dotted(node.func)
        meth = node.func.attr if isinstance(node.func, ast.Attribute) else None
        if name in allow_special:
            return
        if name in NEUTRAL_NAMES or (meth in NEUTRAL_METHODS and name not in EXT_NAMES):
            return
        if name in self.alerts:
            return   # constructing an alert object (argument of negotiate / raise)
        if name.endswith(".finished_verify_data"):
            key = dotted(node.args[0]) if node.args else "?"
            k = {"self._enc_key": "enc", "self._dec_key": "dec", "binder_key": "binder"}.get(key)
            sched = SCHED.get(dotted(node.func.value))
            if k is None or sched is None:
                bad(node, "finished_verify_data: key or schedule not understood")
            self.emit(node, cond, {"k": "computeMac", "key": k, "sched": sched}, caught)
            return
        if name.endswith(".certificate_verify_data"):
            return   # input of sign / verify, recorded there
        if meth == "sign":
            arg = node.args[0] if node.args else None
            if not (isinstance(arg, ast.Call) and dotted(arg.func) == "self.key_schedule.certificate_verify_data"):
                bad(node, "sign(): signed data is not key_schedule.certificate_verify_data(..)")
            self.emit(node, cond, {"k": "sign", "ctx": dotted(arg.args[0])}, caught)
            return
        if meth == "derive_secret":
            sched = SCHED.get(dotted(node.func.value))
            lab = node.args[0] if node.args else None
            if sched is None or not (isinstance(lab, ast.Constant) and isinstance(lab.value, bytes)):
                bad(node, "derive_secret: schedule or label not understood")
            self.emit(node, cond, {"k": "derive", "label": lab.value.decode("ascii"), "sched": sched}, caught)
            return
        if name in EXT_NAMES or meth in EXT_METHODS:
            self.emit(node, cond, {"k": "ext", "name": name}, caught)
            return
        if isinstance(node.func, ast.Call) and dotted(node.func.func) != "":   # GROUP_TO_CURVE[..]() etc.
            return
        if isinstance(node.func, ast.Subscript) and dotted(node.func.value) == "GROUP_TO_CURVE":
            self.emit(node, cond, {"k": "ext", "name": "GROUP_TO_CURVE[]"}, caught)
            return
        bad(node, f"call to {name!r} is not classified")

    # -- statements
    def walk(self, stmts, cond, caught):
        for st in stmts:
            self.stmt(st, cond, caught)

    def stmt(self, st, cond, caught):
        if not isinstance(st, (ast.If, ast.For, ast.Try)) or self.is_check(st):
            self.cur = st
        else:
            self.cur = None
        try:
            return self.stmt_(st, cond, caught)
        finally:
            self.cur = None

    def is_check(self, st):
        """`if a != b: raise Alert` folded into one verify action"""
        return (isinstance(st, ast.If) and isinstance(st.test, ast.Compare) and len(st.body) == 1
                and isinstance(st.body[0], ast.Raise) and not st.orelse
                and (dotted(st.test.left).endswith(".verify_data") or dotted(st.test.left) == "binder"))

    def stmt_(self, st, cond, caught):
        if isinstance(st, ast.Expr) and isinstance(st.value, ast.Constant):
            return                                              # docstring
        if isinstance(st, (ast.Pass, ast.Nonlocal)):
            return
        if isinstance(st, ast.Return):
            if st.value is not None:
                self.calls(st.value, cond, caught)
            return self.emit(st, cond, {"k": "ret"})
        if isinstance(st, ast.Break):
            return self.emit(st, cond, {"k": "brk"})
        if isinstance(st, ast.Raise) and st.exc is None and getattr(self, "in_handler", 0):
            return self.emit(st, cond, {"k": "reraise"})      # bare `raise` inside an except clause
        if isinstance(st, ast.Raise):
            a = self.alert_of(st.exc) if st.exc is not None else None
            if a is None:
                bad(st, "raise of something that is not a tls.Alert class")
            return self.emit(st, cond, {"k": "raise", "alert": a})
        if isinstance(st, ast.Assert):
            self.calls(st.test, cond, caught)
            return self.emit(st, cond, {"k": "assert", "text": dotted(st.test)}, caught)
        if isinstance(st, ast.If):
            return self.if_(st, cond, caught)
        if isinstance(st, ast.For):
            return self.for_(st, cond, caught)
        if isinstance(st, ast.With):
            return self.with_(st, cond, caught)
        if isinstance(st, ast.Try):
            return self.try_(st, cond, caught)
        if isinstance(st, ast.AnnAssign):
            if st.value is None:
                return                                          # bare annotation
            return self.assign([st.target], st.value, st, cond, caught)
        if isinstance(st, ast.Assign):
            return self.assign(st.targets, st.value, st, cond, caught)
        if isinstance(st, ast.Expr) and isinstance(st.value, ast.Call):
            return self.call_stmt(st, st.value, cond, caught)
        bad(st, "statement shape not understood")

    def if_(self, st, cond, caught):
        # `if X.verify_data != E: raise AlertDecryptError` is the Finished check
        t = st.test
        if isinstance(t, ast.Compare) and len(t.ops) == 1 and isinstance(t.ops[0], ast.NotEq) \
                and len(st.body) == 1 and isinstance(st.body[0], ast.Raise) and not st.orelse:
            left, right = dotted(t.left), dotted(t.comparators[0])
            alert = self.alert_of(st.body[0].exc)
            if left.endswith(".verify_data") and alert is not None:
                src = self.mac_source(right, st)
                return self.emit(st, cond, {"k": "verifyFinished", "alert": alert, "expected": src, "left": left,
                                            "test": dotted(t)})
            if left == "binder" and right == "expected_binder" and alert is not None:
                src = self.mac_source(right, st)
                return self.emit(st, cond, {"k": "verifyBinder", "alert": alert, "expected": src, "test": dotted(t)})
        self.calls(t, cond, caught)
        name = self.new_test(st, dotted(t))
        self.walk(st.body, cond + [(name, True)], caught)
        if st.orelse:
            self.walk(st.orelse, cond + [(name, False)], caught)

    def mac_source(self, name, node):
        """what the Finished / binder comparison is made against: must come from
        key_schedule.finished_verify_data(<read key>)"""
        if name in self.locals_def:
            v = self.locals_def[name]
        elif name == "self._expected_verify_data":
            v = EXPECTED_ATTR.get(name)
        else:
            v = None
        if not (isinstance(v, ast.Call) and dotted(v.func).endswith(".finished_verify_data")):
            bad(node, f"comparison operand {name} is not a finished_verify_data(..) value")
        return dotted(v)

    def for_(self, st, cond, caught):
        if st.orelse:
            bad(st, "for/else not understood")
        self.calls(st.iter, cond, caught)
        name = self.new_test(st, "for " + dotted(st.target) + " in " + dotted(st.iter), "loop")
        before = len(self.steps)
        self.walk(st.body, cond + [(name, True)], caught)
        for s in self.steps[before:]:
            if s["act"]["k"] not in ("local", "ext", "brk", "setAttr"):
                bad(st, f"loop body contains a {s['act']['k']} action (only neutral actions are modelled in loops)")

    def with_(self, st, cond, caught):
        if len(st.items) != 1 or not isinstance(st.items[0].context_expr, ast.Call):
            bad(st, "with statement not understood")
        c = st.items[0].context_expr
        if dotted(c.func) != "push_message" or len(c.args) != 2:
            bad(st, "with statement other than push_message(key_schedule, buf)")
        sched = SCHED.get(dotted(c.args[0]))
        if sched is None:
            bad(st, "push_message on an unknown key schedule")
        if len(st.body) != 1 or not (isinstance(st.body[0], ast.Expr) and isinstance(st.body[0].value, ast.Call)):
            bad(st, "push_message body must be a single push_<message>(buf, ..) call")
        p = st.body[0].value
        m = re.match(r"^push_(\w+)$", dotted(p.func))
        if not m or m.group(1) not in MSG or dotted(p.args[0]) != dotted(c.args[1]):
            bad(st, "push_message body must push a known message into the same buffer")
        for a in p.args[1:]:
            self.calls(a, cond, caught)
        self.emit(st, cond, {"k": "pushMessage", "msg": MSG[m.group(1)], "hashed": True, "sched": sched})

    def try_(self, st, cond, caught):
        if st.finalbody:
            bad(st, "try/finally not understood")
        self.walk(st.body, cond, True)
        prev = []            # an `except` clause is entered only if the earlier ones did not match
        for h in st.handlers:
            tid = f"{self.name.strip('_')}_exc{self.ntry}"
            self.ntry += 1
            self.tests.append({"name": tid, "fn": self.name, "line": h.lineno,
                               "text": "except " + (dotted(h.type) if h.type is not None else "BaseException"),
                               "kind": "except", "true_lo": h.body[0].lineno, "true_hi": h.body[-1].end_lineno})
            self.in_handler = getattr(self, "in_handler", 0) + 1
            try:
                self.walk(h.body, cond + prev + [(tid, True)], caught)
            finally:
                self.in_handler -= 1
            prev = prev + [(tid, False)]
        if st.orelse:
            self.walk(st.orelse, cond + prev, caught)

    def assign(self, targets, value, st, cond, caught):
        tnames = [dotted(t) for t in targets]
        # special right-hand sides
        if isinstance(value, ast.Call):
            name = dotted(value.func)
            m = re.match(r"^pull_(\w+)$", name)
            if m and m.group(1) in MSG:
                if dotted(value.args[0]) != "input_buf":
                    bad(st, "message parser applied to something that is not the received message")
                self.emit(st, cond, {"k": "parse", "msg": MSG[m.group(1)]})
                for t in tnames:
                    if t.startswith("self."):
                        self.emit(st, cond, {"k": "setAttr", "attr": t[5:], "val": "other"})
                return
            if name == "negotiate":
                field = tnames[0].replace("self.", "")
                alert = None
                if len(value.args) == 3:
                    alert = self.alert_of(value.args[2])
                    if alert is None:
                        bad(st, "negotiate(): third argument is not an alert")
                for a in value.args[:2]:
                    self.calls(a, cond, caught)
                self.emit(st, cond, {"k": "negotiate", "field": field, "alert": alert,
                                     "supported": dotted(value.args[0]), "offered": dotted(value.args[1])})
                if tnames[0].startswith("self."):
                    self.emit(st, cond, {"k": "setAttr", "attr": tnames[0][5:], "val": "other"})
                return
        self.calls(value, cond, caught)
        for t, tn in zip(targets, tnames):
            if isinstance(t, ast.Attribute) and isinstance(t.value, ast.Name) and t.value.id == "self":
                if isinstance(value, ast.Constant) and value.value is None:
                    v = "none"
                elif isinstance(value, ast.Constant) and value.value is True:
                    v = "true"
                elif isinstance(value, ast.Constant) and value.value is False:
                    v = "false"
                else:
                    v = "other"
                self.emit(st, cond, {"k": "setAttr", "attr": t.attr, "val": v, "src": dotted(value)}, caught)
            elif isinstance(t, (ast.Name, ast.Attribute, ast.Subscript, ast.Tuple)):
                if isinstance(t, ast.Name):
                    self.locals_def[t.id] = value
                    if isinstance(value, ast.Call) and dotted(value.func) == "Buffer":
                        self.scratch.add(t.id)
                self.emit(st, cond, {"k": "local", "name": tn}, caught)
            else:
                bad(st, "assignment target not understood")

    def call_stmt(self, st, c, cond, caught):
        name = dotted(c.func)
        args = [dotted(a) for a in c.args]
        if name == "self._set_state":
            m = re.match(r"^State\.(\w+)$", args[0])
            if not m:
                bad(st, "_set_state argument")
            return self.emit(st, cond, {"k": "setState", "state": m.group(1)})
        if name in ("self._setup_traffic_protection", "self.update_traffic_key_cb"):
            d = re.match(r"^Direction\.(\w+)$", args[0])
            e = re.match(r"^Epoch\.(\w+)$", args[1])
            if not d or not e:
                bad(st, "traffic key release with non-literal direction / epoch")
            for a in c.args[2:]:
                self.calls(a, cond, caught)
            if name.endswith("protection"):
                lab = c.args[2]
                if not (isinstance(lab, ast.Constant) and isinstance(lab.value, bytes)):
                    bad(st, "_setup_traffic_protection with a non-literal label")
                # _setup_traffic_protection = key_schedule.derive_secret(label) then the release
                self.emit(st, cond, {"k": "derive", "label": lab.value.decode("ascii"), "sched": "main"})
            return self.emit(st, cond, {"k": "releaseKey", "dir": d.group(1), "epoch": e.group(1)})
        if name == "self._check_certificate_verify_signature":
            return self.emit(st, cond, {"k": "verifySig"})
        if name == "verify_certificate":
            kw = {k.arg: dotted(k.value) for k in c.keywords}
            return self.emit(st, cond, {"k": "verifyCert", "args": kw})
        if name == "public_key.verify":
            # inside _check_certificate_verify_signature
            data = c.args[1] if len(c.args) > 1 else None
            if not (isinstance(data, ast.Call) and dotted(data.func) == "self.key_schedule.certificate_verify_data"):
                bad(st, "public_key.verify(): data is not key_schedule.certificate_verify_data(..)")
            if not caught:
                bad(st, "public_key.verify() outside try/except InvalidSignature")
            for a in c.args[2:]:
                self.calls(a, cond, caught)
            return self.emit(st, cond, {"k": "cryptoVerify", "ctx": dotted(data.args[0])}, caught)
        m = re.match(r"^(self\.\w+)\.(update_hash|extract)$", name)
        if m and m.group(1) in SCHED:
            sched = SCHED[m.group(1)]
            if m.group(2) == "extract":
                self.calls(c.args[0], cond, caught) if c.args else None
                return self.emit(st, cond, {"k": "extract", "sched": sched, "arg": args[0] if args else "None"})
            a = args[0]
            if a == "input_buf.data":
                what = "whole"
            elif a in ("input_buf.data_slice(0, hash_offset)", "tmp_buf.data_slice(0, hash_offset)"):
                what = "beforeBinders"
            elif a in ("input_buf.data_slice(hash_offset, hash_offset + 3 + binder_length)",
                       "tmp_buf.data_slice(hash_offset, hash_offset + 3) + binder"):
                what = "binders"
            elif a.endswith(".data") and a[:-5] in self.scratch and self.pushed_into(a[:-5]) == "FINISHED":
                what = "anticipatedFinished"
            else:
                bad(st, "update_hash argument not understood")
            return self.emit(st, cond, {"k": "updateHash", "sched": sched, "what": what})
        if name == "self._server_expect_finished":
            return self.emit(st, cond, {"k": "call", "fn": "_server_expect_finished"})
        if name == "self._set_peer_certificate":
            return self.emit(st, cond, {"k": "call", "fn": "_set_peer_certificate"})
        m = re.match(r"^push_(\w+)$", name)
        if m and m.group(1) in MSG:
            buf = args[0]
            for a in c.args[1:]:
                self.calls(a, cond, caught)
            if buf in self.scratch:
                self.pushed = getattr(self, "pushed", {})
                self.pushed[buf] = MSG[m.group(1)]
                return self.emit(st, cond, {"k": "local", "name": f"{buf}<-{MSG[m.group(1)]}"}, caught)
            return self.emit(st, cond, {"k": "pushMessage", "msg": MSG[m.group(1)], "hashed": False, "sched": "none"})
        self.calls(c, cond, caught)
        if not self.steps or self.steps[-1]["line"] != st.lineno:
            self.emit(st, cond, {"k": "local", "name": name}, caught)

    def pushed_into(self, buf):
        return getattr(self, "pushed", {}).get(buf)


EXPECTED_ATTR = {}


def extract_dispatch(fdef, alerts):
    """State x HandshakeType -> handler from the if/elif chain"""
    body = [s for s in fdef.body if not (isinstance(s, ast.Expr) and isinstance(s.value, ast.Constant))]
    if not body or not isinstance(body[0], ast.If):
        bad(fdef, "_handle_reassembled_message does not start with the state dispatch (something runs before it)")
    table, order = {}, []
    node = body[0]
    while True:
        t = node.test
        m = re.match(r"^self\.state == State\.(\w+)$", dotted(t))
        if not m:
            bad(node, "dispatch: state test shape")
        state = m.group(1)
        if state in table:
            bad(node, "dispatch: state tested twice")
        table[state] = {}
        order.append(state)
        inner = node.body
        if len(inner) == 1 and isinstance(inner[0], ast.Raise):
            if dotted(inner[0].exc) != "AlertUnexpectedMessage":
                bad(inner[0], "dispatch: refusal is not AlertUnexpectedMessage")
        elif len(inner) == 1 and isinstance(inner[0], ast.If):
            cur = inner[0]
            while True:
                mm = re.match(r"^message_type == HandshakeType\.(\w+)$", dotted(cur.test))
                if not mm:
                    bad(cur, "dispatch: message type test shape")
                if len(cur.body) != 1 or not (isinstance(cur.body[0], ast.Expr) and isinstance(cur.body[0].value, ast.Call)):
                    bad(cur, "dispatch: branch must be exactly one handler call")
                call = cur.body[0].value
                hm = re.match(r"^self\.(_\w+)$", dotted(call.func))
                if not hm or dotted(call.args[0]) != "input_buf":
                    bad(cur, "dispatch: handler call shape")
                if mm.group(1) in table[state]:
                    bad(cur, "dispatch: type tested twice")
                table[state][mm.group(1)] = hm.group(1)
                if len(cur.orelse) == 1 and isinstance(cur.orelse[0], ast.If):
                    cur = cur.orelse[0]
                    continue
                if not (len(cur.orelse) == 1 and isinstance(cur.orelse[0], ast.Raise)
                        and dotted(cur.orelse[0].exc) == "AlertUnexpectedMessage"):
                    bad(cur, "dispatch: fall-through is not `raise AlertUnexpectedMessage`")
                break
        else:
            bad(node, "dispatch: state branch shape")
        if len(node.orelse) == 1 and isinstance(node.orelse[0], ast.If):
            node = node.orelse[0]
            continue
        if node.orelse:
            bad(node, "dispatch: trailing else on the state chain")
        break
    post = [dotted(s) for s in body[1:]]
    for s in body[1:]:
        if not isinstance(s, ast.Assert):
            bad(s, "statement after the dispatch is not an assert")
    return table, order, post


HANDLE_MESSAGE_SKELETON = [
    "if self.state == State.CLIENT_HANDSHAKE_START:\n    self._client_send_hello(output_buf[Epoch.INITIAL])\n    return",
    "self._receive_buffer += input_data",
    "while len(self._receive_buffer) >= 4:",
    "message_type = self._receive_buffer[0]",
    "message_length = 4 + int.from_bytes(self._receive_buffer[1:4], byteorder='big')",
    "if len(self._receive_buffer) < message_length:\n    break",
    "message = self._receive_buffer[:message_length]",
    "self._receive_buffer = self._receive_buffer[message_length:]",
    "try:\n    self._handle_reassembled_message(message_type=message_type, input_buf=Buffer(data=message), "
    "output_buf=output_buf)\nexcept BufferReadError:\n    raise AlertDecodeError('Could not parse TLS message')",
]


def check_handle_message(fdef):
    """handle_message must be: start -> send hello; reassemble; dispatch each
    complete message; BufferReadError -> AlertDecodeError.  Nothing else."""
    body = [s for s in fdef.body if not (isinstance(s, ast.Expr) and isinstance(s.value, ast.Constant))]
    got = []
    for s in body:
        if isinstance(s, ast.While):
            got.append("while " + dotted(s.test) + ":")
            for x in s.body:
                if isinstance(x, ast.Expr) and isinstance(x.value, ast.Constant):
                    continue
                got.append(dotted(x))
        else:
            got.append(dotted(s))
    if got != HANDLE_MESSAGE_SKELETON:
        for a, b in zip(got + [None] * 20, HANDLE_MESSAGE_SKELETON + [None] * 20):
            if a != b:
                raise ExtractError(f"Context.handle_message changed shape:\n  found    {a!r}\n  expected {b!r}")
    return {"start_state": "CLIENT_HANDSHAKE_START", "start_fn": "_client_send_hello",
            "buffer_read_error": "AlertDecodeError"}


def check_setup_traffic_protection(fdef):
    first = [s for s in fdef.body if not (isinstance(s, ast.Expr) and isinstance(s.value, ast.Constant))][0]
    if dotted(first) != "key = self.key_schedule.derive_secret(label)":
        bad(fdef, "_setup_traffic_protection must start with key = self.key_schedule.derive_secret(label)")
    calls = [s for s in fdef.body if isinstance(s, ast.Expr) and isinstance(s.value, ast.Call)
             and dotted(s.value.func) == "self.update_traffic_key_cb"]
    if len(calls) != 1 or [dotted(a) for a in calls[0].value.args[:2]] != ["direction", "epoch"]:
        bad(fdef, "_setup_traffic_protection must release exactly the (direction, epoch) key it is given")
    n = sum(1 for x in ast.walk(fdef) if isinstance(x, ast.Call) and dotted(x.func) == "self.update_traffic_key_cb")
    if n != 1:
        bad(fdef, "_setup_traffic_protection releases more than one key")


def check_set_state(fdef):
    if dotted(fdef.body[-1]) != "self.state = state":
        bad(fdef, "_set_state must end with self.state = state")
    for x in ast.walk(fdef):
        if isinstance(x, ast.Raise):
            bad(x, "_set_state raises")


NEGOTIATE_SKELETON = (
    "if offered is not None:\n    for c in supported:\n        if c in offered:\n            return c\n"
    "if exc is not None:\n    raise exc\nreturn None"
)
SENSITIVE = ("self.state", "self._session_resumed")


def const_list(node, what):
    """[A.B, C.D, ...] -> ['B', 'D'] (names) or ints"""
    if not isinstance(node, ast.List):
        bad(node, f"{what}: not a list literal")
    out = []
    for e in node.elts:
        if isinstance(e, ast.Attribute):
            out.append(e.attr)
        elif isinstance(e, ast.Name):
            out.append(e.id)
        elif isinstance(e, ast.Constant):
            out.append(e.value)
        else:
            bad(e, f"{what}: element")
    return out


def extract(path):
    src = open(path).read()
    mod = ast.parse(src)
    enums, alerts, tables = {}, {}, {}
    ctx = None
    funcs = {}
    for node in mod.body:
        if isinstance(node, ast.ClassDef):
            bases = [dotted(b) for b in node.bases]
            if bases and bases[0] in ("Enum", "IntEnum"):
                enums[node.name] = enum_members(node)
            elif bases == ["Alert"]:
                d = [s for s in node.body if isinstance(s, ast.Assign)]
                if len(d) != 1 or not dotted(d[0].value).startswith("AlertDescription."):
                    bad(node, "alert class shape")
                alerts[node.name] = dotted(d[0].value).split(".")[1]
            elif node.name == "Context":
                ctx = node
        elif isinstance(node, ast.FunctionDef):
            funcs[node.name] = node
        elif isinstance(node, (ast.Assign, ast.AnnAssign)):
            tgt = node.targets[0] if isinstance(node, ast.Assign) else node.target
            if isinstance(tgt, ast.Name) and tgt.id in ("CIPHER_SUITES", "SIGNATURE_ALGORITHMS", "GROUP_TO_CURVE"):
                if not isinstance(node.value, ast.Dict):
                    bad(node, "table is not a dict literal")
                tables[tgt.id] = [(k.attr, dotted(v)) for k, v in zip(node.value.keys, node.value.values)]
    if ctx is None:
        raise ExtractError("class Context not found")
    neg = "\n".join(dotted(s) for s in funcs["negotiate"].body)
    if neg != NEGOTIATE_SKELETON:
        raise ExtractError("negotiate() changed shape:\n" + neg)
    methods = {m.name: m for m in ctx.body if isinstance(m, ast.FunctionDef)}
    # where the expected client Finished comes from
    for m in methods.values():
        for x in ast.walk(m):
            if isinstance(x, ast.Assign) and dotted(x.targets[0]) == "self._expected_verify_data":
                EXPECTED_ATTR["self._expected_verify_data"] = x.value
    dispatch, order, post = extract_dispatch(methods["_handle_reassembled_message"], alerts)
    hm = check_handle_message(methods["handle_message"])
    check_setup_traffic_protection(methods["_setup_traffic_protection"])
    check_set_state(methods["_set_state"])
    fns, tests = {}, []
    for name, m in methods.items():
        if HANDLERS.match(name):
            f = Fn(m, set(alerts))
            fns[name] = f.steps
            tests += f.tests
        elif name not in ("__init__", "_set_state", "_setup_traffic_protection"):
            for x in ast.walk(m):
                if isinstance(x, (ast.Assign, ast.AugAssign)):
                    for t in (x.targets if isinstance(x, ast.Assign) else [x.target]):
                        if dotted(t) in SENSITIVE:
                            bad(x, f"{name} assigns {dotted(t)} outside the extracted handlers")
                if isinstance(x, ast.Call) and dotted(x.func) in ("self._set_state", "self.update_traffic_key_cb",
                                                                 "self._setup_traffic_protection"):
                    if name not in ("handle_message", "_handle_reassembled_message"):
                        bad(x, f"{name} changes state / releases keys outside the extracted handlers")
    for st, row in dispatch.items():
        for t, h in row.items():
            if h not in fns:
                raise ExtractError(f"dispatch target {h} was not extracted")
    known = set(KNOWN_TESTS.values())
    missing = known - {t["name"] for t in tests}
    if missing:
        raise ExtractError(f"conditions the proofs refer to were not found in tls.py: {sorted(missing)}")
    # defaults of Context.__init__
    defaults = {}
    for x in ast.walk(methods["__init__"]):
        if isinstance(x, (ast.Assign, ast.AnnAssign)):
            t = x.targets[0] if isinstance(x, ast.Assign) else x.target
            n = dotted(t)
            if n in ("self._cipher_suites", "self._signature_algorithms", "self._supported_groups",
                     "self._supported_versions", "self._legacy_compression_methods", "self._psk_key_exchange_modes") \
                    and isinstance(x.value, ast.List):
                defaults[n[6:]] = const_list(x.value, n)
    consts = {}
    for node in mod.body:
        if isinstance(node, ast.Assign) and isinstance(node.targets[0], ast.Name) \
                and node.targets[0].id.startswith("TLS_VERSION") and isinstance(node.value, ast.Constant):
            consts[node.targets[0].id] = node.value.value
    # data flow into certificate validation: which expressions verify_certificate() receives and
    # which methods of Context ever assign the configuration attributes it reads
    vc_args = []
    for steps in fns.values():
        for st in steps:
            if st["act"]["k"] == "verifyCert":
                vc_args.append(sorted(st["act"]["args"].items()))
    if len(vc_args) != 1:
        raise ExtractError(f"expected exactly one verify_certificate() call in the handlers, found {len(vc_args)}")
    cfg = ["_server_name", "_cadata", "_cafile", "_capath", "_verify_mode"]
    writers = {a: [] for a in cfg}
    for name, m in methods.items():
        for x in ast.walk(m):
            tgts = []
            if isinstance(x, ast.Assign):
                tgts = x.targets
            elif isinstance(x, (ast.AugAssign, ast.AnnAssign)):
                tgts = [x.target]
            elif isinstance(x, ast.Delete):
                tgts = x.targets
            elif isinstance(x, ast.Call) and dotted(x.func) in ("setattr", "delattr") and x.args \
                    and dotted(x.args[0]) == "self":
                bad(x, f"{name}: setattr/delattr on self hides attribute writes")
            for t in tgts:
                for leaf in ast.walk(t):
                    if isinstance(leaf, ast.Attribute) and dotted(leaf.value) == "self" and leaf.attr in writers \
                            and name not in writers[leaf.attr]:
                        writers[leaf.attr].append(name)
    # data flow of the two authentication checks (RFC 8446 §4.4.3 / §4.4.4): what is verified with
    # which key over which transcript value
    flow = []
    chk = methods["_check_certificate_verify_signature"]
    vcalls = [x for x in ast.walk(chk) if isinstance(x, ast.Call) and dotted(x.func) == "public_key.verify"]
    if len(vcalls) != 1:
        raise ExtractError("_check_certificate_verify_signature: expected exactly one public_key.verify(..) call")
    pk = [x.value for x in ast.walk(chk) if isinstance(x, ast.Assign) and dotted(x.targets[0]) == "public_key"]
    if len(pk) != 1:
        raise ExtractError("_check_certificate_verify_signature: public_key must be assigned exactly once")
    pkv = pk[0]
    if isinstance(pkv, ast.Call) and dotted(pkv.func) == "cast":
        pkv = pkv.args[1]
    flow.append(("sig.key", dotted(pkv)))
    for i, nm in enumerate(("sig.signature", "sig.data", "sig.params")):
        flow.append((nm, dotted(vcalls[0].args[i]) if i < len(vcalls[0].args) else ""))
    for fn, steps in fns.items():
        for st in steps:
            if st["act"]["k"] == "verifyFinished":
                flow.append((f"finished.{fn}.received", st["act"]["left"]))
                flow.append((f"finished.{fn}.expected", st["act"]["expected"]))
                # the comparison itself: Python `!=` on bytes = exact equality, length included
                flow.append((f"finished.{fn}.refuse_if", st["act"]["test"]))
            if st["act"]["k"] == "verifyBinder":
                flow.append((f"binder.{fn}.expected", st["act"]["expected"]))
                flow.append((f"binder.{fn}.refuse_if", st["act"]["test"]))
    ks = next(n for n in mod.body if isinstance(n, ast.ClassDef) and n.name == "KeySchedule")
    for m in ks.body:
        if isinstance(m, ast.FunctionDef) and m.name in ("certificate_verify_data", "finished_verify_data",
                                                         "derive_secret", "update_hash"):
            body = [x for x in m.body if not (isinstance(x, ast.Expr) and isinstance(x.value, ast.Constant))]
            flow.append((f"KeySchedule.{m.name}", "; ".join(dotted(x).replace("\n", " ") for x in body)))
    stp = methods["_setup_traffic_protection"]
    flow.append(("_setup_traffic_protection", "; ".join(
        dotted(x).replace("\n", " ") for x in stp.body if not (isinstance(x, ast.Expr) and isinstance(x.value, ast.Constant)))))
    for slot in ("_enc_key", "_dec_key", "_expected_verify_data"):
        ws = []
        for name, m in methods.items():
            for x in ast.walk(m):
                if isinstance(x, (ast.Assign, ast.AnnAssign)):
                    tg = x.targets if isinstance(x, ast.Assign) else [x.target]
                    if any(dotted(t) == "self." + slot for t in tg) and x.value is not None:
                        ws.append(f"{name}: {dotted(x.value)}")
        flow.append((f"writers.{slot}", " | ".join(ws)))
    for node in mod.body:
        if isinstance(node, ast.Assign) and isinstance(node.targets[0], ast.Name) \
                and node.targets[0].id in ("SERVER_CONTEXT_STRING", "CLIENT_CONTEXT_STRING"):
            flow.append((node.targets[0].id, node.value.value.decode("ascii")))
    # trust store of verify_certificate(): every call on the X509Store and the store context, with
    # the enclosing `if` tests / `for` iterables
    vf = funcs["verify_certificate"]
    store_flow = []

    def walk_store(stmts, ctxs):
        for st in stmts:
            if isinstance(st, ast.If):
                walk_store(st.body, ctxs + ["if " + dotted(st.test)])
                walk_store(st.orelse, ctxs + ["if not (" + dotted(st.test) + ")"])
            elif isinstance(st, ast.For):
                walk_store(st.body, ctxs + ["for " + dotted(st.target) + " in " + dotted(st.iter)])
            elif isinstance(st, ast.Try):
                walk_store(st.body, ctxs)
                for h in st.handlers:
                    walk_store(h.body, ctxs + ["except " + (dotted(h.type) if h.type else "")])
                walk_store(st.orelse, ctxs)
            elif isinstance(st, ast.With):
                walk_store(st.body, ctxs)
            else:
                for x in ast.walk(st):
                    if isinstance(x, ast.Call):
                        fn = dotted(x.func)
                        if fn.startswith("store.") or fn.startswith("store_ctx.") or fn.endswith("X509StoreContext") \
                                or fn.endswith("X509Store"):
                            store_flow.append((" ; ".join(ctxs), dotted(x).replace("\n", " ")))
                    if isinstance(x, (ast.Assign, ast.AugAssign)) and "store" in dotted(x) and not isinstance(x, ast.Call):
                        pass

    walk_store(vf.body, [])
    for x in ast.walk(vf):        # the store must not leak into helpers we do not see
        if isinstance(x, ast.Call) and any(dotted(a) in ("store", "store_ctx") for a in list(x.args) + [k.value for k in x.keywords]) \
                and not dotted(x.func).endswith("X509StoreContext"):
            bad(x, "verify_certificate passes the trust store to another function")
    return {
        "verify_cert_store": store_flow,
        "auth_flow": flow,
        "verify_cert_args": vc_args[0], "config_writers": [[a, writers[a]] for a in cfg],
        "source": os.path.relpath(path, os.path.dirname(os.path.dirname(os.path.dirname(path)))),
        "enums": enums, "alerts": alerts, "tables": tables, "defaults": defaults, "consts": consts,
        "dispatch": dispatch, "dispatch_order": order, "post_dispatch": post, "pre_dispatch": [],
        "handle_message": hm, "functions": fns, "tests": tests,
    }


def write_if_changed(path, text):
    os.makedirs(os.path.dirname(path), exist_ok=True)
    if os.path.exists(path) and open(path).read() == text:
        return False
    with open(path, "w") as fh:
        fh.write(text)
    return True


def main(argv=None):
    repo = os.environ.get("VERIF_REPO", "/repo")
    ir = extract(os.path.join(repo, "src", "aioquic", "tls.py"))
    gen = os.path.join(HERE, "lean", "AQ", "Gen")
    import tls_emit
    a = write_if_changed(os.path.join(gen, "tls_machine.json"), json.dumps(ir, indent=1, sort_keys=True) + "\n")
    b = write_if_changed(os.path.join(gen, "TlsMachine.lean"), tls_emit.lean(ir))
    if argv and "-v" in argv:
        print(f"extract_tls: {len(ir['functions'])} handlers, {sum(map(len, ir['functions'].values()))} steps, "
              f"{len(ir['tests'])} tests; json {'written' if a else 'unchanged'}, lean {'written' if b else 'unchanged'}")
    return ir


if __name__ == "__main__":
    try:
        main(sys.argv[1:])
    except ExtractError as exc:
        print("extract_tls: BROKEN TIE:", exc, file=sys.stderr)
        sys.exit(3)
