#!/usr/bin/env python3
import json, glob, os
print("| seeded change | what it breaks (clause) | what it needs | result of the check |")
print("|---|---|---|---|")
for d in sorted(glob.glob('/verif/seeded/*')):
    m=json.load(open(d+'/meta.json'))
    def c(s,n): 
        s=str(s).replace("|","/").replace("\n"," "); return s[:n]+("…" if len(s)>n else "")
    print(f"| {os.path.basename(d)} | {c(m.get('clause',''),110)} | {c(m.get('needs',''),150)} | {c(m['verified']['check'],200)} |")
