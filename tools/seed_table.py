#!/usr/bin/env python3
"""Regenerates the 'Seeded changes' and 'Harmless rewrites' sections of DESIGN.md from seeded/*/meta.json and harmless/*/meta.json."""
import json, glob, os, collections, re
V = os.path.dirname(os.path.dirname(os.path.abspath(__file__)))
def c(s, n):
    s = str(s).replace("|", "/").replace("\n", " "); return s[:n] + ("…" if len(s) > n else "")
rows = []; cnt = collections.Counter()
def key(d):
    b = os.path.basename(d); p, k = b.split('-'); return (p, int(k))
for d in sorted(glob.glob(V + '/seeded/*'), key=key):
    m = json.load(open(d + '/meta.json')); r = m.get('round', 1); t = m['verified']['check']; tl = t.lower()
    if 'missed' in tl[:60]: k = 'missed'
    elif 'no-failing-input-found' in tl[:80]: k = 'witnessless'
    else: k = 'caught'
    cnt[(r, k)] += 1
    rows.append(f"| {os.path.basename(d)} | {r} | {c(m.get('clause',''),110)} | {c(m.get('needs',''),150)} | {c(t,220)} |")
tot = len(rows)
per = "; ".join(f"round {r}: {sum(cnt[(r,k)] for k in ('caught','witnessless','missed'))} changes — {cnt[(r,'caught')]} caught at the first trial with a concrete replay, {cnt[(r,'witnessless')]} first caught only as `no-failing-input-found`, {cnt[(r,'missed')]} missed" for r in sorted({r for r, _ in cnt}))
hrows = []; hq = ha = hfixed = 0
for d in sorted(glob.glob(V + '/harmless/*'), key=key):
    m = json.load(open(d + '/meta.json')); f = m.get('first_trial', {}); now = m.get('now')
    if f.get('rc') == 0: hq += 1
    else:
        ha += 1
        if now and now.get('rc') == 0: hfixed += 1
    hrows.append(f"| {os.path.basename(d)} | {c(m.get('kind',''),70)} | {c(', '.join(m.get('files',[])),60)} | {'quiet' if f.get('rc')==0 else 'ALARM (no-failing-input-found)'} | {('quiet' if now['rc']==0 else 'alarm') if now else ''} |")
nr = len({r for r, _ in cnt})
text = f"""### Seeded changes (independent sub-agents, property text only)

In {nr} rounds (rounds 1–3 and 5 for every property, round 4 likewise; about two
changes per property and round) source changes were produced by fresh
sub-agents that saw only the property text and a scratch worktree (never
`/verif`); each keeps the whole 470-test suite green and comes with a
demonstration that fails with it and passes without it (all re-confirmed by me:
`tools/try_seed*.sh` apply the patch — rounds 1–2 to `/repo` itself, later to a
scratch worktree read through `VERIF_REPO` so that builder agents could keep
working —, run the suite, the demonstration and `./check`, and revert).  They
are kept under `seeded/<id>-<k>/` (`patch.diff`, `demo.py`, `meta.json`).
{tot} changes: {per}.  Every miss and every witness-less catch led to a
strengthening of the generator / oracle / model / translator (recorded per
row, never a special case for the change); all {tot} are now reported with a
concrete replay (`tools/regress.sh <id>` re-runs a property's whole corpus) and
the unchanged tree still passes for seeds 0–3.  Exact re-discoveries of an
earlier change by a later round are not saved twice.  The whole corpus is
re-trialled in parallel by `tools/regress_all.sh`; its first full run found two
regressions of the machinery itself (a syntax error introduced into the C04
sanitizer-search tool by a "comment only" edit, which silently disabled the
search — now an import at start and a compile step in `setup.sh`; and a C07
witness that had degraded to a bare broken correspondence), both repaired; the
last full run reports {tot} / {tot} seeded changes with a concrete replay and
{hq + ha} / {hq + ha} harmless rewrites quiet.

| seeded change | round | what it breaks (clause) | what it needs | result of the check |
|---|---|---|---|---|
""" + "\n".join(rows) + f"""

### Harmless rewrites (false-alarm trials)

Fresh sub-agents (property text + worktree only) were also asked for strictly
behaviour-preserving rewrites of the code each property lives in (helper
extraction, renames, equivalent conditions, hoisted constants, C locals /
macros); kept under `harmless/<id>-<k>/`.  {hq + ha} rewrites: {hq} left the check
quiet at the first trial; {ha} made a translator-based tie alarm (`VIOLATION …
no-failing-input-found`, which is what the brief prescribes when a proof
obligation breaks and no failing input exists — but an alarm on code where the
property holds all the same), all of them in the translators (C, TLS machine,
crypto tables, log IR), none in a hand-written model tied by correspondence.
The translators were then generalised (inlining of private helpers, guard
normalisation, evaluation instead of syntactic matching); {hfixed} of the {ha} are
quiet now (column "now").

| rewrite | kind | files | first trial | now |
|---|---|---|---|---|
""" + "\n".join(hrows) + "\n\n"
s = open(V + '/DESIGN.md').read()
a = s.index("### Seeded changes (independent sub-agents, property text only)")
b = s.index("--------------------------------------------------------------------------", a)
open(V + '/DESIGN.md', 'w').write(s[:a] + text + s[b:])
print("DESIGN.md updated:", tot, "seeded,", hq + ha, "harmless")
