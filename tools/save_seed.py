#!/usr/bin/env python3
"""tools/save_seed.py <prop> <k> <check result text>  -> seeded/<prop>-<k>/"""
import json, os, shutil, sys
p, k, res = sys.argv[1], sys.argv[2], sys.argv[3]
src = f"/tmp/mut-{p}/out/{k}"
dst = f"/verif/seeded/{p}-{k}"
os.makedirs(dst, exist_ok=True)
shutil.copy(f"{src}/patch.diff", dst); shutil.copy(f"{src}/demo.py", dst)
m = json.load(open(f"{src}/meta.json")); m["property"] = p
m["verified"] = {"tests": "470 passed with the change (unedited suite)", "demo": "exit 1 with the change, exit 0 without",
                 "check": res, "ran": f"tools/try_seed.sh {p} /tmp/mut-{p} {k} (applies patch.diff to /repo, runs ./check {p}, reverts)"}
json.dump(m, open(f"{dst}/meta.json", "w"), indent=1)
print("saved", dst)
