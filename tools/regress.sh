#!/bin/bash
# tools/regress.sh <prop> : every saved seeded change of the property must be reported (rc=1, with a concrete replay),
# every saved harmless rewrite should be quiet (rc=0).  Uses the scratch worktree /tmp/seedrepo (VERIF_REPO).
P=$1
V=${VERIF_DIR:-$(cd "$(dirname "$0")/.." && pwd)}
for d in $V/seeded/$P-*; do echo -n "seeded $(basename $d): "; NOTEST=1 $V/tools/try_seed3.sh $P $d reg_$(basename $d) | tail -1 | cut -c1-120; done
for d in $V/harmless/$P-*; do [ -d $d ] && $V/tools/try_ref.sh $P $d; done
cd $V && git checkout -q -- evidence && git clean -fdq replays evidence
