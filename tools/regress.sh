#!/bin/bash
# tools/regress.sh <prop> : every saved seeded change of the property must be reported (rc=1, with a concrete replay),
# every saved harmless rewrite should be quiet (rc=0).  Uses the scratch worktree /tmp/seedrepo (VERIF_REPO).
P=$1
for d in /verif/seeded/$P-*; do echo -n "seeded $(basename $d): "; NOTEST=1 /verif/tools/try_seed3.sh $P $d reg_$(basename $d) | tail -1 | cut -c1-120; done
for d in /verif/harmless/$P-*; do [ -d $d ] && /verif/tools/try_ref.sh $P $d; done
cd /verif && git checkout -q -- evidence && git clean -fdq replays evidence
