#!/usr/bin/env python3
"""tools/save_seed2.py <prop> <k> <n> <check result text> -> seeded/<prop>-<n>/ from /tmp/mut2-<prop>/out/<k> (round 2)"""
import json, os, shutil, sys
p, k, n, res = sys.argv[1:5]
src = f"/tmp/mut2-{p}/out/{k}"; dst = f"/verif/seeded/{p}-{n}"
os.makedirs(dst, exist_ok=True)
shutil.copy(f"{src}/patch.diff", dst); shutil.copy(f"{src}/demo.py", dst)
m = json.load(open(f"{src}/meta.json")); m["property"] = p; m["round"] = 2
m["verified"] = {"tests": "470 passed with the change (unedited suite)", "demo": "exit 1 with the change, exit 0 without",
                 "check": res, "ran": f"tools/try_seed2.sh {p} {k}"}
json.dump(m, open(f"{dst}/meta.json", "w"), indent=1)
print("saved", dst)
