"""child of tools/c04_search.py: executes op-line cases on the ASan/UBSan build of the C
extensions.  Prints `@ <index>` before each case so that the parent knows which case a
sanitizer report (which terminates the process) belongs to."""
import json
import signal
import sys

root, verif, cases_file, start = sys.argv[1], sys.argv[2], sys.argv[3], int(sys.argv[4])
skip_ops = set(json.loads(sys.argv[5])) if len(sys.argv) > 5 else set()   # ops already shown to fault
sys.path.insert(0, root)
sys.path.insert(1, verif)
import aioquic  # noqa: E402
assert aioquic.__file__.startswith(root), aioquic.__file__
from harness.impl_chelpers import CHelpersImpl  # noqa: E402

cases = json.load(open(cases_file))
for i in range(start, len(cases)):
    signal.alarm(20)      # watchdog: a hanging case (corrupted heap dead-locking malloc) kills this child
    if skip_ops and any(line.split()[0] in skip_ops for line in cases[i][1:]):
        continue
    print(f"@ {i}", flush=True)
    sys.stderr.write(f"@ {i}\n")
    sys.stderr.flush()
    impl = CHelpersImpl()
    for j, line in enumerate(cases[i]):
        print(f"@@ {j}", flush=True)
        impl.step(line)
    c = impl.corrupted()
    if c:
        print(f"@corrupt {i} {c}", flush=True)
print("@ done", flush=True)
