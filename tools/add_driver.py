#!/usr/bin/env python3
"""tools/add_driver.py <Module> <field> <Type> <stepFn> <prefix>[,<prefix>...]
registers a driver front end in lean/Driver/Main.lean (idempotent)"""
import sys
mod, field, typ, fn, prefixes = sys.argv[1:6]
p = '/verif/lean/Driver/Main.lean'
s = open(p).read()
if f"import Driver.{mod}\n" in s:
    print("already registered"); sys.exit(0)
s = s.replace("\nstructure World where", f"import Driver.{mod}\n\nstructure World where", 1) if "\n\nstructure World where" not in s else s.replace("\n\nstructure World where", f"\nimport Driver.{mod}\n\nstructure World where", 1)
s = s.replace("structure World where\n", f"structure World where\n  {field} : {typ} := {{}}\n", 1)
cond = " ∨ ".join(f't.startsWith "{x}"' for x in prefixes.split(","))
s = s.replace('    else (w, "bad-op")', f'    else if {cond} then\n      let (s, o) := {fn} w.{field} toks\n      ({{ w with {field} := s }}, o)\n    else (w, "bad-op")', 1)
open(p, 'w').write(s)
print("registered", mod)
