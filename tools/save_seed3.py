#!/usr/bin/env python3
"""tools/save_seed3.py <prop> <src dir> <n> <round> <check result text> -> seeded/<prop>-<n>/"""
import json, os, shutil, sys
p, src, n, rnd, res = sys.argv[1:6]
dst = f"/verif/seeded/{p}-{n}"
os.makedirs(dst, exist_ok=True)
shutil.copy(f"{src}/patch.diff", dst); shutil.copy(f"{src}/demo.py", dst)
m = json.load(open(f"{src}/meta.json")); m["property"] = p; m["round"] = int(rnd)
m["verified"] = {"tests": "470 passed with the change (unedited suite)", "demo": "exit 1 with the change, exit 0 without",
                 "check": res, "ran": f"tools/try_seed3.sh {p} {src} (scratch worktree of /repo via VERIF_REPO)"}
json.dump(m, open(f"{dst}/meta.json", "w"), indent=1)
print("saved", dst)
