#!/bin/bash
# tools/try_seed.sh <prop> <mutdir> <k> : verify a seeded change and run the check against it
P=$1; D=$2; K=$3; O=$D/out/$K
cd $D && git checkout -q -- . && git apply $O/patch.diff || { echo "APPLY-FAIL(worktree)"; exit 2; }
PYTHONPATH=$D/src /venv/bin/python $O/demo.py >/dev/null 2>&1; with=$?
if [ -n "$NOTEST" ]; then T="(suite not re-run)"; else T=$(PYTHONPATH=$D/src /venv/bin/python -m pytest -q -p no:cacheprovider -x tests/ 2>&1 | tail -1); fi
git checkout -q -- .
PYTHONPATH=$D/src /venv/bin/python $O/demo.py >/dev/null 2>&1; without=$?
echo "demo with=$with without=$without tests: $T"
cd /repo && git apply $O/patch.diff || { echo "APPLY-FAIL(repo)"; exit 2; }
cd /verif && ./check $P > /tmp/seed_$P_$K.log 2>&1; rc=$?
git -C /repo checkout -q -- .
echo "check $P rc=$rc: $(grep -c VIOLATION /tmp/seed_$P_$K.log) violation lines; $(grep VIOLATION /tmp/seed_$P_$K.log | head -2 | cut -c1-160)"
