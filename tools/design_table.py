#!/usr/bin/env python3
"""prints the per-property as-built table for DESIGN.md from evidence + sources"""
import json, os, re, glob
V='/verif'
rows=[]
for f in sorted(glob.glob(V+'/evidence/C*.json')):
    d=json.load(open(f)); pid=d['property_id']
    src=open(f'{V}/checks/{pid.lower()}.py').read()
    mods=sorted(set(re.findall(r'AQ\.Props\.[A-Za-z0-9]+', src)))
    if pid=='C02': mods=sorted(set(mods+['AQ.Props.C02b']))
    n=d['coverage']['obligations']
    rows.append(f"| {pid} | {', '.join(m.replace('AQ.Props.','') for m in mods)} | {n} | {d['coverage']['evaluations']} | {d['wall_s']:.0f} s |")
print("| id | Props modules | theorems audited | correspondence/oracle cases (quick) | quick wall |")
print("|----|---------------|------------------|-------------------------------------|------------|")
print("\n".join(rows))
