"""AST normalisation used by the translators before they classify source structure, so that
behaviour-preserving rewrites leave the generated tables unchanged:

  * inline_helpers   — private helper methods of the class that are NOT units the model knows
                       (`known`) are inlined at their call sites (parameter substitution, locals
                       renamed, bounded depth, no recursion; only tail-position returns)
  * normalize_flags  — `flag = flag or cond`  ==>  `if cond: flag = True`
                       `flag = flag and cond` ==>  `if not cond: flag = False`   (cond side-effect free)
  * resolve_aliases  — a local assigned once from `self.<attr>` is replaced by that attribute
  * guard_to_ifelse  — `if c: <...; raise/return/continue/break>` followed by the rest of the block
                       ==> `if c: ... else: <rest>`

Anything the normaliser does not understand raises NormalizeError (the translator fails loudly)."""
import ast
import copy


class NormalizeError(Exception):
    pass


MAX_DEPTH = 3


def _methods(cls_node):
    return {st.name: st for st in cls_node.body if isinstance(st, ast.FunctionDef)}


def _is_self_call(node, names):
    return (isinstance(node, ast.Call) and isinstance(node.func, ast.Attribute)
            and isinstance(node.func.value, ast.Name) and node.func.value.id == "self"
            and node.func.attr in names)


class _Subst(ast.NodeTransformer):
    def __init__(self, mapping, rename):
        self.mapping = mapping      # param name -> expression AST
        self.rename = rename        # local name -> new name

    def visit_Name(self, node):
        if node.id in self.mapping and isinstance(node.ctx, ast.Load):
            return copy.deepcopy(self.mapping[node.id])
        if node.id in self.rename:
            return ast.copy_location(ast.Name(id=self.rename[node.id], ctx=node.ctx), node)
        return node


class _Replace(ast.NodeTransformer):
    def __init__(self, target, new):
        self.target = target
        self.new = new

    def visit(self, node):
        if node is self.target:
            return self.new
        return super().visit(node)


def _tail_returns_only(stmts):
    """every `return` is the last statement of the body or of a branch of a trailing if/try"""
    for i, st in enumerate(stmts):
        last = i == len(stmts) - 1
        if isinstance(st, ast.Return):
            if not last:
                return False
        elif isinstance(st, ast.If):
            ok = _tail_returns_only(st.body) and _tail_returns_only(st.orelse)
            if not ok or (not last and _has_return(st)):
                return False
        elif isinstance(st, ast.Try):
            blocks = [st.body, st.orelse, st.finalbody] + [h.body for h in st.handlers]
            if not all(_tail_returns_only(b) for b in blocks) or (not last and _has_return(st)):
                return False
        elif isinstance(st, (ast.For, ast.While, ast.With)):
            if _has_return(st):
                return False
    return True


def _has_return(node):
    return any(isinstance(n, ast.Return) for n in ast.walk(node))


def _replace_returns(stmts, make):
    out = []
    for st in stmts:
        if isinstance(st, ast.Return):
            out += make(st.value)
        elif isinstance(st, ast.If):
            st.body = _replace_returns(st.body, make) or [ast.Pass()]
            st.orelse = _replace_returns(st.orelse, make)
            out.append(st)
        elif isinstance(st, ast.Try):
            st.body = _replace_returns(st.body, make) or [ast.Pass()]
            st.orelse = _replace_returns(st.orelse, make)
            for h in st.handlers:
                h.body = _replace_returns(h.body, make) or [ast.Pass()]
            out.append(st)
        else:
            out.append(st)
    return out


def _instantiate(helper, call, uid):
    """body of `helper` specialised to `call`; returns (stmts, locals renaming)"""
    params = [a.arg for a in helper.args.args][1:]          # drop self
    if helper.args.vararg or helper.args.kwarg or any(isinstance(a, ast.Starred) for a in call.args):
        raise NormalizeError(f"{helper.name}: *args / **kwargs")
    mapping = {}
    defaults = helper.args.defaults
    for i, p in enumerate(params):
        j = i - (len(params) - len(defaults))
        if j >= 0:
            mapping[p] = defaults[j]
    for p, a in zip(params, call.args):
        mapping[p] = a
    for kw in call.keywords:
        if kw.arg is None:
            raise NormalizeError(f"{helper.name}: **kwargs call")
        mapping[kw.arg] = kw.value
    for a, d in zip(helper.args.kwonlyargs, helper.args.kw_defaults):
        if a.arg not in mapping and d is not None:
            mapping[a.arg] = d
    missing = [p for p in params + [a.arg for a in helper.args.kwonlyargs] if p not in mapping]
    if missing:
        raise NormalizeError(f"{helper.name}: unbound parameters {missing}")
    stored = {n.id for n in ast.walk(helper) if isinstance(n, ast.Name) and isinstance(n.ctx, ast.Store)}
    if stored & set(mapping):
        raise NormalizeError(f"{helper.name}: assigns to a parameter")
    rename = {n: f"{n}__{helper.name.strip('_')}{uid}" for n in stored}
    body = [copy.deepcopy(st) for st in helper.body]
    if body and isinstance(body[0], ast.Expr) and isinstance(getattr(body[0], "value", None), ast.Constant) \
            and isinstance(body[0].value.value, str):
        body = body[1:]                                      # docstring
    if not _tail_returns_only(body):
        raise NormalizeError(f"{helper.name}: a return that is not in tail position")
    sub = _Subst(mapping, rename)
    return [sub.visit(st) for st in body]


class _Inliner:
    def __init__(self, methods, known):
        self.methods = methods
        self.inlinable = {n for n in methods if n not in known and n.startswith("_") and not n.startswith("__")}
        self.uid = 0
        self.inlined = []

    def block(self, stmts, depth, stack):
        out = []
        for st in stmts:
            out += self.statement(st, depth, stack)
        return out

    def statement(self, st, depth, stack):
        # compound statements: recurse into their blocks; calls in their header expressions are hoisted
        pre = []
        for field in ("body", "orelse", "finalbody"):
            if isinstance(getattr(st, field, None), list) and getattr(st, field) and \
                    isinstance(getattr(st, field)[0], ast.stmt):
                setattr(st, field, self.block(getattr(st, field), depth, stack))
        for h in getattr(st, "handlers", []):
            h.body = self.block(h.body, depth, stack)
        if isinstance(st, (ast.FunctionDef, ast.ClassDef)):
            return [st]
        # direct forms
        if isinstance(st, ast.Assign) and _is_self_call(st.value, self.inlinable):
            return self.expand(st.value, depth, stack, lambda v: [ast.Assign(targets=copy.deepcopy(st.targets), value=v,
                                                                              lineno=st.lineno)] if v is not None else [
                ast.Assign(targets=copy.deepcopy(st.targets), value=ast.Constant(value=None), lineno=st.lineno)])
        if isinstance(st, ast.Expr) and _is_self_call(st.value, self.inlinable):
            return self.expand(st.value, depth, stack, lambda v: [ast.Expr(value=v)] if v is not None else [])
        if isinstance(st, ast.Return) and st.value is not None and _is_self_call(st.value, self.inlinable):
            return self.expand(st.value, depth, stack, lambda v: [ast.Return(value=v)])
        # calls nested in the statement's own expressions: hoist into temporaries
        for f in ("value", "test", "iter", "exc"):
            while isinstance(getattr(st, f, None), ast.AST):
                calls = [n for n in ast.walk(getattr(st, f)) if _is_self_call(n, self.inlinable)]
                if not calls:
                    break
                n = calls[-1]                                   # innermost-last first
                if isinstance(st, ast.While) or any(isinstance(x, (ast.Lambda, ast.ListComp, ast.GeneratorExp,
                                                                   ast.SetComp, ast.DictComp, ast.IfExp, ast.BoolOp))
                                                    for x in ast.walk(getattr(st, f)) if n in list(ast.walk(x)) and x is not n):
                    raise NormalizeError(f"{n.func.attr}: helper call in a conditionally evaluated expression")
                self.uid += 1
                tmp = f"__inl{self.uid}"
                pre += self.expand(copy.deepcopy(n), depth, stack,
                                   lambda v, tmp=tmp: [ast.Assign(targets=[ast.Name(id=tmp, ctx=ast.Store())],
                                                                  value=v if v is not None else ast.Constant(value=None),
                                                                  lineno=st.lineno)])
                setattr(st, f, _Replace(n, ast.Name(id=tmp, ctx=ast.Load())).visit(getattr(st, f)))
        return pre + [st]

    def opaque(self, name):
        """a helper whose returns are not in tail position (e.g. a search loop) cannot be inlined
        statement-wise; it may stay an opaque call when there is nothing to recover through it:
        no try / raise / assert and no call of another method of the object"""
        h = self.methods[name]
        for n in ast.walk(h):
            if isinstance(n, (ast.Try, ast.Raise, ast.Assert, ast.With, ast.Yield, ast.YieldFrom, ast.Await)):
                return False
            if isinstance(n, ast.Call) and isinstance(n.func, ast.Attribute) and isinstance(n.func.value, ast.Name) \
                    and n.func.value.id == "self":
                return False
            if isinstance(n, ast.Attribute) and isinstance(n.ctx, (ast.Store, ast.Del)):
                return False            # mutates the object
        return True

    def expand(self, call, depth, stack, make):
        name = call.func.attr
        if name in stack:
            raise NormalizeError(f"{name}: recursive helper")
        if depth >= MAX_DEPTH:
            raise NormalizeError(f"{name}: helper nesting deeper than {MAX_DEPTH}")
        self.uid += 1
        try:
            body = _instantiate(self.methods[name], call, self.uid)
        except NormalizeError:
            if self.opaque(name):
                return make(call)
            raise
        body = self.block(body, depth + 1, stack + [name])
        body = _replace_returns(body, make)
        self.inlined.append(name)
        return body


def inline_helpers(cls_node, fn, known):
    """copy of method `fn` with calls to unknown private helpers of the class inlined"""
    fn = copy.deepcopy(fn)
    inl = _Inliner(_methods(cls_node), set(known))
    fn.body = inl.block(fn.body, 0, [fn.name])
    ast.fix_missing_locations(fn)
    return fn, inl.inlined


def _pure(e):
    return not any(isinstance(n, (ast.Call, ast.Await, ast.Yield, ast.NamedExpr)) for n in ast.walk(e))


class _Flags(ast.NodeTransformer):
    def visit_Assign(self, node):
        v = node.value
        if (len(node.targets) == 1 and isinstance(node.targets[0], ast.Name) and isinstance(v, ast.BoolOp)
                and len(v.values) == 2 and isinstance(v.values[0], ast.Name)
                and v.values[0].id == node.targets[0].id and _pure(v.values[1])):
            name = node.targets[0].id
            if isinstance(v.op, ast.Or):
                test, const = v.values[1], True
            else:
                test, const = ast.UnaryOp(op=ast.Not(), operand=v.values[1]), False
            new = ast.If(test=test, body=[ast.Assign(targets=[ast.Name(id=name, ctx=ast.Store())],
                                                     value=ast.Constant(value=const), lineno=node.lineno)], orelse=[])
            return ast.copy_location(new, node)
        return node


def normalize_flags(fn):
    fn = _Flags().visit(fn)
    ast.fix_missing_locations(fn)
    return fn


def resolve_aliases(fn):
    """`h = self.attr` (assigned once, never re-bound) ==> uses of `h` become `self.attr`"""
    stores = {}
    for n in ast.walk(fn):
        if isinstance(n, ast.Name) and isinstance(n.ctx, ast.Store):
            stores[n.id] = stores.get(n.id, 0) + 1
    params = {a.arg for a in fn.args.args + fn.args.kwonlyargs}
    alias = {}
    for n in ast.walk(fn):
        if (isinstance(n, ast.Assign) and len(n.targets) == 1 and isinstance(n.targets[0], ast.Name)
                and stores.get(n.targets[0].id) == 1 and n.targets[0].id not in params
                and isinstance(n.value, ast.Attribute) and isinstance(n.value.value, ast.Name)
                and n.value.value.id == "self"):
            alias[n.targets[0].id] = n.value
    fn = _Subst(alias, {}).visit(fn)
    ast.fix_missing_locations(fn)
    return fn


def _ends_block(stmts):
    return bool(stmts) and isinstance(stmts[-1], (ast.Raise, ast.Return, ast.Continue, ast.Break))


def guard_to_ifelse(stmts):
    """guard clauses become if/else so that "what runs under which test" is syntactic"""
    out = []
    for i, st in enumerate(stmts):
        for field in ("body", "orelse", "finalbody"):
            b = getattr(st, field, None)
            if isinstance(b, list) and b and isinstance(b[0], ast.stmt):
                setattr(st, field, guard_to_ifelse(b))
        for h in getattr(st, "handlers", []):
            h.body = guard_to_ifelse(h.body)
        if isinstance(st, ast.If) and not st.orelse and _ends_block(st.body) and i + 1 < len(stmts):
            st.orelse = guard_to_ifelse(stmts[i + 1:])
            out.append(st)
            return out
        out.append(st)
    return out


def normalize(cls_node, fn, known, ifelse=False):
    fn, inlined = inline_helpers(cls_node, fn, known)
    fn = resolve_aliases(fn)
    fn = normalize_flags(fn)
    if ifelse:
        fn.body = guard_to_ifelse(fn.body)
        ast.fix_missing_locations(fn)
    return fn, inlined
