#!/usr/bin/env python3
"""prints the prompt given to an independent 'harmless rewrite' sub-agent (false-alarm trials)"""
import json, sys
pid = sys.argv[1]
n = sys.argv[2] if len(sys.argv) > 2 else "3"
for l in open('/verif/properties.jsonl'):
    p = json.loads(l)
    if p['id'] == pid:
        break
W = f"/tmp/ref-{pid}"
print(f"""You are given a git worktree of the Python QUIC/HTTP3 library aioquic at {W} (a detached checkout; work ONLY there; do not look at or touch /verif, /repo or other /tmp directories). Python is /venv/bin/python (aioquic's dependencies are installed; the package imported by default is NOT your worktree — run things with `cd {W} && PYTHONPATH={W}/src /venv/bin/python …`; if you change a .c file rebuild with `cd {W} && /venv/bin/python setup.py build_ext --inplace`; note src/aioquic/*.so are not tracked: if they are missing run that build once). The test-suite is `cd {W} && PYTHONPATH={W}/src /venv/bin/python -m pytest -q -p no:cacheprovider tests/` (≈40 s, 470 tests, all pass on the unchanged tree).

This semantic property holds for the library and MUST KEEP HOLDING:

  {p['title']}
  {p['statement']}
  (code it lives in: {', '.join(p['anchors']['files'])})

TASK: produce {n} DIFFERENT realistic, strictly BEHAVIOUR-PRESERVING source changes in the code this property lives in — the kind of harmless rewrite a maintainer does every week: renaming locals/private helpers, extracting a helper function or inlining one, rewriting a loop as a comprehension (or back), reordering independent statements, replacing an if/elif chain by an equivalent one, hoisting a constant, adding type hints / comments / docstrings, splitting a long expression, early-return restructuring, switching `x != y` to `not x == y`-style equivalences, in C: renaming variables, introducing a local for a repeated expression, a macro for a constant, reordering declarations. Each change should touch 5–40 lines in the functions that implement the property's mechanism (not only comments). The observable behaviour — every return value, exception, emitted byte, event, log record, timer value, and state visible through public or private attributes used elsewhere — must be EXACTLY the same for every input; do not fix bugs, do not change any boundary, do not add or remove checks.

For each change k = 1..{n} deliver in {W}/out/k/:
  * patch.diff — `git diff` of ONLY that change against the unchanged worktree (apply one change at a time; `git checkout -- .` between them);
  * meta.json — {{"property": "{pid}", "kind": "<what sort of rewrite>", "why_equivalent": "<one or two sentences arguing behaviour is unchanged>", "files": [...], "tests_pass": true}}.
Verify yourself, for every change: the full test-suite passes with it. Finish with `git checkout -- .` so the worktree is clean (keep out/ — it is untracked). Final answer: a 2-line summary per change.""")
