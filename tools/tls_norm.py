"""Behaviour-preserving normalisations applied by tools/extract_tls.py BEFORE classifying, so that
harmless rewrites of tls.py regenerate the same machine:

  * negation of tests (`a != b` / `not (a == b)` / `a not in b` ...), so that a test and its negation
    are the same named test with opposite polarity;
  * does a statement list always leave the function / raise (`terminates`)?
  * substitution of parameters when a private helper is inlined;
  * canonical rendering of small function bodies (KeySchedule methods, negotiate, handle_message):
    private single-expression helpers inlined, single-use temporaries forward-substituted, the
    remaining locals alpha-renamed in order of first assignment;
  * resolution of locals to their defining expressions in exported data-flow strings.
"""
import ast
import copy

NEG = {ast.Eq: ast.NotEq, ast.NotEq: ast.Eq, ast.Is: ast.IsNot, ast.IsNot: ast.Is, ast.In: ast.NotIn,
       ast.NotIn: ast.In, ast.Lt: ast.GtE, ast.GtE: ast.Lt, ast.Gt: ast.LtE, ast.LtE: ast.Gt}


def unparse(n):
    return ast.unparse(n)


def negate(expr):
    """syntactic negation: through `not`, into a comparison, and by De Morgan into and / or chains
    (operand order, hence short-circuit order, is preserved)"""
    if isinstance(expr, ast.UnaryOp) and isinstance(expr.op, ast.Not):
        return simplify(expr.operand)
    if isinstance(expr, ast.Compare) and len(expr.ops) == 1:
        return ast.Compare(left=expr.left, ops=[NEG[type(expr.ops[0])]()], comparators=expr.comparators)
    if isinstance(expr, ast.BoolOp):
        op = ast.Or() if isinstance(expr.op, ast.And) else ast.And()
        return ast.BoolOp(op=op, values=[negate(v) for v in expr.values])
    return ast.UnaryOp(op=ast.Not(), operand=expr)


def simplify(expr):
    """push negations inwards: `not (a == b)` -> `a != b`, `not not x` -> `x`,
    `not (a and b)` -> `not a or not b` (De Morgan), recursively inside and / or chains"""
    if isinstance(expr, ast.UnaryOp) and isinstance(expr.op, ast.Not):
        inner = expr.operand
        if isinstance(inner, (ast.Compare, ast.BoolOp)) and not (isinstance(inner, ast.Compare) and len(inner.ops) != 1):
            return negate(simplify(inner))
        if isinstance(inner, ast.UnaryOp) and isinstance(inner.op, ast.Not):
            return simplify(inner.operand)
        return expr
    if isinstance(expr, ast.BoolOp):
        return ast.BoolOp(op=expr.op, values=[simplify(v) for v in expr.values])
    return expr


def terminates(stmts):
    """every path through the block ends in raise / return"""
    if not stmts:
        return False
    last = stmts[-1]
    if isinstance(last, (ast.Raise, ast.Return)):
        return True
    if isinstance(last, ast.If) and last.orelse:
        return terminates(last.body) and terminates(last.orelse)
    return False


class _Subst(ast.NodeTransformer):
    def __init__(self, mapping):
        self.m = mapping

    def visit_Name(self, node):
        if isinstance(node.ctx, ast.Load) and node.id in self.m:
            return copy.deepcopy(self.m[node.id])
        return node


def substitute(node, mapping):
    return ast.fix_missing_locations(_Subst(mapping).visit(copy.deepcopy(node)))


def assigned_names(stmts):
    out = []
    for st in stmts:
        for x in ast.walk(st):
            if isinstance(x, ast.Name) and isinstance(x.ctx, ast.Store) and x.id not in out:
                out.append(x.id)
    return out


def _uses(node, name):
    return sum(1 for x in ast.walk(node) if isinstance(x, ast.Name) and x.id == name and isinstance(x.ctx, ast.Load))


def inline_expr_helpers(node, helpers, depth=3):
    """`self._h()` -> body expression, for zero-argument helpers that are a single `return expr`"""
    class T(ast.NodeTransformer):
        def visit_Call(self, c):
            self.generic_visit(c)
            f = unparse(c.func)
            if f.startswith("self.") and not c.args and not c.keywords and f[5:] in helpers:
                h = helpers[f[5:]]
                body = [s for s in h.body if not (isinstance(s, ast.Expr) and isinstance(s.value, ast.Constant))]
                if len(body) == 1 and isinstance(body[0], ast.Return) and body[0].value is not None \
                        and len(h.args.args) == 1:
                    return copy.deepcopy(body[0].value)
            return c
    for _ in range(depth):
        node = T().visit(copy.deepcopy(node))
    return ast.fix_missing_locations(node)


def canon_stmts(stmts, params=(), helpers=None):
    """canonical statement list (see module docstring)"""
    stmts = [s for s in stmts if not (isinstance(s, ast.Expr) and isinstance(s.value, ast.Constant))]
    stmts = [inline_expr_helpers(s, helpers or {}) for s in stmts]
    # forward-substitute `x = e` when x is assigned once and read exactly once, in the next statement
    changed = True
    while changed:
        changed = False
        for i, st in enumerate(stmts[:-1]):
            if isinstance(st, ast.Assign) and len(st.targets) == 1 and isinstance(st.targets[0], ast.Name):
                x = st.targets[0].id
                if x in params:
                    continue
                total = sum(_uses(s, x) for s in stmts)
                nassign = sum(1 for s in stmts for n in ast.walk(s)
                              if isinstance(n, ast.Name) and n.id == x and isinstance(n.ctx, ast.Store))
                nxt = stmts[i + 1]
                simple = not isinstance(nxt, (ast.If, ast.For, ast.While, ast.Try, ast.With))
                if nassign == 1 and total == 1 and simple and _uses(nxt, x) == 1:
                    stmts[i + 1] = substitute(nxt, {x: st.value})
                    del stmts[i]
                    changed = True
                    break
    # alpha-rename the remaining locals in order of first assignment
    ren = {}
    for n in assigned_names(stmts):
        if n not in params:
            ren[n] = f"v{len(ren)}"

    class R(ast.NodeTransformer):
        def visit_Name(self, node):
            if node.id in ren:
                return ast.copy_location(ast.Name(id=ren[node.id], ctx=node.ctx), node)
            return node
    return [ast.fix_missing_locations(R().visit(copy.deepcopy(s))) for s in stmts]


def canon_text(stmts, params=(), helpers=None, sep="; "):
    return sep.join(unparse(s).replace("\n", " ") for s in canon_stmts(stmts, params, helpers))


def single_defs(fdef):
    """locals of a function that are assigned exactly once by a plain `x = e` / `x: T = e`"""
    count, defs = {}, {}
    for x in ast.walk(fdef):
        if isinstance(x, ast.Name) and isinstance(x.ctx, ast.Store):
            count[x.id] = count.get(x.id, 0) + 1
    for x in ast.walk(fdef):
        if isinstance(x, ast.Assign) and len(x.targets) == 1 and isinstance(x.targets[0], ast.Name):
            defs[x.targets[0].id] = x.value
        elif isinstance(x, ast.AnnAssign) and isinstance(x.target, ast.Name) and x.value is not None:
            defs[x.target.id] = x.value
    return {k: v for k, v in defs.items() if count.get(k) == 1}


def resolve(expr, defs, depth=3):
    """replace single-definition locals by their defining expressions (bounded depth); `cast(T, e)` -> e"""
    for _ in range(depth):
        names = {x.id for x in ast.walk(expr) if isinstance(x, ast.Name) and isinstance(x.ctx, ast.Load)}
        hit = {n: defs[n] for n in names if n in defs}
        if not hit:
            break
        expr = substitute(expr, hit)

    class C(ast.NodeTransformer):
        def visit_Call(self, c):
            self.generic_visit(c)
            if unparse(c.func) == "cast" and len(c.args) == 2:
                return c.args[1]
            return c
    return ast.fix_missing_locations(C().visit(copy.deepcopy(expr)))


def alpha_test(expr, local_names):
    """test text with the locals it mentions renamed v0, v1, .. in order of appearance (so that a
    renamed local does not change the identity of a named test)"""
    order = []
    for x in ast.walk(expr):            # ast.walk is breadth-first: use source order instead
        pass
    names = sorted(((x.lineno, x.col_offset, x.id) for x in ast.walk(expr)
                    if isinstance(x, ast.Name) and x.id in local_names), key=lambda t: (t[0], t[1]))
    for _, _, n in names:
        if n not in order:
            order.append(n)
    ren = {n: ast.Name(id=f"v{i}", ctx=ast.Load()) for i, n in enumerate(order)}
    return unparse(substitute(expr, ren))
